(* Regular-frequency period arithmetic used by the Series/Temporal models:
   serial = year*freq + segment - 1 (dates.py::_serial_from_ysf,
   RegularPeriodMixin).  C09 proves these agree with the fragments generated
   from dates.py. *)
From Coq Require Import ZArith List Lia.
Open Scope Z_scope.

Definition ysf_serial (year seg freq : Z) : Z := year * freq + seg - 1.
Definition serial_year (freq serial : Z) : Z := serial / freq.
Definition serial_seg (freq serial : Z) : Z := serial mod freq + 1.

Definition p_soy (freq t : Z) : Z := ysf_serial (serial_year freq t) 1 freq.
Definition p_eopy (freq t : Z) : Z := ysf_serial (serial_year freq t - 1) freq freq.
Definition p_tty (freq t : Z) : option Z := if serial_seg freq t >? 1 then Some (t - 1) else None.
Definition p_yoy (freq t : Z) : Z := t - freq.

Inductive shift_spec := ByInt (k : Z) | Yoy | Soy | Eopy | Tty.

(* Period.shift(by) *)
Definition period_shift (freq : Z) (by_ : shift_spec) (t : Z) : option Z :=
  match by_ with
  | ByInt k => Some (t + k)
  | Yoy => Some (p_yoy freq t)
  | Soy => Some (p_soy freq t)
  | Eopy => Some (p_eopy freq t)
  | Tty => p_tty freq t
  end.
