(* The real-number instance of the carrier record of lib/Dual.v: what the C02 theorems are about.
   (Kept apart from lib/Dual.v so that the correspondence case files, which only run the PrimFloat
   instance, do not have to load Coquelicot.)  NO proofs in this file. *)
From Coq Require Import ZArith List Bool Reals.
From Coquelicot Require Import Coquelicot.
From Verif Require Import lib.Dual.
Local Open Scope R_scope.

Definition Rltb (x y : R) : bool := if Rlt_dec x y then true else false.
Definition Reqb (x y : R) : bool := if Req_EM_T x y then true else false.

(* y is (the injection of) an integer *)
Definition as_int (y : R) : option Z :=
  let n := (up y - 1)%Z in if Req_EM_T (IZR n) y then Some n else None.

(* the real power function on its natural domain: positive base and any exponent,
   or any base and an integer exponent; 0 elsewhere (numpy: nan) *)
Definition rpow (x y : R) : R :=
  if Rlt_dec 0 x then Rpower x y
  else match as_int y with
       | Some n => powerRZ x n
       | None => 0%R
       end.

Definition expit (x : R) : R := (1 / (1 + exp (- x)))%R.
Definition npdf (x : R) : R := (exp (- (x * x) / 2) / R_sqrt.sqrt (2 * PI))%R.
Definition ncdf (x : R) : R := (1 / 2 + RInt npdf 0 x)%R.

Definition RD : DArith := {|
  dcar := R; dadd := Rplus; dsub := Rminus; dmul := Rmult; ddiv := Rdiv; dneg := Ropp;
  dofZ := IZR; dln := ln; dexp := exp; dsqrt := R_sqrt.sqrt; dexpit := expit; dpow := rpow;
  dabs := Rabs; dmax := Rmax; dmin := Rmin; dnpdf := npdf; dncdf := ncdf;
  dltb := Rltb; deqb := Reqb |}.

