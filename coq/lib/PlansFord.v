(* The ordinary simulation that C07's conditional simulation returns (proofs/PlansProofs.v: flat_path with the
   anticipated impact ant_impact of the expansion Rx[k]) IS the model of simulate_flat that C01 proves to satisfy
   the model equations (model/Ford.v: flat_run with anticipated_impacts), on MathComp matrices. *)
From mathcomp Require Import all_ssreflect all_algebra.
From mathcomp Require Import ring.
From Verif.lib Require Import MatOps MatMC MatLemmas.
From Verif.model Require Import Kalman Plans.
From Verif.proofs Require Import KalmanProofs SmootherProofs PlansProofs.
From Verif.lib Require MxC01.
From Verif.model Require Ford.
From Verif.proofs Require FordProofs FordSimProofs.
Set Implicit Arguments.
Unset Strict Implicit.
Unset Printing Implicit Defensive.
Import GRing.Theory Num.Theory.
Local Open Scope ring_scope.

Section Bridge.
Variable F : realFieldType.
Variables (flog : F -> F) (flog2pi : F).
Notation M := (MC flog flog2pi).
Notation O := (FordProofs.MCOps F).
Variables n nu nf : nat.
Variables (T : 'M[F]_n) (P : 'M[F]_(n, nu)) (K : 'cV[F]_n) (X : 'M[F]_(n, nf)) (J : 'M[F]_nf) (Ru : 'M[F]_(nf, nu)).
Notation s := (@mkCsys M n nu T P K).
Notation Rx := (@expand_at M n nu nf P X J Ru).
Notation isum := (@imp_sum M n nu Rx).
Notation ant := (@FordSimProofs.ant F nf nu J Ru).

Lemma ltbE i t : Nat.ltb i t = (i < t)%N.
Proof. by apply/idP/idP => [/PeanoNat.Nat.ltb_lt/ltP|/ltP/PeanoNat.Nat.ltb_lt]. Qed.

(* the two matrix powers (J^k built from the left / from the right) coincide *)
Lemma mpowE k : @Plans.mpow M nf J k = @Ford.mpow O nf J k.
Proof.
elim: k => [|k IH] //=; rewrite IH.
elim: k {IH} => [|k IH] /=; first by rewrite mulmx1 mul1mx.
by rewrite -mulmxA -IH.
Qed.

(* shocks dated after t: Rx[k+1] v_{t+k+1} + ... = - X J^k (Ru v_{t+k+1} + J (Ru v_{t+k+2} + ...)) *)
Lemma isum_tail t k (l : seq 'cV[F]_nu) :
  isum t (t + k.+1)%N l = - (X *m @Plans.mpow M nf J k *m ant l).
Proof.
elim: l k => [|v l IH] k /=; first by rewrite mulmx0 oppr0.
rewrite ltbE ltnNge leq_addr /=.
have -> : (t + k.+1 - t)%coq_nat = k.+1 by rewrite -[LHS]/((t + k.+1) - t)%N addKn.
rewrite -addnS IH /= mulmxDr !mulmxA opprD; congr (_ + _).
by rewrite !mulNmx.
Qed.

Lemma isum_skip t i (l : seq 'cV[F]_nu) : (i <= t)%N -> isum t i l = isum t t (drop (t - i) l).
Proof.
elim: l i => [|v l IH] i le /=; first by [].
case: (ltngtP i t) le => // [lt _|-> _]; last by rewrite subnn.
by rewrite ltbE lt add0r IH // -(subnSK lt).
Qed.

(* the impact the conditional simulator adds in column t is the one C01 characterises: P v_t - X a_t *)
Theorem ant_impact_is_C01 (vs : seq 'cV[F]_nu) t : (t < size vs)%N ->
  @ant_impact M n nu Rx vs t = P *m nth 0 vs t - X *m ant (drop t.+1 vs).
Proof.
move=> lt; rewrite /ant_impact isum_skip // subn0 (drop_nth 0 lt) /=.
rewrite ltbE ltnn /= (_ : (t - t)%coq_nat = 0%N); last by rewrite -[LHS]/(t - t)%N subnn.
by rewrite -[X in isum t X]addn1 isum_tail /= mulmx1.
Qed.

Lemma flat_run_path (imp : nat -> 'cV[F]_n) (imps : seq (option 'cV[F]_n)) t0 (a0 : 'cV[F]_n) (us : seq 'cV[F]_nu) :
  size us = size (drop t0 imps) ->
  (forall t, (t < size us)%N -> FordSimProofs.imp_val (nth None (drop t0 imps) t) = imp (t0 + t)%N) ->
  flat_path s imp t0 a0 us = @Ford.flat_run O n nu T K P a0 us (drop t0 imps).
Proof.
elim: us a0 t0 => [|u us IH] a0 t0 /=; first by case: (drop _ _).
case E: (drop t0 imps) => [|i r] //= [sz] H.
rewrite FordSimProofs.flat_stepE (H 0%N isT) addn0; congr (_ :: _).
have Er : r = drop t0.+1 imps by rewrite -[t0.+1]addn1 addnC -drop_drop E /= drop0.
rewrite Er; apply: IH; first by rewrite -Er.
by move=> t lt; rewrite -Er addSnnS -(H t.+1).
Qed.

(* the ordinary simulation of PlansProofs is C01's flat_run with C01's anticipated impacts *)
Theorem flat_path_is_C01 (vs us : seq 'cV[F]_nu) (a0 : 'cV[F]_n) : size us = size vs ->
  flat_path s (@ant_impact M n nu Rx vs) 0 a0 us
  = @Ford.flat_run O n nu T K P a0 us (@Ford.anticipated_impacts O n nf nu P X J Ru vs).
Proof.
move=> sz.
have H t : (t < size vs)%N ->
    FordSimProofs.imp_val (nth None (@Ford.anticipated_impacts O n nf nu P X J Ru vs) t) = @ant_impact M n nu Rx vs t.
  by move=> lt; have [_ ->] := FordSimProofs.impacts_spec P X J Ru lt; rewrite ant_impact_is_C01.
have szi : size (@Ford.anticipated_impacts O n nf nu P X J Ru vs) = size vs.
  case: (vs) => [|v0 r]; first by [].
  by have [-> _] := @FordSimProofs.impacts_spec F n nf nu P X J Ru (v0 :: r) 0 isT.
set imps := Ford.anticipated_impacts _ _ _ _ _ _ in H szi *.
have -> : imps = drop 0 imps by rewrite drop0.
apply: flat_run_path; first by rewrite drop0 szi.
by move=> t lt; rewrite drop0 add0n H // -sz.
Qed.

(* the conditional simulation returns C01's simulate_flat recursion of its own output shocks *)
Theorem run_is_C01_simulation nw (curr : seq nat) (vs : seq 'cV[F]_nu) (inc : incidence) (a0 : 'cV[F]_n) (std_v : seq F)
    (cols : seq (ccol M nu nw curr)) :
  size vs = size inc -> size cols = size inc ->
  let l := run_l s Rx vs inc a0 std_v cols in
  [seq @out_xi M n nw inc x | x <- l]
  = @Ford.flat_run O n nu T K P a0 [seq @out_u F flog flog2pi n nu nw inc x | x <- l]
      (@Ford.anticipated_impacts O n nf nu P X J Ru (@out_vs M n nu nw vs inc l)).
Proof.
move=> szv szc l; rewrite /l run_is_simulation // flat_path_is_C01 //.
by rewrite size_map run_size size_run_vs // szc.
Qed.

End Bridge.
