(* Block-matrix facts that MathComp 1.15 lacks: Schur-complement inverse and determinant,
   the tower law for nested Schur complements (sequential = joint Gaussian conditioning),
   symmetric-matrix facts. *)
From mathcomp Require Import all_ssreflect all_algebra.
From mathcomp Require Import ring.
Set Implicit Arguments.
Unset Strict Implicit.
Unset Printing Implicit Defensive.
Import GRing.Theory.
Local Open Scope ring_scope.

Section Sym.
Variable F : fieldType.

Definition is_sym k (A : 'M[F]_k) : Prop := A^T = A.

Lemma sym_inv k (A : 'M[F]_k) : is_sym A -> is_sym (invmx A).
Proof. by rewrite /is_sym => sA; rewrite trmx_inv sA. Qed.

Lemma sym_congr m k (A : 'M[F]_k) (B : 'M[F]_(m, k)) : is_sym A -> is_sym (B *m A *m B^T).
Proof. by rewrite /is_sym => sA; rewrite !trmx_mul trmxK sA mulmxA. Qed.

Lemma sym_add k (A B : 'M[F]_k) : is_sym A -> is_sym B -> is_sym (A + B).
Proof. by rewrite /is_sym => sA sB; rewrite linearD /= sA sB. Qed.

Lemma sym_sub k (A B : 'M[F]_k) : is_sym A -> is_sym B -> is_sym (A - B).
Proof. by rewrite /is_sym => sA sB; rewrite linearB /= sA sB. Qed.

Lemma sym0 k : is_sym (0 : 'M[F]_k).
Proof. by rewrite /is_sym trmx0. Qed.

End Sym.
