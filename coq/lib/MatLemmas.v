(* Block-matrix facts that MathComp 1.15 lacks: Schur-complement inverse and determinant,
   the tower law for nested Schur complements (sequential = joint Gaussian conditioning),
   symmetric-matrix facts. *)
From mathcomp Require Import all_ssreflect all_algebra.
From mathcomp Require Import ring.
From Verif.lib Require Import MatOps MatMC.
Set Implicit Arguments.
Unset Strict Implicit.
Unset Printing Implicit Defensive.
Import GRing.Theory.
Local Open Scope ring_scope.

(* closes goals that are equal as sums of atoms (abelian-group reasoning, entry by entry): every
   matrix product becomes an opaque atom, then every matrix entry, then Algebra Tactics' ring *)
Ltac mx_atoms :=
  repeat match goal with
         | |- context [?A *m ?B] => let X := fresh "X" in set X := (A *m B); clearbody X
         end.
Ltac mx_entries :=
  repeat match goal with
         | |- context [@fun_of_matrix _ _ _ ?A ?i ?j] =>
             let x := fresh "x" in set x := (@fun_of_matrix _ _ _ A i j); clearbody x
         end.
(* distribute products over sums, push negations out, reassociate to the left *)
Ltac mx_expand :=
  rewrite ?(mulmxDr, mulmxDl, mulmxBr, mulmxBl, mulmxN, mulNmx, opprD, opprK) ?mulmxA
          ?(mulmxDr, mulmxDl, mulmxBr, mulmxBl, mulmxN, mulNmx, opprD, opprK) ?mulmxA.
Ltac mx_abel := mx_atoms; apply/matrixP=> ? ?; rewrite !mxE; mx_entries; ring.

Section Sym.
Variable F : fieldType.

Definition is_sym k (A : 'M[F]_k) : Prop := A^T = A.

Lemma sym_inv k (A : 'M[F]_k) : is_sym A -> is_sym (invmx A).
Proof. by rewrite /is_sym => sA; rewrite trmx_inv sA. Qed.

Lemma sym_congr m k (A : 'M[F]_k) (B : 'M[F]_(m, k)) : is_sym A -> is_sym (B *m A *m B^T).
Proof. by rewrite /is_sym => sA; rewrite !trmx_mul trmxK sA mulmxA. Qed.

Lemma sym_add k (A B : 'M[F]_k) : is_sym A -> is_sym B -> is_sym (A + B).
Proof. by rewrite /is_sym => sA sB; rewrite linearD /= sA sB. Qed.

Lemma sym_sub k (A B : 'M[F]_k) : is_sym A -> is_sym B -> is_sym (A - B).
Proof. by rewrite /is_sym => sA sB; rewrite linearB /= sA sB. Qed.

Lemma sym0 k : is_sym (0 : 'M[F]_k).
Proof. by rewrite /is_sym trmx0. Qed.

End Sym.

(* ------------------------------------------------------------------ *)
(* row selection (by mask / by row numbers) is a row-wise linear map   *)
(* ------------------------------------------------------------------ *)
Section RowSelection.
Variable F : fieldType.

(* rows picked by a partial index function *)
Definition pick_rows q m k (g : nat -> option 'I_m) (A : 'M[F]_(m, k)) : 'M[F]_(q, k) :=
  \matrix_(i, j) (if g i is Some r then A r j else 0).

Lemma nth_map_ohead (T U : Type) (x0 : U) (f : T -> U) (s : seq T) i :
  nth x0 [seq f y | y <- s] i = if ohead (drop i s) is Some y then f y else x0.
Proof. by elim: s i => [|y s IH] [|i] //=. Qed.

Definition sel_ord (msk : seq bool) m (i : nat) : option 'I_m := ohead (drop i (mask msk (enum 'I_m))).
Definition idx_ord (idx : seq nat) m (i : nat) : option 'I_m := ohead (drop (nth 0%N idx i) (enum 'I_m)).

Lemma mc_selE m k msk (A : 'M[F]_(m, k)) : mc_sel msk A = pick_rows _ (sel_ord msk m) A.
Proof.
apply/matrixP=> i j; rewrite !mxE /rows_of -map_mask nth_map_ohead /sel_ord.
by case: (ohead _) => [r|]; rewrite !mxE.
Qed.

Lemma mc_rowsE m k idx (A : 'M[F]_(m, k)) : mc_rows idx A = pick_rows _ (idx_ord idx m) A.
Proof.
apply/matrixP=> i j; rewrite !mxE /rows_of nth_map_ohead /idx_ord.
by case: (ohead _) => [r|]; rewrite !mxE.
Qed.

Lemma pick_rows_mul q m k l g (A : 'M[F]_(m, k)) (B : 'M[F]_(k, l)) :
  pick_rows q g (A *m B) = pick_rows q g A *m B.
Proof.
apply/matrixP=> i j; rewrite !mxE; case E: (g i) => [r|].
  by rewrite !mxE; apply: eq_bigr => t _; rewrite !mxE E.
by rewrite big1 // => t _; rewrite !mxE E mul0r.
Qed.

Lemma pick_rows_add q m k g (A B : 'M[F]_(m, k)) :
  pick_rows q g (A + B) = pick_rows q g A + pick_rows q g B.
Proof. by apply/matrixP=> i j; rewrite !mxE; case: (g i) => [r|]; rewrite ?mxE ?addr0. Qed.

Lemma pick_rows_sub q m k g (A B : 'M[F]_(m, k)) :
  pick_rows q g (A - B) = pick_rows q g A - pick_rows q g B.
Proof. by apply/matrixP=> i j; rewrite !mxE; case: (g i) => [r|]; rewrite ?mxE ?subr0. Qed.

Lemma mc_sel_mul m k l msk (A : 'M[F]_(m, k)) (B : 'M[F]_(k, l)) : mc_sel msk (A *m B) = mc_sel msk A *m B.
Proof. by rewrite !mc_selE pick_rows_mul. Qed.
Lemma mc_sel_add m k msk (A B : 'M[F]_(m, k)) : mc_sel msk (A + B) = mc_sel msk A + mc_sel msk B.
Proof. by rewrite !mc_selE pick_rows_add. Qed.
Lemma mc_sel_sub m k msk (A B : 'M[F]_(m, k)) : mc_sel msk (A - B) = mc_sel msk A - mc_sel msk B.
Proof. by rewrite !mc_selE pick_rows_sub. Qed.
Lemma mc_rows_mul m k l idx (A : 'M[F]_(m, k)) (B : 'M[F]_(k, l)) : mc_rows idx (A *m B) = mc_rows idx A *m B.
Proof. by rewrite !mc_rowsE pick_rows_mul. Qed.
Lemma mc_rows_sub m k idx (A B : 'M[F]_(m, k)) : mc_rows idx (A - B) = mc_rows idx A - mc_rows idx B.
Proof. by rewrite !mc_rowsE pick_rows_sub. Qed.

(* entry i of the selection is entry idx[i] of the matrix *)
Lemma mc_rows_entry m k idx (A : 'M[F]_(m, k)) (i : 'I_(length idx)) (r : 'I_m) j :
  nth 0%N idx i = r -> mc_rows idx A i j = A r j.
Proof.
move=> E; rewrite mc_rowsE !mxE /idx_ord E.
have -> : ohead (drop r (enum 'I_m)) = Some r; last by [].
rewrite -[r in drop r]/(nat_of_ord r) (drop_nth r) ?size_enum_ord //=.
by rewrite nth_ord_enum.
Qed.

End RowSelection.

(* ------------------------------------------------------------------ *)
(* Gaussian conditioning, defined algebraically                        *)
(* ------------------------------------------------------------------ *)
Section Gauss.
Variable F : fieldType.

(* (x, y) jointly Gaussian with means (mu_x, mu_y) and covariance [[Sxx, Sxy], [Sxy', Syy]] *)
Definition cond_mean nx ny (mu_x : 'cV[F]_nx) (mu_y : 'cV[F]_ny) (Sxy : 'M[F]_(nx, ny)) (Syy : 'M[F]_ny)
    (y : 'cV[F]_ny) : 'cV[F]_nx :=
  mu_x + Sxy *m invmx Syy *m (y - mu_y).
Definition cond_cov nx ny (Sxx : 'M[F]_nx) (Sxy : 'M[F]_(nx, ny)) (Syy : 'M[F]_ny) : 'M[F]_nx :=
  Sxx - Sxy *m invmx Syy *m Sxy^T.
(* cross covariance of (x, z) given y *)
Definition cond_cross nx nz ny (Sxz : 'M[F]_(nx, nz)) (Sxy : 'M[F]_(nx, ny)) (Syy : 'M[F]_ny)
    (Szy : 'M[F]_(nz, ny)) : 'M[F]_(nx, nz) :=
  Sxz - Sxy *m invmx Syy *m Szy^T.
(* the quadratic form of the density *)
Definition maha k (mu : 'cV[F]_k) (S : 'M[F]_k) (y : 'cV[F]_k) : F :=
  ((y - mu)^T *m invmx S *m (y - mu)) 0 0.

Lemma inv_from_mul k (A B : 'M[F]_k) : A *m B = 1%:M -> invmx A = B.
Proof.
move=> E; have [uA _] := mulmx1_unit E.
by rewrite -[LHS]mulmx1 -E mulKmx.
Qed.

Section Schur.
Variables n1 n2 : nat.
Variables (A : 'M[F]_n1) (B : 'M[F]_(n1, n2)) (C : 'M[F]_(n2, n1)) (D : 'M[F]_n2).
Let S := D - C *m invmx A *m B.                 (* Schur complement of A *)
Hypothesis uA : A \in unitmx.
Hypothesis uS : S \in unitmx.
Let Ai := invmx A.
Let Si := invmx S.

Definition schur_inverse : 'M[F]_(n1 + n2) :=
  block_mx (Ai + Ai *m B *m Si *m C *m Ai) (- (Ai *m B *m Si)) (- (Si *m C *m Ai)) Si.

Lemma schur_mul_inverse : block_mx A B C D *m schur_inverse = 1%:M.
Proof.
rewrite /schur_inverse mulmx_block [RHS]scalar_mx_block.
have AAi : A *m Ai = 1%:M by rewrite mulmxV.
have SSi : S *m Si = 1%:M by rewrite mulmxV.
have DSi : D *m Si = 1%:M + C *m Ai *m B *m Si.
  by rewrite -SSi /S mulmxBl subrK.
congr block_mx.
- rewrite !(mulmxDr, mulmxN) !mulmxA AAi !mul1mx.
  by mx_abel.
- by rewrite mulmxN !mulmxA AAi mul1mx addNr.
- rewrite !(mulmxDr, mulmxN) !mulmxA DSi !mulmxDl mul1mx.
  by mx_abel.
- by rewrite mulmxN !mulmxA DSi; mx_abel.
Qed.

Lemma schur_inv : invmx (block_mx A B C D) = schur_inverse.
Proof. exact: inv_from_mul schur_mul_inverse. Qed.

Lemma schur_unit : block_mx A B C D \in unitmx.
Proof. by have [] := mulmx1_unit schur_mul_inverse. Qed.

(* determinant of a block matrix through the Schur complement *)
Lemma schur_det : \det (block_mx A B C D) = \det A * \det S.
Proof.
have -> : block_mx A B C D = block_mx 1%:M 0 (C *m Ai) 1%:M *m block_mx A B 0 S.
  rewrite mulmx_block !mul1mx !mul0mx !addr0.
  have -> : C *m Ai *m A = C by rewrite -mulmxA mulVmx // mulmx1.
  by rewrite /S addrC subrK.
by rewrite det_mulmx det_lblock det_ublock !det1 !mul1r.
Qed.

End Schur.

Lemma schur_inv_det n1 n2 (A : 'M[F]_n1) (B : 'M[F]_(n1, n2)) (C : 'M[F]_(n2, n1)) (D : 'M[F]_n2) :
  A \in unitmx -> D - C *m invmx A *m B \in unitmx ->
  invmx (block_mx A B C D) = schur_inverse A B C D
  /\ \det (block_mx A B C D) = \det A * \det (D - C *m invmx A *m B).
Proof. by move=> uA uS; split; [exact: schur_inv | exact: schur_det]. Qed.


(* ---- tower law: conditioning on y1 and then on y2 = conditioning on (y1, y2) ---- *)
Section Tower.
Variables nx n1 n2 : nat.
Variables (mu_x : 'cV[F]_nx) (m1 y1 : 'cV[F]_n1) (m2 y2 : 'cV[F]_n2).
Variables (Sxx : 'M[F]_nx) (Sx1 : 'M[F]_(nx, n1)) (Sx2 : 'M[F]_(nx, n2)).
Variables (S11 : 'M[F]_n1) (S12 : 'M[F]_(n1, n2)) (S22 : 'M[F]_n2).
Let S21 := S12^T.
(* moments of (x, y2) given y1 *)
Let mx1 := cond_mean mu_x m1 Sx1 S11 y1.
Let m21 := cond_mean m2 m1 S21 S11 y1.
Let Sxx1 := cond_cov Sxx Sx1 S11.
Let Sx21 := cond_cross Sx2 Sx1 S11 S21.
Let S221 := cond_cov S22 S21 S11.
Hypothesis u11 : S11 \in unitmx.
Hypothesis u221 : S221 \in unitmx.

Let Syy := block_mx S11 S12 S21 S22.
Let Sxy := row_mx Sx1 Sx2.

Lemma S221_schur : S221 = S22 - S21 *m invmx S11 *m S12.
Proof. by rewrite /S221 /cond_cov /S21 trmxK. Qed.

Lemma tower_unit : Syy \in unitmx.
Proof. by apply: schur_unit => //; rewrite -S221_schur. Qed.

Lemma tower_inv : invmx Syy = schur_inverse S11 S12 S21 S22.
Proof. by apply: schur_inv => //; rewrite -S221_schur. Qed.

Theorem tower_mean :
  cond_mean mx1 m21 Sx21 S221 y2 = cond_mean mu_x (col_mx m1 m2) Sxy Syy (col_mx y1 y2).
Proof.
rewrite /cond_mean tower_inv /schur_inverse -S221_schur /Sxy.
rewrite opp_col_mx add_col_mx mul_row_block mul_row_col.
rewrite /mx1 /m21 /Sx21 /cond_mean /cond_cross /S21 trmxK.
set Ai := invmx S11; set Si := invmx S221; set e1 := y1 - m1; set e2 := y2 - m2.
rewrite !(mulmxDr, mulmxDl, mulmxBr, mulmxBl, opprD, mulmxN, mulNmx) !mulmxA.
rewrite ?(mulmxDr, mulmxDl, mulmxBr, mulmxBl, opprD, mulmxN, mulNmx) ?mulmxA.
by mx_abel.
Qed.

Hypothesis s11 : is_sym S11.

Theorem tower_cov :
  cond_cov Sxx1 Sx21 S221 = cond_cov Sxx Sxy Syy.
Proof.
rewrite /cond_cov tower_inv /schur_inverse -S221_schur /Sxy.
rewrite tr_row_mx mul_row_block mul_row_col.
rewrite /Sxx1 /Sx21 /cond_cov /cond_cross /S21 trmxK.
set Ai := invmx S11; set Si := invmx S221.
rewrite linearB /= !trmx_mul.
rewrite !(mulmxDr, mulmxDl, mulmxBr, mulmxBl, opprD, mulmxN, mulNmx) !mulmxA.
rewrite ?(mulmxDr, mulmxDl, mulmxBr, mulmxBl, opprD, mulmxN, mulNmx) ?mulmxA.
have -> : Ai^T = Ai by apply: sym_inv.
by mx_abel.
Qed.


Lemma entry11_add (X Y : 'M[F]_1) : X 0 0 + Y 0 0 = (X + Y) 0 0.
Proof. by rewrite mxE. Qed.

Theorem tower_maha :
  maha (col_mx m1 m2) Syy (col_mx y1 y2) = maha m1 S11 y1 + maha m21 S221 y2.
Proof.
rewrite /maha tower_inv /schur_inverse -S221_schur.
rewrite opp_col_mx add_col_mx tr_col_mx mul_row_block mul_row_col.
rewrite /m21 /cond_mean /S21.
set Ai := invmx S11; set Si := invmx S221; set e1 := y1 - m1; set e2 := y2 - m2.
have -> : y2 - (m2 + S12^T *m Ai *m e1) = e2 - S12^T *m Ai *m e1 by rewrite opprD addrA.
rewrite entry11_add; congr (fun_of_matrix _ 0 0).
have sAi : Ai^T = Ai by apply: sym_inv.
clearbody Ai Si e1 e2.
rewrite [(_ - _)^T]linearB /= !trmx_mul trmxK sAi.
rewrite !(mulmxDr, mulmxDl, mulmxBr, mulmxBl, opprD, mulmxN, mulNmx) !mulmxA.
rewrite ?(mulmxDr, mulmxDl, mulmxBr, mulmxBl, opprD, mulmxN, mulNmx) ?mulmxA.
by mx_abel.
Qed.

Theorem tower_det : \det Syy = \det S11 * \det S221.
Proof. by rewrite /Syy schur_det // S221_schur. Qed.

End Tower.

(* negative log density of N(mu, S) at y, with the scalar logarithm and log(2 pi) as parameters *)
Definition nll_gauss (flog : F -> F) (l2pi : F) k (mu : 'cV[F]_k) (S : 'M[F]_k) (y : 'cV[F]_k) : F :=
  2%:R^-1 * (k%:R * l2pi + flog (\det S) + maha mu S y).

(* nll(y1, y2) = nll(y1) + nll(y2 | y1) *)
Theorem tower_nll (flog : F -> F) (l2pi : F) n1 n2
    (m1 y1 : 'cV[F]_n1) (m2 y2 : 'cV[F]_n2) (S11 : 'M[F]_n1) (S12 : 'M[F]_(n1, n2)) (S22 : 'M[F]_n2) :
  (forall a b, a != 0 -> b != 0 -> flog (a * b) = flog a + flog b) ->
  is_sym S11 -> S11 \in unitmx -> cond_cov S22 S12^T S11 \in unitmx ->
  nll_gauss flog l2pi (col_mx m1 m2) (block_mx S11 S12 S12^T S22) (col_mx y1 y2)
  = nll_gauss flog l2pi m1 S11 y1
    + nll_gauss flog l2pi (cond_mean m2 m1 S12^T S11 y1) (cond_cov S22 S12^T S11) y2.
Proof.
move=> logM s11 u11 u221; rewrite /nll_gauss tower_maha // tower_det // logM; first last.
- by move: u221; rewrite unitmxE unitfE.
- by move: u11; rewrite unitmxE unitfE.
rewrite natrD.
set a := flog _; set b := flog _; set c := maha _ _ _; set d := maha _ _ _.
by ring.
Qed.

End Gauss.
