(* Block-matrix facts that MathComp 1.15 lacks: Schur-complement inverse and determinant,
   the tower law for nested Schur complements (sequential = joint Gaussian conditioning),
   symmetric-matrix facts. *)
From mathcomp Require Import all_ssreflect all_algebra.
From mathcomp Require Import ring.
From Verif.lib Require Import MatOps MatMC.
Set Implicit Arguments.
Unset Strict Implicit.
Unset Printing Implicit Defensive.
Import GRing.Theory.
Local Open Scope ring_scope.

Section Sym.
Variable F : fieldType.

Definition is_sym k (A : 'M[F]_k) : Prop := A^T = A.

Lemma sym_inv k (A : 'M[F]_k) : is_sym A -> is_sym (invmx A).
Proof. by rewrite /is_sym => sA; rewrite trmx_inv sA. Qed.

Lemma sym_congr m k (A : 'M[F]_k) (B : 'M[F]_(m, k)) : is_sym A -> is_sym (B *m A *m B^T).
Proof. by rewrite /is_sym => sA; rewrite !trmx_mul trmxK sA mulmxA. Qed.

Lemma sym_add k (A B : 'M[F]_k) : is_sym A -> is_sym B -> is_sym (A + B).
Proof. by rewrite /is_sym => sA sB; rewrite linearD /= sA sB. Qed.

Lemma sym_sub k (A B : 'M[F]_k) : is_sym A -> is_sym B -> is_sym (A - B).
Proof. by rewrite /is_sym => sA sB; rewrite linearB /= sA sB. Qed.

Lemma sym0 k : is_sym (0 : 'M[F]_k).
Proof. by rewrite /is_sym trmx0. Qed.

End Sym.

(* ------------------------------------------------------------------ *)
(* row selection (by mask / by row numbers) is a row-wise linear map   *)
(* ------------------------------------------------------------------ *)
Section RowSelection.
Variable F : fieldType.

(* rows picked by a partial index function *)
Definition pick_rows q m k (g : nat -> option 'I_m) (A : 'M[F]_(m, k)) : 'M[F]_(q, k) :=
  \matrix_(i, j) (if g i is Some r then A r j else 0).

Lemma nth_map_ohead (T U : Type) (x0 : U) (f : T -> U) (s : seq T) i :
  nth x0 [seq f y | y <- s] i = if ohead (drop i s) is Some y then f y else x0.
Proof. by elim: s i => [|y s IH] [|i] //=. Qed.

Definition sel_ord (msk : seq bool) m (i : nat) : option 'I_m := ohead (drop i (mask msk (enum 'I_m))).
Definition idx_ord (idx : seq nat) m (i : nat) : option 'I_m := ohead (drop (nth 0%N idx i) (enum 'I_m)).

Lemma mc_selE m k msk (A : 'M[F]_(m, k)) : mc_sel msk A = pick_rows _ (sel_ord msk m) A.
Proof.
apply/matrixP=> i j; rewrite !mxE /rows_of -map_mask nth_map_ohead /sel_ord.
by case: (ohead _) => [r|]; rewrite !mxE.
Qed.

Lemma mc_rowsE m k idx (A : 'M[F]_(m, k)) : mc_rows idx A = pick_rows _ (idx_ord idx m) A.
Proof.
apply/matrixP=> i j; rewrite !mxE /rows_of nth_map_ohead /idx_ord.
by case: (ohead _) => [r|]; rewrite !mxE.
Qed.

Lemma pick_rows_mul q m k l g (A : 'M[F]_(m, k)) (B : 'M[F]_(k, l)) :
  pick_rows q g (A *m B) = pick_rows q g A *m B.
Proof.
apply/matrixP=> i j; rewrite !mxE; case E: (g i) => [r|].
  by rewrite !mxE; apply: eq_bigr => t _; rewrite !mxE E.
by rewrite big1 // => t _; rewrite !mxE E mul0r.
Qed.

Lemma pick_rows_add q m k g (A B : 'M[F]_(m, k)) :
  pick_rows q g (A + B) = pick_rows q g A + pick_rows q g B.
Proof. by apply/matrixP=> i j; rewrite !mxE; case: (g i) => [r|]; rewrite ?mxE ?addr0. Qed.

Lemma pick_rows_sub q m k g (A B : 'M[F]_(m, k)) :
  pick_rows q g (A - B) = pick_rows q g A - pick_rows q g B.
Proof. by apply/matrixP=> i j; rewrite !mxE; case: (g i) => [r|]; rewrite ?mxE ?subr0. Qed.

Lemma mc_sel_mul m k l msk (A : 'M[F]_(m, k)) (B : 'M[F]_(k, l)) : mc_sel msk (A *m B) = mc_sel msk A *m B.
Proof. by rewrite !mc_selE pick_rows_mul. Qed.
Lemma mc_sel_add m k msk (A B : 'M[F]_(m, k)) : mc_sel msk (A + B) = mc_sel msk A + mc_sel msk B.
Proof. by rewrite !mc_selE pick_rows_add. Qed.
Lemma mc_sel_sub m k msk (A B : 'M[F]_(m, k)) : mc_sel msk (A - B) = mc_sel msk A - mc_sel msk B.
Proof. by rewrite !mc_selE pick_rows_sub. Qed.
Lemma mc_rows_mul m k l idx (A : 'M[F]_(m, k)) (B : 'M[F]_(k, l)) : mc_rows idx (A *m B) = mc_rows idx A *m B.
Proof. by rewrite !mc_rowsE pick_rows_mul. Qed.
Lemma mc_rows_sub m k idx (A B : 'M[F]_(m, k)) : mc_rows idx (A - B) = mc_rows idx A - mc_rows idx B.
Proof. by rewrite !mc_rowsE pick_rows_sub. Qed.

(* entry i of the selection is entry idx[i] of the matrix *)
Lemma mc_rows_entry m k idx (A : 'M[F]_(m, k)) (i : 'I_(length idx)) (r : 'I_m) j :
  nth 0%N idx i = r -> mc_rows idx A i j = A r j.
Proof.
move=> E; rewrite mc_rowsE !mxE /idx_ord E.
have -> : ohead (drop r (enum 'I_m)) = Some r; last by [].
rewrite -[r in drop r]/(nat_of_ord r) (drop_nth r) ?size_enum_ord //=.
by rewrite nth_ord_enum.
Qed.

End RowSelection.
