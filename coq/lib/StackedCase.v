(* Checker used by the generated C06 correspondence case files: evaluates the model of model/Frames.v and
   model/Stacked.v on what was recorded from one call of Simultaneous.simulate and returns the identifiers of the
   checks on which model and implementation differ.  Data cells are IEEE doubles (PrimFloat), compared bit-wise
   up to NaN = NaN. *)
From Coq Require Import ZArith List Bool PrimFloat Uint63.
From Verif Require Import gen.FramesGen model.Frames model.Stacked.
Import ListNotations.
Open Scope Z_scope.

(* (kept local so that a case file loads neither the real numbers nor the Series model) *)
Definition opt_eqb {T} (e : T -> T -> bool) (a b : option T) : bool :=
  match a, b with Some x, Some y => e x y | None, None => true | _, _ => false end.

Fixpoint list_eqb {T} (e : T -> T -> bool) (a b : list T) : bool :=
  match a, b with
  | [], [] => true
  | x :: xs, y :: ys => e x y && list_eqb e xs ys
  | _, _ => false
  end.

Definition float_of_Z (z : Z) : float :=
  match z with
  | Z0 => 0%float
  | Zpos _ => PrimFloat.of_uint63 (Uint63.of_Z z)
  | Zneg p => PrimFloat.opp (PrimFloat.of_uint63 (Uint63.of_Z (Zpos p)))
  end.

Definition fzero : float := float_of_Z prune_value.

(* np.isfinite(x) & (x != 0) *)
Definition f_nz (x : float) : bool :=
  negb (PrimFloat.is_nan x) && negb (PrimFloat.is_infinity x) && negb (PrimFloat.eqb x 0%float).

(* bit-level equality: NaN = NaN, and +0 is distinguished from -0 *)
Definition fsame (x y : float) : bool :=
  if PrimFloat.is_nan x then PrimFloat.is_nan y
  else if PrimFloat.is_nan y then false
  else PrimFloat.eqb x y && PrimFloat.eqb (1 / x) (1 / y).

Definition arr := list (list float).
Definition arr_eqb (a b : arr) : bool := list_eqb (list_eqb fsame) a b.

Definition pair_eqb {A B} (ea : A -> A -> bool) (eb : B -> B -> bool) (x y : A * B) : bool :=
  ea (fst x) (fst y) && eb (snd x) (snd y).
Definition spots_eqb := list_eqb spot_eqb.
Definition zs_eqb := list_eqb Z.eqb.
Definition oz_eqb := opt_eqb Z.eqb.
Definition quad_eqb (x y : Z * Z * Z * Z) : bool :=
  let '(a, b, c, d) := x in let '(a', b', c', d') := y in (a =? a') && (b =? b') && (c =? c') && (d =? d').

(* what the implementation reported for one frame object *)
Record frame_obs := mkFrameObs {
  o_start : Z; o_end : Z; o_sim_end : Z; o_first : Z; o_last : Z; o_sim_last : Z; o_num_sim : Z;
  o_slice : Z * option Z; o_sim_slice : Z * option Z; o_zero_slice : Z * option Z }.

Definition slice_eqb := pair_eqb Z.eqb oz_eqb.

Definition frame_matches (fcp : Z) (f : frame) (o : frame_obs) : bool :=
  (f_start f =? o_start o) && (f_end f =? o_end o) && (f_sim_end f =? o_sim_end o)
  && (f_first fcp f =? o_first o) && (f_last fcp f =? o_last o) && (f_sim_last fcp f =? o_sim_last o)
  && (f_num_sim_columns fcp f =? o_num_sim o)
  && slice_eqb (f_slice fcp f) (o_slice o) && slice_eqb (f_sim_slice fcp f) (o_sim_slice o)
  && slice_eqb (f_zero_slice fcp f) (o_zero_slice o).

(* terminator observations *)
Record term_obs := mkTermObs {
  to_transition_vector : list spot;      (* input: solution vector tokens *)
  to_equation_tokens : list spot;        (* input: all tokens of the transition equations *)
  to_columns : list Z; to_wrt : list spot; to_column_index : list Z; to_init : list spot;
  to_first_terminal : Z;
  to_tjm : list (Z * Z) }.

(* arrays are transmitted as differences from an array the model already has (cells that differ bit-wise) *)
Definition diff := list (spot * float).
Definition apply_diff (d : arr) (df : diff) : arr := update_cells d (map fst df) (map snd df).

(* per-frame observations *)
Record frame_rec := mkFrameRec {
  r_pruned_diff : diff;                  (* frame data entering simulate_frame, relative to the main array *)
  r_after_diff : diff;                   (* frame data after simulate_frame, relative to the data entering it *)
  r_columns : list Z;                    (* columns_to_run seen by _get_wrt_spots *)
  r_wrt : list spot;
  r_exog : option (list spot);           (* sorted *)
  r_update_map : list spot;
  r_jac_wrt_tokens : list (list spot);   (* oracle: iteration order of each equation's tokens *)
  r_jac_lhs_tokens : list spot;
  r_jac_map : list (Z * Z * Z * Z);
  r_jac_shape : Z * Z;
  r_term : option term_obs;
  r_per_equation : arr;                  (* equator outcome at the final guess, one row per equation *)
  r_stacked : list float                 (* the stacked residual at the final guess *)
}.

Record sim_case := mkSimCase {
  c_pbp : bool;
  c_base_periods : list Z;
  c_base_columns : list Z;
  c_shifts : Z * Z;                      (* deepest lag / lead over all quantities, from the model source *)
  c_periods : list Z;                    (* periods of the dataslate *)
  c_ucut : option arr;
  c_pcut : option (list (list bool));
  c_frames : list frame_obs;
  c_setup : sim_setup;
  c_main0 : arr;                         (* main array when the frame loop starts (after the initial guess) *)
  c_input_diff : diff;                   (* input_data_array relative to c_main0 *)
  c_frame_recs : list frame_rec;
  c_final_diff : diff                    (* main array after the last write-back, relative to c_main0 *)
}.

Definition model_frames (c : sim_case) : list frame :=
  if c_pbp c then pbp_frames (c_base_periods c)
  else stacked_frames (populate_base_break_points f_nz (length (c_base_periods c)) (c_ucut c) (c_pcut c))
                      (c_base_periods c).

Definition check_term (S : sim_setup) (f : frame) (wrt : list spot) (o : option term_obs) : list nat :=
  match s_term S, o with
  | None, None => []
  | Some (qids, max_lead, _), Some t =>
      let last := f_sim_last (s_fcp S) f in
      (if zs_eqb (terminal_columns last max_lead) (to_columns t) then [] else [20%nat])
      ++ (if spots_eqb (terminal_wrt_spots last max_lead qids (to_equation_tokens t)) (to_wrt t) then [] else [21%nat])
      ++ (if zs_eqb (terminal_column_index last max_lead qids (to_equation_tokens t)) (to_column_index t) then [] else [22%nat])
      ++ (if spots_eqb (terminit_spots last (to_transition_vector t)) (to_init t) then [] else [23%nat])
      ++ (if term_first_terminal last =? to_first_terminal t then [] else [24%nat])
      ++ (if list_eqb (pair_eqb Z.eqb Z.eqb) (terminal_jacobian_map wrt (to_init t)) (to_tjm t) then [] else [25%nat])
  | _, _ => [29%nat]
  end.

Definition check_frame (S : sim_setup) (f : frame) (r : frame_rec) (after oracle : arr) : list nat :=
  let cols := columns_to_run (s_fcp S) f in
  let wrt := frame_wrt S f in
  let twrt := match s_term S, r_term r with
              | Some (qids, max_lead, _), Some t =>
                  terminal_wrt_spots (f_sim_last (s_fcp S) f) max_lead qids (to_equation_tokens t)
              | _, _ => [] end in
  (if zs_eqb cols (r_columns r) then [] else [10%nat])
  ++ (if spots_eqb wrt (r_wrt r) then [] else [11%nat])
  ++ (match s_plan S, r_exog r with
      | None, None => []
      | Some _, Some e => if spots_eqb (sort_spots (frame_exog S f)) e then [] else [12%nat]
      | _, _ => [12%nat] end)
  ++ (if spots_eqb wrt (r_update_map r) then [] else [13%nat])
  ++ (if spots_eqb (wrt ++ twrt) (r_jac_lhs_tokens r) then [] else [14%nat])
  ++ (if list_eqb quad_eqb (jac_map (r_jac_wrt_tokens r) cols (wrt ++ twrt)) (r_jac_map r) then [] else [15%nat])
  ++ (if pair_eqb Z.eqb Z.eqb (Z.of_nat (length (r_jac_wrt_tokens r)) * Z.of_nat (length cols),
                               Z.of_nat (length (wrt ++ twrt))) (r_jac_shape r) then [] else [16%nat])
  ++ check_term S f wrt (r_term r)
  ++ (if list_eqb fsame (stack_lists nan (r_per_equation r) (length cols)) (r_stacked r) then [] else [17%nat])
  ++ (if arr_eqb after oracle then [] else [18%nat]).

(* the frame loop: the model's own running main array; the recorded arrays are rebuilt from their differences *)
Fixpoint check_frames (S : sim_setup) (input main : arr) (fs : list frame) (rs : list frame_rec) (k : nat)
  : list (nat * nat) * arr :=
  match fs, rs with
  | f :: fs', r :: rs' =>
      let pruned_rec := apply_diff main (r_pruned_diff r) in
      let oracle := apply_diff pruned_rec (r_after_diff r) in
      let step := step_frame nan fzero S input main f oracle in
      let rest := check_frames S input (snd step) fs' rs' (Datatypes.S k) in
      (map (fun id => (k, id))
           ((if arr_eqb (prune fzero (s_uqids S) (s_fcp S) f main) pruned_rec then [] else [30%nat])
            ++ check_frame S f r (fst step) oracle) ++ fst rest, snd rest)
  | [], [] => ([], main)
  | _, _ => ([(k, 19%nat)], main)
  end.

(* (frame index, check id); frame index 999 = checks of the whole simulation *)
Definition check_sim (c : sim_case) : list (nat * nat) :=
  let S := c_setup c in
  let fs := model_frames c in
  let run := check_frames S (apply_diff (c_main0 c) (c_input_diff c)) (c_main0 c) fs (c_frame_recs c) 0 in
  (if zs_eqb (extended_periods (hd 0 (c_base_periods c)) (last (c_base_periods c) 0) (fst (c_shifts c)) (snd (c_shifts c)))
             (c_periods c) && (hd 0 (c_periods c) =? s_fcp S) then [] else [(999%nat, 4%nat)])
  ++ (if zs_eqb (map (column_of (s_fcp S)) (c_base_periods c)) (c_base_columns c) then [] else [(999%nat, 1%nat)])
  ++ (if Nat.eqb (length fs) (length (c_frames c)) && forallb (fun fo => frame_matches (s_fcp S) (fst fo) (snd fo))
                                                               (combine fs (c_frames c))
      then [] else [(999%nat, 2%nat)])
  ++ fst run
  ++ (if arr_eqb (snd run) (apply_diff (c_main0 c) (c_final_diff c)) then [] else [(999%nat, 3%nat)]).

Fixpoint failing_sims (cs : list sim_case) (i : nat) : list (nat * list (nat * nat)) :=
  match cs with
  | [] => []
  | c :: r => match check_sim c with
              | [] => failing_sims r (Datatypes.S i)
              | l => (i, l) :: failing_sims r (Datatypes.S i)
              end
  end.
