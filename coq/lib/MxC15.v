(* C15 matrix helper library.

   [MxOps] is the abstract matrix interface over which the model of
   fords/covariances.py (model/Acov.v) is written ONCE.  It is instantiated
   - on MathComp matrices over a real closed field in proofs/AcovProofs.v
     (theorems), and
   - here, on [list (list dy)] with [dy] = exact dyadic rationals m * 2^e over
     Bignums' bigZ (every IEEE double is such a number; + and * are exact), for
     the tolerance correspondence evaluated by vm_compute.
   Plain stdlib style; no proofs about the executable instance are claimed. *)
From Coq Require Import ZArith List Bool PrimFloat FloatOps SpecFloat.
From Bignums Require Import BigZ.
Import ListNotations.

Record MxOps := {
  sc : Type;                                   (* scalars *)
  mx : nat -> nat -> Type;                     (* m x n matrices of scalars *)
  omx : nat -> nat -> Type;                    (* matrices of [option sc]; None is numpy's NaN *)
  bvec : nat -> Type;                          (* boolean column vectors *)
  idx : nat -> nat -> Type;                    (* a selection of k positions out of n *)
  s0 : sc;
  smul : sc -> sc -> sc;
  spos : sc -> bool;                           (* x > 0 *)
  sisqrt : sc -> sc;                           (* 1 / sqrt x (used for x > 0 only) *)
  mmul : forall {m n p}, mx m n -> mx n p -> mx m p;
  madd : forall {m n}, mx m n -> mx m n -> mx m n;
  mtr : forall {m n}, mx m n -> mx n m;
  mzero : forall {m n}, mx m n;
  mblock : forall {m1 m2 n1 n2}, mx m1 n1 -> mx m1 n2 -> mx m2 n1 -> mx m2 n2 -> mx (m1 + m2) (n1 + n2);
  mlsub : forall {m n1 n2}, mx m (n1 + n2) -> mx m n1;      (* A[:, :n1] *)
  mrsub : forall {m n1 n2}, mx m (n1 + n2) -> mx m n2;      (* A[:, n1:] *)
  musub : forall {m1 m2 n}, mx (m1 + m2) n -> mx m1 n;      (* A[:m1, :] *)
  mdsub : forall {m1 m2 n}, mx (m1 + m2) n -> mx m2 n;      (* A[m1:, :] *)
  mdiagsq : forall {n}, mx 1 n -> mx n n;                   (* numpy.diag(v**2) *)
  mloaded : forall {m n}, sc -> mx m n -> bvec m;           (* numpy.any(abs(A) > tol, axis=1) *)
  bcat : forall {m n}, bvec m -> bvec n -> bvec (m + n);    (* numpy.hstack *)
  mmask : forall {n}, bvec n -> mx n n -> omx n n;          (* rows and columns flagged true become NaN *)
  osel : forall {k n}, idx k n -> omx n n -> omx k k;       (* cov[sel, :][:, sel] *)
  odiagvec : forall {n}, (option sc -> sc) -> omx n n -> mx n 1;          (* map over numpy.diag *)
  ozip : forall {m n}, (option sc -> sc -> option sc) -> omx m n -> mx m n -> omx m n;  (* entrywise *)
}.

(* ------------------------------------------------------------------------ *)
(* exact dyadic numbers                                                       *)
(* ------------------------------------------------------------------------ *)

Record dy := Dy { dm : bigZ; de : Z }.          (* dm * 2^de *)

Definition dshl (m : bigZ) (k : Z) : bigZ := BigZ.shiftl m (BigZ.of_Z k).
Definition dyz (p : Z * Z) : dy := Dy (BigZ.of_Z (fst p)) (snd p).
Definition d0 : dy := Dy 0%bigZ 0.
Definition d1 : dy := Dy 1%bigZ 0.
Definition dadd (a b : dy) : dy :=
  let e := Z.min (de a) (de b) in
  Dy (BigZ.add (dshl (dm a) (de a - e)) (dshl (dm b) (de b - e))) e.
Definition dopp (a : dy) : dy := Dy (BigZ.opp (dm a)) (de a).
Definition dsub (a b : dy) : dy := dadd a (dopp b).
Definition dmul (a b : dy) : dy := Dy (BigZ.mul (dm a) (dm b)) (de a + de b).
Definition dabs (a : dy) : dy := Dy (BigZ.abs (dm a)) (de a).
Definition dpos (a : dy) : bool := BigZ.ltb 0%bigZ (dm a).
Definition dltb (a b : dy) : bool := dpos (dsub b a).
Definition dleb (a b : dy) : bool := negb (dltb b a).

(* 1/sqrt(x) for x = m 2^e > 0, rounded down to K = 200 + |e| binary digits after the point:
   floor(sqrt(floor(2^(2K-e) / m))) * 2^-K, relative error below 2^-150 for the magnitudes met here *)
Definition disqrt (a : dy) : dy :=
  let K := (200 + Z.abs (de a))%Z in
  let q := BigZ.div (dshl 1%bigZ (2 * K - de a)) (dm a) in
  Dy (BigZ.sqrt q) (- K).

(* ------------------------------------------------------------------------ *)
(* list-of-rows matrices (dimensions are phantom)                             *)
(* ------------------------------------------------------------------------ *)

Definition lmx := list (list dy).
Definition lomx := list (list (option dy)).

Definition ldot (r c : list dy) : dy :=
  fold_left dadd (map (fun p => dmul (fst p) (snd p)) (combine r c)) d0.

Fixpoint ltr_aux (n : nat) (a : lmx) : lmx :=
  match n with
  | O => []
  | S k => map (fun r => hd d0 r) a :: ltr_aux k (map (@tl dy) a)
  end.
(* transpose of an m x n matrix; the number of columns is passed explicitly so that 0-row matrices work *)
Definition ltr (n : nat) (a : lmx) : lmx := ltr_aux n a.

Definition lmul (p : nat) (a b : lmx) : lmx :=
  let bt := ltr p b in map (fun r => map (fun c => ldot r c) bt) a.
Definition ladd (a b : lmx) : lmx :=
  map (fun p => map (fun q => dadd (fst q) (snd q)) (combine (fst p) (snd p))) (combine a b).
Definition lzero (m n : nat) : lmx := repeat (repeat d0 n) m.
Definition lhcat {T} (m : nat) (a b : list (list T)) : list (list T) :=
  map (fun i => nth i a [] ++ nth i b []) (seq 0 m).
Definition lblock (m1 m2 : nat) (a b c d : lmx) : lmx := lhcat m1 a b ++ lhcat m2 c d.
Definition ldiagsq (n : nat) (v : lmx) : lmx :=
  let r := hd [] v in
  map (fun i => map (fun j => if Nat.eqb i j then let x := nth i r d0 in dmul x x else d0) (seq 0 n)) (seq 0 n).
Definition lloaded (tol : dy) (a : lmx) : list bool :=
  map (fun r => existsb (fun x => dltb tol (dabs x)) r) a.
Definition lmask (n : nat) (b : list bool) (a : lmx) : lomx :=
  map (fun i => map (fun j => if nth i b false || nth j b false then None else Some (nth j (nth i a []) d0))
                    (seq 0 n)) (seq 0 n).
Definition lsel (s : list nat) (a : lomx) : lomx :=
  map (fun i => map (fun j => nth j (nth i a []) None) s) s.
Definition ldiagvec (n : nat) (f : option dy -> dy) (a : lomx) : lmx :=
  map (fun i => [f (nth i (nth i a []) None)]) (seq 0 n).
Definition lzip (f : option dy -> dy -> option dy) (a : lomx) (b : lmx) : lomx :=
  map (fun p => map (fun q => f (fst q) (snd q)) (combine (fst p) (snd p))) (combine a b).

Definition LOps : MxOps := {|
  sc := dy;
  mx := fun _ _ => lmx;
  omx := fun _ _ => lomx;
  bvec := fun _ => list bool;
  idx := fun _ _ => list nat;
  s0 := d0; smul := dmul; spos := dpos; sisqrt := disqrt;
  mmul := fun _ _ p a b => lmul p a b;
  madd := fun _ _ a b => ladd a b;
  mtr := fun _ n a => ltr n a;
  mzero := fun m n => lzero m n;
  mblock := fun m1 m2 _ _ a b c d => lblock m1 m2 a b c d;
  mlsub := fun _ n1 _ a => map (firstn n1) a;
  mrsub := fun _ n1 _ a => map (skipn n1) a;
  musub := fun m1 _ _ a => firstn m1 a;
  mdsub := fun m1 _ _ a => skipn m1 a;
  mdiagsq := fun n v => ldiagsq n v;
  mloaded := fun _ _ tol a => lloaded tol a;
  bcat := fun _ _ a b => a ++ b;
  mmask := fun n b a => lmask n b a;
  osel := fun _ _ s a => lsel s a;
  odiagvec := fun n f a => ldiagvec n f a;
  ozip := fun _ _ f a b => lzip f a b;
|}.

(* ------------------------------------------------------------------------ *)
(* comparison helpers for the generated case files                            *)
(* ------------------------------------------------------------------------ *)

(* an IEEE double is exactly the dyadic number (-1)^s m 2^e given by Coq's specification of binary64;
   NaN and the infinities have no value *)
Definition dyf (x : float) : option dy :=
  match Prim2SF x with
  | S754_zero _ => Some d0
  | S754_finite s m e => Some (Dy (BigZ.of_Z (if s then Z.neg m else Z.pos m)) e)
  | _ => None
  end.
Definition dyf0 (x : float) : dy := match dyf x with Some d => d | None => d0 end.
Definition lmx_of (a : list (list float)) : lmx := map (map dyf0) a.
Definition lomx_of (a : list (list float)) : lomx := map (map dyf) a.

(* |a - b| <= tol * (s + |b|): s is the magnitude of the problem (largest variance of a shock), so that the
   comparison stays meaningful when every standard deviation is tiny *)
Definition dclose_s (tol s a b : dy) : bool := dleb (dabs (dsub a b)) (dmul tol (dadd s (dabs b))).
Definition dclose (tol a b : dy) : bool := dclose_s tol d1 a b.
Definition oclose_s (tol s : dy) (a b : option dy) : bool :=
  match a, b with
  | Some x, Some y => dclose_s tol s x y
  | None, None => true
  | _, _ => false
  end.
Fixpoint all2 {T U} (f : T -> U -> bool) (a : list T) (b : list U) : bool :=
  match a, b with
  | [], [] => true
  | x :: xs, y :: ys => f x y && all2 f xs ys
  | _, _ => false
  end.
Definition lmx_close_s (tol s : dy) (a b : lmx) : bool := all2 (all2 (dclose_s tol s)) a b.
Definition lomx_close_s (tol s : dy) (a b : lomx) : bool := all2 (all2 (oclose_s tol s)) a b.
Definition lomx_list_close_s (tol s : dy) (a b : list lomx) : bool := all2 (lomx_close_s tol s) a b.
Definition lmx_close (tol : dy) := lmx_close_s tol d1.
Definition lomx_list_close (tol : dy) := lomx_list_close_s tol d1.

(* codes of the cases that fail: (index, code) *)
Fixpoint failing_codes (l : list nat) (i : nat) : list (nat * nat) :=
  match l with
  | [] => []
  | c :: r => if Nat.eqb c 0 then failing_codes r (S i) else (i, c) :: failing_codes r (S i)
  end.
