(* Plan bookkeeping (model/Plans.v, Part A): the registers of a SimulationPlan after ANY history of
   exogenize_* / endogenize_* / swap_* calls are "last write wins" over the elementary writes the calls
   perform; shape invariants; the views the simulators read.  Plain stdlib style (no ssreflect). *)
From Coq Require Import List Bool Arith ZArith Lia.
From Verif Require Import lib.MatOps model.Kalman model.Plans.
Import ListNotations.

(* ---------- set_nth ---------- *)

Lemma length_set_nth {A} (l : list A) k v : length (set_nth l k v) = length l.
Proof. revert k; induction l as [|x l IH]; intros [|k]; simpl; auto. Qed.

Lemma nth_set_nth {A} (l : list A) k v i d :
  nth i (set_nth l k v) d = if (i =? k) && (k <? length l) then v else nth i l d.
Proof.
  revert k i; induction l as [|x l IH]; intros k i.
  - simpl. replace (k <? 0) with false by (symmetry; apply Nat.ltb_ge; lia).
    rewrite andb_false_r. destruct k; reflexivity.
  - destruct k as [|k], i as [|i]; simpl; auto.
    rewrite IH. reflexivity.
Qed.

(* writing one status at several positions of a row *)
Definition write_row (row : list status) (ts : list nat) (v : status) : list status :=
  fold_left (fun row t => set_nth row t v) ts row.

Lemma length_write_row row ts v : length (write_row row ts v) = length row.
Proof.
  unfold write_row; revert row; induction ts as [|t ts IH]; intros row; simpl; auto.
  rewrite IH, length_set_nth; reflexivity.
Qed.

Lemma nth_write_row row ts v k :
  nth k (write_row row ts v) SNone = if existsb (Nat.eqb k) ts && (k <? length row) then v else nth k row SNone.
Proof.
  unfold write_row; revert row; induction ts as [|t ts IH]; intros row; simpl; auto.
  rewrite IH, length_set_nth, nth_set_nth.
  destruct (k =? t) eqn:E; simpl.
  - apply Nat.eqb_eq in E; subst t. destruct (k <? length row); simpl.
    + destruct (existsb (Nat.eqb k) ts); reflexivity.
    + rewrite andb_false_r; reflexivity.
  - reflexivity.
Qed.

(* ---------- write_points ---------- *)

Definition wf_reg (nper : nat) (g : register) : Prop := Forall (fun row => length row = nper) g.

Lemma write_points_cons g n ns ts v :
  write_points g (n :: ns) ts v = write_points (set_nth g n (write_row (nth n g []) ts v)) ns ts v.
Proof. reflexivity. Qed.

Lemma wf_set_nth nper g n row : wf_reg nper g -> length row = nper -> wf_reg nper (set_nth g n row).
Proof.
  unfold wf_reg; intros H Hr; revert n; induction H as [|x g Hx Hg IH]; intros [|n]; simpl.
  - constructor.
  - constructor.
  - constructor; assumption.
  - constructor; [assumption | apply IH].
Qed.

Lemma wf_nth nper g n : wf_reg nper g -> n < length g -> length (nth n g []) = nper.
Proof.
  intros H; revert n; induction H as [|x g Hx Hg IH]; intros [|n] Hn; simpl in *; try lia; auto.
  apply IH; lia.
Qed.

Lemma write_points_shape nper g ns ts v : wf_reg nper g ->
  wf_reg nper (write_points g ns ts v) /\ length (write_points g ns ts v) = length g.
Proof.
  revert g; induction ns as [|n ns IH]; intros g H; [split; auto|].
  rewrite write_points_cons.
  destruct (Nat.lt_ge_cases n (length g)) as [Hn|Hn].
  - destruct (IH (set_nth g n (write_row (nth n g []) ts v))) as [A B].
    + apply wf_set_nth; auto. rewrite length_write_row. apply wf_nth; auto.
    + split; auto. rewrite B, length_set_nth; reflexivity.
  - assert (E : set_nth g n (write_row (nth n g []) ts v) = g).
    { clear -Hn. revert n Hn; induction g as [|x g IHg]; intros [|n] Hn; simpl in *; auto; try lia.
      f_equal; apply IHg; lia. }
    rewrite E; apply IH; auto.
Qed.

Definition gpoint (g : register) (n k : nat) : status := nth k (nth n g []) SNone.

Lemma gpoint_write_points nper g ns ts v n k : wf_reg nper g ->
  gpoint (write_points g ns ts v) n k =
  if existsb (Nat.eqb n) ns && (n <? length g) && existsb (Nat.eqb k) ts && (k <? nper) then v else gpoint g n k.
Proof.
  revert g; induction ns as [|m ns IH]; intros g H; [reflexivity|].
  rewrite write_points_cons.
  destruct (Nat.lt_ge_cases m (length g)) as [Hm|Hm].
  - rewrite (IH (set_nth g m (write_row (nth m g []) ts v))).
    2:{ apply wf_set_nth; auto. rewrite length_write_row. apply wf_nth; auto. }
    rewrite length_set_nth. simpl existsb.
    unfold gpoint. rewrite nth_set_nth.
    assert (Hl : m <? length g = true) by (apply Nat.ltb_lt; auto). rewrite Hl, andb_true_r.
    destruct (n =? m) eqn:E; simpl.
    + apply Nat.eqb_eq in E; subst m. rewrite Hl.
      rewrite nth_write_row, (wf_nth nper g n H Hm).
      destruct (existsb (Nat.eqb n) ns); simpl;
        destruct (existsb (Nat.eqb k) ts); simpl; destruct (k <? nper); reflexivity.
    + reflexivity.
  - assert (E : set_nth g m (write_row (nth m g []) ts v) = g).
    { clear -Hm. revert m Hm; induction g as [|x g IHg]; intros [|m] Hm; simpl in *; auto; try lia.
      f_equal; apply IHg; lia. }
    rewrite E, (IH g H). simpl existsb.
    destruct (n =? m) eqn:En; simpl; auto.
    apply Nat.eqb_eq in En; subst m.
    assert (Hl : n <? length g = false) by (apply Nat.ltb_ge; auto). rewrite Hl.
    rewrite !andb_false_r. simpl. reflexivity.
Qed.

(* ---------- plans ---------- *)

Definition point (p : plan) (r : rname) (n k : nat) : status := gpoint (get_register p r) n k.
Definition wf_plan (p : plan) : Prop := forall r, wf_reg (pl_nper p) (get_register p r).
Definition same_shape (p q : plan) : Prop :=
  pl_start p = pl_start q /\ pl_nper p = pl_nper q /\ forall r, length (get_register p r) = length (get_register q r).

Lemma same_shape_refl p : same_shape p p.
Proof. repeat split; auto. Qed.
Lemma same_shape_trans p q s : same_shape p q -> same_shape q s -> same_shape p s.
Proof. intros (A & B & C) (A' & B' & C'); split; [congruence|split; [congruence|]]. intros r; rewrite C; apply C'. Qed.

Lemma rname_eqb_eq a b : rname_eqb a b = true <-> a = b.
Proof. destruct a, b; simpl; split; intros; try reflexivity; try discriminate. Qed.

Lemma get_set_register p r g r' :
  get_register (set_register p r g) r' = if rname_eqb r' r then g else get_register p r'.
Proof. destruct r, r'; reflexivity. Qed.
Lemma set_register_start p r g : pl_start (set_register p r g) = pl_start p.
Proof. destruct r; reflexivity. Qed.
Lemma set_register_nper p r g : pl_nper (set_register p r g) = pl_nper p.
Proof. destruct r; reflexivity. Qed.

(* the elementary write a valid call performs: one status on names x period indexes of one register *)
Record ewrite := mkEw { ew_reg : rname; ew_names : list nat; ew_periods : list nat; ew_status : status }.

Definition ew_of (p : plan) (r : rname) (dates : sel Z) (names : sel nat) (v : status) : option ewrite :=
  match resolve_names (get_register p r) names, resolve_periods p dates with
  | Some ns, Some ts => Some (mkEw r ns ts v)
  | _, _ => None
  end.
Definition ew_covers (w : ewrite) (r : rname) (n k : nat) : bool :=
  rname_eqb r (ew_reg w) && existsb (Nat.eqb n) (ew_names w) && existsb (Nat.eqb k) (ew_periods w).
Definition apply_ew (r : rname) (n k : nat) (st : status) (w : ewrite) : status :=
  if ew_covers w r n k then ew_status w else st.

Lemma existsb_bound L l n : forallb (fun k => k <? L) l = true -> existsb (Nat.eqb n) l = true -> n <? L = true.
Proof.
  induction l as [|x l IH]; simpl; [discriminate|].
  intros H; apply andb_prop in H; destruct H as [Hx Hl].
  intros E; apply orb_prop in E; destruct E as [E|E]; auto.
  apply Nat.eqb_eq in E; subst; auto.
Qed.

Lemma resolve_names_bound g names ns n :
  resolve_names g names = Some ns -> existsb (Nat.eqb n) ns = true -> n <? length g = true.
Proof.
  destruct names as [|l]; simpl.
  - intros E; inversion E; subst; clear E. intros H.
    apply existsb_exists in H; destruct H as (x & Hx & E). apply Nat.eqb_eq in E; subst x.
    apply in_seq in Hx. apply Nat.ltb_lt; lia.
  - destruct (forallb _ l) eqn:F; [|discriminate]. intros E; inversion E; subst. apply existsb_bound; auto.
Qed.

Lemma resolve_periods_bound p dates ts k :
  resolve_periods p dates = Some ts -> existsb (Nat.eqb k) ts = true -> k <? pl_nper p = true.
Proof.
  destruct dates as [|l]; simpl.
  - intros E; inversion E; subst; clear E. intros H.
    apply existsb_exists in H; destruct H as (x & Hx & E). apply Nat.eqb_eq in E; subst x.
    apply in_seq in Hx. apply Nat.ltb_lt; lia.
  - destruct (forallb _ l) eqn:F; [|discriminate]. intros E; inversion E; subst; clear E. intros H.
    apply existsb_exists in H; destruct H as (x & Hx & E). apply Nat.eqb_eq in E; subst x.
    apply in_map_iff in Hx; destruct Hx as (d & Ed & Hd).
    rewrite forallb_forall in F. specialize (F d Hd). unfold in_span in F.
    apply andb_prop in F; destruct F as [F1 F2]. apply Z.leb_le in F1. apply Z.ltb_lt in F2.
    apply Nat.ltb_lt. lia.
Qed.

Lemma ew_of_shape p q r dates names v : same_shape p q -> ew_of p r dates names v = ew_of q r dates names v.
Proof.
  intros (A & B & C). unfold ew_of.
  assert (E1 : resolve_names (get_register p r) names = resolve_names (get_register q r) names).
  { destruct names; simpl; rewrite (C r); reflexivity. }
  assert (E2 : resolve_periods p dates = resolve_periods q dates).
  { destruct dates; simpl; unfold in_span; rewrite ?A, ?B; reflexivity. }
  rewrite E1, E2; reflexivity.
Qed.

(* one validated write: shape kept, exactly the covered points change *)
Lemma write_to_register_spec p r dates names v : wf_plan p ->
  let p' := fst (write_to_register p r dates names v) in
  wf_plan p' /\ same_shape p p' /\
  (forall r' n k, point p' r' n k =
     match ew_of p r dates names v with Some w => apply_ew r' n k (point p r' n k) w | None => point p r' n k end).
Proof.
  intros W. unfold write_to_register, ew_of.
  destruct (resolve_names (get_register p r) names) as [ns|] eqn:En; simpl.
  2:{ repeat split; auto. }
  destruct (resolve_periods p dates) as [ts|] eqn:Et; simpl.
  2:{ repeat split; auto. }
  destruct (write_points_shape (pl_nper p) (get_register p r) ns ts v (W r)) as [Wg Lg].
  split; [|split].
  - intros r'. rewrite set_register_nper, get_set_register. destruct (rname_eqb r' r); auto.
  - split; [symmetry; apply set_register_start|split; [symmetry; apply set_register_nper|]].
    intros r'. rewrite get_set_register. destruct (rname_eqb r' r) eqn:E; auto.
    apply rname_eqb_eq in E; subst; auto.
  - intros r' n k. unfold point, apply_ew, ew_covers; simpl. rewrite get_set_register.
    destruct (rname_eqb r' r) eqn:E; simpl; auto.
    apply rname_eqb_eq in E; subst r'.
    rewrite (gpoint_write_points (pl_nper p)); auto.
    destruct (existsb (Nat.eqb n) ns) eqn:E1; simpl; auto.
    rewrite (resolve_names_bound _ _ _ _ En E1); simpl.
    destruct (existsb (Nat.eqb k) ts) eqn:E2; simpl; auto.
    rewrite (resolve_periods_bound _ _ _ _ Et E2); reflexivity.
Qed.

(* ---------- calls and histories ---------- *)

(* the elementary writes of swap_*: pair after pair, variable then shock, up to the first write that raises *)
Fixpoint swap_ews (p : plan) (rx rn : rname) (dates : sel Z) (pairs : list (nat * nat)) (v : status) : list ewrite :=
  match pairs with
  | [] => []
  | (x, e) :: rest =>
      match ew_of p rx dates (These [x]) v with
      | None => []
      | Some w1 =>
          w1 :: match ew_of p rn dates (These [e]) v with
                | None => []
                | Some w2 => w2 :: swap_ews p rx rn dates rest v
                end
      end
  end.

Definition ewrites_of_call (p : plan) (c : call) : list ewrite :=
  match c with
  | Write r dates names b =>
      match ew_of p r dates names (status_of_bool b) with Some w => [w] | None => [] end
  | Swap ant dates pairs b =>
      swap_ews p (if ant then ExogAnt else ExogUnant) (if ant then EndogAnt else EndogUnant) dates pairs (status_of_bool b)
  end.

Definition after_writes (r : rname) (n k : nat) (st : status) (ws : list ewrite) : status :=
  fold_left (apply_ew r n k) ws st.

Lemma swap_ews_shape p q rx rn dates pairs v : same_shape p q ->
  swap_ews p rx rn dates pairs v = swap_ews q rx rn dates pairs v.
Proof.
  intros S; induction pairs as [|[x e] rest IH]; simpl; auto.
  rewrite !(ew_of_shape p q) by auto. rewrite IH; reflexivity.
Qed.

Lemma ewrites_of_call_shape p q c : same_shape p q -> ewrites_of_call p c = ewrites_of_call q c.
Proof.
  intros S; destruct c; simpl.
  - rewrite (ew_of_shape p q) by auto; reflexivity.
  - apply swap_ews_shape; auto.
Qed.

Lemma write_fst_snd p r dates names v :
  write_to_register p r dates names v = (fst (write_to_register p r dates names v), snd (write_to_register p r dates names v)).
Proof. destruct (write_to_register p r dates names v); reflexivity. Qed.

Lemma write_result p r dates names v :
  snd (write_to_register p r dates names v) = ROk <-> ew_of p r dates names v <> None.
Proof.
  unfold write_to_register, ew_of.
  destruct (resolve_names (get_register p r) names); simpl; [|split; [discriminate|congruence]].
  destruct (resolve_periods p dates); simpl; split; try discriminate; try congruence; auto.
Qed.

Lemma swap_pairs_spec rx rn dates v pairs : forall p, wf_plan p ->
  let p' := fst (swap_pairs p rx rn dates pairs v) in
  wf_plan p' /\ same_shape p p' /\
  (forall r n k, point p' r n k = after_writes r n k (point p r n k) (swap_ews p rx rn dates pairs v)).
Proof.
  induction pairs as [|[x e] rest IH]; intros p W; simpl.
  - repeat split; auto.
  - destruct (write_to_register_spec p rx dates (These [x]) v W) as (W1 & S1 & P1).
    rewrite (write_fst_snd p rx dates (These [x]) v).
    set (p1 := fst (write_to_register p rx dates (These [x]) v)) in *.
    destruct (snd (write_to_register p rx dates (These [x]) v)) eqn:R1.
    2,3: (assert (E : ew_of p rx dates (These [x]) v = None)
           by (destruct (ew_of p rx dates (These [x]) v) eqn:E; auto;
               exfalso; assert (H : snd (write_to_register p rx dates (These [x]) v) = ROk)
                 by (apply write_result; congruence); congruence);
          rewrite E in *; simpl; split; [auto|split; [auto|]]; intros r n k; rewrite P1; reflexivity).
    assert (E1 : ew_of p rx dates (These [x]) v <> None) by (apply write_result; auto).
    destruct (ew_of p rx dates (These [x]) v) as [w1|] eqn:Ew1; [|congruence].
    destruct (write_to_register_spec p1 rn dates (These [e]) v W1) as (W2 & S2 & P2).
    rewrite (write_fst_snd p1 rn dates (These [e]) v).
    set (p2 := fst (write_to_register p1 rn dates (These [e]) v)) in *.
    rewrite <- (ew_of_shape p p1) in P2 by auto.
    destruct (snd (write_to_register p1 rn dates (These [e]) v)) eqn:R2.
    2,3: (assert (E : ew_of p rn dates (These [e]) v = None)
           by (rewrite (ew_of_shape p p1) by auto; destruct (ew_of p1 rn dates (These [e]) v) eqn:E; auto;
               exfalso; assert (H : snd (write_to_register p1 rn dates (These [e]) v) = ROk)
                 by (apply write_result; congruence); congruence);
          rewrite E in *; simpl; split; [auto|split; [eapply same_shape_trans; eauto|]];
          intros r n k; rewrite P2, P1; reflexivity).
    assert (E2 : ew_of p1 rn dates (These [e]) v <> None) by (apply write_result; auto).
    rewrite <- (ew_of_shape p p1) in E2 by auto.
    destruct (ew_of p rn dates (These [e]) v) as [w2|] eqn:Ew2; [|congruence].
    destruct (IH p2 W2) as (W3 & S3 & P3).
    split; [auto|split].
    + eapply same_shape_trans; [eauto|]. eapply same_shape_trans; eauto.
    + intros r n k. rewrite P3, P2, P1. simpl.
      rewrite (swap_ews_shape p2 p); [reflexivity|].
      destruct S1 as (a1 & b1 & c1), S2 as (a2 & b2 & c2).
      split; [congruence|split; [congruence|]]. intros r0; rewrite c1, c2; reflexivity.
Qed.

Lemma apply_call_spec p c : wf_plan p ->
  let p' := fst (apply_call p c) in
  wf_plan p' /\ same_shape p p' /\
  (forall r n k, point p' r n k = after_writes r n k (point p r n k) (ewrites_of_call p c)).
Proof.
  intros W; destruct c as [r dates names b|ant dates pairs b]; simpl.
  - destruct (write_to_register_spec p r dates names (status_of_bool b) W) as (W1 & S1 & P1).
    split; [auto|split; [auto|]]. intros r' n k; rewrite P1.
    destruct (ew_of p r dates names (status_of_bool b)); reflexivity.
  - apply swap_pairs_spec; auto.
Qed.

Lemma apply_calls_fst p c cs :
  fst (apply_calls p (c :: cs)) = fst (apply_calls (fst (apply_call p c)) cs).
Proof. simpl. destruct (apply_call p c) as [p1 res]; simpl. destruct (apply_calls p1 cs); reflexivity. Qed.

Lemma after_writes_app r n k st ws1 ws2 :
  after_writes r n k st (ws1 ++ ws2) = after_writes r n k (after_writes r n k st ws1) ws2.
Proof. unfold after_writes; apply fold_left_app. Qed.

(* the state machine invariant, by induction over the call history *)
Theorem apply_calls_spec cs : forall p, wf_plan p ->
  let p' := fst (apply_calls p cs) in
  wf_plan p' /\ same_shape p p' /\
  (forall r n k, point p' r n k = after_writes r n k (point p r n k) (flat_map (ewrites_of_call p) cs)).
Proof.
  induction cs as [|c cs IH]; intros p W.
  - simpl; repeat split; auto.
  - rewrite apply_calls_fst.
    destruct (apply_call_spec p c W) as (W1 & S1 & P1).
    destruct (IH (fst (apply_call p c)) W1) as (W2 & S2 & P2).
    split; [auto|split; [eapply same_shape_trans; eauto|]].
    intros r n k. rewrite P2, P1. simpl flat_map. rewrite after_writes_app.
    f_equal. clear -S1. induction cs as [|c' cs IHc]; simpl; auto.
    rewrite IHc, (ewrites_of_call_shape p (fst (apply_call p c))); auto.
Qed.

(* a fresh plan *)
Lemma wf_new_plan start nper nvar nshock : wf_plan (new_plan start nper nvar nshock).
Proof.
  intros r; destruct r; simpl; unfold wf_reg, empty_register; apply Forall_forall; intros x Hx;
    apply repeat_spec in Hx; subst; apply repeat_length.
Qed.

Lemma nth_repeat_d {A} (x d : A) a n : nth n (repeat x a) d = if n <? a then x else d.
Proof.
  revert n; induction a as [|a IH]; intros [|n]; simpl; auto.
  rewrite IH. reflexivity.
Qed.

Lemma point_new_plan start nper nvar nshock r n k : point (new_plan start nper nvar nshock) r n k = SNone.
Proof.
  unfold point, gpoint.
  assert (H : forall a b n k, nth k (nth n (empty_register a b) []) SNone = SNone).
  { intros a b n0 k0. unfold empty_register. rewrite nth_repeat_d.
    destruct (n0 <? a); [rewrite nth_repeat_d; destruct (k0 <? b); reflexivity | destruct k0; reflexivity]. }
  destruct r; simpl; apply H.
Qed.

(* registers after any history on a fresh plan: the status written by the last elementary write covering the
   point (None if there is none); the elementary writes of a call depend only on the span and the number of names *)
Theorem registers_last_write_wins start nper nvar nshock cs r n k :
  let p0 := new_plan start nper nvar nshock in
  point (fst (apply_calls p0 cs)) r n k = after_writes r n k SNone (flat_map (ewrites_of_call p0) cs).
Proof.
  intros p0. destruct (apply_calls_spec cs p0 (wf_new_plan _ _ _ _)) as (_ & _ & P).
  rewrite P. unfold p0. rewrite point_new_plan. reflexivity.
Qed.

(* ---------- the views the simulators read ---------- *)

(* get_register_as_bool_array: entry (name i, period j) is the bool of the register point; False outside the span *)
Theorem bool_array_spec p r names periods i j : i < length names -> j < length periods ->
  nth j (nth i (bool_array p r names periods) []) false =
  let d := nth j periods 0%Z in
  if in_span p d then status_bool (point p r (nth i names 0) (Z.to_nat (d - pl_start p))) else false.
Proof.
  intros Hi Hj. unfold bool_array.
  set (f := fun n => map (point_bool p (nth n (get_register p r) [])) periods).
  rewrite (nth_indep _ [] (f 0)) by (rewrite map_length; auto).
  rewrite (map_nth f names 0 i). unfold f.
  set (g := point_bool p (nth (nth i names 0) (get_register p r) [])).
  rewrite (nth_indep _ false (g 0%Z)) by (rewrite map_length; auto).
  rewrite (map_nth g periods 0%Z j). reflexivity.
Qed.

Lemma existsb_active_nth (row : list status) :
  existsb is_active row = true <-> exists k, is_active (nth k row SNone) = true.
Proof.
  split.
  - intros H; apply existsb_exists in H; destruct H as (x & Hx & Ha).
    destruct (In_nth _ _ SNone Hx) as (k & _ & E). exists k; rewrite E; auto.
  - intros (k & Hk). apply existsb_exists.
    destruct (Nat.lt_ge_cases k (length row)) as [L|L].
    + exists (nth k row SNone); split; auto. apply nth_In; auto.
    + rewrite nth_overflow in Hk by auto. discriminate.
Qed.

Lemma has_points_spec g : has_points g = true <-> exists n k, is_active (gpoint g n k) = true.
Proof.
  unfold has_points, gpoint; split.
  - intros H; apply existsb_exists in H; destruct H as (row & Hr & Ha).
    destruct (In_nth _ _ [] Hr) as (n & _ & E). apply existsb_active_nth in Ha; destruct Ha as (k & Hk).
    exists n, k; rewrite E; auto.
  - intros (n & k & H). apply existsb_exists.
    destruct (Nat.lt_ge_cases n (length g)) as [L|L].
    + exists (nth n g []); split; [apply nth_In; auto|]. apply existsb_active_nth; exists k; auto.
    + rewrite (nth_overflow g) in H by auto. destruct k; discriminate.
Qed.

(* is_empty: no register has an active point *)
Theorem plan_is_empty_spec p :
  plan_is_empty p = true <-> forall r n k, is_active (point p r n k) = false.
Proof.
  unfold plan_is_empty. rewrite negb_true_iff. split.
  - intros H r n k. destruct (is_active (point p r n k)) eqn:E; auto. exfalso.
    assert (A : has_points (get_register p r) = true) by (apply has_points_spec; exists n, k; auto).
    rewrite !orb_false_iff in H. destruct H as [[[H1 H2] H3] H4]. destruct r; simpl in A; congruence.
  - intros H. rewrite !orb_false_iff.
    assert (A : forall r, has_points (get_register p r) = false).
    { intros r. destruct (has_points (get_register p r)) eqn:E; auto.
      apply has_points_spec in E; destruct E as (n & k & E). unfold point in H. rewrite H in E; discriminate. }
    repeat split; [apply (A ExogAnt)|apply (A ExogUnant)|apply (A EndogUnant)|apply (A EndogAnt)].
Qed.

(* any_endogenized_*_except_start: an active point in the second or a later period *)
Theorem any_except_start_spec p r :
  any_except_start p r = true <-> exists n k, is_active (point p r n (S k)) = true.
Proof.
  unfold any_except_start, point, gpoint; split.
  - intros H; apply existsb_exists in H; destruct H as (row & Hr & Ha).
    destruct (In_nth _ _ [] Hr) as (n & _ & E). apply existsb_active_nth in Ha; destruct Ha as (k & Hk).
    exists n, k. rewrite E. destruct row; [destruct k; discriminate|]; auto.
  - intros (n & k & H). apply existsb_exists.
    destruct (Nat.lt_ge_cases n (length (get_register p r))) as [L|L].
    + exists (nth n (get_register p r) []); split; [apply nth_In; auto|]. apply existsb_active_nth; exists k.
      destruct (nth n (get_register p r) []); [discriminate|]; auto.
    + rewrite (nth_overflow (get_register p r)) in H by auto. discriminate.
Qed.

(* get_<register>(): the registered periods of a name are the periods of its active points, in order *)
Theorem registered_periods_spec p r n d : n < length (get_register p r) ->
  In d (nth n (registered_periods p r) []) <->
  exists k, k < length (nth n (get_register p r) []) /\ d = (pl_start p + Z.of_nat k)%Z /\ is_active (point p r n k) = true.
Proof.
  intros Hn. unfold registered_periods.
  set (f := fun row : list status => map (fun k => (pl_start p + Z.of_nat k)%Z)
                      (filter (fun k => is_active (nth k row SNone)) (seq 0 (length row)))).
  rewrite (nth_indep _ [] (f [])) by (rewrite map_length; auto).
  rewrite (map_nth f (get_register p r) [] n). unfold f, point, gpoint.
  rewrite in_map_iff. split.
  - intros (k & E & Hk). apply filter_In in Hk; destruct Hk as [Hs Ha]. apply in_seq in Hs.
    exists k; repeat split; auto; lia.
  - intros (k & Hk & E & Ha). exists k; split; auto. apply filter_In; split; auto. apply in_seq; lia.
Qed.

(* get_<register>_in_period(date): the names whose point at the date reads True *)
Theorem names_in_period_spec p r d n :
  In n (names_in_period p r d) <->
  n < length (get_register p r) /\ status_bool (point p r n (Z.to_nat (d - pl_start p))) = true.
Proof.
  unfold names_in_period, point, gpoint. rewrite filter_In, in_seq. split; intros [A B]; split; auto; lia.
Qed.
