(* RegexSub: a verified matcher for a small regular-expression subset.
   Models Python re.Pattern.fullmatch for patterns such as \d\d\d\d-Q\d
   and \([\-\+]?\d+\).  The matcher is a Brzozowski-derivative matcher,
   proved equivalent to the denotational specification [Matches]. *)

From Coq Require Import Ascii String List Bool Arith Lia.
Import ListNotations.

Definition is_digit (c : ascii) : bool :=
  (48 <=? nat_of_ascii c) && (nat_of_ascii c <=? 57).

Inductive re : Type :=
| Empty                      (* matches nothing *)
| Eps                        (* matches the empty string *)
| Chr (c : ascii)            (* one literal character *)
| Digit                      (* \d restricted to ASCII digits *)
| Cls (l : list ascii)       (* character class [...] : any one character in l *)
| Seq (a b : re)
| Alt (a b : re)
| Opt (r : re)               (* r? *)
| Plus (r : re)              (* r+ *)
| Star (r : re).             (* r* *)

(* ------------------------------------------------------------------ *)
(* Denotational specification                                          *)
(* ------------------------------------------------------------------ *)

Inductive Matches : re -> list ascii -> Prop :=
| MEps : Matches Eps []
| MChr : forall c, Matches (Chr c) [c]
| MDigit : forall c, is_digit c = true -> Matches Digit [c]
| MCls : forall c l, In c l -> Matches (Cls l) [c]
| MSeq : forall a b s1 s2, Matches a s1 -> Matches b s2 -> Matches (Seq a b) (s1 ++ s2)
| MAltL : forall a b s, Matches a s -> Matches (Alt a b) s
| MAltR : forall a b s, Matches b s -> Matches (Alt a b) s
| MOptNone : forall r, Matches (Opt r) []
| MOptSome : forall r s, Matches r s -> Matches (Opt r) s
| MPlusOne : forall r s, Matches r s -> Matches (Plus r) s
| MPlusMore : forall r s1 s2, Matches r s1 -> Matches (Plus r) s2 -> Matches (Plus r) (s1 ++ s2)
| MStarNil : forall r, Matches (Star r) []
| MStarApp : forall r s1 s2, Matches r s1 -> Matches (Star r) s2 -> Matches (Star r) (s1 ++ s2).

(* ------------------------------------------------------------------ *)
(* The matcher                                                         *)
(* ------------------------------------------------------------------ *)

Fixpoint nullable (r : re) : bool :=
  match r with
  | Empty => false
  | Eps => true
  | Chr _ => false
  | Digit => false
  | Cls _ => false
  | Seq a b => nullable a && nullable b
  | Alt a b => nullable a || nullable b
  | Opt _ => true
  | Plus r => nullable r
  | Star _ => true
  end.

Fixpoint deriv (c : ascii) (r : re) : re :=
  match r with
  | Empty => Empty
  | Eps => Empty
  | Chr d => if Ascii.eqb c d then Eps else Empty
  | Digit => if is_digit c then Eps else Empty
  | Cls l => if existsb (Ascii.eqb c) l then Eps else Empty
  | Seq a b =>
      if nullable a
      then Alt (Seq (deriv c a) b) (deriv c b)
      else Seq (deriv c a) b
  | Alt a b => Alt (deriv c a) (deriv c b)
  | Opt r => deriv c r
  | Plus r => Seq (deriv c r) (Star r)
  | Star r => Seq (deriv c r) (Star r)
  end.

Definition fullmatch (r : re) (s : list ascii) : bool :=
  nullable (fold_left (fun r c => deriv c r) s r).

(* ------------------------------------------------------------------ *)
(* Inversion lemmas for the specification                              *)
(* ------------------------------------------------------------------ *)

Lemma empty_inv : forall s, ~ Matches Empty s.
Proof. intros s H. inversion H. Qed.

Lemma eps_inv : forall s, Matches Eps s <-> s = [].
Proof.
  intros s. split; intro H.
  - inversion H. reflexivity.
  - subst. constructor.
Qed.

Lemma chr_inv : forall c s, Matches (Chr c) s <-> s = [c].
Proof.
  intros c s. split; intro H.
  - inversion H. reflexivity.
  - subst. constructor.
Qed.

Lemma digit_inv : forall s, Matches Digit s <-> exists c, s = [c] /\ is_digit c = true.
Proof.
  intros s. split; intro H.
  - inversion H; subst. eexists; split; [reflexivity | assumption].
  - destruct H as [c [E D]]. subst. constructor. assumption.
Qed.

Lemma cls_inv : forall l s, Matches (Cls l) s <-> exists c, s = [c] /\ In c l.
Proof.
  intros l s. split; intro H.
  - inversion H; subst. eexists; split; [reflexivity | assumption].
  - destruct H as [c [E D]]. subst. constructor. assumption.
Qed.

Lemma seq_inv : forall a b s,
  Matches (Seq a b) s <-> exists s1 s2, s = s1 ++ s2 /\ Matches a s1 /\ Matches b s2.
Proof.
  intros a b s. split; intro H.
  - inversion H; subst. exists s1, s2. auto.
  - destruct H as [s1 [s2 [E [H1 H2]]]]. subst. constructor; assumption.
Qed.

Lemma alt_inv : forall a b s, Matches (Alt a b) s <-> Matches a s \/ Matches b s.
Proof.
  intros a b s. split; intro H.
  - inversion H; subst; auto.
  - destruct H; [apply MAltL | apply MAltR]; assumption.
Qed.

Lemma opt_inv : forall r s, Matches (Opt r) s <-> s = [] \/ Matches r s.
Proof.
  intros r s. split; intro H.
  - inversion H; subst; auto.
  - destruct H; [subst; apply MOptNone | apply MOptSome; assumption].
Qed.

Lemma plus_star : forall r s, Matches (Plus r) s -> Matches (Star r) s.
Proof.
  intros r s H. remember (Plus r) as p eqn:E. revert r E.
  induction H; intros r0 E; try discriminate E; inversion E; subst.
  - rewrite <- (app_nil_r s). apply MStarApp; [assumption | apply MStarNil].
  - apply MStarApp; [assumption | auto].
Qed.

Lemma star_plus : forall r s2, Matches (Star r) s2 ->
  forall s1, Matches r s1 -> Matches (Plus r) (s1 ++ s2).
Proof.
  intros r s2 H. remember (Star r) as p eqn:E. revert r E.
  induction H; intros r0 E; try discriminate E; inversion E; subst; intros s0 H1.
  - rewrite app_nil_r. apply MPlusOne; assumption.
  - apply MPlusMore; [assumption | auto].
Qed.

Lemma star_cons_inv : forall r c s, Matches (Star r) (c :: s) ->
  exists s1 s2, s = s1 ++ s2 /\ Matches r (c :: s1) /\ Matches (Star r) s2.
Proof.
  intros r c s H. remember (Star r) as p eqn:E. remember (c :: s) as w eqn:W.
  revert r c s E W.
  induction H; intros r0 c0 s0 E W; try discriminate E; inversion E; subst.
  - discriminate W.
  - destruct s1 as [|d s1]; simpl in W.
    + eapply IHMatches2; eauto.
    + inversion W; subst. exists s1, s2. auto.
Qed.

Lemma plus_cons_inv : forall r c s, Matches (Plus r) (c :: s) ->
  exists s1 s2, s = s1 ++ s2 /\ Matches r (c :: s1) /\ Matches (Star r) s2.
Proof.
  intros r c s H. remember (Plus r) as p eqn:E. remember (c :: s) as w eqn:W.
  revert r c s E W.
  induction H; intros r0 c0 s0 E W; try discriminate E; inversion E; subst.
  - exists s0, []. rewrite app_nil_r. repeat split; [assumption | apply MStarNil].
  - destruct s1 as [|d s1]; simpl in W.
    + eapply IHMatches2; eauto.
    + inversion W; subst. exists s1, s2. repeat split; [assumption |].
      apply plus_star; assumption.
Qed.

(* ------------------------------------------------------------------ *)
(* Correctness of nullable / deriv / fullmatch                         *)
(* ------------------------------------------------------------------ *)

Theorem nullable_spec : forall r, nullable r = true <-> Matches r [].
Proof.
  induction r; simpl.
  - split; intro H; [discriminate | exfalso; eapply empty_inv; eauto].
  - split; intro H; [constructor | reflexivity].
  - split; intro H; [discriminate | inversion H].
  - split; intro H; [discriminate | inversion H].
  - split; intro H; [discriminate | inversion H].
  - rewrite andb_true_iff, IHr1, IHr2. split; intro H.
    + destruct H as [H1 H2]. apply (MSeq r1 r2 [] []); assumption.
    + apply seq_inv in H. destruct H as [s1 [s2 [E [H1 H2]]]].
      symmetry in E. apply app_eq_nil in E. destruct E; subst. auto.
  - rewrite orb_true_iff, IHr1, IHr2. symmetry. apply alt_inv.
  - split; intro H; [apply MOptNone | reflexivity].
  - rewrite IHr. split; intro H.
    + apply MPlusOne; assumption.
    + inversion H; subst; [assumption |].
      match goal with E : _ ++ _ = [] |- _ =>
        apply app_eq_nil in E; destruct E; subst; assumption end.
  - split; intro H; [apply MStarNil | reflexivity].
Qed.

Theorem deriv_spec : forall r c s, Matches (deriv c r) s <-> Matches r (c :: s).
Proof.
  induction r; intros c0 s; simpl.
  - (* Empty *)
    split; intro H; inversion H.
  - (* Eps *)
    split; intro H; inversion H.
  - (* Chr *)
    rewrite chr_inv. destruct (Ascii.eqb_spec c0 c) as [E | E].
    + subst. rewrite eps_inv. split; intro H; [subst; reflexivity | inversion H; reflexivity].
    + split; intro H; [inversion H | inversion H; subst; contradiction].
  - (* Digit *)
    rewrite digit_inv. destruct (is_digit c0) eqn:D.
    + rewrite eps_inv. split; intro H.
      * subst. exists c0. auto.
      * destruct H as [d [E _]]. inversion E. reflexivity.
    + split; intro H; [inversion H |].
      destruct H as [d [E Hd]]. inversion E; subst. congruence.
  - (* Cls *)
    rewrite cls_inv. destruct (existsb (Ascii.eqb c0) l) eqn:X.
    + rewrite eps_inv. apply existsb_exists in X. destruct X as [d [Hin Hd]].
      apply Ascii.eqb_eq in Hd. subst d. split; intro H.
      * subst. exists c0. auto.
      * destruct H as [d [E _]]. inversion E. reflexivity.
    + split; intro H; [inversion H |].
      destruct H as [d [E Hd]]. inversion E; subst.
      assert (existsb (Ascii.eqb d) l = true) as Y.
      { apply existsb_exists. exists d. split; [assumption | apply Ascii.eqb_refl]. }
      congruence.
  - (* Seq *)
    destruct (nullable r1) eqn:N.
    + rewrite alt_inv. rewrite !seq_inv. split; intro H.
      * destruct H as [[s1 [s2 [E [H1 H2]]]] | H].
        -- subst. exists (c0 :: s1), s2. repeat split; [apply IHr1 | ]; assumption.
        -- exists [], (c0 :: s). repeat split.
           ++ apply nullable_spec; assumption.
           ++ apply IHr2; assumption.
      * destruct H as [s1 [s2 [E [H1 H2]]]]. destruct s1 as [|d s1]; simpl in E.
        -- subst s2. right. apply IHr2; assumption.
        -- inversion E; subst. left. exists s1, s2. repeat split; [apply IHr1 | ]; assumption.
    + rewrite !seq_inv. split; intro H.
      * destruct H as [s1 [s2 [E [H1 H2]]]].
        subst. exists (c0 :: s1), s2. repeat split; [apply IHr1 | ]; assumption.
      * destruct H as [s1 [s2 [E [H1 H2]]]]. destruct s1 as [|d s1]; simpl in E.
        -- apply nullable_spec in H1. congruence.
        -- inversion E; subst. exists s1, s2. repeat split; [apply IHr1 | ]; assumption.
  - (* Alt *)
    rewrite !alt_inv, IHr1, IHr2. reflexivity.
  - (* Opt *)
    rewrite opt_inv, IHr. split; intro H; [right; assumption |].
    destruct H as [H | H]; [discriminate | assumption].
  - (* Plus *)
    rewrite seq_inv. split; intro H.
    + destruct H as [s1 [s2 [E [H1 H2]]]]. subst.
      change (c0 :: s1 ++ s2) with ((c0 :: s1) ++ s2).
      apply star_plus; [assumption | apply IHr; assumption].
    + apply plus_cons_inv in H. destruct H as [s1 [s2 [E [H1 H2]]]].
      exists s1, s2. repeat split; [assumption | apply IHr; assumption | assumption].
  - (* Star *)
    rewrite seq_inv. split; intro H.
    + destruct H as [s1 [s2 [E [H1 H2]]]]. subst.
      change (c0 :: s1 ++ s2) with ((c0 :: s1) ++ s2).
      apply MStarApp; [apply IHr; assumption | assumption].
    + apply star_cons_inv in H. destruct H as [s1 [s2 [E [H1 H2]]]].
      exists s1, s2. repeat split; [assumption | apply IHr; assumption | assumption].
Qed.

Lemma fullmatch_nil : forall r, fullmatch r [] = nullable r.
Proof. reflexivity. Qed.

Lemma fullmatch_cons : forall r c s, fullmatch r (c :: s) = fullmatch (deriv c r) s.
Proof. reflexivity. Qed.

Theorem fullmatch_spec : forall r s, fullmatch r s = true <-> Matches r s.
Proof.
  intros r s. revert r. induction s as [|c s IH]; intro r.
  - rewrite fullmatch_nil. apply nullable_spec.
  - rewrite fullmatch_cons, IH. apply deriv_spec.
Qed.

Lemma fullmatch_ext : forall r s b,
  (Matches r s <-> b = true) -> fullmatch r s = b.
Proof.
  intros r s b H. apply eq_true_iff_eq. rewrite fullmatch_spec. assumption.
Qed.

(* ------------------------------------------------------------------ *)
(* Sequences of single-character atoms (fixed-length patterns)         *)
(* ------------------------------------------------------------------ *)

Inductive atom := AChr (c : ascii) | ADigit | ACls (l : list ascii).

Definition atom_re (a : atom) : re :=
  match a with AChr c => Chr c | ADigit => Digit | ACls l => Cls l end.

Definition atom_match (a : atom) (c : ascii) : bool :=
  match a with
  | AChr d => Ascii.eqb c d
  | ADigit => is_digit c
  | ACls l => existsb (Ascii.eqb c) l
  end.

Fixpoint seq_of (l : list re) : re :=
  match l with [] => Eps | r :: t => Seq r (seq_of t) end.

Fixpoint atoms_match (l : list atom) (s : list ascii) : bool :=
  match l, s with
  | [], [] => true
  | a :: l', c :: s' => atom_match a c && atoms_match l' s'
  | _, _ => false
  end.

Lemma atom_re_spec : forall a s,
  Matches (atom_re a) s <-> exists c, s = [c] /\ atom_match a c = true.
Proof.
  intros a s. destruct a as [d | | l]; simpl.
  - rewrite chr_inv. split; intro H.
    + subst. exists d. split; [reflexivity | apply Ascii.eqb_refl].
    + destruct H as [c [E H]]. apply Ascii.eqb_eq in H. subst. reflexivity.
  - apply digit_inv.
  - rewrite cls_inv. split; intros [c [E H]]; exists c; split; try assumption.
    + apply existsb_exists. exists c. split; [assumption | apply Ascii.eqb_refl].
    + apply existsb_exists in H. destruct H as [d [Hin Hd]].
      apply Ascii.eqb_eq in Hd. subst. assumption.
Qed.

Lemma atoms_match_app : forall x y s,
  atoms_match (x ++ y) s = true <->
  exists s1 s2, s = s1 ++ s2 /\ atoms_match x s1 = true /\ atoms_match y s2 = true.
Proof.
  induction x as [|a x IH]; intros y s; simpl.
  - split; intro H.
    + exists [], s. auto.
    + destruct H as [s1 [s2 [E [H1 H2]]]]. destruct s1; [|discriminate].
      subst. assumption.
  - destruct s as [|c s].
    + split; intro H.
      * destruct y; discriminate.
      * destruct H as [s1 [s2 [E [H1 H2]]]]. destruct s1; [discriminate|].
        discriminate.
    + rewrite andb_true_iff, IH. split; intro H.
      * destruct H as [Ha [s1 [s2 [E [H1 H2]]]]]. subst.
        exists (c :: s1), s2. simpl. rewrite Ha, H1. auto.
      * destruct H as [s1 [s2 [E [H1 H2]]]]. destruct s1 as [|d s1]; [discriminate|].
        simpl in E. inversion E; subst. apply andb_true_iff in H1. destruct H1 as [Ha H1].
        split; [assumption|]. exists s1, s2. auto.
Qed.

Lemma atoms_match_single : forall a s,
  atoms_match [a] s = true <-> exists c, s = [c] /\ atom_match a c = true.
Proof.
  intros a s. destruct s as [|c [|d s]]; simpl.
  - split; [discriminate | intros [c [E _]]; discriminate].
  - rewrite andb_true_r. split; intro H.
    + exists c. auto.
    + destruct H as [d [E H]]. inversion E; subst. assumption.
  - rewrite andb_false_r. split; [discriminate | intros [e [E _]]; discriminate].
Qed.

Lemma matches_atoms : forall l s,
  Matches (seq_of (map atom_re l)) s <-> atoms_match l s = true.
Proof.
  induction l as [|a l IH]; intro s; cbn [map seq_of].
  - rewrite eps_inv. destruct s; simpl; split; intro H; try reflexivity; discriminate.
  - rewrite seq_inv. change (a :: l) with ([a] ++ l). rewrite atoms_match_app.
    split; intros [s1 [s2 [E [H1 H2]]]]; exists s1, s2; repeat split; try assumption.
    + apply atoms_match_single. apply atom_re_spec. assumption.
    + apply IH. assumption.
    + apply atom_re_spec. apply atoms_match_single. assumption.
    + apply IH. assumption.
Qed.

Theorem fullmatch_atoms : forall l s,
  fullmatch (seq_of (map atom_re l)) s = atoms_match l s.
Proof.
  intros l s. apply fullmatch_ext. apply matches_atoms.
Qed.

(* Recognise when a regex is such a sequence: returns the atoms if r is an
   arbitrarily nested Seq of Chr / Digit / Cls / Eps. *)
Fixpoint atoms_of (r : re) : option (list atom) :=
  match r with
  | Eps => Some []
  | Chr c => Some [AChr c]
  | Digit => Some [ADigit]
  | Cls l => Some [ACls l]
  | Seq a b =>
      match atoms_of a, atoms_of b with
      | Some x, Some y => Some (x ++ y)
      | _, _ => None
      end
  | _ => None
  end.

Lemma atoms_of_matches : forall r l s,
  atoms_of r = Some l -> (Matches r s <-> atoms_match l s = true).
Proof.
  induction r; intros l0 s H; simpl in H; try discriminate.
  - inversion H; subst. rewrite eps_inv.
    destruct s; simpl; split; intro; try reflexivity; discriminate.
  - inversion H; subst. rewrite atoms_match_single. apply (atom_re_spec (AChr c)).
  - inversion H; subst. rewrite atoms_match_single. apply (atom_re_spec ADigit).
  - inversion H; subst. rewrite atoms_match_single. apply (atom_re_spec (ACls l)).
  - destruct (atoms_of r1) as [x|] eqn:E1; [|discriminate].
    destruct (atoms_of r2) as [y|] eqn:E2; [|discriminate].
    inversion H; subst. rewrite seq_inv, atoms_match_app.
    split; intros [s1 [s2 [E [H1 H2]]]]; exists s1, s2; repeat split; try assumption.
    + apply (IHr1 x s1 eq_refl). assumption.
    + apply (IHr2 y s2 eq_refl). assumption.
    + apply (IHr1 x s1 eq_refl). assumption.
    + apply (IHr2 y s2 eq_refl). assumption.
Qed.

Theorem atoms_of_sound : forall r l s,
  atoms_of r = Some l -> fullmatch r s = atoms_match l s.
Proof.
  intros r l s H. apply fullmatch_ext. apply atoms_of_matches. assumption.
Qed.

(* ------------------------------------------------------------------ *)
(* digits+                                                             *)
(* ------------------------------------------------------------------ *)

Theorem matches_plus_digits : forall s,
  s <> [] -> forallb is_digit s = true -> Matches (Plus Digit) s.
Proof.
  induction s as [|c s IH]; intros Hne Hd; [contradiction Hne; reflexivity |].
  simpl in Hd. apply andb_true_iff in Hd. destruct Hd as [Hc Hs].
  destruct s as [|d s].
  - apply MPlusOne. apply MDigit. assumption.
  - change (c :: d :: s) with ([c] ++ d :: s). apply MPlusMore.
    + apply MDigit. assumption.
    + apply IH; [discriminate | assumption].
Qed.

Theorem matches_plus_digits_inv : forall s,
  Matches (Plus Digit) s -> s <> [] /\ forallb is_digit s = true.
Proof.
  intros s H. remember (Plus Digit) as p eqn:E.
  induction H; try discriminate E; inversion E; subst.
  - apply digit_inv in H. destruct H as [c [Ec Hc]]. subst. simpl.
    rewrite Hc. split; [discriminate | reflexivity].
  - apply digit_inv in H. destruct H as [c [Ec Hc]]. subst. simpl.
    rewrite Hc. split; [discriminate |]. apply IHMatches2. reflexivity.
Qed.

(* ------------------------------------------------------------------ *)
(* First-character facts, handy for proving non-matches                *)
(* ------------------------------------------------------------------ *)

Theorem matches_seq_chr_head : forall c r s,
  Matches (Seq (Chr c) r) s -> exists t, s = c :: t /\ Matches r t.
Proof.
  intros c r s H. apply seq_inv in H. destruct H as [s1 [s2 [E [H1 H2]]]].
  apply chr_inv in H1. subst. exists s2. auto.
Qed.

Theorem matches_seq_digit_head : forall r s,
  Matches (Seq Digit r) s ->
  exists c t, s = c :: t /\ is_digit c = true /\ Matches r t.
Proof.
  intros r s H. apply seq_inv in H. destruct H as [s1 [s2 [E [H1 H2]]]].
  apply digit_inv in H1. destruct H1 as [c [Ec Hc]]. subst. exists c, s2. auto.
Qed.

(* ------------------------------------------------------------------ *)
(* Sanity examples: the regex for \([\-\+]?\d+\)                       *)
(* ------------------------------------------------------------------ *)

Definition re_paren_int : re :=
  Seq (Chr "("%char)
      (Seq (Opt (Cls ["-"%char; "+"%char]))
           (Seq (Plus Digit) (Chr ")"%char))).

Example paren_int_ok :
  fullmatch re_paren_int (list_ascii_of_string "(-15)") = true.
Proof. vm_compute. reflexivity. Qed.

Example paren_int_trailing :
  fullmatch re_paren_int (list_ascii_of_string "(5),") = false.
Proof. vm_compute. reflexivity. Qed.

Print Assumptions fullmatch_spec.
Print Assumptions fullmatch_atoms.
Print Assumptions atoms_of_sound.
