(* Helpers used by the generated correspondence case files of C07: the frame loop of
   Simultaneous.simulate(method="first_order", plan=...) around the conditional simulation of
   model/Plans.v (Part B), evaluated on a scalar carrier [C] (exact rationals [CBQ] or 2^-384 fixed
   point [CFX]) and compared with the numbers the implementation returned.

   What is modelled here (executable only, validated by the correspondence, no theorems of its own):
     fords/simulators.py::create_frames            frames_of
     frames.py (break points, SplitFrame.prune_frame_data, write_frame_data_to_main_dataslate)
                                                   model/Frames.v (C06), reused
     _simulate_conditional, the array plumbing     frame_sim   (get_init_xi, zero_false_init_xi,
                                                   _insert_exogenized_*, _insert_std_endogenized_unanticipated,
                                                   the u0/v0/w0/std arrays, _store_smooth, _simulate_measurement)
   The data array is the dataslate variant with log-variables in logs; rows are numbered by the harness. *)
From Coq Require Import List ZArith Bool.
From Verif Require Import lib.MatOps model.Kalman model.Plans gen.FramesGen model.Frames.
Import ListNotations.
Open Scope Z_scope.

Section Run.
Variable C : CaseScalar.
Notation S := (cs_ops C).
Notation T := (car S).
Notation QM := (ListMat S).
Notation arr := (list (list T)).

Definition D (m e : Z) : T := cs_of_dyadic C m e.
Definition tol_out : T := cdiv S (D 1 0) (D 10000000 0).      (* 1e-7 *)
Definition zero : T := c0 S.

Record ccase := mkCase {
  k_n : nat; k_nu : nat; k_nw : nat; k_nf : nat; k_ny : nat;
  k_T : arr; k_P : arr; k_K : arr; k_X : arr; k_J : arr; k_Ru : arr;       (* solution.T P K X J Ru *)
  k_Z : arr; k_H : arr; k_D : arr;                                          (* measurement block; D = 0 in deviation mode *)
  k_curr : list nat;                 (* squid.curr_xi_indexes *)
  k_tokens : list (Z * Z);           (* the transition solution vector as (row, shift) *)
  k_true_init : list bool;           (* vec.true_initials *)
  k_curr_rows : list Z; k_u_rows : list Z; k_v_rows : list Z; k_w_rows : list Z; k_y_rows : list Z;
  k_std_rows : list Z;               (* rows of std_<transition shock>, in the order of the shocks *)
  k_base_first : Z; k_nper : nat;    (* first base column, number of base periods *)
  k_exog_ant : list (list bool); k_exog_unant : list (list bool);      (* registers over the base periods, *)
  k_endog_unant : list (list bool); k_endog_ant : list (list bool);    (* rows in the order of the names     *)
  k_data : arr                       (* input data, all columns of the dataslate *)
}.

Definition getv (A : arr) (r c : Z) : T := get zero A r c.
Definition colvec (A : arr) (rows : list Z) (c : Z) : arr := map (fun r => [getv A r c]) rows.
Definition entries (v : arr) : list T := map (fun r => hd zero r) v.

(* column k (relative to the first base period) of a register; False outside the base span *)
Definition reg_at (reg : list (list bool)) (k : Z) : list bool :=
  map (fun row => if k <? 0 then false else nth (Z.to_nat k) row false) reg.

Fixpoint lookup (q : Z) (l : list (Z * T)) : option T :=
  match l with [] => None | (r, v) :: rest => if q =? r then Some v else lookup q rest end.

Section Frame.
Variable k : ccase.
Notation n := (k_n k). Notation nu := (k_nu k). Notation nw := (k_nw k).

Definition sys : csys QM n nu := @mkCsys QM n nu (k_T k) (k_P k) (k_K k).
Definition Rx (j : nat) : mx QM n nu := @expand_at QM n nu (k_nf k) (k_P k) (k_X k) (k_J k) (k_Ru k) j.

(* _simulate_conditional + _simulate_measurement on the frame data [Af]; [A0] is input_data_array *)
Definition frame_sim (A0 Af : arr) (first sim_last : Z) : arr :=
  let nsim := Z.to_nat (sim_last - first + 1) in
  let tcols := zrange_from first nsim in
  let rel c := c - k_base_first k in
  let cols := map (fun c =>
      @mkCcol QM nu nw (k_curr k)
        (Frames.map2 orb (reg_at (k_exog_ant k) (rel c)) (reg_at (k_exog_unant k) (rel c)))
        (colvec A0 (k_curr_rows k) c)
        (Frames.map2 (fun (e : bool) (r : Z) => if e then getv A0 r c else zero) (reg_at (k_endog_unant k) (rel c)) (k_std_rows k))
        (colvec Af (k_u_rows k) c) (colvec Af (k_w_rows k) c)) tcols in
  let vs := map (colvec Af (k_v_rows k)) tcols in
  let inc := map (fun c => reg_at (k_endog_ant k) (rel c)) tcols in
  let std_v := flat_map (fun c =>
      map snd (filter fst (combine (reg_at (k_endog_ant k) (rel c)) (map (fun r => getv Af r c) (k_std_rows k))))) tcols in
  let init : arr := Frames.map2 (fun (tok : Z * Z) (ti : bool) => [if ti then getv Af (fst tok) (first - 1 + snd tok) else zero])
                         (k_tokens k) (k_true_init k) in
  let l := @cond_run QM n nu nw (k_curr k) sys Rx vs inc init std_v cols in
  let vout : list arr := @out_vs QM n nu nw vs inc l in
  let per_col := Frames.map2 (fun (x : sper QM (n + nv_of inc) nw) (v : arr) =>
      let xi : arr := @out_xi QM n nw inc x in
      let w : arr := s_w (so x) in
      let u : arr := s_u (so x) in
      let y : arr := @meas_out QM n nw (k_ny k) (k_Z k) (k_H k) (k_D k) xi w in
      combine (k_curr_rows k) (entries (@out_curr QM n nw (k_curr k) inc x))
      ++ combine (k_u_rows k) (entries u)
      ++ combine (k_w_rows k) (entries w)
      ++ combine (k_v_rows k) (entries v)
      ++ combine (k_y_rows k) (entries y)) l vout in
  mapi2 (fun q c old =>
           if (first <=? c) && (c <=? sim_last) then
             match lookup q (nth (Z.to_nat (c - first)) per_col []) with Some v => v | None => old end
           else old) Af.

(* fords/simulators.py::create_frames *)
Definition base_last : Z := k_base_first k + Z.of_nat (k_nper k) - 1.
Definition needs_splitting : bool := existsb (fun row => existsb (fun b : bool => b) (tl row)) (k_endog_ant k).
Definition frames_of : list frame :=
  let base_periods := zrange_from (k_base_first k) (k_nper k) in
  if needs_splitting then
    let ucut := map (fun r => map (fun c => getv (k_data k) r c) base_periods) (k_u_rows k) in
    let bp := populate_base_break_points (fun x : T => negb (cis0 S x)) (k_nper k)
                (match k_u_rows k with [] => None | _ => Some ucut end) (Some (k_endog_unant k)) in
    split_frames (fun _ _ => base_last) bp base_periods
  else [mkFrame (k_base_first k) base_last base_last].

(* the loop over the frames of Simultaneous.simulate; periods are column numbers (first column period = 0) *)
Definition run_frames_fo : arr :=
  let uq := if needs_splitting then k_u_rows k else [] in
  fold_left (fun main f =>
      let Af := if needs_splitting then prune zero uq 0 f main else main in
      let Af' := frame_sim (k_data k) Af (f_first 0 f) (f_sim_last 0 f) in
      write_back zero uq 0 f main Af') frames_of (k_data k).

End Frame.

(* cells (row, column) over the base columns where model and implementation differ; [expected] lists, per row of
   [rows], the implementation's values over the base columns (None: not a number) *)
Fixpoint failing_row (A : arr) (r c : Z) (e : list (option T)) : list (Z * Z) :=
  match e with
  | [] => []
  | Some y :: e' => (if cs_close C tol_out (getv A r c) y then [] else [(r, c)]) ++ failing_row A r (c + 1) e'
  | None :: e' => (r, c) :: failing_row A r (c + 1) e'
  end.

Definition check_case (k : ccase) (cmps : list (list Z * list (list (option T)))) : list (list (Z * Z)) :=
  let A := run_frames_fo k in
  map (fun re => concat (Frames.map2 (fun (r : Z) (e : list (option T)) => failing_row A r (k_base_first k) e)
                                     (fst re) (snd re))) cmps.

(* debugging aid: the model's numbers themselves *)
Definition dump_case (k : ccase) (rows : list Z) :=
  let A := run_frames_fo k in
  map (fun r => map (fun c => cs_print C (getv A r c)) (zrange_from (k_base_first k) (k_nper k))) rows.

Definition frames_case (k : ccase) := map (fun f => (f_start f, f_end f, f_sim_end f)) (frames_of k).

End Run.
