(* Helpers for the generated correspondence case files of C19: equality of observable databox
   states over the PrimFloat carrier, table-driven instances of the codecs that model/Csv.v
   leaves abstract (the harness records the strings produced by Python), and the per-case
   comparison functions. *)
From Coq Require Import String Ascii ZArith List Bool PrimFloat.
From Verif Require Import lib.Arith lib.CaseUtil model.Series model.SeriesOps model.Databox model.Slate model.Csv.
Import ListNotations.
Open Scope Z_scope.

Definition poison : float := 0x1.deadp+999%float.

(* same double, distinguishing -0 from 0 *)
Definition fsame (x y : float) : bool :=
  if PrimFloat.is_nan x then PrimFloat.is_nan y
  else if PrimFloat.is_nan y then false
  else PrimFloat.eqb x y && PrimFloat.eqb (1 / x) (1 / y).

Section Cases.
Variable t : ftables.
Notation FA := (FArith t).

Definition elem_eqb (a b : elem FA) : bool :=
  match a, b with
  | EScal x, EScal y => feq x y
  | ESer d s, ESer d' s' => String.eqb d d' && series_eqb t s s'
  | _, _ => false
  end.

Definition item_eqb (a b : item FA) : bool :=
  match a, b with
  | INon x, INon y => elem_eqb x y
  | IList x, IList y => list_eqb elem_eqb x y
  | _, _ => false
  end.

Definition databox_eqb (a b : databox FA) : bool :=
  list_eqb (fun p q => String.eqb (fst p) (fst q) && item_eqb (snd p) (snd q)) a b.

Definition grid_eqb (a b : grid) : bool := list_eqb (list_eqb String.eqb) a b.

Definition slate_eqb (a b : slate FA) : bool := list_eqb (list_eqb (list_eqb feq)) a b.

(* ---- recorded codecs ---- *)
Record ctables := mkCt {
  c_fmtp : list ((Z * Z) * string);        (* (frequency, serial) -> str(period) *)
  c_parsep : list ((Z * string) * Z);      (* (frequency, cell) -> serial, absent when Python raises *)
  c_rnd : list (float * float);            (* numpy.round(x, round) *)
  c_fmtv : list (float * string);          (* repr(float) *)
  c_parsev : list (string * float)         (* float(cell), NaN when not a number *)
}.

Fixpoint look_fmtp (l : list ((Z * Z) * string)) (f s : Z) : string :=
  match l with
  | [] => "<no period string recorded>"%string
  | ((f', s'), v) :: r => if (f' =? f) && (s' =? s) then v else look_fmtp r f s
  end.
Fixpoint look_parsep (l : list ((Z * string) * Z)) (f : Z) (c : string) : option Z :=
  match l with
  | [] => None
  | ((f', c'), v) :: r => if (f' =? f) && String.eqb c' c then Some v else look_parsep r f c
  end.
Fixpoint look_rnd (l : list (float * float)) (x : float) : float :=
  match l with
  | [] => poison
  | (k, v) :: r => if fsame k x then v else look_rnd r x
  end.
Fixpoint look_fmtv (l : list (float * string)) (x : float) : string :=
  match l with
  | [] => "<no value string recorded>"%string
  | (k, v) :: r => if fsame k x then v else look_fmtv r x
  end.
Fixpoint look_parsev (l : list (string * float)) (c : string) : float :=
  match l with
  | [] => poison
  | (k, v) :: r => if String.eqb k c then v else look_parsev r c
  end.

Definition rnd_of (c : ctables) (x : float) : float := if PrimFloat.is_nan x then x else look_rnd (c_rnd c) x.

Definition export_c (c : ctables) := export FA (look_fmtp (c_fmtp c)) (look_fmtv (c_fmtv c)) (rnd_of c).
Definition import_c (c : ctables) := import FA (look_parsep (c_parsep c)) (look_parsev (c_parsev c)).

(* 0 = agree; 1 = the exported grid differs; 2 = the re-imported databox differs *)
Definition check_csv (c : ctables) (db : databox FA) (o : wopts) (g : grid) (imp : res (databox FA)) : nat :=
  if negb (grid_eqb (export_c c db o) g) then 1%nat
  else if negb (res_eqb databox_eqb (import_c c (w_desc o) (export_c c db o)) imp) then 2%nat
  else 0%nat.

(* import of an arbitrary sheet *)
Definition check_import (c : ctables) (desc : bool) (g : grid) (imp : res (databox FA)) : nat :=
  if res_eqb databox_eqb (import_c c desc g) imp then 0%nat else 2%nat.

(* 0 = agree; 1 = the dataslate arrays differ; 2 = the databox written back differs *)
Definition check_slate (db : databox FA) (nms : option (list string)) (fr from : Z) (n : nat) (o : sopts FA)
  (trimmed : bool) (sl : res (slate FA)) (back : res (databox FA)) : nat :=
  if negb (res_eqb slate_eqb (from_databox FA db nms fr from n o) sl) then 1%nat
  else if negb (res_eqb databox_eqb (slate_roundtrip FA db nms fr from n o trimmed) back) then 2%nat
  else 0%nat.

(* dataslate as an object: construction, span-changing methods, then the observable state and both conversions.
   0 = agree; 1 = names / periods / base periods / arrays differ; 2 = to_databox(span="full") differs;
   3 = to_databox(span="base") differs *)
Definition ds_obs_eqb (d : dslate FA) (e : list string * list Z * res (list Z) * slate FA) : bool :=
  let '(nms, ps, bp, arr) := e in
  list_eqb String.eqb (ds_names FA d) nms && list_eqb Z.eqb (ds_periods FA d) ps
  && res_eqb (list_eqb Z.eqb) (ds_base_periods FA d) bp && slate_eqb (ds_data FA d) arr.

Definition check_slate_ops (db : databox FA) (nms : option (list string)) (fr from : Z) (n : nat) (o : sopts FA)
  (mms : Z * Z) (ops : list slop) (trimmed : bool)
  (st : res (list string * list Z * res (list Z) * slate FA)) (full base : res (databox FA)) : nat :=
  match dslate_from_databox FA db nms fr from n o mms with
  | Err e => match st with Err e' => if Nat.eqb e e' then 0%nat else 1%nat | Ok _ => 1%nat end
  | Ok d0 =>
      match ds_run FA d0 ops, st with
      | Err e, Err e' => if Nat.eqb e e' then 0%nat else 1%nat
      | Ok d, Ok ex =>
          if negb (ds_obs_eqb d ex) then 1%nat
          else if negb (res_eqb databox_eqb (ds_to_databox FA d fr false trimmed) full) then 2%nat
          else if negb (res_eqb databox_eqb (ds_to_databox FA d fr true trimmed) base) then 3%nat
          else 0%nat
      | _, _ => 1%nat
      end
  end.

(* first step of a history at which the model's result differs; None = agree *)
Fixpoint first_diff19 {T} (e : T -> T -> bool) (a b : list T) (i : nat) : option nat :=
  match a, b with
  | [], [] => None
  | x :: xs, y :: ys => if e x y then first_diff19 e xs ys (S i) else Some i
  | _, _ => Some i
  end.

Definition check_ops (h : dregs FA * list dop * list (res (databox FA))) : nat :=
  let '(init, ops, outs) := h in
  match first_diff19 (res_eqb databox_eqb) (snd (drun FA init ops)) outs 0 with
  | None => 0%nat
  | Some i => S i
  end.

(* as check_ops; then EVERY databox of the session after the history is compared (the model has value semantics: an
   implementation whose databoxes share mutable items shows up here).  1000 = the step results agree but the final
   state of some databox differs *)
Definition check_ops_all (h : dregs FA * list dop * list (res (databox FA)) * option (list (databox FA))) : nat :=
  let '(init, ops, outs, finals) := h in
  match check_ops (init, ops, outs) with
  | O => match finals with
         | None => 0%nat
         | Some fin => if list_eqb databox_eqb (fst (drun FA init ops)) fin then 0%nat else 1000%nat
         end
  | c => c
  end.

End Cases.

(* indices and codes of the failing cases *)
Fixpoint failing_codes (l : list nat) (i : nat) : list (nat * nat) :=
  match l with
  | [] => []
  | O :: r => failing_codes r (S i)
  | c :: r => (i, c) :: failing_codes r (S i)
  end.
