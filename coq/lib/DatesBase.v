(* Small types shared by the generated fragment gen/DatesGen.v and the Dates model. *)
From Coq Require Import ZArith List.
Import ListNotations.
Open Scope Z_scope.

(* target of a keyword arm of Period.shift *)
Inductive shift_target :=
| TFun (f : Z -> Z -> Z)      (* arm computed from (frequency value, serial) *)
| TSoy | TEoy | TEopy | TTty. (* self.create_soy() / create_eoy() / create_eopy() / create_tty() *)

(* dict lookup with integer keys *)
Fixpoint zassoc {T} (k : Z) (l : list (Z * T)) : option T :=
  match l with
  | [] => None
  | (k', v) :: r => if k =? k' then Some v else zassoc k r
  end.
