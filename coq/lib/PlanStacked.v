(* C07 for method="stacked_time": consequences of the frames / wrt_spots model of C06 (model/Stacked.v,
   proofs/StackedProofs.v) for simulation plans.  Plain stdlib style. *)
From Coq Require Import ZArith List Bool Lia.
From Verif Require Import gen.FramesGen model.Frames model.Stacked proofs.StackedProofs.
Import ListNotations.
Open Scope Z_scope.

(* outside the rows of the endogenous (transition) variables, the only unknown cells of a frame are the
   endogenized cells of the plan: anticipated ones in any column of the frame, unanticipated ones in its
   first column *)
Theorem shock_unknowns_are_endogenized : forall p cols qids q c,
  ~ In q qids -> In (q, c) (wrt_spots (Some p) cols qids) -> In (q, c) (endogenized_spots p cols).
Proof.
  intros p cols qids q c Hq Hw.
  destruct (wrt_spots_algebra p cols qids) as [A _]. apply A in Hw.
  destruct Hw as [[Hb _]|He]; auto.
  apply base_spots_In in Hb. tauto.
Qed.

(* an exogenized cell of an endogenous variable is not unknown (unless it is also endogenized) and the unknowns
   are the endogenous cells minus the exogenized plus the endogenized ones: the swap *)
Theorem swapped_unknowns : forall p cols qids s,
  In s (wrt_spots (Some p) cols qids) <->
  (In s (base_spots cols qids) /\ ~ In s (exogenized_spots p cols)) \/ In s (endogenized_spots p cols).
Proof. intros p cols qids s. destruct (wrt_spots_algebra p cols qids) as [A _]. apply A. Qed.

Section Frames.
Context {V : Type}.
Variable dflt : V.

(* a cell of a shock row (not endogenous, not a terminal-condition row, not a log row) that the plan does not
   endogenize in this frame keeps the value it had before the frame was simulated *)
Theorem shock_cell_kept : forall pre oracle p cols qids term q c,
  ~ In q qids ->
  match term with Some t => ~ In q (t_curr_xi_qids t) /\ ~ In q (t_logly t) | None => True end ->
  ~ In (q, c) (endogenized_spots p cols) ->
  get dflt (frame_after dflt pre oracle (wrt_spots (Some p) cols qids) term) q c = get dflt pre q c.
Proof.
  intros pre oracle p cols qids term q c Hq Ht He.
  apply frame_after_untouched. unfold touched.
  assert (E : smem (q, c) (wrt_spots (Some p) cols qids) = false).
  { apply smem_false. intros Hw. apply He. eapply shock_unknowns_are_endogenized; eauto. }
  rewrite E. simpl. destruct term as [t|]; auto.
  destruct Ht as [H1 H2].
  assert (E1 : zmem q (t_curr_xi_qids t) = false).
  { destruct (zmem q (t_curr_xi_qids t)) eqn:Z; auto. apply zmem_In in Z. contradiction. }
  assert (E2 : zmem q (t_logly t) = false).
  { destruct (zmem q (t_logly t)) eqn:Z; auto. apply zmem_In in Z. contradiction. }
  rewrite E1, E2. reflexivity.
Qed.

End Frames.
