(* Scalar carrier of the algorithmic-differentiation model (C02): one text of the
   rules (gen/AldiGen.v, regenerated from aldi/differentiators.py) and of the
   tree evaluator (model/AldiTree.v), two instances:
   - [RD]     Coq's reals (lib/DualR.v): what the theorems are about;
   - [FD tb]  IEEE-754 binary64 through PrimFloat: what is run against numpy.
              + - * / sqrt and comparisons are the primitive (bit-exact) operations;
              exp/ln/power/expit/normal_pdf are software approximations (~1e-15
              relative; libm is a black box), compared with a tolerance;
              normal_cdf of a literal constant is looked up in a table recorded
              from scipy.
   NO proofs in this file. *)
From Coq Require Import ZArith List Bool PrimFloat Uint63 FloatOps.
Import ListNotations.

Record DArith := mkDArith {
  dcar : Type;
  dadd : dcar -> dcar -> dcar;
  dsub : dcar -> dcar -> dcar;
  dmul : dcar -> dcar -> dcar;
  ddiv : dcar -> dcar -> dcar;
  dneg : dcar -> dcar;
  dofZ : Z -> dcar;
  dln : dcar -> dcar;
  dexp : dcar -> dcar;
  dsqrt : dcar -> dcar;
  dexpit : dcar -> dcar;           (* scipy.special.expit *)
  dpow : dcar -> dcar -> dcar;     (* Python/numpy ** *)
  dabs : dcar -> dcar;
  dmax : dcar -> dcar -> dcar;
  dmin : dcar -> dcar -> dcar;
  dnpdf : dcar -> dcar;            (* scipy.stats.norm.pdf *)
  dncdf : dcar -> dcar;            (* scipy.stats.norm.cdf *)
  dltb : dcar -> dcar -> bool;
  deqb : dcar -> dcar -> bool
}.

(* ----------------------------------------------------------------- floats *)

Definition float_of_Z (z : Z) : float :=
  match z with
  | Z0 => 0%float
  | Zpos _ => PrimFloat.of_uint63 (Uint63.of_Z z)
  | Zneg p => PrimFloat.opp (PrimFloat.of_uint63 (Uint63.of_Z (Zpos p)))
  end.

Module FloatFun.
Open Scope float_scope.
Definition ln2_hi := 0x1.62e42fee00000p-1.
Definition ln2_lo := 0x1.a39ef35793c76p-33.
Definition inv_ln2 := 0x1.71547652b82fep+0.
Definition sqrt_half := 0x1.6a09e667f3bcdp-1.
Definition sqrt_2pi := 0x1.40d931ff62706p+1.

Definition fround (x : float) : float := let big := 0x1.8p+52 in (x + big) - big.

Fixpoint exp_taylor (n : nat) (k : float) (r acc : float) : float :=
  match n with
  | O => acc
  | S n' => exp_taylor n' (k - 1) r (1 + r / k * acc)
  end.

(* an integer-valued float as Z *)
Definition Z_of_float_int (x : float) : Z :=
  let ax := PrimFloat.abs x in
  let '(m, e) := frshiftexp ax in
  let z := Uint63.to_Z (normfr_mantissa m) in
  let ee := (Uint63.to_Z e - FloatOps.shift - 53)%Z in
  let v := (if (0 <=? ee)%Z then z * 2 ^ ee else z / 2 ^ (- ee))%Z in
  if PrimFloat.ltb x 0 then (- v)%Z else v.

Definition fexp (x : float) : float :=
  if PrimFloat.is_nan x then nan else
  if PrimFloat.ltb 0x1.63p+9 x then infinity else
  if PrimFloat.ltb x (-0x1.75p+9) then 0 else
  let k := fround (x * inv_ln2) in
  let r := (x - k * ln2_hi) - k * ln2_lo in
  let p := exp_taylor 22 22 r 1 in
  Z.ldexp p (Z_of_float_int k).

Fixpoint atanh_series (n : nat) (k : float) (s2 acc : float) : float :=
  match n with
  | O => acc
  | S n' => atanh_series n' (k - 2) s2 (1 / k + s2 * acc)
  end.

Definition fln (x : float) : float :=
  if PrimFloat.is_nan x then nan else
  if PrimFloat.ltb x 0 then nan else
  if PrimFloat.eqb x 0 then neg_infinity else
  if PrimFloat.eqb x infinity then infinity else
  let '(m, e) := Z.frexp x in
  let '(m, e) := if PrimFloat.ltb m sqrt_half then (m * 2, (e - 1)%Z) else (m, e) in
  let s := (m - 1) / (m + 1) in
  let s2 := s * s in
  let q := atanh_series 15 29 s2 0 in
  let lnm := 2 * s * q in
  let ef := float_of_Z e in
  ef * ln2_hi + (lnm + ef * ln2_lo).

Definition is_int_float (y : float) : bool :=
  PrimFloat.ltb (PrimFloat.abs y) 0x1p+52 && PrimFloat.eqb (fround y) y.

(* x ** y for the cases the generators produce: positive base, or integer exponent *)
Definition fpow (x y : float) : float :=
  if PrimFloat.is_nan x || PrimFloat.is_nan y then nan else
  if PrimFloat.eqb y 0 then 1 else
  if PrimFloat.ltb 0 x then fexp (y * fln x) else
  if PrimFloat.eqb x 0 then (if PrimFloat.ltb 0 y then 0 else infinity) else
  if is_int_float y then
    let r := fexp (y * fln (PrimFloat.abs x)) in
    if Z.even (Z_of_float_int y) then r else - r
  else nan.

Definition fexpit (x : float) : float := 1 / (1 + fexp (- x)).
Definition fnpdf (x : float) : float := fexp (- (x * x) / 2) / sqrt_2pi.
Definition fmax (x y : float) : float :=
  if PrimFloat.is_nan x then x else if PrimFloat.is_nan y then y else if PrimFloat.ltb x y then y else x.
Definition fmin (x y : float) : float :=
  if PrimFloat.is_nan x then x else if PrimFloat.is_nan y then y else if PrimFloat.ltb y x then y else x.
End FloatFun.

Definition feq (x y : float) : bool :=
  if PrimFloat.is_nan x then PrimFloat.is_nan y
  else if PrimFloat.is_nan y then false
  else PrimFloat.eqb x y.

Fixpoint flookup (t : list (float * float)) (x : float) : float :=
  match t with
  | [] => 0x1.deadp+999%float
  | (k, v) :: r => if feq k x then v else flookup r x
  end.

Definition FD (tb : list (float * float)) : DArith := {|
  dcar := float; dadd := PrimFloat.add; dsub := PrimFloat.sub; dmul := PrimFloat.mul;
  ddiv := PrimFloat.div; dneg := PrimFloat.opp; dofZ := float_of_Z;
  dln := FloatFun.fln; dexp := FloatFun.fexp; dsqrt := PrimFloat.sqrt;
  dexpit := FloatFun.fexpit; dpow := FloatFun.fpow; dabs := PrimFloat.abs;
  dmax := FloatFun.fmax; dmin := FloatFun.fmin; dnpdf := FloatFun.fnpdf; dncdf := flookup tb;
  dltb := PrimFloat.ltb; deqb := PrimFloat.eqb |}.

(* comparison used by the correspondence: exact (NaN = NaN, 0 = -0) or within a
   relative tolerance where a software transcendental function was used *)
Definition fclose (tol x y : float) : bool :=
  if PrimFloat.is_nan x then PrimFloat.is_nan y
  else if PrimFloat.is_nan y then false
  else if PrimFloat.eqb x y then true
  else PrimFloat.leb (PrimFloat.abs (PrimFloat.sub x y))
                     (PrimFloat.mul tol (PrimFloat.add 1 (PrimFloat.abs y))).

Fixpoint failing_idx {T U} (e : T -> U -> bool) (cases : list (T * U)) (i : nat) : list nat :=
  match cases with
  | [] => []
  | (m, x) :: r => if e m x then failing_idx e r (S i) else i :: failing_idx e r (S i)
  end.
