(* PrimFloat instance of the extra operations used by model/SeriesOps.v *)
From Coq Require Import ZArith List Bool PrimFloat.
From Verif Require Import lib.Arith model.Series model.SeriesOps lib.CaseUtil.
Import ListNotations.

Definition FX (t : ftables) : ArithExt (FArith t) :=
  mkExt (FArith t) PrimFloat.abs PrimFloat.sqrt PrimFloat.ltb PrimFloat.eqb.

(* first op index at which the model's output differs from the implementation's; length ops = final registers differ *)
Fixpoint first_diff {T} (e : T -> T -> bool) (a b : list T) (i : nat) : option nat :=
  match a, b with
  | [], [] => None
  | x :: xs, y :: ys => if e x y then first_diff e xs ys (S i) else Some i
  | _, _ => Some i
  end.

Definition check_history (t : ftables)
           (h : list (series (FArith t)) * list (sop (FArith t)) *
                list (res (series (FArith t))) * list (series (FArith t))) : option nat :=
  let '(init, ops, outs, final) := h in
  let '(rs, mo) := run (FArith t) (FX t) init ops in
  match first_diff (res_eqb (series_eqb t)) mo outs 0 with
  | Some i => Some i
  | None => if list_eqb (series_eqb t) rs final then None else Some (length ops)
  end.

Fixpoint failing_histories {H} (chk : H -> option nat) (hs : list H) (i : nat) : list (nat * nat) :=
  match hs with
  | [] => []
  | h :: r => match chk h with
              | None => failing_histories chk r (S i)
              | Some k => (i, k) :: failing_histories chk r (S i)
              end
  end.
