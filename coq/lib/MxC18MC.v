(* MathComp instance of the matrix interface lib/MxC18.v::MatOps over a field F.
   numpy.linalg.solve is NOT defined here: it is a parameter of the instance (a black box); the theorems
   of proofs/RedVarProofs.v assume only its contract (M invertible -> M * solve M N = N). *)
From mathcomp Require Import all_ssreflect all_algebra.
From Verif Require Import lib.MxC18.

Set Implicit Arguments.
Unset Strict Implicit.
Unset Printing Implicit Defensive.

Import GRing.Theory.
Local Open Scope ring_scope.

Section Instance.
Variable F : fieldType.
Variable solve : forall n p : nat, 'M[F]_n -> 'M[F]_(n, p) -> 'M[F]_(n, p).

(* numpy.eye(m, n) *)
Definition eyeR (m n : nat) : 'M[F]_(m, n) := \matrix_(i, j) (i == j :> nat)%:R.
(* X[:, where] for a choice f of column positions *)
Definition colsel (m k N : nat) (f : 'I_k -> 'I_N) (A : 'M[F]_(m, N)) : 'M[F]_(m, k) := \matrix_(i, j) A i (f j).

Definition MC : MatOps := {|
  sc := F;
  mx := fun m n => 'M[F]_(m, n);
  sel := fun k N => 'I_k -> 'I_N;
  sc_of_nat := fun k => k%:R;
  sc_sub := fun a b => a - b;
  sc_inv := fun a => a^-1;
  mmul := fun m n p (A : 'M[F]_(m, n)) (B : 'M[F]_(n, p)) => A *m B;
  madd := fun m n (A B : 'M[F]_(m, n)) => A + B;
  msub := fun m n (A B : 'M[F]_(m, n)) => A - B;
  mscale := fun m n (a : F) (A : 'M[F]_(m, n)) => a *: A;
  mtr := fun m n (A : 'M[F]_(m, n)) => A^T;
  mzero := fun m n => (0 : 'M[F]_(m, n));
  mones := fun m n => (const_mx 1 : 'M[F]_(m, n));
  meye := eyeR;
  mrow := fun m n1 n2 (A : 'M[F]_(m, n1)) (B : 'M[F]_(m, n2)) => row_mx A B;
  mcol := fun m1 m2 n (A : 'M[F]_(m1, n)) (B : 'M[F]_(m2, n)) => col_mx A B;
  mlsub := fun m n1 n2 (A : 'M[F]_(m, n1 + n2)) => lsubmx A;
  mrsub := fun m n1 n2 (A : 'M[F]_(m, n1 + n2)) => rsubmx A;
  musub := fun m1 m2 n (A : 'M[F]_(m1 + m2, n)) => usubmx A;
  mdsub := fun m1 m2 n (A : 'M[F]_(m1 + m2, n)) => dsubmx A;
  mcolsel := colsel;
  msolve := solve;
  mis_zero := fun m n (A : 'M[F]_(m, n)) => A == 0;
|}.
End Instance.
