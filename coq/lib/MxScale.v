(* C01  Integer multiples of a matrix over the interface lib/MxC01.v (k * A with a Python int k, as in
   fords/steadiers.py), by repeated addition.  Definitions only. *)
From Coq Require Import ZArith.
From Verif Require Import lib.MxC01.

Section Scale.
Variable O : MxOps.

Fixpoint mnat {m n} (k : nat) (A : mx O m n) : mx O m n :=
  match k with
  | 0 => mzero O m n
  | S k' => madd A (mnat k' A)
  end.

Definition mscale {m n} (k : Z) (A : mx O m n) : mx O m n :=
  match k with
  | Z0 => mzero O m n
  | Zpos p => mnat (Pos.to_nat p) A
  | Zneg p => mopp (mnat (Pos.to_nat p) A)
  end.

End Scale.
