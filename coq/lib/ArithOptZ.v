(* A lawful carrier with a recognisable missing value: option Z (None = missing).
   Used to show that the carrier laws assumed by the Series theorems are satisfiable. *)
From Coq Require Import ZArith List Bool.
From Verif Require Import lib.Arith.

Definition lift2 (f : Z -> Z -> Z) (a b : option Z) : option Z :=
  match a, b with Some x, Some y => Some (f x y) | _, _ => None end.

Definition OZArith : Arith := {|
  car := option Z;
  add := lift2 Z.add; sub := lift2 Z.sub; mul := lift2 Z.mul; div := lift2 Z.div;
  neg := option_map Z.opp; ofZ := Some;
  ln := fun x => x; exp := fun x => x; pow := lift2 Z.pow;
  miss := None;
  is_miss := fun x => match x with None => true | Some _ => false end |}.

Lemma OZ_miss_law : forall x : car OZArith, is_miss OZArith x = true -> x = miss OZArith.
Proof. intros [x|] H; [discriminate|reflexivity]. Qed.

Lemma OZ_miss_is_miss : is_miss OZArith (miss OZArith) = true.
Proof. reflexivity. Qed.
