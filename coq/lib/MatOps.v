(* Dimension-indexed matrix interface: one model text, several carriers (DESIGN.md 1.3, 2).

   A model of matrix code is written once over a record [MatOps] of operations
   on a family [mx m n].  Two instances:
     - lib/MatMC.v   : MathComp's 'M[F]_(m,n) over a field, used by every proof;
     - [ListMat S]   : [list (list (sc S))] (dimensions are passed explicitly, the
                       representation does not depend on them) over a record of
                       scalar operations, instantiated on exact rationals
                       ([BQ], Bignums' bigQ) for the tolerance correspondences.
   The executable instance has a Gauss-Jordan inverse and determinant.

   Scalars that involve a logarithm (likelihoods) live in a separate carrier
   [lg]: the model only ever forms rational linear combinations of logarithms,
   so the executable instance keeps them symbolic ([LogLin]) and the harness
   evaluates the final form numerically. *)
From Coq Require Import List Bool ZArith Arith.
From Bignums Require Import BigZ BigQ.
Import ListNotations.

Fixpoint count_true (m : list bool) : nat :=
  match m with [] => 0 | true :: r => S (count_true r) | false :: r => count_true r end.

Record MatOps := mkMatOps {
  sc : Type;
  mx : nat -> nat -> Type;
  (* scalars *)
  s0 : sc; s1 : sc;
  sadd : sc -> sc -> sc; ssub : sc -> sc -> sc; smul : sc -> sc -> sc; sdiv : sc -> sc -> sc;
  sopp : sc -> sc; sofnat : nat -> sc; s_is0 : sc -> bool;
  (* matrices *)
  mzero : forall m n, mx m n;
  mid : forall n, mx n n;
  madd : forall m n, mx m n -> mx m n -> mx m n;
  msub : forall m n, mx m n -> mx m n -> mx m n;
  mopp : forall m n, mx m n -> mx m n;
  mscale : forall m n, sc -> mx m n -> mx m n;
  mmul : forall m n p, mx m n -> mx n p -> mx m p;
  mtr : forall m n, mx m n -> mx n m;
  minv : forall n, mx n n -> mx n n;
  mdet : forall n, mx n n -> sc;
  m11 : mx 1 1 -> sc;
  (* rows selected by a boolean mask / by a list of row numbers *)
  msel : forall m n (mask : list bool), mx m n -> mx (count_true mask) n;
  mrows : forall m n (idx : list nat), mx m n -> mx (length idx) n;
  (* block constructors and projections *)
  mrow : forall m n1 n2, mx m n1 -> mx m n2 -> mx m (n1 + n2);
  mcol : forall m1 m2 n, mx m1 n -> mx m2 n -> mx (m1 + m2) n;
  mblock : forall m1 m2 n1 n2, mx m1 n1 -> mx m1 n2 -> mx m2 n1 -> mx m2 n2 -> mx (m1 + m2) (n1 + n2);
  mlsub : forall m n1 n2, mx m (n1 + n2) -> mx m n1;
  mrsub : forall m n1 n2, mx m (n1 + n2) -> mx m n2;
  musub : forall m1 m2 n, mx (m1 + m2) n -> mx m1 n;
  mdsub : forall m1 m2 n, mx (m1 + m2) n -> mx m2 n;
  (* observation *)
  mentries : forall m n, mx m n -> list (list sc);
  mdiag : forall n, mx n n -> list sc;
  mdiagm : forall n, list sc -> mx n n;          (* numpy.diag of a vector *)
  (* scalars with logarithms *)
  lg : Type;
  lg_of : sc -> lg;
  lg_add : lg -> lg -> lg;
  lg_scale : sc -> lg -> lg;
  lg_log : sc -> lg;
  lg_log2pi : lg
}.

Arguments mzero M m n : rename.
Arguments mid M n : rename.
Arguments madd M {m n} : rename.
Arguments msub M {m n} : rename.
Arguments mopp M {m n} : rename.
Arguments mscale M {m n} : rename.
Arguments mmul M {m n p} : rename.
Arguments mtr M {m n} : rename.
Arguments minv M {n} : rename.
Arguments mdet M {n} : rename.
Arguments msel M {m n} : rename.
Arguments mrows M {m n} : rename.
Arguments mrow M {m n1 n2} : rename.
Arguments mcol M {m1 m2 n} : rename.
Arguments mblock M {m1 m2 n1 n2} : rename.
Arguments mlsub M {m n1 n2} : rename.
Arguments mrsub M {m n1 n2} : rename.
Arguments musub M {m1 m2 n} : rename.
Arguments mdsub M {m1 m2 n} : rename.
Arguments mentries M {m n} : rename.
Arguments mdiag M {n} : rename.
Arguments mdiagm M n : rename.

(* ------------------------------------------------------------------ *)
(* Executable instance on lists                                        *)
(* ------------------------------------------------------------------ *)

Record ScalarOps := mkScalarOps {
  car : Type;
  c0 : car; c1 : car;
  cadd : car -> car -> car; csub : car -> car -> car; cmul : car -> car -> car; cdiv : car -> car -> car;
  copp : car -> car; cofnat : nat -> car; cis0 : car -> bool
}.

Section ListMat.
Variable S : ScalarOps.
Notation T := (car S).
Definition lmx := list (list T).

Fixpoint map2 {A B C} (f : A -> B -> C) (a : list A) (b : list B) : list C :=
  match a, b with x :: xs, y :: ys => f x y :: map2 f xs ys | _, _ => [] end.

Definition l_zero (m n : nat) : lmx := repeat (repeat (c0 S) n) m.
Definition l_id (n : nat) : lmx :=
  map (fun i => map (fun j => if Nat.eqb i j then c1 S else c0 S) (seq 0 n)) (seq 0 n).
Definition l_add (A B : lmx) : lmx := map2 (map2 (cadd S)) A B.
Definition l_sub (A B : lmx) : lmx := map2 (map2 (csub S)) A B.
Definition l_opp (A : lmx) : lmx := map (map (copp S)) A.
Definition l_scale (c : T) (A : lmx) : lmx := map (map (cmul S c)) A.
Definition l_col (j : nat) (A : lmx) : list T := map (fun r => nth j r (c0 S)) A.
Definition l_tr (n : nat) (A : lmx) : lmx := map (fun j => l_col j A) (seq 0 n).
Definition l_dot (a b : list T) : T := fold_left (cadd S) (map2 (cmul S) a b) (c0 S).
Definition l_mul (p : nat) (A B : lmx) : lmx :=
  let Bt := l_tr p B in map (fun r => map (fun c => l_dot r c) Bt) A.

(* Gauss-Jordan elimination on the rows [done ++ todo]; column [c] is processed next.
   Returns the reduced rows, the product of the pivots and the parity of the row moves. *)
Fixpoint find_pivot (c : nat) (rows : list (list T)) (skipped : list (list T))
  : option (list T * list (list T) * nat) :=
  match rows with
  | [] => None
  | r :: rest => if cis0 S (nth c r (c0 S)) then find_pivot c rest (skipped ++ [r])
                 else Some (r, skipped ++ rest, length skipped)
  end.

Definition row_axpy (f : T) (piv r : list T) : list T := map2 (fun x y => csub S x (cmul S f y)) r piv.
Definition eliminate (c : nat) (piv : list T) (r : list T) : list T :=
  let f := nth c r (c0 S) in if cis0 S f then r else row_axpy f piv r.

Fixpoint gauss_jordan (fuel c : nat) (done todo : list (list T)) (prod : T) (moves : nat)
  : option (list (list T) * T * nat) :=
  match fuel with
  | O => Some (done, prod, moves)
  | Datatypes.S fuel' =>
      match find_pivot c todo [] with
      | None => None
      | Some (piv, rest, k) =>
          let d := nth c piv (c0 S) in
          let piv' := map (fun x => cdiv S x d) piv in
          gauss_jordan fuel' (Datatypes.S c)
            (map (eliminate c piv') done ++ [piv']) (map (eliminate c piv') rest)
            (cmul S prod d) (moves + k)
      end
  end.

Definition l_inv (n : nat) (A : lmx) : lmx :=
  let W := map2 (fun r e => r ++ e) A (l_id n) in
  match gauss_jordan n 0 [] W (c1 S) 0 with
  | Some (R, _, _) => map (skipn n) R
  | None => l_zero n n          (* singular: the MathComp instance also returns a non-inverse *)
  end.

Definition l_det (n : nat) (A : lmx) : T :=
  match gauss_jordan n 0 [] A (c1 S) 0 with
  | Some (_, p, k) => if Nat.even k then p else copp S p
  | None => c0 S
  end.

Fixpoint l_sel {A} (mask : list bool) (rows : list A) : list A :=
  match mask, rows with
  | true :: ms, r :: rs => r :: l_sel ms rs
  | false :: ms, _ :: rs => l_sel ms rs
  | _, _ => []
  end.
Definition l_rows (n : nat) (idx : list nat) (A : lmx) : lmx :=
  map (fun i => nth i A (repeat (c0 S) n)) idx.

Definition l_diagm (n : nat) (l : list T) : lmx :=
  map (fun i => map (fun j => if Nat.eqb i j then nth i l (c0 S) else c0 S) (seq 0 n)) (seq 0 n).
Definition l_diag (A : lmx) : list T := map (fun ir => nth (fst ir) (snd ir) (c0 S)) (combine (seq 0 (length A)) A).

(* q + sum_i c_i * log x_i + k * log(2 pi), kept symbolic *)
Record loglin := mkLogLin { ll_rat : T; ll_logs : list (T * T); ll_2pi : T }.
Definition ll_of (x : T) := mkLogLin x [] (c0 S).
Definition ll_add (a b : loglin) :=
  mkLogLin (cadd S (ll_rat a) (ll_rat b)) (ll_logs a ++ ll_logs b) (cadd S (ll_2pi a) (ll_2pi b)).
Definition ll_scale (c : T) (a : loglin) :=
  mkLogLin (cmul S c (ll_rat a)) (map (fun cx => (cmul S c (fst cx), snd cx)) (ll_logs a)) (cmul S c (ll_2pi a)).
Definition ll_log (x : T) := mkLogLin (c0 S) [(c1 S, x)] (c0 S).
Definition ll_log2pi := mkLogLin (c0 S) [] (c1 S).

Definition ListMat : MatOps := {|
  sc := T; mx := fun _ _ => lmx;
  s0 := c0 S; s1 := c1 S; sadd := cadd S; ssub := csub S; smul := cmul S; sdiv := cdiv S;
  sopp := copp S; sofnat := cofnat S; s_is0 := cis0 S;
  mzero := l_zero; mid := l_id;
  madd := fun _ _ => l_add; msub := fun _ _ => l_sub; mopp := fun _ _ => l_opp;
  mscale := fun _ _ => l_scale;
  mmul := fun _ _ p => l_mul p;
  mtr := fun _ n => l_tr n;
  minv := l_inv; mdet := l_det;
  m11 := fun A => nth 0 (nth 0 A []) (c0 S);
  msel := fun _ _ mask A => l_sel mask A;
  mrows := fun _ n idx A => l_rows n idx A;
  mrow := fun _ _ _ A B => map2 (fun r e => r ++ e) A B;
  mcol := fun _ _ _ A B => A ++ B;
  mblock := fun _ _ _ _ A B C D => map2 (fun r e => r ++ e) A B ++ map2 (fun r e => r ++ e) C D;
  mlsub := fun _ n1 _ A => map (firstn n1) A;
  mrsub := fun _ n1 _ A => map (skipn n1) A;
  musub := fun m1 _ _ A => firstn m1 A;
  mdsub := fun m1 _ _ A => skipn m1 A;
  mentries := fun _ _ A => A;
  mdiag := fun _ A => l_diag A;
  mdiagm := l_diagm;
  lg := loglin; lg_of := ll_of; lg_add := ll_add; lg_scale := ll_scale; lg_log := ll_log;
  lg_log2pi := ll_log2pi
|}.
End ListMat.

(* ------------------------------------------------------------------ *)
(* exact rationals                                                      *)
(* ------------------------------------------------------------------ *)

Definition BQ : ScalarOps := {|
  car := bigQ; c0 := 0%bigQ; c1 := 1%bigQ;
  cadd := fun x y => BigQ.red (BigQ.add x y);
  csub := fun x y => BigQ.red (BigQ.sub x y);
  cmul := fun x y => BigQ.red (BigQ.mul x y);
  cdiv := fun x y => BigQ.red (BigQ.div x y);
  copp := BigQ.opp;
  cofnat := fun k => BigQ.Qz (BigZ.of_Z (Z.of_nat k));
  cis0 := fun x => BigQ.eqb x 0%bigQ
|}.

Definition QMat : MatOps := ListMat BQ.

(* x = m * 2^e for a double given as an integer mantissa and a binary exponent *)
Definition bq_of_dyadic (m e : Z) : bigQ :=
  match e with
  | Z0 => BigQ.Qz (BigZ.of_Z m)
  | Zpos p => BigQ.Qz (BigZ.of_Z (m * Z.pow 2 (Zpos p)))
  | Zneg p => BigQ.red (BigQ.div (BigQ.Qz (BigZ.of_Z m)) (BigQ.Qz (BigZ.of_Z (Z.pow 2 (Zpos p)))))
  end.

(* |a - b| <= tol * (1 + |b|) *)
Definition bq_leb (x y : bigQ) : bool := match BigQ.compare x y with Gt => false | _ => true end.
Definition bq_abs (x : bigQ) : bigQ := if bq_leb 0%bigQ x then x else BigQ.opp x.
Definition bq_close (tol a b : bigQ) : bool :=
  bq_leb (bq_abs (BigQ.sub a b)) (BigQ.mul tol (BigQ.add 1%bigQ (bq_abs b))).

(* a rational as (numerator, denominator) shortened to about 256 significant bits, for printing *)
Definition bq_approx (x : bigQ) : Z * Z :=
  let q := BigQ.to_Q (BigQ.red x) in
  let nu := QArith_base.Qnum q in let de := Zpos (QArith_base.Qden q) in
  let b := Z.max (Z.log2 (Z.abs nu)) (Z.log2 de) in
  let s := Z.max 0 (b - 256) in
  (Z.shiftr nu s, Z.shiftr de s).

(* ------------------------------------------------------------------ *)
(* fixed point: integers counting units of 2^-fx_K                      *)
(* ------------------------------------------------------------------ *)
(* Exact rationals grow by hundreds of bits per Kalman period and their normalisation (gcd) is
   quadratic; for all but the smallest cases the correspondences therefore evaluate the same model
   text in fixed-point arithmetic with a resolution of 2^-384 (every operation is exact up to one
   unit of 2^-384; this is a reference evaluation about 100 decimal digits finer than the doubles
   it is compared with, not a field). *)
Definition fx_K : bigZ := 384%bigZ.
Definition fx_one : bigZ := BigZ.shiftl 1%bigZ fx_K.

Definition FX : ScalarOps := {|
  car := bigZ; c0 := 0%bigZ; c1 := fx_one;
  cadd := BigZ.add; csub := BigZ.sub;
  cmul := fun x y => BigZ.shiftr (BigZ.mul x y) fx_K;
  cdiv := fun x y => BigZ.div (BigZ.shiftl x fx_K) y;
  copp := BigZ.opp;
  cofnat := fun k => BigZ.shiftl (BigZ.of_Z (Z.of_nat k)) fx_K;
  cis0 := fun x => BigZ.eqb x 0%bigZ
|}.

Definition FXMat : MatOps := ListMat FX.

Definition fx_of_dyadic (m e : Z) : bigZ :=
  let s := (e + 384)%Z in
  match s with
  | Zneg p => BigZ.shiftr (BigZ.of_Z m) (BigZ.of_Z (Zpos p))
  | _ => BigZ.shiftl (BigZ.of_Z m) (BigZ.of_Z s)
  end.
Definition fx_abs (x : bigZ) : bigZ := BigZ.abs x.
Definition fx_close (tol a b : bigZ) : bool :=
  BigZ.leb (fx_abs (BigZ.sub a b)) (BigZ.shiftr (BigZ.mul tol (BigZ.add fx_one (fx_abs b))) fx_K).
Definition fx_approx (x : bigZ) : Z * Z := (BigZ.to_Z x, BigZ.to_Z fx_one).

(* what a correspondence needs from a scalar carrier *)
Record CaseScalar := mkCaseScalar {
  cs_ops : ScalarOps;
  cs_of_dyadic : Z -> Z -> car cs_ops;
  cs_close : car cs_ops -> car cs_ops -> car cs_ops -> bool;     (* tolerance, model value, implementation value *)
  cs_approx : car cs_ops -> Z * Z;
  cs_print : car cs_ops -> list bigZ       (* [count of 2^-384] for fixed point, [numerator; denominator] for rationals *)
}.
Definition bq_print (x : bigQ) : list bigZ :=
  match BigQ.red x with
  | BigQ.Qz z => [z; 1%bigZ]
  | BigQ.Qq z d => [z; BigZ.Pos d]
  end.
Definition CBQ : CaseScalar := mkCaseScalar BQ bq_of_dyadic bq_close bq_approx bq_print.
Definition CFX : CaseScalar := mkCaseScalar FX fx_of_dyadic fx_close fx_approx (fun x => [x]).
