(* Proleptic Gregorian calendar, as implemented by CPython's datetime.date:
   ordinal 1 = 0001-01-01; date(y,m,d).toordinal() = ord_of_ymd y m d;
   date.fromordinal(n) = ymd_of_ord n.  Tied to CPython by the C09/C11
   correspondence runs (every year and month boundary, rolling hash over all
   ordinals in the thorough tier).  Definitions first, theorems below. *)
From Coq Require Import ZArith Lia Bool List.
Import ListNotations.
Open Scope Z_scope.

(* ------------------------------------------------------------------ definitions *)

Definition is_leap (y : Z) : bool :=
  ((y mod 4 =? 0) && negb (y mod 100 =? 0)) || (y mod 400 =? 0).

Definition year_len (y : Z) : Z := if is_leap y then 366 else 365.

(* number of days before January 1st of year y *)
Definition days_before_year (y : Z) : Z :=
  365 * (y - 1) + (y - 1) / 4 - (y - 1) / 100 + (y - 1) / 400.

Definition days_in_month (y m : Z) : Z :=
  if m =? 2 then (if is_leap y then 29 else 28)
  else if (m =? 4) || (m =? 6) || (m =? 9) || (m =? 11) then 30
  else 31.

Definition leap_add (y : Z) : Z := if is_leap y then 1 else 0.

(* number of days of year y before the first day of month m *)
Definition days_before_month (y m : Z) : Z :=
  if m <=? 1 then 0
  else if m =? 2 then 31
  else (if m =? 3 then 59 else if m =? 4 then 90 else if m =? 5 then 120 else if m =? 6 then 151
        else if m =? 7 then 181 else if m =? 8 then 212 else if m =? 9 then 243 else if m =? 10 then 273
        else if m =? 11 then 304 else 334) + leap_add y.

Definition ord_of_ymd (y m d : Z) : Z := days_before_year y + days_before_month y m + d.

Definition valid_ymd (y m d : Z) : Prop := 1 <= y /\ 1 <= m <= 12 /\ 1 <= d <= days_in_month y m.

Definition valid_ymdb (y m d : Z) : bool :=
  (1 <=? y) && (1 <=? m) && (m <=? 12) && (1 <=? d) && (d <=? days_in_month y m).

(* year containing ordinal n: a guess from the mean year length, corrected by at most one *)
Definition year_of_ord (n : Z) : Z :=
  let y := (400 * (n - 1)) / 146097 + 1 in
  if n <=? days_before_year y then y - 1
  else if days_before_year (y + 1) <? n then y + 1
  else y.

(* month containing the k-th day (1-based) of year y *)
Definition month_of_doy (y k : Z) : Z :=
  let b := leap_add y in
  if k <=? 31 then 1 else if k <=? 59 + b then 2 else if k <=? 90 + b then 3 else if k <=? 120 + b then 4
  else if k <=? 151 + b then 5 else if k <=? 181 + b then 6 else if k <=? 212 + b then 7
  else if k <=? 243 + b then 8 else if k <=? 273 + b then 9 else if k <=? 304 + b then 10
  else if k <=? 334 + b then 11 else 12.

Definition doy_of_ord (n : Z) : Z := n - days_before_year (year_of_ord n).

Definition ymd_of_ord (n : Z) : Z * Z * Z :=
  let y := year_of_ord n in
  let k := n - days_before_year y in
  let m := month_of_doy y k in
  (y, m, k - days_before_month y m).

Definition month_of_ord (n : Z) : Z := snd (fst (ymd_of_ord n)).
Definition day_of_ord (n : Z) : Z := snd (ymd_of_ord n).

(* calendar.monthrange(y, m)[1] *)
Definition monthrange_days (y m : Z) : Z := days_in_month y m.

(* the range of datetime.date *)
Definition MINYEAR : Z := 1.
Definition MAXYEAR : Z := 9999.
Definition max_ordinal : Z := 3652059.

(* datetime.date(y, m, d) is accepted (no ValueError) *)
Definition date_ok (y m d : Z) : bool := valid_ymdb y m d && (y <=? MAXYEAR).
(* datetime.date.fromordinal(n) is accepted *)
Definition ord_ok (n : Z) : bool := (1 <=? n) && (n <=? max_ordinal).

(* lexicographic order on (y, m, d) *)
Definition ymd_lt (a b : Z * Z * Z) : Prop :=
  let '(y1, m1, d1) := a in let '(y2, m2, d2) := b in
  y1 < y2 \/ (y1 = y2 /\ (m1 < m2 \/ (m1 = m2 /\ d1 < d2))).

(* ------------------------------------------------------------------ theorems *)

Local Ltac Zify.zify_post_hook ::= Z.div_mod_to_equations.

Ltac leap_cases y :=
  unfold is_leap;
  destruct (Z.eqb_spec (y mod 4) 0); destruct (Z.eqb_spec (y mod 100) 0); destruct (Z.eqb_spec (y mod 400) 0);
  cbn [andb orb negb].

Lemma is_leap_spec : forall y,
  is_leap y = true <-> ((y mod 4 = 0 /\ y mod 100 <> 0) \/ y mod 400 = 0).
Proof. intros y. leap_cases y; split; intros; try reflexivity; try discriminate; lia. Qed.

Lemma year_len_pos : forall y, 365 <= year_len y <= 366.
Proof. intros y. unfold year_len. destruct (is_leap y); lia. Qed.

Lemma dby_succ : forall y, days_before_year (y + 1) = days_before_year y + year_len y.
Proof.
  intros y. unfold days_before_year, year_len.
  replace (y + 1 - 1) with y by lia.
  leap_cases y; lia.
Qed.

Lemma dby_pred : forall y, days_before_year y = days_before_year (y - 1) + year_len (y - 1).
Proof. intros y. rewrite <- dby_succ. f_equal. lia. Qed.

Lemma dby_mono : forall a b, a <= b -> days_before_year a <= days_before_year b.
Proof. intros a b H. unfold days_before_year. lia. Qed.

Lemma dby_strict : forall a b, a < b -> days_before_year a < days_before_year b.
Proof.
  intros a b H. assert (days_before_year (a + 1) <= days_before_year b) by (apply dby_mono; lia).
  rewrite dby_succ in H0. pose proof (year_len_pos a). lia.
Qed.

Lemma dby_1 : days_before_year 1 = 0.
Proof. reflexivity. Qed.

Theorem year_of_ord_spec : forall n,
  days_before_year (year_of_ord n) < n <= days_before_year (year_of_ord n + 1).
Proof.
  intros n. unfold year_of_ord.
  set (y := 400 * (n - 1) / 146097 + 1).
  assert (Hlo : days_before_year (y - 1) < n) by (unfold days_before_year; subst y; lia).
  assert (Hhi : n <= days_before_year (y + 2)) by (unfold days_before_year; subst y; lia).
  destruct (Z.leb_spec n (days_before_year y)).
  - replace (y - 1 + 1) with y by lia. lia.
  - destruct (Z.ltb_spec (days_before_year (y + 1)) n).
    + replace (y + 1 + 1) with (y + 2) by lia. lia.
    + lia.
Qed.

Theorem year_of_ord_unique : forall n y,
  days_before_year y < n <= days_before_year (y + 1) -> year_of_ord n = y.
Proof.
  intros n y H. pose proof (year_of_ord_spec n) as S.
  destruct (Z.lt_trichotomy (year_of_ord n) y) as [L | [E | G]]; [exfalso | exact E | exfalso].
  - assert (days_before_year (year_of_ord n + 1) <= days_before_year y) by (apply dby_mono; lia). lia.
  - assert (days_before_year (y + 1) <= days_before_year (year_of_ord n)) by (apply dby_mono; lia). lia.
Qed.

Lemma year_of_ord_mono : forall a b, a <= b -> year_of_ord a <= year_of_ord b.
Proof.
  intros a b H. pose proof (year_of_ord_spec a). pose proof (year_of_ord_spec b).
  destruct (Z_le_gt_dec (year_of_ord a) (year_of_ord b)); [assumption | exfalso].
  assert (days_before_year (year_of_ord b + 1) <= days_before_year (year_of_ord a)) by (apply dby_mono; lia).
  lia.
Qed.

Lemma year_of_ord_pos : forall n, 1 <= n -> 1 <= year_of_ord n.
Proof.
  intros n H. pose proof (year_of_ord_spec n).
  destruct (Z_le_gt_dec 1 (year_of_ord n)); [assumption | exfalso].
  assert (days_before_year (year_of_ord n + 1) <= days_before_year 1) by (apply dby_mono; lia).
  rewrite dby_1 in *. lia.
Qed.

Lemma doy_range : forall n, 1 <= doy_of_ord n <= year_len (year_of_ord n).
Proof.
  intros n. unfold doy_of_ord. pose proof (year_of_ord_spec n). rewrite dby_succ in H. lia.
Qed.

Ltac month_cases m :=
  let H := fresh in
  assert (H : m = 1 \/ m = 2 \/ m = 3 \/ m = 4 \/ m = 5 \/ m = 6 \/ m = 7 \/ m = 8 \/ m = 9 \/ m = 10
              \/ m = 11 \/ m = 12) by lia;
  repeat (destruct H as [H | H]); subst m.

Lemma dim_range : forall y m, 28 <= days_in_month y m <= 31.
Proof.
  intros y m. unfold days_in_month.
  destruct (m =? 2); [destruct (is_leap y); lia |].
  destruct ((m =? 4) || (m =? 6) || (m =? 9) || (m =? 11)); lia.
Qed.

Lemma dbm_succ : forall y m, 1 <= m < 12 ->
  days_before_month y (m + 1) = days_before_month y m + days_in_month y m.
Proof.
  intros y m H. month_cases m; try lia;
    unfold days_before_month, days_in_month, leap_add; cbn; destruct (is_leap y); reflexivity.
Qed.

Lemma dbm_dec : forall y, days_before_month y 12 + days_in_month y 12 = year_len y.
Proof. intros y. unfold days_before_month, days_in_month, leap_add, year_len. cbn. destruct (is_leap y); reflexivity. Qed.

Lemma dbm_1 : forall y, days_before_month y 1 = 0.
Proof. reflexivity. Qed.

Lemma dbm_mono : forall y a b, 1 <= a -> a <= b -> b <= 12 ->
  days_before_month y a <= days_before_month y b.
Proof.
  intros y a b Ha Hab Hb.
  month_cases a; month_cases b; try lia;
    unfold days_before_month, leap_add; cbn; destruct (is_leap y); lia.
Qed.

Lemma dbm_strict : forall y a b, 1 <= a -> a < b -> b <= 12 ->
  days_before_month y a + days_in_month y a <= days_before_month y b.
Proof.
  intros y a b Ha Hab Hb. rewrite <- dbm_succ by lia. apply dbm_mono; lia.
Qed.

Lemma month_of_doy_spec : forall y k, 1 <= k <= year_len y ->
  let m := month_of_doy y k in
  1 <= m <= 12 /\ days_before_month y m < k <= days_before_month y m + days_in_month y m.
Proof.
  intros y k H. unfold month_of_doy, year_len in *.
  unfold days_before_month, days_in_month, leap_add.
  destruct (is_leap y);
  repeat match goal with |- context [?a <=? ?b] => destruct (Z.leb_spec a b) end;
  cbn; lia.
Qed.

Lemma month_of_doy_unique : forall y k m, 1 <= m <= 12 ->
  days_before_month y m < k <= days_before_month y m + days_in_month y m ->
  month_of_doy y k = m.
Proof.
  intros y k m Hm H.
  assert (Hk : 1 <= k <= year_len y).
  { split.
    - pose proof (dbm_mono y 1 m). rewrite dbm_1 in H0. lia.
    - pose proof (dbm_dec y).
      destruct (Z.eq_dec m 12); [subst; lia |].
      pose proof (dbm_strict y m 12). pose proof (dim_range y 12). lia. }
  pose proof (month_of_doy_spec y k Hk) as S. cbv zeta in S.
  set (m' := month_of_doy y k) in *.
  destruct (Z.lt_trichotomy m' m) as [L | [E | G]]; [exfalso | exact E | exfalso].
  - pose proof (dbm_strict y m' m). lia.
  - pose proof (dbm_strict y m m'). lia.
Qed.

Theorem ord_of_ymd_range : forall y m d, valid_ymd y m d ->
  days_before_year y < ord_of_ymd y m d <= days_before_year (y + 1).
Proof.
  intros y m d (Hy & Hm & Hd). unfold ord_of_ymd. rewrite dby_succ.
  pose proof (dbm_mono y 1 m). rewrite dbm_1 in H.
  pose proof (dbm_dec y).
  destruct (Z.eq_dec m 12); [subst; lia |].
  pose proof (dbm_strict y m 12). pose proof (dim_range y 12). lia.
Qed.

(* fromordinal (toordinal) = id *)
Theorem ymd_of_ord_of_ymd : forall y m d, valid_ymd y m d ->
  ymd_of_ord (ord_of_ymd y m d) = (y, m, d).
Proof.
  intros y m d V. pose proof (ord_of_ymd_range y m d V) as R.
  destruct V as (Hy & Hm & Hd).
  unfold ymd_of_ord. rewrite (year_of_ord_unique _ y R).
  unfold ord_of_ymd.
  replace (days_before_year y + days_before_month y m + d - days_before_year y)
    with (days_before_month y m + d) by lia.
  rewrite (month_of_doy_unique y _ m) by lia.
  f_equal. lia.
Qed.

(* toordinal (fromordinal) = id, and fromordinal returns a valid date *)
Theorem ord_of_ymd_of_ord : forall n,
  let '(y, m, d) := ymd_of_ord n in
  ord_of_ymd y m d = n /\ 1 <= m <= 12 /\ 1 <= d <= days_in_month y m /\ y = year_of_ord n.
Proof.
  intros n. unfold ymd_of_ord.
  pose proof (doy_range n) as R. unfold doy_of_ord in R.
  pose proof (month_of_doy_spec _ _ R) as S. cbv zeta in S.
  unfold ord_of_ymd. repeat split; lia.
Qed.

Theorem ymd_of_ord_valid : forall n, 1 <= n ->
  let '(y, m, d) := ymd_of_ord n in valid_ymd y m d.
Proof.
  intros n H. pose proof (ord_of_ymd_of_ord n) as S.
  destruct (ymd_of_ord n) as [[y m] d]. destruct S as (_ & Hm & Hd & Hy).
  subst y. unfold valid_ymd. pose proof (year_of_ord_pos n H). lia.
Qed.

(* the ordinal is strictly monotone in the lexicographic order of valid dates *)
Theorem ord_of_ymd_lt : forall y1 m1 d1 y2 m2 d2,
  valid_ymd y1 m1 d1 -> valid_ymd y2 m2 d2 ->
  ymd_lt (y1, m1, d1) (y2, m2, d2) -> ord_of_ymd y1 m1 d1 < ord_of_ymd y2 m2 d2.
Proof.
  intros y1 m1 d1 y2 m2 d2 V1 V2 L.
  pose proof (ord_of_ymd_range _ _ _ V1). pose proof (ord_of_ymd_range _ _ _ V2).
  destruct V1 as (? & ? & ?), V2 as (? & ? & ?).
  cbn in L. destruct L as [L | (E & [L | (E2 & L)])].
  - assert (days_before_year (y1 + 1) <= days_before_year y2) by (apply dby_mono; lia). lia.
  - subst y2. unfold ord_of_ymd. pose proof (dbm_strict y1 m1 m2). lia.
  - subst y2 m2. unfold ord_of_ymd. lia.
Qed.

Theorem ord_of_ymd_le_inv : forall y1 m1 d1 y2 m2 d2,
  valid_ymd y1 m1 d1 -> valid_ymd y2 m2 d2 ->
  ord_of_ymd y1 m1 d1 <= ord_of_ymd y2 m2 d2 ->
  (y1, m1, d1) = (y2, m2, d2) \/ ymd_lt (y1, m1, d1) (y2, m2, d2).
Proof.
  intros y1 m1 d1 y2 m2 d2 V1 V2 L.
  destruct (Z.lt_trichotomy y1 y2) as [A | [A | A]].
  - right. cbn. lia.
  - destruct (Z.lt_trichotomy m1 m2) as [B | [B | B]].
    + right. cbn. lia.
    + destruct (Z.lt_trichotomy d1 d2) as [C | [C | C]].
      * right. cbn. lia.
      * left. congruence.
      * exfalso. pose proof (ord_of_ymd_lt _ _ _ _ _ _ V2 V1). cbn in H. lia.
    + exfalso. pose proof (ord_of_ymd_lt _ _ _ _ _ _ V2 V1). cbn in H. lia.
  - exfalso. pose proof (ord_of_ymd_lt _ _ _ _ _ _ V2 V1). cbn in H. lia.
Qed.

Theorem ord_of_ymd_inj : forall y1 m1 d1 y2 m2 d2,
  valid_ymd y1 m1 d1 -> valid_ymd y2 m2 d2 ->
  ord_of_ymd y1 m1 d1 = ord_of_ymd y2 m2 d2 -> (y1, m1, d1) = (y2, m2, d2).
Proof.
  intros. rewrite <- (ymd_of_ord_of_ymd y1 m1 d1), <- (ymd_of_ord_of_ymd y2 m2 d2) by assumption. congruence.
Qed.

(* month and year boundaries: consecutive days *)
Theorem month_boundary : forall y m, 1 <= m < 12 ->
  ord_of_ymd y m (days_in_month y m) + 1 = ord_of_ymd y (m + 1) 1.
Proof. intros y m H. unfold ord_of_ymd. rewrite dbm_succ by lia. lia. Qed.

Theorem year_boundary : forall y, ord_of_ymd y 12 31 + 1 = ord_of_ymd (y + 1) 1 1.
Proof.
  intros y. unfold ord_of_ymd. rewrite dby_succ, dbm_1. pose proof (dbm_dec y).
  assert (days_in_month y 12 = 31) by reflexivity. lia.
Qed.

Theorem ord_jan1 : forall y, ord_of_ymd y 1 1 = days_before_year y + 1.
Proof. intros y. unfold ord_of_ymd. rewrite dbm_1. lia. Qed.

Theorem year_of_ord_of_ymd : forall y m d, valid_ymd y m d -> year_of_ord (ord_of_ymd y m d) = y.
Proof. intros. apply year_of_ord_unique. apply ord_of_ymd_range. assumption. Qed.

Theorem ordinal_range : ord_of_ymd 1 1 1 = 1 /\ ord_of_ymd 9999 12 31 = max_ordinal.
Proof. split; reflexivity. Qed.

Theorem year_in_range : forall n, 1 <= n <= max_ordinal -> MINYEAR <= year_of_ord n <= MAXYEAR.
Proof.
  intros n H. split. { apply year_of_ord_pos. lia. }
  pose proof (year_of_ord_spec n).
  destruct (Z_le_gt_dec (year_of_ord n) MAXYEAR); [assumption | exfalso].
  assert (days_before_year 10000 <= days_before_year (year_of_ord n)) by (apply dby_mono; unfold MAXYEAR in *; lia).
  change (days_before_year 10000) with 3652059 in H1. unfold max_ordinal in H. lia.
Qed.

Lemma valid_ymdb_spec : forall y m d, valid_ymdb y m d = true <-> valid_ymd y m d.
Proof.
  intros. unfold valid_ymdb, valid_ymd. rewrite !andb_true_iff, !Z.leb_le. tauto.
Qed.

(* the day of the year: fromordinal(n) is the doy_of_ord n -th day of its year *)
Theorem doy_of_ord_ymd : forall y m d, valid_ymd y m d ->
  doy_of_ord (ord_of_ymd y m d) = days_before_month y m + d.
Proof.
  intros. unfold doy_of_ord. rewrite year_of_ord_of_ymd by assumption. unfold ord_of_ymd. lia.
Qed.
