(* Helpers of the generated correspondence case files of C03 / C08 (sessions): the state machine
   model/KalmanSession.v instantiated on SYMBOLIC carriers, so that running it says which parameter
   vector's solution, which parameter vector (stds), which expansion matrices and which data column
   the recursion of every call is handed, and how long the memo lists of every variant are after every
   operation.

     values P        = list Z        (one identifier per block of names; the harness uses [structural; stds])
     assign X        = list (option Z)   (None = this block is not assigned)
     solution S      = (mode flag, values it was solved for);  solve1 p = (0, p);  devsol (_, p) = (1, p)
     expansion E     = (basis, solution, k)
     data D          = (column identifier, forward horizon of the anticipated shocks in the data)
     kf / sim        = return everything they are handed *)
From Coq Require Import List ZArith Bool.
From Verif Require Import model.KalmanSession.
Import ListNotations.
Open Scope Z_scope.

Definition P := list Z.
Definition X := list (option Z).
Definition S := (Z * list Z)%type.
Definition E := (bool * S * nat)%type.
Definition D := (Z * option nat)%type.
Definition O := (S * P * list E * D)%type.

Fixpoint assign1 (x : X) (p : P) : P :=
  match x, p with
  | o :: x', v :: p' => (match o with Some w => w | None => v end) :: assign1 x' p'
  | _, _ => p
  end.
Definition solve1 (p : P) : S := (0, p).
Definition devsol (s : S) : S := (1, snd s).
Definition expand (b : bool) (s : S) (k : nat) : E := (b, s, k).
Definition fwd_of (d : D) : option nat := snd d.
Definition kf (s : S) (p : P) (ex : list E) (d : D) : O := (s, p, ex, d).

Notation op := (KalmanSession.op X D).
Notation variant := (KalmanSession.variant P S E).

Definition step := KalmanSession.step P X S E D O assign1 solve1 devsol expand fwd_of kf kf.

Definition zb (b : bool) : Z := if b then 1 else 0.
(* [mode; solved values..; -1; current values..; -1; data column; forward (-1 = no expansion call); number of matrices;
   then per matrix: basis, mode and solved-for values of the expanded solution.., k] *)
Definition flat_E (e : E) : list Z := match e with (b, s, k) => zb b :: fst s :: snd s ++ [Z.of_nat k] end.
Definition flat_O (o : option O) : list Z :=
  match o with
  | None => []
  | Some (s, p, ex, d) =>
      fst s :: snd s ++ [-1] ++ p ++ [-1; fst d; match snd d with Some f => Z.of_nat f | None => -1 end; Z.of_nat (length ex)]
      ++ concat (map flat_E ex)
  end.
Definition flat_shape (v : variant) : list Z :=
  match shape P S E v with (b, a, c) => [zb b; Z.of_nat a; Z.of_nat c] end.

(* per operation: (what the call returns per variant, the shape of every variant afterwards); stops at a raising call *)
Fixpoint trace (ops : list op) (vs : list variant) : list (list (list Z) * list (list Z)) :=
  match ops with
  | [] => []
  | o :: r =>
      match step o vs with
      | (None, _) => [([[-2]], [])]
      | (Some vs', out) => (map flat_O out, map flat_shape vs') :: trace r vs'
      end
  end.

Definition session (p0 : P) (ops : list op) := trace ops (fresh P S E solve1 p0).
