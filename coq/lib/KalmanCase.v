(* Helpers used by the generated correspondence case files of C03 / C08: run the executable
   Kalman model (model/Kalman.v) on a scalar carrier [C] (exact rationals [CBQ], or 2^-384
   fixed point [CFX]), compare with the numbers the implementation returned (exact dyadic
   rationals) within a relative tolerance, and print the likelihood pieces (which involve
   logarithms, kept symbolic) as fractions. *)
From Coq Require Import List ZArith Bool.
From Verif Require Import lib.MatOps model.Kalman.
Import ListNotations.

Section Run.
Variable C : CaseScalar.
Notation S := (cs_ops C).
Notation T := (car S).
Notation QM := (ListMat S).

Definition D (m e : Z) : T := cs_of_dyadic C m e.
(* NB: never through [cofnat]: a unary nat of that size takes seconds to build *)
Definition tol_out : T := cdiv S (D 1 0) (D 10000000 0).      (* 1e-7 *)
Definition tol_init : T := cdiv S (D 1 0) (D 100000000 0).    (* 1e-8 *)

Definition flatten_pout (o : pout QM) : list T :=
  o_predict_xi o ++ o_predict_y o ++ o_predict_var o ++ o_predict_mse_obs o ++
  o_update_xi o ++ o_update_u o ++ o_update_w o ++ o_update_var o ++ o_predict_err o ++
  o_smooth_xi o ++ o_smooth_u o ++ o_smooth_w o ++ o_smooth_var o.

(* indices at which the model's value and the implementation's differ; a length mismatch is
   reported as index 1000000 + (length of the model's list) *)
Fixpoint failing_from (t : T) (i : nat) (m : list T) (e : list (option T)) : list nat :=
  match m, e with
  | [], [] => []
  | x :: m', Some y :: e' =>
      if cs_close C t x y then failing_from t (Datatypes.S i) m' e' else i :: failing_from t (Datatypes.S i) m' e'
  | x :: m', None :: e' => i :: failing_from t (Datatypes.S i) m' e'
  | _, _ => [1000000 + i + length m]
  end.

Definition all_close (t : T) (a b : list (list T)) : bool :=
  forallb (fun rs => forallb (fun xy => cs_close C t (fst xy) (snd xy)) (combine (fst rs) (snd rs))) (combine a b)
  && Nat.eqb (length a) (length b).
Definition all_small (t : T) (a : list (list T)) : bool :=
  forallb (forallb (fun x => cs_close C t x (c0 S))) a.

(* printed forms: scalars are printed by Coq itself (a bigQ as n or n # d, a fixed-point number as its
   integer count of 2^-384); q + k*log(2 pi) + sum c_i*log(x_i) is [q; k; c_1; x_1; c_2; x_2; ...] *)
Definition pr (x : T) := cs_print C x.
Definition approx_ll (l : loglin S) :=
  pr (ll_rat _ l) :: pr (ll_2pi _ l) :: concat (map (fun cx => [pr (fst cx); pr (snd cx)]) (ll_logs _ l)).

Variables n nw nu nyf nxi nur ns : nat.

(* [init_*_s], [Ta_s], [Ka_s], [Pa_s]: the stable blocks (all of it for a model without unit roots), cut out by
   the harness; [Ka_s] is zero in deviation mode *)
Definition run_case (deviation rescale_variance : bool) (s : solution QM n nw nu nyf nxi)
    (init_med : mx QM n 1) (init_mse : mx QM n n) (unknown_init : option (mx QM n nur))
    (Ta_s : mx QM ns ns) (Ka_s : mx QM ns 1) (Pa_s : mx QM ns nu)
    (init_med_s : mx QM ns 1) (init_mse_s : mx QM ns ns) (init_std_u : list T)
    (data : list (pdata QM n nw nu nyf)) (expected : list (option T)) :=
  let k := kalman_filter deviation rescale_variance s init_med init_mse unknown_init data in
  let flat := concat (map flatten_pout (k_periods k)) in
  let lk := k_lik k in
  let t_out := tol_out in let t_init := tol_init in
  (failing_from t_out 0 flat expected,
   [all_close t_init (initialize_med_stable Ta_s Ka_s) init_med_s;
    all_small t_init (lyapunov_residual Ta_s Pa_s (cov_from_std QM nu init_std_u) init_mse_s)],
   (* likelihood: sum_num_obs, [[var_scale]; nll; det_Fi; pe_Fi_pe; contribution_0; contribution_1; ...] *)
   Z.of_nat (l_sum_num_obs lk),
   ([pr (l_var_scale lk)] :: approx_ll (l_nll lk)
     :: map pr (k_det_Fi k) :: map pr (k_pe_Fi_pe k) :: map approx_ll (k_contributions k))).

(* the model's numbers themselves (debugging aid of the harness) *)
Definition dump_case (deviation rescale_variance : bool) (s : solution QM n nw nu nyf nxi)
    (init_med : mx QM n 1) (init_mse : mx QM n n) (unknown_init : option (mx QM n nur))
    (data : list (pdata QM n nw nu nyf)) :=
  let k := kalman_filter deviation rescale_variance s init_med init_mse unknown_init data in
  map pr (concat (map flatten_pout (k_periods k))).
End Run.
