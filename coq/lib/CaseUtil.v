(* Helpers used by the generated correspondence case files (coq/cases scratch). *)
From Coq Require Import ZArith List Bool PrimFloat.
From Verif Require Import lib.Arith model.Series.
Import ListNotations.

Definition opt_eqb {T} (e : T -> T -> bool) (a b : option T) : bool :=
  match a, b with Some x, Some y => e x y | None, None => true | _, _ => false end.

Fixpoint list_eqb {T} (e : T -> T -> bool) (a b : list T) : bool :=
  match a, b with
  | [], [] => true
  | x :: xs, y :: ys => e x y && list_eqb e xs ys
  | _, _ => false
  end.

(* observable state of a float series: frequency only when non-empty *)
Definition series_eqb (t : ftables) (a b : series (FArith t)) : bool :=
  opt_eqb Z.eqb (s_start a) (s_start b)
  && (match s_start a with Some _ => Z.eqb (s_freq a) (s_freq b) | None => true end)
  && Nat.eqb (s_nv a) (s_nv b)
  && list_eqb (list_eqb feq) (s_data a) (s_data b).

Definition res_eqb {T} (e : T -> T -> bool) (a b : res T) : bool :=
  match a, b with
  | Ok x, Ok y => e x y
  | Err i, Err j => Nat.eqb i j
  | _, _ => false
  end.

(* indices of the cases on which model and implementation differ *)
Fixpoint failing {T} (e : T -> T -> bool) (cases : list (T * T)) (i : nat) : list nat :=
  match cases with
  | [] => []
  | (m, x) :: r => if e m x then failing e r (S i) else i :: failing e r (S i)
  end.
