(* Vocabulary of the statement shapes that translator/simreport.py regenerates (gen/SimReportGen.v) from
   simultaneous/_simulate.py (Inlay.simulate: the loops over variants and frames and the failure report),
   wrongdoings.py (the four streams), simultaneous/_slatable_protocols.py (fallbacks / overwrites of the slatable)
   and dataslates/_variants.py (how they are applied to a row).  Types only. *)
From Coq Require Import List Bool.
Import ListNotations.

(* a statement of the loops of Inlay.simulate, as far as the failure report is concerned *)
Inductive fstmt :=
  | FSimulate      (* exit_status = simulator_module.simulate_frame(...) *)
  | FReport        (* if not exit_status.is_success: when_fails_stream.add(...) *)
  | FRecord        (* info_v["exit_status"] += (exit_status, ) : reads the status, changes nothing modelled *)
  | FOther.        (* mentions neither exit_status nor when_fails_stream; no break / continue / return / raise / try *)

Definition fstmt_eqb (a b : fstmt) : bool :=
  match a, b with
  | FSimulate, FSimulate | FReport, FReport | FRecord, FRecord | FOther, FOther => true
  | _, _ => false
  end.

Record sim_prog := mkProg {
  p_frame_body : list fstmt;        (* body of `for frame in frames` *)
  p_after_frames : list fstmt;      (* statements of the variant loop after the frame loop *)
  p_final_raise : bool              (* when_fails_stream._raise() follows the variant loop *)
}.

(* when_fails *)
Inductive wf_kind := WCritical | WError | WWarning | WSilent.

(* Stream.add / Stream._raise of the class STREAM_FACTORY maps the kind to *)
Inductive add_beh := AddRaise | AddAppend | AddIgnore.
Inductive fin_beh := FinNothing | FinErrorIfAny | FinWarnIfAny.

(* the three groups of names of the slatable and the three flags of simulate *)
Inductive group := GParameters | GShocks | GStds.

Definition group_eqb (a b : group) : bool :=
  match a, b with
  | GParameters, GParameters | GShocks, GShocks | GStds, GStds => true
  | _, _ => false
  end.

(* one block `if <flag>: slatable.fallbacks.update(<group values>) else: slatable.overwrites.update(<group values>)`:
   (the group whose values are filed, the group whose *_from_data flag decides) *)
Definition sl_block := (group * group)%type.

(* Variant.from_databox_variant: the post-processing steps in source order *)
Inductive post := PFallbacks | POverwrites.
