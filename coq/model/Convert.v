(* Model of series/_conversions.py: aggregate / disaggregate between regular
   frequencies (serial = year*freq + segment - 1) on the Series model.  NO proofs here. *)
From Coq Require Import ZArith List Bool Lia.
From Verif Require Import lib.Arith model.Series model.SeriesOps.
Import ListNotations.
Open Scope Z_scope.

Section Convert.
Variable A : Arith.
Notation V := (car A).
Notation series := (series A).
Variable X : ArithExt A.

Inductive agg_method := AggMean | AggSum | AggProd | AggFirst | AggLast | AggMin | AggMax.

(* Python's builtin min / max on a sequence: keep the first element unless a later one compares smaller / larger *)
Definition py_min (l : list V) : V :=
  match l with [] => miss A | x :: r => fold_left (fun acc y => if x_ltb A X y acc then y else acc) r x end.
Definition py_max (l : list V) : V :=
  match l with [] => miss A | x :: r => fold_left (fun acc y => if x_ltb A X acc y then y else acc) r x end.

Definition agg_value (m : agg_method) (w : list V) : V :=
  match w with
  | [] => miss A
  | x :: r =>
    match m with
    | AggMean => div A (fold_left (add A) r x) (ofZ A (Z.of_nat (length w)))
    | AggSum => fold_left (add A) r x
    | AggProd => fold_left (mul A) r x
    | AggFirst => x
    | AggLast => last w x
    | AggMin => py_min w
    | AggMax => py_max w
    end
  end.

(* _aggregate_within_data: select, then discard missing, then the method (missing for an empty group) *)
Definition within (m : agg_method) (select : option (list nat)) (discard : bool) (w : list V) : V :=
  let w1 := match select with None => w | Some idx => map (fun i => nth i w (miss A)) idx end in
  let w2 := if discard then filter (fun v => negb (is_miss A v)) w1 else w1 in
  agg_value m w2.

Definition group_rows (s : series) (factor : Z) (l : Z) : list (list V) :=
  map (fun j => row_at A s (l * factor + Z.of_nat j)) (seq 0 (Z.to_nat factor)).

Definition agg_row (m : agg_method) (select : option (list nat)) (discard : bool) (nv : nat)
           (rows : list (list V)) : list V :=
  map (fun c => within m select discard (col_of A rows c)) (seq 0 nv).

(* Series.aggregate for a regular source frequency f_src and a coarser regular target f_tgt *)
Definition aggregate_regular (m : agg_method) (select : option (list nat)) (discard : bool)
           (f_tgt : Z) (s : series) : res series :=
  match s_start s, s_end A s with
  | Some st, Some en =>
      let f_src := s_freq s in
      if f_tgt =? f_src then Ok s
      else if f_src <? f_tgt then Err 1
      else
        let factor := f_src / f_tgt in
        let y0 := st / f_src in
        let y1 := en / f_src in
        Ok (build A f_tgt (s_nv s) (y0 * f_tgt) ((y1 + 1) * f_tgt - 1)
              (fun l => agg_row m select discard (s_nv s) (group_rows s factor l)))
  | _, _ => Err 1
  end.

Inductive dis_method := DisFlat | DisFirst | DisMiddle | DisLast.

Definition dis_keep (d : dis_method) (factor : Z) (j : Z) : bool :=
  match d with
  | DisFlat => true
  | DisFirst => j =? 0
  | DisMiddle => j =? factor / 2
  | DisLast => j =? factor - 1
  end.

(* Series.disaggregate for regular frequencies: value of low period l placed at the high periods l*factor + j *)
Definition disaggregate_regular (d : dis_method) (f_tgt : Z) (s : series) : res series :=
  match s_start s, s_end A s with
  | Some st, Some en =>
      let f_src := s_freq s in
      if f_tgt =? f_src then Ok s
      else if f_tgt <? f_src then Err 1
      else
        let factor := f_tgt / f_src in
        Ok (build A f_tgt (s_nv s) (st * factor) ((en + 1) * factor - 1)
              (fun h => if dis_keep d factor (h mod factor) then row_at A s (h / factor) else missrow A (s_nv s)))
  | _, _ => Err 1
  end.

End Convert.
