(* Executable model of the period codecs of irispie/dates.py: SDMX strings (with
   frequency auto-detection through SDMX_REXP_FORMATS), ISO strings, (year, month,
   day) at a position, Python dates, repr, and frequency conversion (refrequent).
   Format pieces, parser descriptors and regular expressions come from
   gen/DatesGen.v; str/int/format semantics from lib/PyStr.v; the regex matcher
   from lib/RegexSub.v.  NO proofs in this file. *)
From Coq Require Import ZArith Bool Ascii String List Uint63.
From Verif Require Import lib.Calendar lib.RegexSub lib.PyStr lib.DatesBase gen.DatesGen model.Dates.
Import ListNotations.
Local Open Scope string_scope.
Open Scope Z_scope.

(* ------------------------------------------------------------------ SDMX strings *)

Definition sdmx_pieces (p : period) : dres (list fpiece) :=
  let f := p_freq p in
  let s := p_serial p in
  of_opt ErrValue
    (if f =? gen_class_freq_YEARLY then gen_to_sdmx_YEARLY s
     else if f =? gen_class_freq_HALFYEARLY then gen_to_sdmx_HALFYEARLY s
     else if f =? gen_class_freq_QUARTERLY then gen_to_sdmx_QUARTERLY s
     else if f =? gen_class_freq_MONTHLY then gen_to_sdmx_MONTHLY s
     else if f =? freq_DAILY then gen_to_sdmx_DAILY s
     else if f =? freq_INTEGER then gen_to_sdmx_INTEGER s
     else None).

(* p.to_sdmx_string() = str(p) *)
Definition to_sdmx (p : period) : dres str := bind (sdmx_pieces p) (fun l => of_opt ErrValue (render l)).

Definition parser_of (f : Z) : option sdmx_parser :=
  if f =? gen_class_freq_YEARLY then Some gen_from_sdmx_YEARLY
  else if f =? gen_class_freq_HALFYEARLY then Some gen_from_sdmx_HALFYEARLY
  else if f =? gen_class_freq_QUARTERLY then Some gen_from_sdmx_QUARTERLY
  else if f =? gen_class_freq_MONTHLY then Some gen_from_sdmx_MONTHLY
  else if f =? freq_DAILY then Some gen_from_sdmx_DAILY
  else if f =? freq_INTEGER then Some gen_from_sdmx_INTEGER
  else None.

(* Period.from_sdmx_string(s, frequency=f) *)
Definition from_sdmx_as (f : Z) (s : str) : dres period :=
  match parser_of f with
  | Some ps => dmap (mkP f) (of_opt ErrValue (parse_with ps s))
  | None => Err ErrKey
  end.

(* Frequency.from_sdmx_string: the first entry of SDMX_REXP_FORMATS whose length (if any) and pattern fit *)
Fixpoint detect_in (l : list (Z * (option nat * re))) (s : str) : option Z :=
  match l with
  | [] => None
  | (f, (len, r)) :: rest =>
      if (match len with None => true | Some n => Nat.eqb (length s) n end) && fullmatch r s then Some f
      else detect_in rest s
  end.
Definition detect (s : str) : option Z := detect_in gen_sdmx_formats (strip s).

(* Period.from_sdmx_string(s) *)
Definition from_sdmx (s : str) : dres period :=
  match detect s with
  | Some f => from_sdmx_as f s
  | None => Err ErrFreq
  end.

(* ------------------------------------------------------------------ ISO strings, (y, m, d), Python dates *)

(* `year, month, day = self.to_ymd(...)`: unpacking the None returned for integer periods is a TypeError *)
Definition unpack_ymd (r : dres (Z * Z * Z)) : dres (Z * Z * Z) :=
  match r with Err ErrNone => Err ErrType | x => x end.

Definition to_iso (pos : position) (p : period) : dres str :=
  bind (unpack_ymd (to_ymd pos p)) (fun '(y, m, d) => of_opt ErrValue (render (gen_to_iso y m d))).

(* Period.from_iso_string(s, frequency=f): exactly three pieces *)
Definition from_iso (f : Z) (s : str) : dres period :=
  match split_on (s2l gen_iso_sep) s with
  | [a; b; c] =>
      match parse_int a, parse_int b, parse_int c with
      | Some y, Some m, Some d => from_ymd f y m d
      | _, _, _ => Err ErrValue
      end
  | _ => Err ErrValue
  end.

(* p.to_python_date(position): the date as (y, m, d); datetime.date rejects what is outside 1..9999 *)
Definition to_pydate (pos : position) (p : period) : dres (Z * Z * Z) :=
  bind (unpack_ymd (to_ymd pos p)) (fun '(y, m, d) => if date_ok y m d then Ok (y, m, d) else Err ErrValue).

(* Period.from_python_date(date, frequency=f) = from_ymd *)
Definition from_pydate (f : Z) (t : Z * Z * Z) : dres period := let '(y, m, d) := t in from_ymd f y m d.

(* ------------------------------------------------------------------ repr *)

Definition repr_pieces (p : period) : dres (list fpiece * bool) :=
  let f := p_freq p in
  let s := p_serial p in
  let pick (o : option (list fpiece)) (b : bool) := dmap (fun l => (l, b)) (of_opt ErrValue o) in
  if f =? gen_class_freq_YEARLY then pick (gen_repr_YEARLY s) gen_repr_YEARLY_remove_blanks
  else if f =? gen_class_freq_HALFYEARLY then pick (gen_repr_HALFYEARLY s) gen_repr_HALFYEARLY_remove_blanks
  else if f =? gen_class_freq_QUARTERLY then pick (gen_repr_QUARTERLY s) gen_repr_QUARTERLY_remove_blanks
  else if f =? gen_class_freq_MONTHLY then pick (gen_repr_MONTHLY s) gen_repr_MONTHLY_remove_blanks
  else if f =? freq_DAILY then pick (gen_repr_DAILY s) gen_repr_DAILY_remove_blanks
  else if f =? freq_INTEGER then pick (gen_repr_INTEGER s) gen_repr_INTEGER_remove_blanks
  else Err ErrKey.

(* repr(p) as text *)
Definition repr_str (p : period) : dres str :=
  bind (repr_pieces p) (fun '(l, b) => dmap (fun s => if b then remove_blanks s else s) (of_opt ErrValue (render l))).

(* repr(p) as a structured term: constructor name and integer arguments *)
Definition is_letter (c : ascii) : bool :=
  let n := nat_of_ascii c in ((97 <=? n) && (n <=? 122))%nat.

Fixpoint take_letters (s : str) : str :=
  match s with c :: t => if is_letter c then c :: take_letters t else [] | [] => [] end.

Definition piece_args (pc : fpiece) : list Z :=
  match pc with FD n => [n] | FG n _ _ => [n] | FTup l => l | FLit _ => [] end.

Definition repr_term (p : period) : dres (str * list Z) :=
  dmap (fun '(l, _) =>
          (match l with FLit h :: _ => take_letters (s2l h) | _ => [] end, concat (map piece_args l)))
       (repr_pieces p).

(* eval of a constructor call yy(y) / hh(y,s) / qq(y,s) / mm(y,s) / dd(y,m,d) / ii(n) *)
Definition eval_term (t : str * list Z) : dres period :=
  let '(h, args) := t in
  let is (x : string) := if list_eq_dec ascii_dec h (s2l x) then true else false in
  match args with
  | [y] => if is "yy" then from_year_segment freq_YEARLY y 1
           else if is "ii" then Ok (mkP freq_INTEGER y) else Err ErrValue
  | [y; s] => if is "hh" then from_year_segment freq_HALFYEARLY y s
              else if is "qq" then from_year_segment freq_QUARTERLY y s
              else if is "mm" then from_year_segment freq_MONTHLY y s
              else if is "yy" then from_year_segment freq_YEARLY y s else Err ErrValue
  | [y; m; d] => if is "dd" then from_ymd freq_DAILY y m d else Err ErrValue
  | _ => Err ErrValue
  end.

(* ------------------------------------------------------------------ frequency conversion *)

(* p.refrequent(f, position=pos) *)
Definition refrequent (f : Z) (pos : position) (p : period) : dres period :=
  bind (unpack_ymd (to_ymd pos p)) (fun '(y, m, d) => from_ymd f y m d).

(* ------------------------------------------------------------------ case runners *)

Fixpoint str_digest (s : str) (h : Uint63.int) : Uint63.int :=
  match s with [] => h | c :: t => str_digest t (mix h (Z.of_nat (nat_of_ascii c))) end.
(* strings are observed as OL [OZ length; OZ digest] *)
Definition obs_str (s : str) : obs := OL [OZ (Z.of_nat (length s)); OZ (Uint63.to_Z (str_digest s 11%uint63))].

Definition c_to_sdmx (s : pspec) : obs := obs_of obs_str (bind (mk s) to_sdmx).
Definition c_repr (s : pspec) : obs := obs_of obs_str (bind (mk s) repr_str).
Definition c_to_iso (pos : Z) (s : pspec) : obs := obs_of obs_str (bind (mk s) (to_iso (pos_of pos))).
Definition c_from_sdmx (x : string) : obs := obs_of OP (from_sdmx (s2l x)).
Definition c_from_sdmx_as (f : Z) (x : string) : obs := obs_of OP (from_sdmx_as f (s2l x)).
Definition c_from_iso (f : Z) (x : string) : obs := obs_of OP (from_iso f (s2l x)).
Definition c_detect (x : string) : obs := match detect (s2l x) with Some f => OZ f | None => OE ErrFreq end.
Definition c_refrequent (f pos : Z) (s : pspec) : obs := obs_of OP (bind (mk s) (refrequent f (pos_of pos))).
Definition c_eval_repr (s : pspec) : obs := obs_of OP (bind (mk s) (fun p => bind (repr_term p) eval_term)).
Definition c_pydate (pos : Z) (s : pspec) : obs := obs_of obs_ymd (bind (mk s) (to_pydate (pos_of pos))).

(* round trips through the model's own strings (the implementation side does the same through its strings) *)
Definition c_sdmx_roundtrip (s : pspec) : obs :=
  obs_of OP (bind (mk s) (fun p => bind (to_sdmx p) from_sdmx)).
Definition c_iso_roundtrip (pos : Z) (s : pspec) : obs :=
  obs_of OP (bind (mk s) (fun p => bind (to_iso (pos_of pos) p) (from_iso (p_freq p)))).

(* rolling digest of every codec of a block of consecutive periods *)
Definition h_str (h : Uint63.int) (s : str) : Uint63.int := str_digest s (mix h (Z.of_nat (length s))).
Definition h_per (h : Uint63.int) (p : period) : Uint63.int := hstep (hstep h (p_freq p)) (p_serial p).

Definition codec_digest (h : Uint63.int) (p : period) : Uint63.int :=
  let h := h_dres h_str h (to_sdmx p) in
  let h := h_dres h_per h (bind (to_sdmx p) from_sdmx) in
  let h := h_dres h_str h (repr_str p) in
  let h := h_dres h_per h (bind (repr_term p) eval_term) in
  let h := h_dres h_str h (to_iso PEnd p) in
  let h := h_dres h_per h (bind (to_iso PMiddle p) (from_iso (p_freq p))) in
  let h := h_dres h_per h (refrequent freq_YEARLY PStart p) in
  let h := h_dres h_per h (refrequent freq_HALFYEARLY PMiddle p) in
  let h := h_dres h_per h (refrequent freq_QUARTERLY PEnd p) in
  let h := h_dres h_per h (refrequent freq_MONTHLY PMiddle p) in
  h_dres h_per h (refrequent freq_DAILY PEnd p).

Fixpoint codec_block (n : nat) (f serial : Z) (h : Uint63.int) : Uint63.int :=
  match n with
  | O => h
  | S k => codec_block k f (serial + 1) (codec_digest h (mkP f serial))
  end.
Definition c_codec_block (f first : Z) (count : nat) : obs := OZ (Uint63.to_Z (codec_block count f first 0%uint63)).
