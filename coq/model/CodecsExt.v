(* Executable models added for C11 (round 4):
   (A) the date column of a multi-frequency CSV sheet: how Databox.to_csv_file writes it (one block per frequency,
       date_formatter applied to every period, blocks padded with empty cells to the longest block) and how
       Databox.from_csv_file reads it back (_block_iterator / _extract_periods_from_data_rows: the block's frequency
       comes from its mark, every non-empty date cell is parsed by period_from_string(cell, frequency=frequency);
       there is NO state shared between cells or blocks);
   (B) Python-int / numpy-int typing of Period.serial under period arithmetic (Period.__init__, __add__, __radd__,
       __sub__, shift) and the repr text of a period whose serial carries a numpy type.
   The statement shapes come from gen/CodecsExtGen.v (translator/codecs_ext.py).  NO proofs in this file. *)
From Coq Require Import ZArith Bool Ascii String List Uint63.
From Verif Require Import lib.Calendar lib.RegexSub lib.PyStr lib.DatesBase gen.DatesGen model.Dates model.Codecs
     gen.CodecsExtGen.
Import ListNotations.
Open Scope Z_scope.

(* ================================================================== (A) date columns of a sheet *)

(* the two documented codecs for the date column: str / Period.from_sdmx_string (defaults) and
   Period.to_iso_string(position=..) / Period.from_iso_string *)
Inductive datefmt := FmtSdmx | FmtIso (pos : position).
Inductive dateparser := ParSdmx | ParIso.

Definition fmt_period (fm : datefmt) (p : period) : dres str :=
  match fm with FmtSdmx => to_sdmx p | FmtIso pos => to_iso pos p end.

Definition parse_cell (pr : dateparser) (f : Z) (x : str) : dres period :=
  match pr with ParSdmx => from_sdmx_as f x | ParIso => from_iso f x end.

(* --- export: _ExportBlock.__iter__ *)
Fixpoint map_dres {A B} (g : A -> dres B) (l : list A) : dres (list B) :=
  match l with
  | [] => Ok []
  | x :: r => bind (g x) (fun y => dmap (cons y) (map_dres g r))
  end.

Definition export_column (enc : period -> dres str) (total : nat) (ps : list period) : dres (list str) :=
  dmap (fun cells => cells ++ repeat [] (gen_export_padding total (length ps))) (map_dres enc ps).

Definition total_rows (blocks : list (Z * list period)) : nat :=
  fold_right Nat.max O (map (fun b => length (snd b)) blocks).

(* the date columns of the file: (frequency of the mark, cells of the date column, one per data row) *)
Definition export_sheet (enc : period -> dres str) (blocks : list (Z * list period)) : dres (list (Z * list str)) :=
  map_dres (fun b => dmap (fun c => (fst b, c)) (export_column enc (total_rows blocks) (snd b))) blocks.

(* --- import: _extract_periods_from_data_rows *)
(* rows of a block: (row index, period) for every selected row *)
Fixpoint extract_rows (dec : Z -> str -> dres period) (start_only : bool) (start : period) (f : Z)
         (cells : list str) (i : Z) : dres (list (Z * period)) :=
  match cells with
  | [] => Ok []
  | x :: r =>
      if gen_row_selected start_only x then
        bind (if start_only then Ok (gen_start_only_period start i) else gen_cell_period dec f x)
             (fun p => dmap (cons (i, p)) (extract_rows dec start_only start f r (i + 1)))
      else extract_rows dec start_only start f r (i + 1)
  end.

(* start_date = period_from_string(data_rows[0][column], frequency=frequency) is evaluated first, in both modes *)
Definition extract_block (dec : Z -> str -> dres period) (start_only : bool) (f : Z) (cells : list str)
  : dres (list (Z * period)) :=
  match cells with
  | [] => Err ErrIndex
  | x0 :: _ => bind (gen_cell_period dec f x0) (fun start => extract_rows dec start_only start f cells 0)
  end.

(* _block_iterator: block after block, each a function of (its frequency, its cells) only *)
Definition import_sheet (dec : Z -> str -> dres period) (start_only : bool) (cols : list (Z * list str))
  : dres (list (Z * list (Z * period))) :=
  map_dres (fun b => dmap (fun r => (fst b, r)) (extract_block dec start_only (fst b) (snd b))) cols.

Fixpoint enumerate_from {T} (i : Z) (l : list T) : list (Z * T) :=
  match l with [] => [] | x :: r => (i, x) :: enumerate_from (i + 1) r end.

(* ================================================================== (B) int / numpy-int typing of serials *)

Inductive ity := TPy | TNp.                     (* builtins.int | a numpy integer scalar *)
Record tint := mkT { tv : Z; tt : ity }.

Definition t_int (x : tint) : tint := mkT (tv x) TPy.                       (* int(x) *)
Definition t_join (a b : ity) : ity := match a, b with TPy, TPy => TPy | _, _ => TNp end.
Definition t_neg (x : tint) : tint := mkT (- tv x) (tt x).                  (* -x keeps the type *)
Definition cast (b : bool) (x : tint) : tint := if b then t_int x else x.

Record casts := mkCasts { c_init : bool; c_add : bool; c_sub : bool }.
Definition gen_casts : casts := mkCasts gen_init_casts gen_add_casts gen_sub_casts.

Record tperiod := mkTP { tp_freq : Z; tp_serial : tint }.
Definition untag (p : tperiod) : period := mkP (tp_freq p) (tv (tp_serial p)).

(* Period.__init__(serial) *)
Definition tp_init (c : casts) (f : Z) (s : tint) : tperiod := mkTP f (cast (c_init c) s).
(* Period.__add__(other) = type(self)(self.serial + <other>) ; the value is gen_period_add of gen/DatesGen.v *)
Definition tp_add (c : casts) (p : tperiod) (o : tint) : tperiod :=
  let o' := cast (c_add c) o in
  tp_init c (tp_freq p) (mkT (gen_period_add (tv (tp_serial p)) (tv o')) (t_join (tt (tp_serial p)) (tt o'))).
(* Period.__sub__(other) for a number = self.__add__(-<other>) *)
Definition tp_sub (c : casts) (p : tperiod) (o : tint) : tperiod := tp_add c p (t_neg (cast (c_sub c) o)).

Inductive aop := AAdd (k : tint) | ARAdd (k : tint) | ASub (k : tint) | AShift (k : tint).

Definition astep (c : casts) (p : tperiod) (o : aop) : tperiod :=
  match o with
  | AAdd k | ARAdd k | AShift k => tp_add c p k       (* __radd__ = __add__; shift(k) = self + k *)
  | ASub k => tp_sub c p k
  end.
Definition run_arith (c : casts) (p : tperiod) (ops : list aop) : tperiod := fold_left (astep c) ops p.

(* the same history on plain periods (model/Dates.v) *)
Definition pstep (p : period) (o : aop) : period :=
  match o with
  | AAdd k | ARAdd k | AShift k => padd p (tv k)
  | ASub k => psub_int p (tv k)
  end.
Definition run_plain (p : period) (ops : list aop) : period := fold_left pstep ops p.

(* repr text when the integers shown carry a type: a numpy scalar inside a tuple is shown by its own repr
   (numpy >= 2: np.int64(5)); format fields {n}, {n:04g} show the digits for both types *)
Definition np_repr (n : Z) : str := s2l "np.int64(" ++ dec_int n ++ s2l ")".
Definition tuple_repr_t (t : ity) (l : list Z) : str :=
  match t with
  | TPy => tuple_repr l
  | TNp => match l with
           | [x] => "("%char :: np_repr x ++ [","; ")"]%char
           | _ => "("%char :: join_comma (map np_repr l) ++ [")"]%char
           end
  end.
Definition render_piece_t (t : ity) (p : fpiece) : option str :=
  match p with FTup l => Some (tuple_repr_t t l) | _ => render_piece p end.
Fixpoint render_t (t : ity) (l : list fpiece) : option str :=
  match l with
  | [] => Some []
  | p :: r => match render_piece_t t p, render_t t r with
              | Some a, Some b => Some (a ++ b)
              | _, _ => None
              end
  end.
(* repr(p) for a period whose serial carries type tt (to_year_segment / to_ymd results inherit it for the regular
   classes; the daily class goes through datetime.date, which yields builtin ints) *)
Definition repr_str_t (p : tperiod) : dres str :=
  let t := if tp_freq p =? freq_DAILY then TPy else tt (tp_serial p) in
  bind (repr_pieces (untag p))
       (fun '(l, b) => dmap (fun s => if b then remove_blanks s else s) (of_opt ErrValue (render_t t l))).

(* ================================================================== case runners *)

Definition fmt_of (k : Z) : datefmt := if k =? 0 then FmtSdmx else FmtIso (pos_of (k - 1)).
Definition par_of (k : Z) : dateparser := if k =? 0 then ParSdmx else ParIso.

Definition obs_rows (l : list (Z * period)) : obs := OL (map (fun '(i, p) => OL [OZ i; OP p]) l).
Definition obs_blocks (l : list (Z * list (Z * period))) : obs := OL (map (fun '(f, r) => OL [OZ f; obs_rows r]) l).

(* only rows that carry data are observable through the imported series *)
Definition data_rows_only (cols : list (Z * list str)) (l : list (Z * list (Z * period))) : list (Z * list (Z * period)) :=
  map (fun '((_, cells), (f, rows)) =>
         (f, filter (fun '(i, _) => match nth_error cells (Z.to_nat i) with Some (_ :: _) => true | _ => false end) rows))
      (combine cols l).

(* harness-written sheet: import of given cells *)
Definition c_sheet_import (par : Z) (start_only : bool) (cols : list (Z * list string)) : obs :=
  let cols' := map (fun '(f, cells) => (f, map s2l cells)) cols in
  obs_of (fun l => obs_blocks (data_rows_only cols' l)) (import_sheet (parse_cell (par_of par)) start_only cols').

(* databox -> to_csv_file(date_formatter) -> from_csv_file(period_from_string): the date cells written and what is read *)
Definition mk_span (s : pspec) (n : nat) : dres (list period) :=
  dmap (fun p => map (fun k => padd p (Z.of_nat k)) (seq 0 n)) (mk s).
Definition c_sheet_export (fm : Z) (blocks : list (pspec * nat)) : obs :=
  obs_of (fun cols => OL (map (fun '(f, cells) => OL [OZ f; OL (map obs_str cells)]) cols))
         (bind (map_dres (fun '(s, n) => dmap (fun ps => (match ps with p :: _ => p_freq p | [] => 0 end, ps)) (mk_span s n)) blocks)
               (export_sheet (fmt_period (fmt_of fm)))).
Definition c_sheet_roundtrip (fm par : Z) (start_only : bool) (blocks : list (pspec * nat)) : obs :=
  obs_of (fun x => x)
         (bind (map_dres (fun '(s, n) => dmap (fun ps => (match ps with p :: _ => p_freq p | [] => 0 end, ps)) (mk_span s n)) blocks)
               (fun bl => bind (export_sheet (fmt_period (fmt_of fm)) bl)
                               (fun cols => dmap (fun l => obs_blocks (data_rows_only cols l))
                                                 (import_sheet (parse_cell (par_of par)) start_only cols)))).

(* arithmetic histories with typed offsets: the period, the type of its serial (0 = int, 1 = numpy), its repr *)
Definition ity_of (k : Z) : ity := if k =? 0 then TPy else TNp.
Definition aop_of (t : Z * Z * Z) : aop :=
  let '(kind, k, ty) := t in
  let x := mkT k (ity_of ty) in
  if kind =? 0 then AAdd x else if kind =? 1 then ARAdd x else if kind =? 2 then ASub x else AShift x.
Definition c_arith (s : pspec) (ops : list (Z * Z * Z)) : obs :=
  obs_of (fun p : period =>
            let q := run_arith gen_casts (tp_init gen_casts (p_freq p) (mkT (p_serial p) TPy)) (map aop_of ops) in
            OL [OP (untag q); OZ (match tt (tp_serial q) with TPy => 0 | TNp => 1 end); obs_of obs_str (repr_str_t q)])
         (mk s).
