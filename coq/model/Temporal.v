(* Hand-written model of the loops of series/_temporal.py on top of the Series
   model; the per-period formulas come from gen/TemporalGen.v (regenerated from
   the source on every run).  NO proofs in this file. *)
From Coq Require Import ZArith List Bool Lia.
From Verif Require Import lib.Arith lib.PyRange lib.Period model.Series gen.TemporalGen.
Import ListNotations.
Open Scope Z_scope.

Section TemporalModel.
Variable A : Arith.
Notation V := (car A).
Notation series := (series A).

Definition span_of (s : series) : list Z :=
  match s_start s, s_end A s with
  | Some st, Some en => zrange st (en + 1)
  | _, _ => []
  end.

(* Series.shift(by, neutral_value=...) *)
Definition series_shift (by_ : shift_spec) (neutral : option Z) (s : series) : series :=
  let fr := s_freq s in
  match by_ with
  | ByInt k => shift_by A s k
  | Yoy => shift_by A s (- fr)
  | Soy => match s_start s with
           | None => s
           | Some st => trim A (mkSeries fr (Some st) (s_nv s) (get_data A s (map (p_soy fr) (span_of s))))
           end
  | Eopy => match s_start s with
            | None => s
            | Some st => trim A (mkSeries fr (Some st) (s_nv s) (get_data A s (map (p_eopy fr) (span_of s))))
            end
  | Tty =>
      let sp := span_of s in
      let with_tty := filter (fun t => match p_tty fr t with Some _ => true | None => false end) sp in
      let neutral_periods := filter (fun t => match p_tty fr t with Some _ => false | None => true end) sp in
      let tty_vals := get_data A s (map (fun t => t - 1) with_tty) in
      let s1 := set_data A fr s with_tty tty_vals None in
      let nrow := [match neutral with Some z => ofZ A z | None => miss A end] in
      set_data A fr s1 neutral_periods (map (fun _ => nrow) neutral_periods) None
  end.

Definition shift_invalid (by_ : shift_spec) : bool :=
  match by_ with ByInt k => invalid_int_shift k | _ => false end.

(* Inlay.temporal_change(by, func, neutral_value=...) *)
Definition temporal_change (f : V -> V -> V) (by_ : shift_spec) (neutral : option Z) (s : series) : res series :=
  if shift_invalid by_ then Err 3
  else binop A f s (series_shift by_ neutral s).

Definition factor_of (s : series) : V :=
  ofZ A (match s_start s with Some _ => (if s_freq s =? 0 then 1 else s_freq s) | None => 1 end).

Inductive change_kind := KDiff | KADiff | KDiffLog | KADiffLog | KRoc | KARoc | KPct | KAPct.

Definition change_fun (k : change_kind) : V -> V -> V -> V :=
  match k with
  | KDiff => change_diff A | KADiff => change_adiff A | KDiffLog => change_diff_log A
  | KADiffLog => change_adiff_log A | KRoc => change_roc A | KARoc => change_aroc A
  | KPct => change_pct A | KAPct => change_apct A
  end.
Definition change_neutral (k : change_kind) : option Z :=
  match k with
  | KDiff => change_diff_neutral | KADiff => change_adiff_neutral | KDiffLog => change_diff_log_neutral
  | KADiffLog => change_adiff_log_neutral | KRoc => change_roc_neutral | KARoc => change_aroc_neutral
  | KPct => change_pct_neutral | KAPct => change_apct_neutral
  end.
Definition change_fixed_shift (k : change_kind) : option Z :=
  match k with
  | KDiff => change_diff_fixed_shift | KADiff => change_adiff_fixed_shift | KDiffLog => change_diff_log_fixed_shift
  | KADiffLog => change_adiff_log_fixed_shift | KRoc => change_roc_fixed_shift | KARoc => change_aroc_fixed_shift
  | KPct => change_pct_fixed_shift | KAPct => change_apct_fixed_shift
  end.

(* the public methods diff/adiff/...: [by_] is ignored by the annualised forms, which fix the shift *)
Definition change (k : change_kind) (by_ : shift_spec) (s : series) : res series :=
  let by' := match change_fixed_shift k with Some z => ByInt z | None => by_ end in
  temporal_change (change_fun k (factor_of s)) by' (change_neutral k) s.

Inductive conv_kind := CRocFromPct | CPctFromRoc | CPctFromApct | CRocFromApct | CRocFromAroc.
Definition conv_fun (k : conv_kind) : V -> V -> V :=
  match k with
  | CRocFromPct => conv_roc_from_pct A | CPctFromRoc => conv_pct_from_roc A
  | CPctFromApct => conv_pct_from_apct A | CRocFromApct => conv_roc_from_apct A
  | CRocFromAroc => conv_roc_from_aroc A
  end.
(* self.data = f(self.data): no trim *)
Definition convert (k : conv_kind) (s : series) : series :=
  mkSeries (s_freq s) (s_start s) (s_nv s) (map (map (conv_fun k (factor_of s))) (s_data s)).

(* ---- cumulation ---- *)
Inductive cum_kind := CumDiff | CumDiffLog | CumPct | CumRoc.
Definition cum_forward (k : cum_kind) : V -> V -> V :=
  match k with CumDiff => cum_diff_forward A | CumDiffLog => cum_diff_log_forward A
             | CumPct => cum_pct_forward A | CumRoc => cum_roc_forward A end.
Definition cum_backward (k : cum_kind) : V -> V -> V :=
  match k with CumDiff => cum_diff_backward A | CumDiffLog => cum_diff_log_backward A
             | CumPct => cum_pct_backward A | CumRoc => cum_roc_backward A end.
Definition cum_initial (k : cum_kind) : Z :=
  match k with CumDiff => cum_diff_initial | CumDiffLog => cum_diff_log_initial
             | CumPct => cum_pct_initial | CumRoc => cum_roc_initial end.

Inductive initial_spec := InitDefault | InitScalar (v : V) | InitSeries (x : series).

Definition initial_rows (k : cum_kind) (i : initial_spec) (dates : list Z) : list (list V) :=
  match i with
  | InitDefault => map (fun _ => [ofZ A (cum_initial k)]) dates
  | InitScalar v => map (fun _ => [v]) dates
  | InitSeries x => get_data A x dates
  end.

Definition zip_rows (f : V -> V -> V) (r1 r2 : list V) : list V := zip_bcast A f r1 r2.

(* Inlay._cumulate_forward: span = the resolved forward span as a list of serials;
   [cumf] is the factory's forward lambda, [init_rows dates] the initial condition read at [dates] *)
Definition cumulate_forward_gen (cumf : V -> V -> V) (by_ : shift_spec) (init_rows : list Z -> list (list V))
           (span : list Z) (span_start span_end : Z) (change_s : series) : series :=
  let fr := s_freq change_s in
  let zipped := flat_map (fun t => match period_shift fr by_ t with Some sh => [(t, sh)] | None => [] end) span in
  let min_period := match map snd zipped with [] => span_start | sh0 :: r => minl sh0 r end in
  let init_dates := py_range min_period (span_end + 1) 1 in
  let s0 := set_data A fr (mkSeries fr (s_start change_s) (s_nv change_s) []) init_dates
                     (init_rows init_dates) None in
  fold_left (fun s '(t, sh) =>
               set_data A fr s [t] [zip_rows cumf (row_at A s sh) (row_at A change_s t)] None)
            zipped s0.

Definition cumulate_forward (k : cum_kind) (by_ : shift_spec) (init : initial_spec) :=
  cumulate_forward_gen (cum_forward k) by_ (initial_rows k init).

(* Inlay._cumulate_backward: [shifted] = the resolved backward span (periods that get written) *)
Definition cumulate_backward_gen (cumb : V -> V -> V) (shift : Z) (init_rows : list Z -> list (list V))
           (shifted : list Z) (shifted_start : Z) (change_s : series) : series :=
  let fr := s_freq change_s in
  let backward := map (fun t => t - shift) shifted in
  let init_dates := match shifted with
                    | [] => []
                    | t0 :: r => py_range (minl t0 r) (shifted_start - shift + 1) 1
                    end in
  let s0 := set_data A fr (mkSeries fr (s_start change_s) (s_nv change_s) []) init_dates
                     (init_rows init_dates) None in
  fold_left (fun s '(t, sh) =>
               set_data A fr s [sh] [zip_rows cumb (row_at A s t) (row_at A change_s t)] None)
            (combine backward shifted) s0.

Definition cumulate_backward (k : cum_kind) (shift : Z) (init : initial_spec) :=
  cumulate_backward_gen (cum_backward k) shift (initial_rows k init).

Inductive span_spec := SpanDefault | SpanFromTo (a b step : Z).

(* Inlay.temporal_cumulation(func_name, shift, initial, span) *)
Definition temporal_cumulation (k : cum_kind) (by_ : shift_spec) (init : initial_spec) (sp : span_spec)
           (s : series) : res series :=
  if shift_invalid by_ then Err 3
  else
    match sp, s_start s, s_end A s with
    | SpanDefault, None, _ | SpanDefault, _, None => Err 1
    | _, _, _ =>
        let '(a, b, step) := match sp, s_start s, s_end A s with
                             | SpanFromTo a b step, _, _ => (a, b, step)
                             | SpanDefault, Some st, Some en => (st, en, 1)
                             | _, _, _ => (0, 0, 1) end in
        let serials := py_range a (b + sgn step) step in
        if step >? 0 then Ok (cumulate_forward k by_ init serials a b s)
        else match by_ with
             | ByInt sh => Ok (cumulate_backward k sh init serials a s)
             | _ => Err 1
             end
    end.

End TemporalModel.
