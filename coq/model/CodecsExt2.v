(* Executable models added for C11 (round 5):
   (C) the grammar of the text written by Period.__repr__ -- a constructor call  name(int{,int})  with optionally signed
       decimal integers, as in yy(2020), qq(2020,1), dd(2020,1,31), ii(-5) -- as a tiny parser; Python's eval of such a
       text is the constructor `name` applied to the integers (Codecs.eval_term);
   (D) what the imported series holds: Series.set_data(periods, rows) writes row after row, so a period that occurs in
       several rows of a block keeps the LAST row written (rows need not be sorted);
   (E) the rows of a start_period_only block.
   NO proofs in this file. *)
From Coq Require Import ZArith Bool Ascii String List.
From Verif Require Import lib.Calendar lib.RegexSub lib.PyStr lib.DatesBase gen.DatesGen model.Dates model.Codecs
     gen.CodecsExtGen model.CodecsExt.
Import ListNotations.
Open Scope Z_scope.

(* ================================================================== (C) repr grammar *)

(* argument list after the opening parenthesis: pieces separated by "," and closed by one final ")" *)
Fixpoint split_args (s cur : str) : option (list str) :=
  match s with
  | [] => None
  | c :: t =>
      if Ascii.eqb c ")" then match t with [] => Some [cur] | _ => None end
      else if Ascii.eqb c "," then option_map (cons cur) (split_args t [])
      else split_args t (cur ++ [c])
  end.

(* name(arg, ...) : lower-case name, "(", integers ([+-]?digits, the int() grammar of lib/PyStr.v), ")" *)
Definition parse_repr (s : str) : option (str * list Z) :=
  let name := take_letters s in
  match skipn (length name) s with
  | c :: t => if Ascii.eqb c "(" then
                match split_args t [] with
                | Some parts => option_map (fun args => (name, args)) (all_some (map parse_int parts))
                | None => None
                end
              else None
  | [] => None
  end.

(* eval(text) for a text of that grammar *)
Definition eval_repr_text (s : str) : dres period := bind (of_opt ErrValue (parse_repr s)) eval_term.

(* the text of a call with tight commas (what repr leaves after .replace(" ", "")) *)
Fixpoint join_tight (x : str) (r : list str) : str :=
  match r with [] => x | y :: r' => x ++ ","%char :: join_tight y r' end.
Definition call_text (name : str) (a : Z) (r : list Z) : str :=
  name ++ "("%char :: join_tight (dec_int a) (map dec_int r) ++ [")"%char].

(* ================================================================== (D) last write *)

Definition period_eqb (p q : period) : bool := (p_freq p =? p_freq q) && (p_serial p =? p_serial q).

(* the row held by the series at period q after writing the rows in order: the last row whose period is q *)
Fixpoint series_lookup (rows : list (Z * period)) (q : period) : option Z :=
  match rows with
  | [] => None
  | (i, p) :: r => match series_lookup r q with
                   | Some j => Some j
                   | None => if period_eqb p q then Some i else None
                   end
  end.

(* the rows that are still visible in the series *)
Definition surviving_rows (rows : list (Z * period)) : list (Z * period) :=
  filter (fun '(i, p) => match series_lookup rows p with Some j => j =? i | None => false end) rows.

(* ================================================================== (E) start_period_only *)

Fixpoint zrange0 (i : Z) (n : nat) : list Z := match n with O => [] | S k => i :: zrange0 (i + 1) k end.
Definition start_only_rows (p0 : period) (n : nat) : list (Z * period) := map (fun j => (j, padd p0 j)) (zrange0 0 n).
Definition run_from (p0 : period) (n : nat) : list period := map (fun j => padd p0 j) (zrange0 0 n).

(* ================================================================== case runners *)

Definition c_parse_repr (x : string) : obs := obs_of OP (eval_repr_text (s2l x)).
Definition c_repr_parse_eval (s : pspec) : obs := obs_of OP (bind (mk s) (fun p => bind (repr_str p) eval_repr_text)).

(* harness-written sheet whose date cells may repeat / be unsorted: what the imported series show *)
Definition c_sheet_series (par : Z) (start_only : bool) (cols : list (Z * list string)) : obs :=
  let cols' := map (fun '(f, cells) => (f, map s2l cells)) cols in
  obs_of (fun l => obs_blocks (map (fun '(f, rows) => (f, surviving_rows rows)) (data_rows_only cols' l)))
         (import_sheet (parse_cell (par_of par)) start_only cols').
