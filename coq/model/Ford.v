(* C01  Model of the first-order solver and simulator of irispie (fords/solutions.py,
   fords/simulators.py::simulate_flat, fords/shock_simulators.py, fords/descriptors.py).

   The solution algebra is written ONCE over the matrix interface [MxOps] (lib/MxC01.v) and is
   instantiated (i) on MathComp matrices over an arbitrary field for the theorems
   (proofs/FordProofs.v) and (ii) on [list (list bigQ)] for the correspondence with the
   implementation.  QZ, Schur, lstsq/inverse are oracles: their outputs are ARGUMENTS here.

   Executable definitions only; no proofs in this file. *)
From Coq Require Import List ZArith QArith Bool.
From Bignums Require Import BigQ BigZ BigN.
From Verif Require Import lib.MxC01 gen.FordGen.
Import ListNotations.
Close Scope Q_scope.
Open Scope nat_scope.

Section Algebra.
Variable O : MxOps.

Local Notation "a |*| b" := (mmul a b) (at level 40, left associativity).
Local Notation "a |+| b" := (madd a b) (at level 50, left associativity).
Local Notation "|-| a" := (mopp a) (at level 35, right associativity).

(* solutions.py: left_div(A, B) = lstsq(A, B)  (contract: inv(A) @ B for square non-singular A) *)
Definition left_div {n p} (A : mx O n n) (B : mx O n p) : mx O n p := minv A |*| B.
(* right_div(B, A) = lstsq(A.T, B.T).T *)
Definition right_div {n p} (B : mx O p n) (A : mx O n n) : mx O p n := mtr (left_div (mtr A) (mtr B)).

(* ---------------------------------------------------------------- systems.py: System.__init__ *)
(* model not declared linear:  C = -(A @ xi + B @ xi_lagged),  xi = the steady-state path read at the tokens of the
   system vector, xi_lagged = the same tokens one period earlier (the steady state may grow) *)
Definition system_constant {m n} (A B : mx O m n) (xi xi_lagged : mx O n 1) : mx O m 1 :=
  |-| (A |*| xi |+| B |*| xi_lagged).

(* ---------------------------------------------------------------- _solve_transition_equations *)
(* nb = num_backwards = num_stable, nf = num_forwards, ne = number of transition shocks.
   S, T, Q : (nb+nf) x (nb+nf);  Z : (nf+nb) x (nb+nf)  (rows are the system vector: leads first) *)
Record transition_solution (nb nf ne : nat) := mkTS {
  ts_Ug : mx O nb nb; ts_Tg : mx O nb nb; ts_Rg : mx O nb ne; ts_Kg : mx O nb 1;
  ts_Xg : mx O nb nf; ts_J : mx O nf nf; ts_Ru : mx O nf ne;
  (* intermediate quantities, named as in the source; used in the statements *)
  ts_G : mx O nb nf; ts_Ku : mx O nf 1; ts_Xg0 : mx O nb nf; ts_Xg1 : mx O nb nf;
}.
Arguments ts_Ug {_ _ _} _. Arguments ts_Tg {_ _ _} _. Arguments ts_Rg {_ _ _} _. Arguments ts_Kg {_ _ _} _.
Arguments ts_Xg {_ _ _} _. Arguments ts_J {_ _ _} _. Arguments ts_Ru {_ _ _} _. Arguments ts_G {_ _ _} _.
Arguments ts_Ku {_ _ _} _. Arguments ts_Xg0 {_ _ _} _. Arguments ts_Xg1 {_ _ _} _.

Definition solve_transition {nb nf ne}
    (S T Q : mx O (nb + nf) (nb + nf)) (Z : mx O (nf + nb) (nb + nf))
    (C : mx O (nb + nf) 1) (D : mx O (nb + nf) ne) : transition_solution nb nf ne :=
  let S11 := lsub (usub S) in let S12 := rsub (usub S) in let S22 := rsub (dsub S) in
  let T11 := lsub (usub T) in let T12 := rsub (usub T) in let T22 := rsub (dsub T) in
  let Z21 := lsub (dsub Z) in let Z22 := rsub (dsub Z) in
  let Q_CC := Q |*| C in let Q_CC1 := usub Q_CC in let Q_CC2 := dsub Q_CC in
  let Q_DD := Q |*| D in let Q_DD1 := usub Q_DD in let Q_DD2 := dsub Q_DD in
  let G := left_div (|-| Z21) Z22 in
  let Ru := left_div (|-| T22) Q_DD2 in
  let Ku := left_div (|-| (S22 |+| T22)) Q_CC2 in
  let Xg0 := left_div S11 (T11 |*| G |+| T12) in
  let Xg1 := G |+| left_div S11 S12 in
  let Tg := left_div (|-| S11) T11 in
  let Rg := (|-| Xg0) |*| Ru |+| |-| left_div S11 Q_DD1 in
  let Kg := (|-| (Xg0 |+| Xg1)) |*| Ku |+| |-| left_div S11 Q_CC1 in
  let Ug := Z21 in
  let J := left_div (|-| T22) S22 in
  let Xg := Xg1 |+| Xg0 |*| J in
  mkTS nb nf ne Ug Tg Rg Kg Xg J Ru G Ku Xg0 Xg1.

(* ---------------------------------------------------------------- detach_stable_from_unit_roots *)
(* Schur oracle: Tg = u @ Ta @ u.T ; clip is None (clip_small=False, the default) *)
Record triangular_solution (nb nf ne : nat) := mkTri {
  tr_Ua : mx O nb nb; tr_Ta : mx O nb nb; tr_Ra : mx O nb ne; tr_Ka : mx O nb 1;
  tr_Xa : mx O nb nf; tr_J : mx O nf nf; tr_Ru : mx O nf ne;
}.
Arguments tr_Ua {_ _ _} _. Arguments tr_Ta {_ _ _} _. Arguments tr_Ra {_ _ _} _. Arguments tr_Ka {_ _ _} _.
Arguments tr_Xa {_ _ _} _. Arguments tr_J {_ _ _} _. Arguments tr_Ru {_ _ _} _.

Definition detach {nb nf ne} (p : transition_solution nb nf ne) (Ta u : mx O nb nb) : triangular_solution nb nf ne :=
  let Ua := ts_Ug p |*| u in
  let Ra := mtr u |*| ts_Rg p in
  let Ka := mtr u |*| ts_Kg p in
  let Xa := mtr u |*| ts_Xg p in
  mkTri nb nf ne Ua Ta Ra Ka Xa (ts_J p) (ts_Ru p).

(* ---------------------------------------------------------------- _square_from_triangular *)
Record square_solution (nb nf ne : nat) := mkSq {
  sq_T : mx O nb nb; sq_P : mx O nb ne; sq_K : mx O nb 1; sq_X : mx O nb nf;
}.
Arguments sq_T {_ _ _} _. Arguments sq_P {_ _ _} _. Arguments sq_K {_ _ _} _. Arguments sq_X {_ _ _} _.

Definition square_from_triangular {nb nf ne} (t : triangular_solution nb nf ne) : square_solution nb nf ne :=
  let Ua := tr_Ua t in
  let T := Ua |*| right_div (tr_Ta t) Ua in
  let R := Ua |*| tr_Ra t in
  let K := Ua |*| tr_Ka t in
  let X := Ua |*| tr_Xa t in
  mkSq nb nf ne T R K X.

(* ---------------------------------------------------------------- _solve_measurement_equations *)
Record measurement_solution (nb ny nw : nat) := mkMs {
  ms_Z : mx O ny nb; ms_H : mx O ny nw; ms_D : mx O ny 1; ms_Za : mx O ny nb;
}.
Arguments ms_Z {_ _ _} _. Arguments ms_H {_ _ _} _. Arguments ms_D {_ _ _} _. Arguments ms_Za {_ _ _} _.

Definition solve_measurement {nb nf ny nw} (F : mx O ny ny) (Gm : mx O ny (nf + nb)) (Hc : mx O ny 1)
    (Jm : mx O ny nw) (Ua : mx O nb nb) : measurement_solution nb ny nw :=
  let G := rsub Gm in                       (* system.G[:, num_forwards:] *)
  let Z := left_div (|-| F) G in
  let H := left_div (|-| F) Jm in
  let D := left_div (|-| F) Hc in
  mkMs nb ny nw Z H D (Z |*| Ua).

(* ---------------------------------------------------------------- _get_solution_expansion *)
Fixpoint mpow {n} (J : mx O n n) (k : nat) : mx O n n :=
  match k with 0 => mid O n | S k' => J |*| mpow J k' end.

(* Rk = -X @ matrix_power(J, k_minus_1) @ Ru *)
Definition expansion_term {nb nf ne} (X : mx O nb nf) (J : mx O nf nf) (Ru : mx O nf ne) (k_minus_1 : nat) :=
  (|-| X) |*| mpow J k_minus_1 |*| Ru.

(* [R0] + [R(t+1) ... R(t+forward)] *)
Definition expansion {nb nf ne} (P : mx O nb ne) X J (Ru : mx O nf ne) (forward : nat) : list (mx O nb ne) :=
  P :: map (expansion_term X J Ru) (seq 0 forward).

(* ---------------------------------------------------------------- shock_simulators.py *)
(* vs : the anticipated shock vectors of the columns to run (column 0 = first simulated period) *)
Fixpoint last_true (l : list bool) (i : nat) (acc : option nat) : option nat :=
  match l with [] => acc | b :: r => last_true r (S i) (if b then Some i else acc) end.

Definition msum {m n} (l : list (mx O m n)) : mx O m n := fold_left (fun acc x => acc |+| x) l (mzero O m n).

(* impact[t] = sum(Rx[k] @ v_array[:, s] for k, s in enumerate(range(t, last_ant_column+1))) *)
Definition impact_at {nb ne} (Rx : list (mx O nb ne)) (vs : list (mx O ne 1)) (last t : nat) : mx O nb 1 :=
  msum (map (fun k => nth k Rx (mzero O nb ne) |*| nth (t + k) vs (mzero O ne 1)) (seq 0 (last + 1 - t))).

Definition anticipated_impacts {nb nf ne} (P : mx O nb ne) X J (Ru : mx O nf ne) (vs : list (mx O ne 1))
    : list (option (mx O nb 1)) :=
  match last_true (map (fun v => negb (mis0 v)) vs) 0 None with
  | None => map (fun _ => None) vs
  | Some forward =>
      let Rx := expansion P X J Ru forward in
      map (fun t => Some (impact_at Rx vs forward t)) (seq 0 (length vs))
  end.

(* ---------------------------------------------------------------- simulators.py::simulate_flat *)
(* xi = T @ xi + K ; xi += Pu[:, t] ; xi += all_v_impact[t] (when not None) *)
Definition flat_step {nb ne} (T : mx O nb nb) (K : mx O nb 1) (P : mx O nb ne)
    (xi : mx O nb 1) (u : mx O ne 1) (imp : option (mx O nb 1)) : mx O nb 1 :=
  let xi1 := T |*| xi |+| K in
  let xi2 := xi1 |+| P |*| u in
  match imp with Some i => xi2 |+| i | None => xi2 end.

Fixpoint flat_run {nb ne} (T : mx O nb nb) K (P : mx O nb ne) (xi : mx O nb 1)
    (us : list (mx O ne 1)) (imps : list (option (mx O nb 1))) : list (mx O nb 1) :=
  match us, imps with
  | u :: us', i :: imps' => let xi' := flat_step T K P xi u i in xi' :: flat_run T K P xi' us' imps'
  | _, _ => []
  end.

(* create_deviation_solution: K, Ka, D replaced by zeros; the anticipated impact always uses the
   level solution (its matrices P, X, J, Ru do not depend on the constants) *)
Definition simulate_flat {nb nf ne} (deviation : bool) (true_initials : nat -> bool)
    (T : mx O nb nb) (P : mx O nb ne) (K : mx O nb 1) (X : mx O nb nf) (J : mx O nf nf) (Ru : mx O nf ne)
    (init_xi : mx O nb 1) (us vs : list (mx O ne 1)) : list (mx O nb 1) :=
  let K' := if deviation then mzero O nb 1 else K in
  let xi0 := mrowmask true_initials init_xi in            (* zero_false_init_xi *)
  flat_run T K' P xi0 us (anticipated_impacts P X J Ru vs).

(* simulate(..., force_split_frames=True)  (simulators.py::create_frames, frames.py::SplitFrame):
   a new frame starts in the first period and in every period with a non-zero unanticipated shock.  A frame is a flat
   simulation from its start to the END OF THE BASE SPAN, with the unanticipated shocks after its first period pruned and
   the anticipated impacts of its own columns; only the periods a frame owns (up to the next frame start) are written
   back.  [plan] = what the current frame computed for the periods still to come. *)
Fixpoint split_go {nb nf ne} (T : mx O nb nb) (K : mx O nb 1) (P : mx O nb ne) (X : mx O nb nf) (J : mx O nf nf)
    (Ru : mx O nf ne) (first : bool) (xi : mx O nb 1) (plan : list (mx O nb 1)) (us vs : list (mx O ne 1))
    : list (mx O nb 1) :=
  match us, vs with
  | u :: us', v :: vs' =>
      let fr := if first || negb (mis0 u)
                then flat_run T K P xi (u :: map (fun _ => mzero O ne 1) us') (anticipated_impacts P X J Ru vs)
                else plan in
      match fr with
      | x :: rest => x :: split_go T K P X J Ru false x rest us' vs'
      | [] => []
      end
  | _, _ => []
  end.

Definition simulate_split {nb nf ne} (deviation : bool) (true_initials : nat -> bool)
    (T : mx O nb nb) (P : mx O nb ne) (K : mx O nb 1) (X : mx O nb nf) (J : mx O nf nf) (Ru : mx O nf ne)
    (init_xi : mx O nb 1) (us vs : list (mx O ne 1)) : list (mx O nb 1) :=
  let K' := if deviation then mzero O nb 1 else K in
  split_go T K' P X J Ru true (mrowmask true_initials init_xi) [] us vs.

(* _simulate_measurement: y[t] = Z @ xi[t] + H @ w[t] + D   (D = 0 when deviation) *)
Definition simulate_measurement {nb ny nw} (deviation : bool) (Z : mx O ny nb) (H : mx O ny nw) (D : mx O ny 1)
    (xis : list (mx O nb 1)) (ws : list (mx O nw 1)) : list (mx O ny 1) :=
  map (fun p => let y := Z |*| fst p |+| H |*| snd p in if deviation then y else y |+| D) (combine xis ws).

End Algebra.

Arguments ts_Ug {_ _ _ _} _. Arguments ts_Tg {_ _ _ _} _. Arguments ts_Rg {_ _ _ _} _. Arguments ts_Kg {_ _ _ _} _.
Arguments ts_Xg {_ _ _ _} _. Arguments ts_J {_ _ _ _} _. Arguments ts_Ru {_ _ _ _} _. Arguments ts_G {_ _ _ _} _.
Arguments ts_Ku {_ _ _ _} _. Arguments ts_Xg0 {_ _ _ _} _. Arguments ts_Xg1 {_ _ _ _} _.
Arguments tr_Ua {_ _ _ _} _. Arguments tr_Ta {_ _ _ _} _. Arguments tr_Ra {_ _ _ _} _. Arguments tr_Ka {_ _ _ _} _.
Arguments tr_Xa {_ _ _ _} _. Arguments tr_J {_ _ _ _} _. Arguments tr_Ru {_ _ _ _} _.
Arguments sq_T {_ _ _ _} _. Arguments sq_P {_ _ _ _} _. Arguments sq_K {_ _ _ _} _. Arguments sq_X {_ _ _ _} _.
Arguments ms_Z {_ _ _ _} _. Arguments ms_H {_ _ _ _} _. Arguments ms_D {_ _ _ _} _. Arguments ms_Za {_ _ _ _} _.

(* ==================================================================== *)
(* Eigenvalue classification and the Blanchard-Kahn verdict: the predicates and both classifiers
   are the generated ones (gen/FordGen.v) *)

Record stability_report := mkRep {
  rep_kinds : list ekind; rep_num_stable : nat; rep_num_unit : nat; rep_num_unstable : nat; rep_verdict : skind }.

Definition stability (tolerance : Q) (eigenvalue_moduli : list Q) (num_forwards : nat) : stability_report :=
  let ks := classify_eigenvalues_stability tolerance eigenvalue_moduli in
  mkRep ks (count_kind E_STABLE ks) (count_kind E_UNIT_ROOT ks) (count_kind E_UNSTABLE ks)
        (classify_system_stability ks num_forwards).

(* ==================================================================== *)
(* Token level: fords/descriptors.py.  token = (qid, shift) *)

Definition token := (nat * Z)%type.
Definition tok_eqb (a b : token) : bool := Nat.eqb (fst a) (fst b) && Z.eqb (snd a) (snd b).
Definition mem_tok (t : token) (l : list token) : bool := existsb (tok_eqb t) l.

Fixpoint dedup_nat (l : list nat) : list nat :=
  match l with [] => [] | x :: r => if existsb (Nat.eqb x) r then dedup_nat r else x :: dedup_nat r end.

(* get_some_shift_by_quantities(tokens, min | max)[qid] *)
Definition shifts_of (q : nat) (l : list token) : list Z := map snd (filter (fun t => Nat.eqb (fst t) q) l).
Definition min_list (d : Z) (l : list Z) : Z := match l with [] => d | x :: r => fold_left Z.min r x end.
Definition max_list (d : Z) (l : list Z) : Z := match l with [] => d | x :: r => fold_left Z.max r x end.
Definition min_shift (q : nat) (l : list token) : Z := min_list 0%Z (shifts_of q l).
Definition max_shift (q : nat) (l : list token) : Z := max_list 0%Z (shifts_of q l).

(* range(a, b) over Z *)
Definition zrange (a b : Z) : list Z := map (fun i => (a + Z.of_nat i)%Z) (seq 0 (Z.to_nat (b - a))).

(* _create_system_transition_vector *)
Definition create_system_transition_vector (toks : list token) : list token :=
  flat_map (fun q =>
      map (fun sh => (q, sh))
          (zrange (system_range_lo (system_min_shift_floor (min_shift q toks))) (system_range_hi (max_shift q toks))))
    (dedup_nat (map fst toks)).

(* incidences.sort_tokens: sorted(tokens, key=lambda x: (-x.shift, x.qid)) -- insertion sort, stable *)
Definition key_leb (a b : token) : bool :=
  let ka := token_sort_key (fst a) (snd a) in let kb := token_sort_key (fst b) (snd b) in
  (fst ka <? fst kb)%Z || ((fst ka =? fst kb)%Z && (snd ka <=? snd kb)%Z).
Fixpoint insert_tok (t : token) (l : list token) : list token :=
  match l with [] => [t] | x :: r => if key_leb t x then t :: l else x :: insert_tok t r end.
Definition sort_tokens (l : list token) : list token := fold_right insert_tok [] l.

(* _adjust_for_measurement_equations: union with Token(qid, shift-1) of the transition variables
   occurring in measurement equations *)
Definition adjust_for_measurement (actual meas : list token) : list token :=
  actual ++ map (fun t => (fst t, measurement_pretend_shift (snd t))) meas.

Definition system_vector (actual meas : list token) : list token :=
  sort_tokens (create_system_transition_vector (adjust_for_measurement actual meas)).

Definition num_forwards (vec : list token) : nat := length (filter (fun t => is_forward_shift (snd t)) vec).
Definition num_backwards (vec : list token) : nat := length vec - num_forwards vec.

(* populate_true_initials: against the ACTUAL tokens (all equations, before the measurement adjustment) *)
Definition true_initials (actual vec : list token) : list bool :=
  map (fun t => is_true_initial (min_shift (fst t) actual) (snd t)) vec.

Definition solution_vector (vec : list token) : list token := skipn (num_forwards vec) vec.
Definition solution_true_initials (actual vec : list token) : list bool := skipn (num_forwards vec) (true_initials actual vec).

Fixpoint index_tok (t : token) (l : list token) : option nat :=
  match l with [] => None | x :: r => if tok_eqb t x then Some 0 else option_map S (index_tok t r) end.

(* _create_dynid_matrices: one row per token that is not at its quantity's maximum shift:
   (row, i) gets dynid_A_entry in A, (row, j) gets dynid_B_entry in B, j = index of the token shifted by +1.
   [None] models the ValueError of list.index *)
Fixpoint dynid_pairs_from (vec : list token) (rest : list token) (i : nat) : option (list (nat * nat)) :=
  match rest with
  | [] => Some []
  | t :: r =>
      if (snd t =? max_shift (fst t) vec)%Z then dynid_pairs_from vec r (S i)
      else match index_tok (fst t, dynid_next_shift (snd t)) vec, dynid_pairs_from vec r (S i) with
           | Some j, Some ps => Some ((i, j) :: ps)
           | _, _ => None
           end
  end.
Definition dynid_pairs (vec : list token) : option (list (nat * nat)) := dynid_pairs_from vec vec 0.

(* dense rows, as the code builds them *)
Definition unit_row (n : nat) (i : nat) (v : Z) : list Z := map (fun c => if Nat.eqb c i then v else 0%Z) (seq 0 n).
Definition dynid_A (vec : list token) (ps : list (nat * nat)) : list (list Z) :=
  map (fun p => unit_row (length vec) (fst p) dynid_A_entry) ps.
Definition dynid_B (vec : list token) (ps : list (nat * nat)) : list (list Z) :=
  map (fun p => unit_row (length vec) (snd p) dynid_B_entry) ps.

(* columns of the non-identity rows of B that can be non-zero: tokens whose lag is not in the vector *)
Definition lag_columns (vec : list token) : list bool :=
  map (fun t => negb (mem_tok (fst t, (snd t - 1)%Z) vec)) vec.

(* ==================================================================== *)
(* Helpers for the generated correspondence case files: the model instantiated on exact numbers *)
Module Case.

Fixpoint failing_idx (l : list bool) (i : nat) : list nat :=
  match l with [] => [] | b :: r => if b then failing_idx r (S i) else i :: failing_idx r (S i) end.

(* a matrix of doubles as written by the harness: integer mantissas over the common denominator 2^k (exact) *)
Definition raw := (list (list BinNums.Z) * BinNums.Z)%type.

(* ---- stage (a): every solution matrix from the recorded oracle outputs, exact rationals.
   expected order: T P K X Ua Ta Pa Ka Xa J Ru Z H D Za *)
Module A.
Import LF.
Notation FO := LF.FOps.
Definition tolinv : bigZ := BigZ.of_Z 10000000.       (* 1e-7 * (1 + |x|) *)
Definition fm_of (r : raw) : fm := of_dyadic (fst r) (snd r).

Definition solution_matrices (nb nf ne ny nw : nat) (S T Q Z C D Ta u F Gm Hc Jm : fm) : list fm :=
  let p := @solve_transition FO nb nf ne S T Q Z C D in
  let t := @detach FO nb nf ne p Ta u in
  let s := @square_from_triangular FO nb nf ne t in
  let m := @solve_measurement FO nb nf ny nw F Gm Hc Jm (tr_Ua t) in
  [sq_T s; sq_P s; sq_K s; sq_X s; tr_Ua t; tr_Ta t; tr_Ra t; tr_Ka t; tr_Xa t; tr_J t; tr_Ru t;
   ms_Z m; ms_H m; ms_D m; ms_Za m].

Definition check_solution (nb nf ne ny nw : nat) (S T Q Z C D Ta u F Gm Hc Jm : raw) (expected : list raw) : list nat :=
  failing_idx (map (fun p => mclose tolinv (fst p) (fst (snd p)) (snd (snd p)))
                   (combine (solution_matrices nb nf ne ny nw (fm_of S) (fm_of T) (fm_of Q) (fm_of Z) (fm_of C) (fm_of D)
                               (fm_of Ta) (fm_of u) (fm_of F) (fm_of Gm) (fm_of Hc) (fm_of Jm)) expected)) 0.

(* the constant vector of the unsolved system of a model not declared linear, from the steady-state path *)
Definition check_constant (m n : nat) (A B xi xil C : raw) : list nat :=
  failing_idx [mclose tolinv (@system_constant FO m n (fm_of A) (fm_of B) (fm_of xi) (fm_of xil)) (fst C) (snd C)] 0.
End A.

(* ---- stage (b): expansion and a whole flat simulation from the solution matrices the implementation
   reports; only + and * occur, so dyadic arithmetic is exact *)
Module B.
Import LD.
Notation DO := LD.Ops.
Definition tol : dyad := (BigZ.one, (-23)%Z).          (* 2^-23 = 1.19e-7, times (1 + |x|) *)
Definition dm_of (r : raw) : M := map (map (fun z => (BigZ.of_Z z, (- snd r)%Z))) (fst r).

(* the forward expansion as reported by Solution.expand_square_solution(forward) *)
Definition check_expansion (nb nf ne : nat) (P X J Ru : raw) (forward : nat) (expected : list raw) : bool :=
  all2 (mclose tol) (@expansion DO nb nf ne (dm_of P) (dm_of X) (dm_of J) (dm_of Ru) forward) (map dm_of expected).

(* expected: per period the transition vector xi_t (None = do not compare the cell) and y_t *)
Definition close_opt (m : dyad) (e : option dyad) : bool := match e with Some x => close tol m x | None => true end.
Definition col_close (m : M) (e : list (option dyad)) : bool :=
  Nat.eqb (length m) (length e) && forallb (fun p => close_opt (hd d0 (fst p)) (snd p)) (combine m e).

Definition check_simulation (split : bool) (nb nf ne ny nw : nat) (deviation : bool) (true_init : list bool)
    (T P K X J Ru Z H D : raw) (init_xi : raw) (us vs ws : list raw)
    (exp_xi exp_y : list (list (option dyad))) : list nat :=
  let sim := if split then @simulate_split DO nb nf ne else @simulate_flat DO nb nf ne in
  let xis := sim deviation (fun i => nth i true_init false) (dm_of T) (dm_of P) (dm_of K)
               (dm_of X) (dm_of J) (dm_of Ru) (dm_of init_xi) (map dm_of us) (map dm_of vs) in
  let ys := @simulate_measurement DO nb ny nw deviation (dm_of Z) (dm_of H) (dm_of D) xis (map dm_of ws) in
  let bx := Nat.eqb (length xis) (length exp_xi) :: map (fun p => col_close (fst p) (snd p)) (combine xis exp_xi) in
  let by_ := map (fun p => col_close (fst p) (snd p)) (combine ys exp_y) in
  failing_idx (bx ++ by_) 0.
End B.

(* ---- stage (c): tokens, exact *)
Definition tok_list_eqb (a b : list token) : bool := all2 tok_eqb a b.
Definition check_tokens (actual meas : list token) (e_vec : list token) (e_true : list bool) (e_nf : nat)
    (e_sol : list token) (e_sol_true : list bool) (e_dynA e_dynB : list (list Z)) : list nat :=
  let vec := system_vector actual meas in
  let ps := dynid_pairs vec in
  failing_idx [
    tok_list_eqb vec e_vec;
    all2 Bool.eqb (true_initials actual vec) e_true;
    Nat.eqb (num_forwards vec) e_nf;
    tok_list_eqb (solution_vector vec) e_sol;
    all2 Bool.eqb (solution_true_initials actual vec) e_sol_true;
    match ps with Some p => all2 (all2 Z.eqb) (dynid_A vec p) e_dynA | None => false end;
    match ps with Some p => all2 (all2 Z.eqb) (dynid_B vec p) e_dynB | None => false end ] 0.

(* ---- stage (d): classification; kinds coded 0 = STABLE, 1 = UNIT_ROOT, 2 = UNSTABLE; verdict 0 = STABLE,
   1 = MULTIPLE_STABLE, 2 = NO_STABLE *)
Definition ekind_code (k : ekind) : nat := match k with E_STABLE => 0 | E_UNIT_ROOT => 1 | E_UNSTABLE => 2 end.
Definition skind_code (k : skind) : nat := match k with S_STABLE => 0 | S_MULTIPLE_STABLE => 1 | S_NO_STABLE => 2 end.
Definition check_stability (tolerance : Q) (moduli : list Q) (nf : nat) (e_kinds : list nat) (e_verdict : nat) : list nat :=
  let r := stability tolerance moduli nf in
  failing_idx [ all2 Nat.eqb (map ekind_code (rep_kinds r)) e_kinds; Nat.eqb (skind_code (rep_verdict r)) e_verdict ] 0.
End Case.
