(* Executable model of irispie/frames.py and of the frame loop of simultaneous/_simulate.py
   (break points, frames, column slices, pruning, write-back).  NO proofs here.
   The index formulas of Frame.resolve_columns and the guard of prune_frame_data come from
   gen/FramesGen.v, regenerated from the source on every run.
   Periods of one frequency are integer serials (Period - Period = difference of serials: C09). *)
From Coq Require Import ZArith List Bool.
From Verif Require Import gen.FramesGen.
Import ListNotations.
Open Scope Z_scope.

(* ---------- small list utilities ---------- *)

Fixpoint zrange_from (a : Z) (n : nat) : list Z :=
  match n with O => [] | S k => a :: zrange_from (a + 1) k end.
(* Python's range(a, b) *)
Definition zrange (a b : Z) : list Z := zrange_from a (Z.to_nat (b - a)).

Definition zmem (x : Z) (l : list Z) : bool := existsb (Z.eqb x) l.

Fixpoint map2 {A B C} (f : A -> B -> C) (a : list A) (b : list B) : list C :=
  match a, b with x :: xs, y :: ys => f x y :: map2 f xs ys | _, _ => [] end.

(* ---------- periods of the dataslate (dataslates/main.py::_get_extended_span) ---------- *)

(* the base span extended by the deepest lag (min_shift <= 0) and the deepest lead (max_shift >= 0) with which ANY
   quantity -- endogenous or exogenous variable, shock, parameter -- occurs in the equations *)
Definition extended_periods (base_first base_last min_shift max_shift : Z) : list Z :=
  zrange (base_first + min_shift) (base_last + max_shift + 1).

(* column of a period in the data array *)
Definition column_of (first_column_period p : Z) : Z := p - first_column_period.

(* ---------- break points (frames._populate_base_break_points, _update_break_points) ---------- *)

(* np.any(..., axis=0) of a rows x n boolean array *)
Definition col_any (n : nat) (rows : list (list bool)) : list bool :=
  fold_left (fun acc r => map2 orb acc r) rows (repeat false n).

(* base_break_points | np.any(np.isfinite(a) & (a != 0), axis=0) ; [nz] is the cell test *)
Definition update_break_points {V} (nz : V -> bool) (bp : list bool) (arr : list (list V)) : list bool :=
  map2 orb bp (col_any (length bp) (map (map nz) arr)).

(* create_empty_base_break_points + base_break_points[0] = True *)
Definition initial_break_points (n : nat) : list bool :=
  match n with O => [] | S k => true :: repeat false k end.

(* [ucut]: rows of the unanticipated shocks restricted to the base columns (None when there are no such rows
   or no base columns); [pcut]: the plan's endogenized_unanticipated register over the base periods (None = no plan) *)
Definition populate_base_break_points {V} (nz : V -> bool) (n : nat)
           (ucut : option (list (list V))) (pcut : option (list (list bool))) : list bool :=
  let bp0 := initial_break_points n in
  let bp1 := match ucut with Some a => update_break_points nz bp0 a | None => bp0 end in
  match pcut with Some a => update_break_points (fun b : bool => b) bp1 a | None => bp1 end.

(* period-by-period: base_break_points[:] = True *)
Definition all_break_points (n : nat) : list bool := repeat true n.

(* ---------- frames (split_into_frames_by_breakpoints) ---------- *)

Record frame := mkFrame { f_start : Z; f_end : Z; f_sim_end : Z }.

Definition break_periods (bp : list bool) (base_periods : list Z) : list Z :=
  map fst (filter snd (combine base_periods bp)).

Definition split_frames (sim_end : Z -> Z -> Z) (bp : list bool) (base_periods : list Z) : list frame :=
  let bps := break_periods bp base_periods in
  let nexts := tl bps ++ [last base_periods 0 + 1] in
  map (fun sn => let e := snd sn - 1 in mkFrame (fst sn) e (sim_end (fst sn) e)) (combine bps nexts).

(* stacked_time.create_frames: every frame is simulated until the end of the base span *)
Definition stacked_frames (bp : list bool) (base_periods : list Z) : list frame :=
  split_frames (fun _ _ => last base_periods 0) bp base_periods.

(* period_by_period.create_frames: all break points set, each frame simulated until its own end *)
Definition pbp_frames (base_periods : list Z) : list frame :=
  split_frames (fun _ e => e) (all_break_points (length base_periods)) base_periods.

(* columns, through the regenerated Frame.resolve_columns; fcp = period of the first column of the dataslate *)
Definition f_first (fcp : Z) (f : frame) : Z := fr_first (f_start f) (f_end f) (f_sim_end f) fcp.
Definition f_last (fcp : Z) (f : frame) : Z := fr_last (f_start f) (f_end f) (f_sim_end f) fcp.
Definition f_sim_last (fcp : Z) (f : frame) : Z := fr_simulation_last (f_start f) (f_end f) (f_sim_end f) fcp.
Definition f_slice (fcp : Z) (f : frame) := fr_slice (f_start f) (f_end f) (f_sim_end f) fcp.
Definition f_zero_slice (fcp : Z) (f : frame) := fr_zero_unanticipated_slice (f_start f) (f_end f) (f_sim_end f) fcp.
Definition f_sim_slice (fcp : Z) (f : frame) := fr_simulation_slice (f_start f) (f_end f) (f_sim_end f) fcp.
Definition f_num_sim_columns (fcp : Z) (f : frame) := fr_num_simulation_columns (f_start f) (f_end f) (f_sim_end f) fcp.

(* membership of a non-negative column in slice(lo, hi) (hi = None: to the end) *)
Definition in_slice (s : Z * option Z) (c : Z) : bool :=
  (fst s <=? c) && match snd s with Some h => c <? h | None => true end.

(* columns_to_run = range(frame.first, frame.simulation_last+1) *)
Definition columns_to_run (fcp : Z) (f : frame) : list Z := zrange (f_first fcp f) (f_sim_last fcp f + 1).

(* ---------- data arrays: rows (quantity ids) x columns ---------- *)

Section Data.
Context {V : Type}.

Definition get (dflt : V) (d : list (list V)) (q c : Z) : V :=
  if (q <? 0) || (c <? 0) then dflt else nth (Z.to_nat c) (nth (Z.to_nat q) d []) dflt.

Fixpoint mapi_from {A B} (f : Z -> A -> B) (i : Z) (l : list A) : list B :=
  match l with [] => [] | x :: r => f i x :: mapi_from f (i + 1) r end.

(* new array whose cell (q,c) is f q c (old cell) *)
Definition mapi2 (f : Z -> Z -> V -> V) (d : list (list V)) : list (list V) :=
  mapi_from (fun q row => mapi_from (fun c v => f q c v) 0 row) 0 d.

(* SplitFrame.prune_frame_data: data[unanticipated_qids, first+1:] = 0 unless start == simulation_end *)
Definition prune (zero : V) (uq : list Z) (fcp : Z) (f : frame) (d : list (list V)) : list (list V) :=
  if prune_skipped (f_start f) (f_end f) (f_sim_end f) then d
  else mapi2 (fun q c v => if zmem q uq && in_slice (f_zero_slice fcp f) c then zero else v) d.

(* SplitFrame.write_frame_data_to_main_dataslate:
     main[regular, slice] = frame[regular, slice];  main[unanticipated, first] = frame[unanticipated, first] *)
Definition written_back (uq : list Z) (fcp : Z) (f : frame) (q c : Z) : bool :=
  if zmem q uq then c =? f_first fcp f else in_slice (f_slice fcp f) c.

Definition write_back (dflt : V) (uq : list Z) (fcp : Z) (f : frame) (main fdata : list (list V)) : list (list V) :=
  mapi2 (fun q c v => if written_back uq fcp f q c then get dflt fdata q c else v) main.

End Data.
