(* C01  Model of the list of parameter variants of a model object (has_variants.py::Mixin, simultaneous/_variants.py::Variant,
   simultaneous/_assigns.py::_assign) as a small object store.

   A model object holds `_variants`, a list of REFERENCES to Variant objects; each Variant carries the values assigned to
   the model's names (and, derived from them, the steady state and the first-order solution that C01 is about).  The state
   is  heap : location -> name -> value,  next : the first unused location,  vars : the list of locations in `_variants`.
   `expand_num_variants` is the statement regenerated from the source (gen/VariantListGen.v), executed here.

   Executable definitions only; no proofs in this file. *)
From Coq Require Import List ZArith Bool Arith.
From Verif Require Import lib.VarStmt gen.VariantListGen.
Import ListNotations.

Record vstate := mkVS {
  heap : nat -> nat -> Z;     (* object identity -> name -> assigned value *)
  next : nat;                 (* allocation counter: every location >= next is unused *)
  vars : list nat             (* self._variants *)
}.

Definition last_loc (st : vstate) : nat := last (vars st) 0.

(* one evaluation of the element expression: Variant.copy() allocates a NEW object with the same content *)
Definition eval_elem (e : velem) (st : vstate) : vstate * nat :=
  match e with
  | ECopyLast =>
      let src := heap st (last_loc st) in
      (mkVS (fun l => if Nat.eqb l (next st) then src else heap st l) (S (next st)) (vars st), next st)
  | ELast => (st, last_loc st)
  end.

Definition append_one (e : velem) (st : vstate) : vstate :=
  let '(st', l) := eval_elem e st in mkVS (heap st') (next st') (vars st' ++ [l]).

Fixpoint iter_append (k : nat) (e : velem) (st : vstate) : vstate :=
  match k with
  | 0 => st
  | S k' => iter_append k' e (append_one e st)
  end.

(* expand_num_variants(new_num), new_num >= 1: new_num - num_variants elements are added *)
Definition exec_expand (s : vstmt) (new_num : nat) (st : vstate) : vstate :=
  let k := new_num - length (vars st) in
  match s with
  | SForAppend e => iter_append k e st
  | SExtendRepeat e => let '(st', l) := eval_elem e st in mkVS (heap st') (next st') (vars st' ++ repeat l k)
  end.

Definition exec_shrink (s : vshrink) (new_num : nat) (st : vstate) : vstate :=
  match s with SPrefix => mkVS (heap st) (next st) (firstn new_num (vars st)) end.

(* alter_num_variants(new_num); new_num < 1 raises before anything is changed *)
Definition alter (new_num : nat) (st : vstate) : vstate :=
  if Nat.eqb new_num 0 then st
  else if Nat.ltb new_num (length (vars st)) then exec_shrink shrink_stmt new_num st
  else if Nat.ltb (length (vars st)) new_num then exec_expand expand_stmt new_num st
  else st.

(* _assign: `for variant, values in zip(self._variants, iter_variants(values))`; a list of values is consumed one per
   variant and its last element is repeated (exhaust_then_last); a scalar is the one-element list *)
Definition value_for (vals : list Z) (i : nat) : option Z :=
  match vals with
  | [] => None
  | _ => Some (nth (Nat.min i (length vals - 1)) vals 0%Z)
  end.

Definition write (l name : nat) (v : Z) (st : vstate) : vstate :=
  mkVS (fun l' => if Nat.eqb l' l then (fun nm => if Nat.eqb nm name then v else heap st l nm) else heap st l')
       (next st) (vars st).

Fixpoint assign_from (i : nat) (ls : list nat) (name : nat) (vals : list Z) (st : vstate) : vstate :=
  match ls with
  | [] => st
  | l :: r => assign_from (S i) r name vals (match value_for vals i with Some v => write l name v st | None => st end)
  end.

Definition assign (name : nat) (vals : list Z) (st : vstate) : vstate := assign_from 0 (vars st) name vals st.

(* what variant i holds for a name *)
Definition read (st : vstate) (i name : nat) : Z := heap st (nth i (vars st) 0) name.

(* histories of calls on one model object *)
Inductive vop : Set :=
| OAlter (new_num : nat)
| OAssign (name : nat) (vals : list Z).

Definition step (st : vstate) (o : vop) : vstate :=
  match o with
  | OAlter k => alter k st
  | OAssign name vals => assign name vals st
  end.

Definition run (ops : list vop) (st : vstate) : vstate := fold_left step ops st.

(* a freshly created model: one variant *)
Definition init : vstate := mkVS (fun _ _ => 0%Z) 1 [0].

(* ==================================================================== *)
(* correspondence: after every call, (identity pattern of _variants, values of the tracked names per variant) *)
Module VCase.

Fixpoint index_of (x : nat) (l : list nat) : nat :=
  match l with [] => 0 | y :: r => if Nat.eqb x y then 0 else S (index_of x r) end.
(* canonical identity pattern: every entry replaced by the position of its first occurrence *)
Definition pattern (l : list nat) : list nat := map (fun x => index_of x l) l.

Definition observe (nnames : nat) (st : vstate) : list nat * list (list Z) :=
  (pattern (vars st), map (fun i => map (fun nm => read st i nm) (seq 0 nnames)) (seq 0 (length (vars st)))).

Fixpoint all2 {T} (f : T -> T -> bool) (a b : list T) : bool :=
  match a, b with [], [] => true | x :: xs, y :: ys => f x y && all2 f xs ys | _, _ => false end.

Definition obs_eqb (a b : list nat * list (list Z)) : bool :=
  all2 Nat.eqb (fst a) (fst b) && all2 (all2 Z.eqb) (snd a) (snd b).

(* indices of the calls after which model and implementation differ *)
Fixpoint check_from (nnames : nat) (i : nat) (st : vstate) (ops : list vop) (expected : list (list nat * list (list Z)))
  : list nat :=
  match ops, expected with
  | o :: r, e :: er =>
      let st' := step st o in
      (if obs_eqb (observe nnames st') e then [] else [i]) ++ check_from nnames (S i) st' r er
  | [], [] => []
  | _, _ => [i]
  end.

Definition check_variants (nnames : nat) (ops : list vop) (expected : list (list nat * list (list Z))) : list nat :=
  check_from nnames 0 init ops expected.
End VCase.
