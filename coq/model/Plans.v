(* Executable model of simulation plans and of the first-order conditional simulation
   (plans/simulation_plans.py, plans/_registers.py; fords/simulators.py: _simulate_conditional,
    _generate_period_system, _generate_Z, _generate_R, _adjust_initials, _generate_period_data,
    _store_smooth, _create_Z_xi, _insert_*; fords/shock_simulators.py: the anticipated impact;
    fords/solutions.py: _get_solution_expansion).  NO proofs in this file.

   Part A  plan bookkeeping: the registers as a state machine over the history of
           exogenize_* / endogenize_* / swap_* calls, and the views the simulators read.
   Part B  conditional simulation of one frame, written once over the matrix interface lib/MatOps.v:
           the Kalman model of C03/C08 (model/Kalman.v: kf_run, smooth_all) run on the state
           [xi; endogenized anticipated shocks] with the exogenized cells as noiseless observations.

   Reading guide, Part B (Python name -> model name):
     _create_Z_xi                                   Z_xi
     _get_solution_expansion (Rx[k])                expand_at
     _simulate_anticipated_shock_values, impact[t]  ant_impact        (None is the zero vector)
     _generate_R(t, incidence_v, Rx, num_xi)        gen_R
     _generate_period_system + _generate_period_data   aug_period
     _adjust_initials                               aug_init_med, aug_init_mse
     kalmans.predict + kalmans.smooth               cond_run  (= smooth_all (kf_run ...))
     _store_smooth: xi, u, w, v_endogenized         out_xi, out_curr, out_u, out_w, out_v, dv_list, add_cols
   The code as repaired by fixes/C07_1.patch (date-major order of the endogenized anticipated cells
   everywhere) and fixes/C07_2.patch (exogenized values of log-variables are read in logs) is modelled. *)
From Coq Require Import List Bool Arith ZArith.
From Verif Require Import lib.MatOps model.Kalman.
Import ListNotations.

(* ====================================================================================== *)
(* Part A: plan registers                                                                  *)
(* ====================================================================================== *)

(* status of one (name, period) point: None (never written), or the bool written last *)
Inductive status := SNone | SFalse | STrue.

(* _is_active_status: value is not None and value is not False *)
Definition is_active (s : status) : bool := match s with STrue => true | _ => false end.
(* bool(status) as used by np.array(..., dtype=bool) and _get_names_registered_in_period *)
Definition status_bool (s : status) : bool := match s with STrue => true | _ => false end.
Definition status_of_bool (b : bool) : status := if b then STrue else SFalse.

(* the four registers of a plan for a Simultaneous model *)
Inductive rname := ExogAnt | ExogUnant | EndogUnant | EndogAnt.
Definition rname_eqb (a b : rname) : bool :=
  match a, b with
  | ExogAnt, ExogAnt | ExogUnant, ExogUnant | EndogUnant, EndogUnant | EndogAnt, EndogAnt => true
  | _, _ => false
  end.

(* a register: for each name (a number; its position in can_be_<register>) the list of statuses over the
   base span; the number of names is fixed at construction *)
Definition register := list (list status).

Record plan := mkPlan {
  pl_start : Z;                     (* serial of the first period of the base span *)
  pl_nper : nat;                    (* len(base_span) *)
  pl_exog_ant : register; pl_exog_unant : register; pl_endog_unant : register; pl_endog_ant : register
}.

Definition get_register (p : plan) (r : rname) : register :=
  match r with
  | ExogAnt => pl_exog_ant p | ExogUnant => pl_exog_unant p
  | EndogUnant => pl_endog_unant p | EndogAnt => pl_endog_ant p
  end.
Definition set_register (p : plan) (r : rname) (g : register) : plan :=
  match r with
  | ExogAnt => mkPlan (pl_start p) (pl_nper p) g (pl_exog_unant p) (pl_endog_unant p) (pl_endog_ant p)
  | ExogUnant => mkPlan (pl_start p) (pl_nper p) (pl_exog_ant p) g (pl_endog_unant p) (pl_endog_ant p)
  | EndogUnant => mkPlan (pl_start p) (pl_nper p) (pl_exog_ant p) (pl_exog_unant p) g (pl_endog_ant p)
  | EndogAnt => mkPlan (pl_start p) (pl_nper p) (pl_exog_ant p) (pl_exog_unant p) (pl_endog_unant p) g
  end.

(* SimulationPlan(model, span): every register filled with [None] * num_periods;
   nvar = number of transition variables, nshock = number of transition shocks (= of ant_ names) *)
Definition empty_register (names nper : nat) : register := repeat (repeat SNone nper) names.
Definition new_plan (start : Z) (nper nvar nshock : nat) : plan :=
  mkPlan start nper (empty_register nvar nper) (empty_register nvar nper)
         (empty_register nshock nper) (empty_register nshock nper).

(* the `dates` / `names` arguments: `...` or an explicit collection (a single str is a one-element list) *)
Inductive sel (A : Type) := All | These (l : list A).
Arguments All {A}. Arguments These {A} l.

(* what a call does: it returns normally, or raises IrisPieCritical (names that are not in the register)
   or IrisPieError (periods outside the base span) *)
Inductive result := ROk | RInvalidNames | RInvalidPeriods.

Definition in_span (p : plan) (d : Z) : bool := (pl_start p <=? d)%Z && (d <? pl_start p + Z.of_nat (pl_nper p))%Z.

(* _resolve_register_names + _validate_register_names *)
Definition resolve_names (g : register) (names : sel nat) : option (list nat) :=
  match names with
  | All => Some (seq 0 (length g))
  | These l => if forallb (fun k => k <? length g) l then Some l else None
  end.
(* _get_period_indexes + catch_invalid_periods *)
Definition resolve_periods (p : plan) (dates : sel Z) : option (list nat) :=
  match dates with
  | All => Some (seq 0 (pl_nper p))
  | These l => if forallb (in_span p) l then Some (map (fun d => Z.to_nat (d - pl_start p)) l) else None
  end.

Fixpoint set_nth {A} (l : list A) (k : nat) (v : A) : list A :=
  match l, k with
  | [], _ => []
  | _ :: r, O => v :: r
  | x :: r, S k' => x :: set_nth r k' v
  end.

(* register[n][t] = new_status for n in names for t in per_indexes *)
Definition write_points (g : register) (names periods : list nat) (v : status) : register :=
  fold_left (fun g n => set_nth g n (fold_left (fun row t => set_nth row t v) periods (nth n g []))) names g.

(* _write_to_register: names are validated first, then the periods; nothing is written when it raises *)
Definition write_to_register (p : plan) (r : rname) (dates : sel Z) (names : sel nat) (v : status) : plan * result :=
  match resolve_names (get_register p r) names with
  | None => (p, RInvalidNames)
  | Some ns =>
      match resolve_periods p dates with
      | None => (p, RInvalidPeriods)
      | Some ts => (set_register p r (write_points (get_register p r) ns ts v), ROk)
      end
  end.

(* the public calls *)
Inductive call :=
| Write (r : rname) (dates : sel Z) (names : sel nat) (status_ : bool)
    (* exogenize_anticipated / exogenize_unanticipated / endogenize_unanticipated / endogenize_anticipated *)
| Swap (anticipated : bool) (dates : sel Z) (pairs : list (nat * nat)) (status_ : bool).
    (* swap_anticipated / swap_unanticipated over (variable, shock) pairs *)

(* for pair in pairs: exogenize(dates, pair[0]); endogenize(dates, pair[1]) -- in place, so the writes made
   before a failing one stay *)
Fixpoint swap_pairs (p : plan) (rx rn : rname) (dates : sel Z) (pairs : list (nat * nat)) (v : status) : plan * result :=
  match pairs with
  | [] => (p, ROk)
  | (x, e) :: rest =>
      match write_to_register p rx dates (These [x]) v with
      | (p1, ROk) =>
          match write_to_register p1 rn dates (These [e]) v with
          | (p2, ROk) => swap_pairs p2 rx rn dates rest v
          | err => err
          end
      | err => err
      end
  end.

Definition apply_call (p : plan) (c : call) : plan * result :=
  match c with
  | Write r dates names b => write_to_register p r dates names (status_of_bool b)
  | Swap ant dates pairs b =>
      swap_pairs p (if ant then ExogAnt else ExogUnant) (if ant then EndogAnt else EndogUnant) dates pairs (status_of_bool b)
  end.

(* a history of calls on one plan object (exceptions caught by the caller) *)
Fixpoint apply_calls (p : plan) (cs : list call) : plan * list result :=
  match cs with
  | [] => (p, [])
  | c :: r => let '(p1, res) := apply_call p c in let '(p2, rs) := apply_calls p1 r in (p2, res :: rs)
  end.

(* ---- views ---- *)

(* get_register_as_bool_array(register_name, names, periods): periods outside the base span read False *)
Definition point_bool (p : plan) (row : list status) (d : Z) : bool :=
  if in_span p d then status_bool (nth (Z.to_nat (d - pl_start p)) row SNone) else false.
Definition bool_array (p : plan) (r : rname) (names : list nat) (periods : list Z) : list (list bool) :=
  map (fun n => map (point_bool p (nth n (get_register p r) [])) periods) names.
Definition bool_array_all (p : plan) (r : rname) (periods : list Z) : list (list bool) :=
  bool_array p r (seq 0 (length (get_register p r))) periods.

(* get_<register>(): the periods at which each name is registered *)
Definition registered_periods (p : plan) (r : rname) : list (list Z) :=
  map (fun row => map (fun k => (pl_start p + Z.of_nat k)%Z)
                      (filter (fun k => is_active (nth k row SNone)) (seq 0 (length row))))
      (get_register p r).

(* get_<register>_in_period(date): the names registered in the period (date inside the span) *)
Definition names_in_period (p : plan) (r : rname) (d : Z) : list nat :=
  filter (fun n => status_bool (nth (Z.to_nat (d - pl_start p)) (nth n (get_register p r) []) SNone))
         (seq 0 (length (get_register p r))).

Definition has_points (g : register) : bool := existsb (existsb is_active) g.
(* is_empty *)
Definition plan_is_empty (p : plan) : bool :=
  negb (has_points (pl_exog_ant p) || has_points (pl_exog_unant p)
        || has_points (pl_endog_unant p) || has_points (pl_endog_ant p)).
(* any_endogenized_anticipated_except_start / any_endogenized_unanticipated_except_start *)
Definition any_except_start (p : plan) (r : rname) : bool :=
  existsb (fun row => existsb is_active (tl row)) (get_register p r).


(* ====================================================================================== *)
(* Part B: first-order conditional simulation of one frame                                 *)
(* ====================================================================================== *)


Section CondSim.
Variable M : MatOps.
Notation mx := (mx M).
Notation sc := (sc M).
Local Notation "A *m B" := (mmul M A B) (at level 40, left associativity).
Local Notation "A +m B" := (madd M A B) (at level 50, left associativity).
Local Notation "A ^T" := (mtr M A) (at level 30, format "A ^T").

(* n = len(transition solution vector), nu = number of transition shocks, nw = measurement shocks,
   curr = squid.curr_xi_indexes (positions of the current-dated variables in the solution vector) *)
Variables n nu nw : nat.
Variable curr : list nat.
Notation ncur := (length curr).

(* the first-order solution as the conditional simulator reads it *)
Record csys := mkCsys { cs_T : mx n n; cs_P : mx n nu; cs_K : mx n 1 }.

(* _create_Z_xi: Z_xi[range(num_curr_xi), curr_xi_indexes] = 1 *)
Definition Z_xi : mx ncur n := mrows M curr (mid M n).

(* A[:, mask] *)
Definition mcolsel {m k : nat} (mask : list bool) (A : mx m k) : mx m (count_true mask) :=
  (msel M mask (A^T))^T.

(* ---- anticipated shocks ---- *)

(* _get_solution_expansion: Rx[0] = P, Rx[k] = -X @ matrix_power(J, k-1) @ Ru *)
Section Expansion.
Variable nf : nat.
Fixpoint mpow (J : mx nf nf) (k : nat) : mx nf nf :=
  match k with O => mid M nf | S k' => mpow J k' *m J end.
Definition expand_at (P : mx n nu) (X : mx n nf) (J : mx nf nf) (Ru : mx nf nu) (k : nat) : mx n nu :=
  match k with O => P | S k1 => (mopp M X *m mpow J k1) *m Ru end.
End Expansion.

(* incidence_v, one entry per simulated column (date-major): which anticipated shocks are endogenized there *)
Definition incidence := list (list bool).
Fixpoint nv_of (inc : incidence) : nat :=
  match inc with [] => 0 | c :: r => count_true c + nv_of r end.

(* impact of the anticipated shocks dated i, i+1, ... (the list [vs]) on the transition vector in column t:
   the sum over the dates s >= t of Rx[s - t] @ v[:, s] *)
Fixpoint imp_sum (Rx : nat -> mx n nu) (t i : nat) (vs : list (mx nu 1)) : mx n 1 :=
  match vs with
  | [] => mzero M n 1
  | v :: r => (if i <? t then mzero M n 1 else Rx (i - t) *m v) +m imp_sum Rx t (S i) r
  end.
Definition ant_impact (Rx : nat -> mx n nu) (vs : list (mx nu 1)) (t : nat) : mx n 1 := imp_sum Rx t 0 vs.

(* _generate_R: hstack over the dates i of Rx[i - t][:, incidence_v[:, i]] (zeros for the dates before t) *)
Fixpoint gen_R (Rx : nat -> mx n nu) (t i : nat) (inc : incidence) : mx n (nv_of inc) :=
  match inc with
  | [] => mzero M n 0
  | c :: r => mrow M (if i <? t then mzero M n (count_true c) else mcolsel c (Rx (i - t)))
                     (gen_R Rx t (S i) r)
  end.

(* the endogenized values spread back over the (shock, date) cells they belong to: per date a full
   column of increments, zero off the incidence *)
Fixpoint dv_list (inc : incidence) : mx (nv_of inc) 1 -> list (mx nu 1) :=
  match inc return mx (nv_of inc) 1 -> list (mx nu 1) with
  | [] => fun _ => []
  | c :: r => fun v => (mcolsel c (mid M nu) *m musub M v) :: dv_list r (mdsub M v)
  end.

(* data[v_qids][incidence] += v_endogenized, column by column *)
Fixpoint add_cols (vs dvs : list (mx nu 1)) : list (mx nu 1) :=
  match vs, dvs with
  | v :: vr, d :: dr => (v +m d) :: add_cols vr dr
  | _, _ => []
  end.

(* ---- one simulated column of the frame ---- *)

Record ccol := mkCcol {
  c_mask : list bool;     (* ~isnan(curr_xi_exogenized[:, t]): exogenized (anticipated or unanticipated) here *)
  c_target : mx ncur 1;   (* input_data_array[curr_xi_qids, t], logs of log-variables *)
  c_std_u : list sc;      (* std_u_endogenized[:, t]: the input std at endogenized_unanticipated cells, 0 elsewhere *)
  c_u0 : mx nu 1;         (* u0_array[:, t] *)
  c_w0 : mx nw 1          (* w0_array[:, t] *)
}.

Section Frame.
Variable s : csys.
Variable Rx : nat -> mx n nu.       (* solution.expand_square_solution *)
Variable vs : list (mx nu 1).       (* v0_array, one column per simulated column *)
Variable inc : incidence.           (* endogenized_anticipated register over the simulated columns *)
Notation nv := (nv_of inc).
Notation na := (n + nv_of inc).

(* _generate_period_system(t) and _generate_period_data(t): the state is [xi; endogenized anticipated shocks],
   the observations are the exogenized current-dated variables, H = 0, D = 0, cov_w = 0 *)
Definition aug_period (t : nat) (c : ccol) : period M na nw :=
  mkPeriod (count_true (c_mask c))
    (mblock M (cs_T s) (gen_R Rx t 0 inc) (mzero M nv n) (mid M nv))
    (mcol M (cs_K s) (mzero M nv 1))
    (UP nu (mcol M (cs_P s) (mzero M nv nu)) (cov_from_std M nu (c_std_u c)) (c_u0 c))
    (Some (mcol M (ant_impact Rx vs t) (mzero M nv 1)))
    (mrow M (msel M (c_mask c) Z_xi) (mzero M (count_true (c_mask c)) nv))
    (mzero M (count_true (c_mask c)) nw) (mzero M (count_true (c_mask c)) 1)
    (mzero M nw nw) (c_w0 c)
    (msel M (c_mask c) (c_target c)).

Fixpoint cond_periods (t : nat) (cols : list ccol) : list (period M na nw) :=
  match cols with [] => [] | c :: r => aug_period t c :: cond_periods (S t) r end.

(* _adjust_initials: zero MSE on xi, the variances of the endogenized anticipated shocks on the rest *)
Definition aug_init_med (a : mx n 1) : mx na 1 := mcol M a (mzero M nv 1).
Definition aug_init_mse (std_v : list sc) : mx na na :=
  mblock M (mzero M n n) (mzero M n nv) (mzero M nv n) (cov_from_std M nv std_v).

(* kalmans.predict followed by kalmans.smooth *)
Definition cond_run (a : mx n 1) (std_v : list sc) (cols : list ccol) : list (sper M na nw) :=
  smooth_all (kf_run (aug_init_med a) (aug_init_mse std_v) (cond_periods 0 cols)).

(* _store_smooth *)
Definition out_xi (x : sper M na nw) : mx n 1 := musub M (s_a (so x)).            (* xi_array[:, t] *)
Definition out_curr (x : sper M na nw) : mx ncur 1 := mrows M curr (out_xi x).     (* data[curr_xi_qids, t] *)
Definition out_v (x : sper M na nw) : mx nv 1 := mdsub M (s_a (so x)).            (* v_endogenized, read at the last column *)
Definition out_vs (l : list (sper M na nw)) : list (mx nu 1) :=
  match rev l with
  | [] => vs
  | x :: _ => add_cols vs (dv_list inc (out_v x))
  end.

End Frame.

(* _simulate_measurement *)
Definition meas_out {ny : nat} (Z : mx ny n) (H : mx ny nw) (D : mx ny 1) (xi : mx n 1) (w : mx nw 1) : mx ny 1 :=
  (Z *m xi +m H *m w) +m D.

End CondSim.

Arguments mkCsys {M n nu} cs_T cs_P cs_K.
Arguments cs_T {M n nu} c.
Arguments cs_P {M n nu} c.
Arguments cs_K {M n nu} c.
Arguments Z_xi M n curr.
Arguments mcolsel {M m k} mask A.
Arguments mpow {M nf} J k.
Arguments expand_at {M n nu nf} P X J Ru k.
Arguments imp_sum {M n nu} Rx t i vs.
Arguments ant_impact {M n nu} Rx vs t.
Arguments gen_R {M n nu} Rx t i inc.
Arguments dv_list {M nu} inc v.
Arguments add_cols {M nu} vs dvs.
Arguments mkCcol {M nu nw curr} c_mask c_target c_std_u c_u0 c_w0.
Arguments c_mask {M nu nw curr} c.
Arguments c_target {M nu nw curr} c.
Arguments c_std_u {M nu nw curr} c.
Arguments c_u0 {M nu nw curr} c.
Arguments c_w0 {M nu nw curr} c.
Arguments aug_period {M n nu nw curr} s Rx vs inc t c.
Arguments cond_periods {M n nu nw curr} s Rx vs inc t cols.
Arguments aug_init_med {M n} inc a.
Arguments aug_init_mse {M n} inc std_v.
Arguments cond_run {M n nu nw curr} s Rx vs inc a std_v cols.
Arguments out_xi {M n nw} inc x.
Arguments out_curr {M n nw} curr inc x.
Arguments out_v {M n nw} inc x.
Arguments out_vs {M n nu nw} vs inc l.
Arguments meas_out {M n nw ny} Z H D xi w.
