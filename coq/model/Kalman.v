(* Executable model of irispie's Kalman filter, smoother and likelihood
   (fords/kalmans.py: predict, update, smooth, one_step_back, Cache.calculate_likelihood*,
    _calculate_variance_scale, _OutputStore.store_*; simultaneous/_kalmans.py:
    _generate_period_system, _generate_period_data; fords/covariances.py: symmetrize, std_from_cov),
   written once over the matrix interface lib/MatOps.v.  NO proofs in this file.

   Reading guide (Python name -> model name):
     predict, loop body at t              kf_step   (a1_prev, Q1_prev, period t)  ->  frec
     predict, the loop                    kf_run
     cache.all_T_G_prev[t], all_L[t]      computed in one_step_back from T of period t+1, which the
                                          backward state carries along (same values; the code computes
                                          them one iteration later in the forward loop)
     one_step_back                        one_step_back
     `t <= cache.last_period_of_observations`
                                          [0 <? ny] || [state is not None]  (equivalent: the backward
                                          state is None exactly until the last period with observations)
     update                               update_all  (one_step_back with N = r = None in every period)
     smooth                               smooth_all  (right fold = the reversed loop)
     Cache.calculate_likelihood etc.      likelihood, contributions (as repaired by fixes/C03_1.patch:
                                          the contributions carry the variance scale)
     predict (Xi), estimate_unknown_init, correct_for_unknown_init
                                          xi_run, estimate_unknown_init, correct_for_unknown_init
   Not modelled: the `check_singularity` option, multiple variants, the least-squares solution of a
   rank-deficient GLS system (numpy lstsq; the model uses the inverse). *)
From Coq Require Import List Bool Arith.
From Verif Require Import lib.MatOps.
Import ListNotations.

Section Kalman.
Variable M : MatOps.
Notation mx := (mx M).
Notation sc := (sc M).
Local Notation "A *m B" := (mmul M A B) (at level 40, left associativity).
Local Notation "A +m B" := (madd M A B) (at level 50, left associativity).
Local Notation "A -m B" := (msub M A B) (at level 50, left associativity).
Local Notation "A ^T" := (mtr M A) (at level 30, format "A ^T").

Definition shalf : sc := sdiv M (s1 M) (sofnat M 2).

(* covariances.symmetrize: (X + X.T) / 2 *)
Definition symmetrize {k : nat} (X : mx k k) : mx k k := mscale M shalf (X +m X^T).

(* state dimension, number of measurement shocks *)
Variables n nw : nat.

(* Transition shocks of one period.  [UNone] is the `P is None` branch of predict: the shock
   enters the state one to one, its covariance is n x n. *)
Inductive ushock : Type :=
| UP (nu : nat) (P : mx n nu) (cov_u : mx nu nu) (u0 : mx nu 1)
| UNone (cov_u : mx n n) (u0 : mx n 1).

Definition udim (s : ushock) : nat := match s with UP nu _ _ _ => nu | UNone _ _ => n end.
Definition u_med (s : ushock) : mx (udim s) 1 :=
  match s return mx (udim s) 1 with UP _ _ _ u0 => u0 | UNone _ u0 => u0 end.
Definition u_cov (s : ushock) : mx (udim s) (udim s) :=
  match s return mx (udim s) (udim s) with UP _ _ c _ => c | UNone c _ => c end.
(* P @ u  (u itself when P is None) *)
Definition P_times (s : ushock) : mx (udim s) 1 -> mx n 1 :=
  match s return mx (udim s) 1 -> mx n 1 with UP _ P _ _ => fun u => P *m u | UNone _ _ => fun u => u end.
Definition P_u0 (s : ushock) : mx n 1 := P_times s (u_med s).
Definition P_cov_u (s : ushock) : mx n (udim s) :=
  match s return mx n (udim s) with UP _ P c _ => P *m c | UNone c _ => c end.
Definition P_cov_u_Pt (s : ushock) : mx n n :=
  match s with UP _ P c _ => (P *m c) *m P^T | UNone c _ => c end.

(* the system and the data of one period: what _generate_period_system / _generate_period_data return;
   [p_ny] rows are observed *)
Record period : Type := mkPeriod {
  p_ny : nat;
  p_T : mx n n;
  p_K : mx n 1;
  p_us : ushock;
  p_v : option (mx n 1);                  (* v_impact *)
  p_Z : mx p_ny n;
  p_H : mx p_ny nw;
  p_D : mx p_ny 1;
  p_cov_w : mx nw nw;
  p_w0 : mx nw 1;
  p_y : mx p_ny 1
}.

(* what predict computes (and caches) in one period *)
Record frec (p : period) : Type := mkFrec {
  f_a0 : mx n 1;
  f_Q0 : mx n n;
  f_y0 : mx (p_ny p) 1;
  f_F : mx (p_ny p) (p_ny p);
  f_Fi : mx (p_ny p) (p_ny p);
  f_Zt_Fi : mx n (p_ny p);
  f_G : mx n (p_ny p);
  f_Q1 : mx n n;
  f_pe : mx (p_ny p) 1;
  f_a1 : mx n 1;
  f_P_cov_u : mx n (udim (p_us p));
  f_H_cov_w : mx (p_ny p) nw
}.
Arguments f_a0 {p}. Arguments f_Q0 {p}. Arguments f_y0 {p}. Arguments f_F {p}. Arguments f_Fi {p}.
Arguments f_Zt_Fi {p}. Arguments f_G {p}. Arguments f_Q1 {p}. Arguments f_pe {p}. Arguments f_a1 {p}.
Arguments f_P_cov_u {p}. Arguments f_H_cov_w {p}.

(* predict: body of the loop over t (kalmans.py lines 1127-1225) *)
Definition kf_step (a1_prev : mx n 1) (Q1_prev : mx n n) (p : period) : frec p :=
  let T := p_T p in let Z := p_Z p in let H := p_H p in
  let any_y := 0 <? p_ny p in
  (* MSE prediction step *)
  let P_u0_ := P_u0 (p_us p) in
  let P_cov_u_ := P_cov_u (p_us p) in
  let P_cov_u_Pt_ := P_cov_u_Pt (p_us p) in
  let Q0 := symmetrize ((T *m Q1_prev) *m T^T +m P_cov_u_Pt_) in
  let H_cov_w := H *m p_cov_w p in
  let F := symmetrize (if any_y then (Z *m Q0) *m Z^T +m H_cov_w *m H^T else mzero M _ _) in
  let Fi := symmetrize (if any_y then minv M F else mzero M _ _) in
  (* median prediction step *)
  let a0_ := (T *m a1_prev +m p_K p) +m P_u0_ in
  let a0 := match p_v p with Some v => a0_ +m v | None => a0_ end in
  let y0 := (Z *m a0 +m p_D p) +m H *m p_w0 p in
  (* MSE updating step *)
  let Zt_Fi := Z^T *m Fi in
  let G := Q0 *m Zt_Fi in
  let Q1 := symmetrize (Q0 -m (G *m Z) *m Q0) in
  (* median updating step *)
  let pe := p_y p -m y0 in
  let a1 := a0 +m G *m pe in
  mkFrec p a0 Q0 y0 F Fi Zt_Fi G Q1 pe a1 P_cov_u_ H_cov_w.

(* a period together with its cache entries *)
Record fper : Type := mkFper { fp : period; ff : frec fp }.

Fixpoint kf_run (a1_prev : mx n 1) (Q1_prev : mx n n) (ps : list period) : list fper :=
  match ps with
  | [] => []
  | p :: ps' => let f := kf_step a1_prev Q1_prev p in mkFper p f :: kf_run (f_a1 f) (f_Q1 f) ps'
  end.

(* ---- backward pass ---- *)

(* N, r and the transition matrix T of the period they belong to *)
Definition bstate : Type := option (mx n n * mx n 1 * mx n n).

Record sout (p : period) : Type := mkSout {
  s_a : mx n 1;                         (* ak *)
  s_u : mx (udim (p_us p)) 1;           (* uk *)
  s_w : mx nw 1;                        (* wk *)
  s_Q : mx n n                          (* Qk *)
}.
Arguments s_a {p}. Arguments s_u {p}. Arguments s_w {p}. Arguments s_Q {p}.

Definition is_some {A} (o : option A) : bool := match o with Some _ => true | None => false end.

(* one_step_back (kalmans.py lines 1314-1366) *)
Definition one_step_back (x : fper) (st : bstate) : sout (fp x) * bstate :=
  let p := fp x in let f := ff x in
  let Q0 := f_Q0 f in let Z := p_Z p in
  if (0 <? p_ny p) || is_some st then
    let Fi_pe := f_Fi f *m f_pe f in
    let Zt_Fi_pe := f_Zt_Fi f *m f_pe f in
    let Zt_Fi_Z := f_Zt_Fi f *m Z in
    let '(N, wk, r) :=
      match st with
      | None => (Zt_Fi_Z, p_w0 p +m (f_H_cov_w f)^T *m Fi_pe, Zt_Fi_pe)
      | Some (N', r', T_next) =>
          let T_G_prev := T_next *m f_G f in
          let L := T_next -m T_G_prev *m Z in
          (Zt_Fi_Z +m (L^T *m N') *m L,
           p_w0 p +m (f_H_cov_w f)^T *m (Fi_pe -m T_G_prev^T *m r'),
           Zt_Fi_pe +m L^T *m r')
      end in
    let Qk := symmetrize (Q0 -m (Q0 *m N) *m Q0) in
    let ak := f_a0 f +m Q0 *m r in
    let uk := u_med (p_us p) +m (f_P_cov_u f)^T *m r in
    (mkSout p ak uk wk Qk, Some (N, r, p_T p))
  else
    (mkSout p (f_a0 f) (u_med (p_us p)) (p_w0 p) Q0, st).

Record sper : Type := mkSper { sx : fper; so : sout (fp sx) }.

(* smooth: the loop over reversed(range(num_periods)) *)
Fixpoint smooth_back (fs : list fper) : list sper * bstate :=
  match fs with
  | [] => ([], None)
  | x :: fs' =>
      let '(outs, st) := smooth_back fs' in
      let '(o, st') := one_step_back x st in
      (mkSper x o :: outs, st')
  end.
Definition smooth_all (fs : list fper) : list sper := fst (smooth_back fs).

(* update: one_step_back with N = r = None in every period *)
Definition update_all (fs : list fper) : list sper :=
  map (fun x => mkSper x (fst (one_step_back x None))) fs.

(* ---- unknown initial condition (unit roots, diffuse_method="fixed_unknown") ---- *)

(* predict, `if needs_estimate_unknown_init`: Xi_t, the effect of the unknown part of the initial state on the
   predicted state of period t;  Xi_0 = T Xi_init,  Xi_t = (T - T G_{t-1} Z_{t-1}) Xi_{t-1} *)
Fixpoint xi_run {k : nat} (Xi_prev : mx n k) (prev : option fper) (fs : list fper) : list (mx n k) :=
  match fs with
  | [] => []
  | x :: fs' =>
      let T := p_T (fp x) in
      let Xi := match prev with
                | None => T *m Xi_prev
                | Some y => (T -m (T *m f_G (ff y)) *m p_Z (fp y)) *m Xi_prev
                end in
      Xi :: xi_run Xi (Some x) fs'
  end.

Definition sum_mx {a b : nat} (l : list (mx a b)) : mx a b := fold_left (fun acc X => acc +m X) l (mzero M a b).

(* estimate_unknown_init: GLS normal equations sum M'F^-1 M delta = sum M'F^-1 pe with M_t = Z_t Xi_t
   (numpy.linalg.lstsq is modelled by the inverse: identified case; the 1e-12 clipping of the normal matrix is
   not modelled) *)
Definition estimate_unknown_init {k : nat} (fs : list fper) (Xis : list (mx n k)) : mx k 1 :=
  let terms := map2 (fun x Xi => let Mt := p_Z (fp x) *m Xi in let Mt_Fi := Mt^T *m f_Fi (ff x) in
                                 (Mt_Fi *m Mt, Mt_Fi *m f_pe (ff x))) fs Xis in
  let S := symmetrize (sum_mx (map fst terms)) in
  minv M S *m sum_mx (map snd terms).

(* correct_for_unknown_init: a0 += Xi delta, y0 += M delta, pe -= M delta (the updated mean, which the code
   recomputes from a0 and pe when it needs it, follows) *)
Definition correct_step {k : nat} (delta : mx k 1) (x : fper) (Xi : mx n k) : fper :=
  let p := fp x in let f := ff x in
  let M_delta := (p_Z p *m Xi) *m delta in
  let a0 := f_a0 f +m Xi *m delta in
  let pe := f_pe f -m M_delta in
  mkFper p (mkFrec p a0 (f_Q0 f) (f_y0 f +m M_delta) (f_F f) (f_Fi f) (f_Zt_Fi f) (f_G f) (f_Q1 f) pe
                   (a0 +m f_G f *m pe) (f_P_cov_u f) (f_H_cov_w f)).

Definition correct_for_unknown_init {k : nat} (Xi_init : mx n k) (fs : list fper) : list fper :=
  let Xis := xi_run Xi_init None fs in
  let delta := estimate_unknown_init fs Xis in
  map2 (correct_step delta) fs Xis.

(* ---- likelihood ---- *)

Definition pe_Fi_pe (x : fper) : sc := m11 M (((f_pe (ff x))^T *m f_Fi (ff x)) *m f_pe (ff x)).
Definition det_Fi (x : fper) : sc := mdet M (f_Fi (ff x)).
(* float(-log(det_Fi)) *)
Definition log_det_F (x : fper) : lg M := lg_scale M (sopp M (s1 M)) (lg_log M (det_Fi x)).
Definition num_obs (x : fper) : nat := p_ny (fp x).

Definition sum_sc (l : list sc) : sc := fold_left (sadd M) l (s0 M).
Definition sum_lg (l : list (lg M)) : lg M := fold_left (lg_add M) l (lg_of M (s0 M)).
Definition sum_nat (l : list nat) : nat := fold_left Nat.add l 0.

Record lik : Type := mkLik {
  l_sum_num_obs : nat;
  l_sum_log_det_F : lg M;
  l_sum_pe_Fi_pe : sc;
  l_var_scale : sc;
  l_nll : lg M
}.

(* Cache.calculate_likelihood with Cache._calculate_variance_scale *)
Definition likelihood (rescale_variance : bool) (fs : list fper) : lik :=
  let sum_num_obs := sum_nat (map num_obs fs) in
  let sum_log_det_F := sum_lg (map log_det_F fs) in
  let sum_pe_Fi_pe := sum_sc (map pe_Fi_pe fs) in
  let '(var_scale, sum_log_det_F', sum_pe_Fi_pe') :=
    if rescale_variance then
      if Nat.eqb sum_num_obs 0 then (s1 M, sum_log_det_F, s0 M)
      else
        let vs := sdiv M sum_pe_Fi_pe (sofnat M sum_num_obs) in
        (vs, lg_add M sum_log_det_F (lg_scale M (sofnat M sum_num_obs) (lg_log M vs)),
         sdiv M sum_pe_Fi_pe vs)
    else (s1 M, sum_log_det_F, sum_pe_Fi_pe) in
  let nll := lg_scale M shalf
               (lg_add M (lg_add M (lg_scale M (sofnat M sum_num_obs) (lg_log2pi M)) sum_log_det_F')
                         (lg_of M sum_pe_Fi_pe')) in
  mkLik sum_num_obs sum_log_det_F' sum_pe_Fi_pe' var_scale nll.

(* Cache.calculate_likelihood_contributions; the variance scale (1 unless rescale_variance) enters
   each contribution the way it enters the total *)
Definition contribution (var_scale : sc) (x : fper) : lg M :=
  if Nat.eqb (num_obs x) 0 then lg_of M (s0 M)
  else lg_scale M shalf
         (lg_add M
            (lg_add M
               (lg_add M (log_det_F x) (lg_scale M (sofnat M (num_obs x)) (lg_log M var_scale)))
               (lg_of M (sdiv M (pe_Fi_pe x) var_scale)))
            (lg_scale M (sofnat M (num_obs x)) (lg_log2pi M))).
Definition contributions (var_scale : sc) (fs : list fper) : list (lg M) := map (contribution var_scale) fs.

(* ---- the system of a Simultaneous model, selection of the observed rows, output mapping ---- *)

Variables nu nyf nxi nur : nat.

Record solution : Type := mkSolution {
  so_Ta : mx n n; so_Pa : mx n nu; so_Ka : mx n 1;
  so_Za : mx nyf n; so_H : mx nyf nw; so_D : mx nyf 1;
  so_Ua : mx nxi n;
  so_curr_xi : list nat                 (* squid.curr_xi_indexes *)
}.

(* Solution.create_deviation_solution *)
Definition deviation_solution (s : solution) : solution :=
  mkSolution (so_Ta s) (so_Pa s) (mzero M _ _) (so_Za s) (so_H s) (mzero M _ _) (so_Ua s) (so_curr_xi s).

Record pdata : Type := mkPdata {
  d_mask : list bool;                   (* ~isnan(y1_array[:, t]) *)
  d_y : mx nyf 1;                       (* y1_array[:, t], anything at the missing rows *)
  d_std_u : list sc; d_std_w : list sc; (* std_u_array[:, t], std_w_array[:, t] *)
  d_u0 : mx nu 1; d_w0 : mx nw 1;       (* u_array[:, t], w_array[:, t] *)
  d_v : option (mx n 1)                 (* all_v_impact[t] *)
}.

(* numpy.diag(std ** 2) *)
Definition cov_from_std (k : nat) (l : list sc) : mx k k := mdiagm M k (map (fun x => smul M x x) l).

(* _generate_period_system + _generate_period_data *)
Definition gen_period (s : solution) (d : pdata) : period :=
  let inx_y := d_mask d in
  mkPeriod (count_true inx_y) (so_Ta s) (so_Ka s)
           (UP nu (so_Pa s) (cov_from_std nu (d_std_u d)) (d_u0 d))
           (d_v d)
           (msel M inx_y (so_Za s)) (msel M inx_y (so_H s)) (msel M inx_y (so_D s))
           (cov_from_std nw (d_std_w d)) (d_w0 d)
           (msel M inx_y (d_y d)).

(* _OutputStore.store / store_from_mse for the current-dated transition variables:
   transform[rhs_indexes, :] @ a   and   diag(transform[rhs_indexes, :] @ Q @ transform[rhs_indexes, :].T) *)
Definition xi_med (s : solution) (a : mx n 1) : mx (length (so_curr_xi s)) 1 :=
  mrows M (so_curr_xi s) (so_Ua s) *m a.
Definition xi_var (s : solution) (Q : mx n n) : list sc :=
  let U := mrows M (so_curr_xi s) (so_Ua s) in mdiag M ((U *m Q) *m U^T).

Definition col_entries {k : nat} (v : mx k 1) : list sc :=
  map (fun r => match r with x :: _ => x | [] => s0 M end) (mentries M v).
Definition all_entries {a b : nat} (A : mx a b) : list sc := concat (mentries M A).

(* everything kalman_filter returns for one period, as flat lists (variances, not yet std) *)
Record pout : Type := mkPout {
  o_predict_xi : list sc; o_predict_y : list sc; o_predict_var : list sc; o_predict_mse_obs : list sc;
  o_update_xi : list sc; o_update_u : list sc; o_update_w : list sc; o_update_var : list sc;
  o_predict_err : list sc;
  o_smooth_xi : list sc; o_smooth_u : list sc; o_smooth_w : list sc; o_smooth_var : list sc
}.

Record kout : Type := mkKout {
  k_periods : list pout;
  k_lik : lik;
  k_contributions : list (lg M);
  k_det_Fi : list sc;
  k_pe_Fi_pe : list sc
}.

(* rescale_stds multiplies every std by sqrt(var_scale): variances by var_scale *)
Definition rescale (vs : sc) (l : list sc) : list sc := map (smul M vs) l.

Definition out_period (s : solution) (vs : sc) (up sm : sper) : pout :=
  let x := sx sm in let f := ff x in
  mkPout (col_entries (xi_med s (f_a0 f))) (col_entries (f_y0 f)) (rescale vs (xi_var s (f_Q0 f)))
         (all_entries (f_F f))
         (col_entries (xi_med s (s_a (so up)))) (col_entries (s_u (so up))) (col_entries (s_w (so up)))
         (rescale vs (xi_var s (f_Q1 f)))
         (col_entries (f_pe f))
         (col_entries (xi_med s (s_a (so sm)))) (col_entries (s_u (so sm))) (col_entries (s_w (so sm)))
         (rescale vs (xi_var s (s_Q (so sm)))).

(* kalman_filter for one parameter variant; [unknown_init] is the third component of initializers.initialize
   (None for a model without unit roots, the loading of the unknown initial unit-root states otherwise) *)
Definition kalman_filter (deviation rescale_variance : bool) (s : solution)
    (init_med : mx n 1) (init_mse : mx n n) (unknown_init : option (mx n nur)) (data : list pdata) : kout :=
  let s' := if deviation then deviation_solution s else s in
  let fs0 := kf_run init_med init_mse (map (gen_period s') data) in
  let fs := match unknown_init with Some Xi_init => correct_for_unknown_init Xi_init fs0 | None => fs0 end in
  let ups := update_all fs in
  let sms := smooth_all fs in
  let lk := likelihood rescale_variance fs in
  mkKout (map2 (out_period s' (l_var_scale lk)) ups sms) lk (contributions (l_var_scale lk) fs)
         (map det_Fi fs) (map pe_Fi_pe fs).

End Kalman.

Section Initial.
Variable M : MatOps.
Local Notation "A *m B" := (mmul M A B) (at level 40, left associativity).
Local Notation "A +m B" := (madd M A B) (at level 50, left associativity).
Local Notation "A -m B" := (msub M A B) (at level 50, left associativity).
Local Notation "A ^T" := (mtr M A) (at level 30, format "A ^T").
Variables ns nu : nat.
(* _initialize_med on the stable block: (I - Ta_stable)^-1 Ka_stable (the unit-root block is zero) *)
Definition initialize_med_stable (Ta_s : mx M ns ns) (Ka_s : mx M ns 1) : mx M ns 1 :=
  minv M (mid M ns -m Ta_s) *m Ka_s.
(* contract of solve_discrete_lyapunov as used by get_cov_alpha_00 on the stable block: the residual of
   C = Ta_s C Ta_s' + Pa_s cov_u Pa_s' *)
Definition lyapunov_residual (Ta_s : mx M ns ns) (Pa_s : mx M ns nu) (cov_u : mx M nu nu) (C : mx M ns ns)
  : mx M ns ns :=
  C -m (((Ta_s *m C) *m Ta_s^T) +m ((Pa_s *m cov_u) *m Pa_s^T)).
End Initial.

(* implicit arguments: the carrier and the dimensions are inferred from the matrices *)
Arguments symmetrize {M k} X.
Arguments UP {M n} nu P cov_u u0.
Arguments UNone {M n} cov_u u0.
Arguments udim {M n} s.
Arguments u_med {M n} s.
Arguments u_cov {M n} s.
Arguments P_times {M n} s u.
Arguments P_u0 {M n} s.
Arguments P_cov_u {M n} s.
Arguments P_cov_u_Pt {M n} s.
Arguments mkPeriod {M n nw} p_ny p_T p_K p_us p_v p_Z p_H p_D p_cov_w p_w0 p_y.
Arguments p_ny {M n nw} p.
Arguments p_T {M n nw} p.
Arguments p_K {M n nw} p.
Arguments p_us {M n nw} p.
Arguments p_v {M n nw} p.
Arguments p_Z {M n nw} p.
Arguments p_H {M n nw} p.
Arguments p_D {M n nw} p.
Arguments p_cov_w {M n nw} p.
Arguments p_w0 {M n nw} p.
Arguments p_y {M n nw} p.
Arguments frec {M n nw} p.
Arguments mkFrec {M n nw} p f_a0 f_Q0 f_y0 f_F f_Fi f_Zt_Fi f_G f_Q1 f_pe f_a1 f_P_cov_u f_H_cov_w.
Arguments f_a0 {M n nw p} f.
Arguments f_Q0 {M n nw p} f.
Arguments f_y0 {M n nw p} f.
Arguments f_F {M n nw p} f.
Arguments f_Fi {M n nw p} f.
Arguments f_Zt_Fi {M n nw p} f.
Arguments f_G {M n nw p} f.
Arguments f_Q1 {M n nw p} f.
Arguments f_pe {M n nw p} f.
Arguments f_a1 {M n nw p} f.
Arguments f_P_cov_u {M n nw p} f.
Arguments f_H_cov_w {M n nw p} f.
Arguments kf_step {M n nw} a1_prev Q1_prev p.
Arguments mkFper {M n nw} fp ff.
Arguments fp {M n nw} f.
Arguments ff {M n nw} f.
Arguments kf_run {M n nw} a1_prev Q1_prev ps.
Arguments sout {M n nw} p.
Arguments mkSout {M n nw} p s_a s_u s_w s_Q.
Arguments s_a {M n nw p} s.
Arguments s_u {M n nw p} s.
Arguments s_w {M n nw p} s.
Arguments s_Q {M n nw p} s.
Arguments one_step_back {M n nw} x st.
Arguments mkSper {M n nw} sx so.
Arguments sx {M n nw} s.
Arguments so {M n nw} s.
Arguments smooth_back {M n nw} fs.
Arguments smooth_all {M n nw} fs.
Arguments update_all {M n nw} fs.
Arguments pe_Fi_pe {M n nw} x.
Arguments det_Fi {M n nw} x.
Arguments log_det_F {M n nw} x.
Arguments num_obs {M n nw} x.
Arguments l_sum_num_obs {M} l.
Arguments l_sum_log_det_F {M} l.
Arguments l_sum_pe_Fi_pe {M} l.
Arguments l_var_scale {M} l.
Arguments l_nll {M} l.
Arguments likelihood {M n nw} rescale_variance fs.
Arguments contribution {M n nw} var_scale x.
Arguments contributions {M n nw} var_scale fs.
Arguments mkSolution {M n nw nu nyf nxi} so_Ta so_Pa so_Ka so_Za so_H so_D so_Ua so_curr_xi.
Arguments so_Ta {M n nw nu nyf nxi} s.
Arguments so_Pa {M n nw nu nyf nxi} s.
Arguments so_Ka {M n nw nu nyf nxi} s.
Arguments so_Za {M n nw nu nyf nxi} s.
Arguments so_H {M n nw nu nyf nxi} s.
Arguments so_D {M n nw nu nyf nxi} s.
Arguments so_Ua {M n nw nu nyf nxi} s.
Arguments so_curr_xi {M n nw nu nyf nxi} s.
Arguments deviation_solution {M n nw nu nyf nxi} s.
Arguments mkPdata {M n nw nu nyf} d_mask d_y d_std_u d_std_w d_u0 d_w0 d_v.
Arguments d_mask {M n nw nu nyf} p.
Arguments d_y {M n nw nu nyf} p.
Arguments d_std_u {M n nw nu nyf} p.
Arguments d_std_w {M n nw nu nyf} p.
Arguments d_u0 {M n nw nu nyf} p.
Arguments d_w0 {M n nw nu nyf} p.
Arguments d_v {M n nw nu nyf} p.
Arguments gen_period {M n nw nu nyf nxi} s d.
Arguments xi_med {M n nw nu nyf nxi} s a.
Arguments xi_var {M n nw nu nyf nxi} s Q.
Arguments col_entries {M k} v.
Arguments all_entries {M a b} A.
Arguments o_predict_xi {M} p.
Arguments o_predict_y {M} p.
Arguments o_predict_var {M} p.
Arguments o_predict_mse_obs {M} p.
Arguments o_update_xi {M} p.
Arguments o_update_u {M} p.
Arguments o_update_w {M} p.
Arguments o_update_var {M} p.
Arguments o_predict_err {M} p.
Arguments o_smooth_xi {M} p.
Arguments o_smooth_u {M} p.
Arguments o_smooth_w {M} p.
Arguments o_smooth_var {M} p.
Arguments k_periods {M} k.
Arguments k_lik {M} k.
Arguments k_contributions {M} k.
Arguments k_det_Fi {M} k.
Arguments k_pe_Fi_pe {M} k.
Arguments out_period {M n nw nu nyf nxi} s vs up sm.
Arguments kalman_filter {M n nw nu nyf nxi nur} deviation rescale_variance s init_med init_mse unknown_init data.
Arguments initialize_med_stable {M ns} Ta_s Ka_s.
Arguments lyapunov_residual {M ns nu} Ta_s Pa_s cov_u C.
Arguments xi_run {M n nw k} Xi_prev prev fs.
Arguments sum_mx {M a b} l.
Arguments estimate_unknown_init {M n nw k} fs Xis.
Arguments correct_step {M n nw k} delta x Xi.
Arguments correct_for_unknown_init {M n nw k} Xi_init fs.
