(* Executable model of irispie.dataslates (main.py: Dataslate.from_databox / to_databox,
   _slate_value_variant_iterator; _variants.py: Variant.from_databox_variant,
   _apply_fallbacks, _apply_overwrites; _invariants.py: base / non-base columns).
   A dataslate is, per variant, a names-by-periods block of values on a contiguous span.
   NO proofs in this file. *)
From Coq Require Import String Ascii ZArith List Bool.
From Verif Require Import lib.Arith model.Series model.SeriesOps model.Databox.
Import ListNotations.
Open Scope Z_scope.

Section SlateModel.
Variable A : Arith.
Notation V := (car A).
Notation series := (series A).
Notation databox := (databox A).

(* a fallback / overwrite value: a number, or a list of numbers consumed exhaust-then-last *)
Inductive fbval := FScal (v : V) | FList (l : list V).

Definition etl {T} (l : list T) (k : nat) (d : T) : T :=       (* exhaust_then_last(l)[k], d when l is empty *)
  nth (Nat.min k (length l - 1)) l d.

Definition fb_at (f : fbval) (k : nat) : V :=
  match f with FScal v => v | FList l => etl l k (miss A) end.

Fixpoint flookup (d : list (string * fbval)) (n : string) : option fbval :=
  match d with
  | [] => None
  | (k, v) :: r => if String.eqb k n then Some v else flookup r n
  end.

(* value of variant k of a series at period t: variants are consumed exhaust-then-last *)
Definition ser_val (s : series) (k : nat) (t : Z) : V :=
  nth (Nat.min k (s_nv s - 1)) (row_at A s t) (miss A).

(* the vector of variant k of one databox item on the periods from, ..., from+n-1 *)
Definition elem_vec (fr from : Z) (n k : nat) (e : elem A) : res (list V) :=
  match e with
  | EScal v => Ok (repeat v n)
  | ESer _ s =>
      match s_start s with
      | None => Ok (repeat (miss A) n)
      | Some _ =>
          if s_freq s =? fr then Ok (map (ser_val s k) (zrange from (from + Z.of_nat n)))
          else Err 2
      end
  end.

Definition item_vec (fr from : Z) (n k : nat) (it : option (item A)) : res (list V) :=
  match it with
  | None => Ok (repeat (miss A) n)
  | Some (INon e) => elem_vec fr from n k e
  | Some (IList []) => Ok (repeat (miss A) n)
  | Some (IList l) => match etl l k (EScal (miss A)) with
                      | EScal v => Ok (repeat v n)
                      | ESer _ _ => Err 9        (* a series inside a list is not a slate value *)
                      end
  end.

Record sopts := mkSopts {
  o_nvar : nat;                              (* num_variants *)
  o_fallbacks : list (string * fbval);
  o_overwrites : list (string * fbval);
  o_clip_base : bool;                        (* clip_data_to_base_span *)
  o_base : list nat                          (* base_columns *)
}.

Definition nmem (c : nat) (l : list nat) : bool := existsb (Nat.eqb c) l.

(* Variant.from_databox_variant for one name: data, clip to base span, fallbacks, overwrites *)
Definition post_vec (o : sopts) (name : string) (k : nat) (vec : list V) : list V :=
  let v1 := if o_clip_base o
            then map (fun p => if nmem (fst p) (o_base o) then snd p else miss A) (combine (seq 0 (length vec)) vec)
            else vec in
  let v2 := match flookup (o_fallbacks o) name with
            | Some f => map (fun x => if is_miss A x then fb_at f k else x) v1
            | None => v1
            end in
  match flookup (o_overwrites o) name with
  | Some f => map (fun _ => fb_at f k) v2
  | None => v2
  end.

Fixpoint all_ok {T} (l : list (res T)) : res (list T) :=
  match l with
  | [] => Ok []
  | Ok x :: r => match all_ok r with Ok xs => Ok (x :: xs) | Err e => Err e end
  | Err e :: _ => Err e
  end.

Definition slate := list (list (list V)).      (* variant -> name -> period *)

Definition slate_variant (db : databox) (nms : list string) (fr from : Z) (n : nat) (o : sopts) (k : nat)
  : res (list (list V)) :=
  all_ok (map (fun nm => match item_vec fr from n k (dget A db nm) with
                         | Ok v => Ok (post_vec o nm k v)
                         | Err e => Err e
                         end) nms).

(* Dataslate.from_databox(databox, names, Span(from, from+n-1), num_variants, fallbacks, overwrites, ...) *)
Definition from_databox (db : databox) (nms : option (list string)) (fr from : Z) (n : nat) (o : sopts) : res slate :=
  let nms' := match nms with Some l => l | None => names A db end in
  match nms' with
  | [] => Err 3                                  (* numpy.vstack of no rows: ValueError *)
  | _ => all_ok (map (slate_variant db nms' fr from n o) (seq 0 (o_nvar o)))
  end.

Definition slate_cell (sl : slate) (k q t : nat) : V := nth t (nth q (nth k sl []) []) (miss A).

(* the series written for row q of the slate *)
Definition slate_series (sl : slate) (fr from : Z) (n nvar : nat) (trimmed : bool) (q : nat) : series :=
  let s := mkSeries fr (Some from) nvar
             (map (fun t => map (fun k => slate_cell sl k q t) (seq 0 nvar)) (seq 0 n)) in
  if trimmed then trim A s else s.

(* Dataslate.to_databox(target_db, span="full", trim) *)
Definition to_databox (sl : slate) (nms : list string) (fr from : Z) (n nvar : nat) (trimmed : bool)
  (target : databox) : databox :=
  fold_left (fun acc p => dset A acc (snd p) (ISer A "" (slate_series sl fr from n nvar trimmed (fst p))))
            (combine (seq 0 (length nms)) nms) target.

(* databox -> dataslate -> databox *)
Definition slate_roundtrip (db : databox) (nms : option (list string)) (fr from : Z) (n : nat) (o : sopts)
  (trimmed : bool) : res databox :=
  match from_databox db nms fr from n o with
  | Err e => Err e
  | Ok sl => Ok (to_databox sl (match nms with Some l => l | None => names A db end) fr from n (o_nvar o) trimmed [])
  end.

(* ------------------------------------------------------------------ the dataslate as an object:
   names, periods, base columns and data, and the in-place methods that change the span
   (dataslates/main.py: remove_periods_from_start / _from_end, add_periods_to_end, remove_initial,
   remove_terminal, rename, base_periods setter; _invariants.py and _variants.py: the same on the
   invariant and on every variant), followed by to_databox(span="full" | "base") *)
Record dslate := mkDs {
  ds_names : list string;
  ds_periods : list Z;            (* Invariant.periods *)
  ds_base : list nat;             (* Invariant.base_columns, sorted *)
  ds_mms : Z * Z;                 (* Invariant.min_max_shift *)
  ds_data : slate                 (* variant -> name -> column *)
}.

Definition ds_ncols (d : dslate) : nat := length (nth 0 (nth 0 (ds_data d) []) []).

Definition dslate_from_databox (db : databox) (nms : option (list string)) (fr from : Z) (n : nat) (o : sopts)
  (mms : Z * Z) : res dslate :=
  match from_databox db nms fr from n o with
  | Err e => Err e
  | Ok sl => Ok (mkDs (match nms with Some l => l | None => names A db end)
                      (zrange from (from + Z.of_nat n)) (o_base o) mms sl)
  end.

Inductive slop :=
  | SRemoveStart (k : Z)                       (* remove_periods_from_start(k) *)
  | SRemoveEnd (k : Z)                         (* remove_periods_from_end(k) *)
  | SAddEnd (k : Z)                            (* add_periods_to_end(k) *)
  | SRemoveInitial                             (* remove_initial(): -min_max_shift[0] periods from the start *)
  | SRemoveTerminal                            (* remove_terminal(): min_max_shift[1] periods from the end *)
  | SRename (m : list (string * string))       (* rename({old: new}) *)
  | SSetBase (ps : list Z).                    (* base_periods = ps *)

Fixpoint rlookup (m : list (string * string)) (n : string) : string :=
  match m with
  | [] => n
  | (k, v) :: r => if String.eqb k n then v else rlookup r n
  end.

Definition zmem (t : Z) (l : list Z) : bool := existsb (Z.eqb t) l.

Definition ds_remove_start (d : dslate) (k : Z) : res dslate :=
  if k <? 0 then Err 3 else
  let j := Z.to_nat k in
  if Nat.eqb j 0 then Ok d else
  Ok (mkDs (ds_names d) (skipn j (ds_periods d))
           (map (fun i => (i - j)%nat) (filter (fun i => Nat.leb j i) (ds_base d)))
           (ds_mms d) (map (map (skipn j)) (ds_data d))).

Definition ds_remove_end (d : dslate) (k : Z) : res dslate :=
  if k <? 0 then Err 3 else
  let j := Z.to_nat k in
  if Nat.eqb j 0 then Ok d else
  let ps := firstn (length (ds_periods d) - j) (ds_periods d) in
  Ok (mkDs (ds_names d) ps (filter (fun i => Nat.ltb i (length ps)) (ds_base d)) (ds_mms d)
           (map (map (fun v => firstn (length v - j) v)) (ds_data d))).

(* the periods appended are periods_from_until(end, end + k): the current end period is listed again *)
Definition ds_add_end (d : dslate) (k : Z) : res dslate :=
  if k <? 0 then Err 3 else
  if k =? 0 then Ok d else
  match ds_periods d with
  | [] => Err 5
  | p0 :: _ =>
      let e := last (ds_periods d) p0 in
      Ok (mkDs (ds_names d) (ds_periods d ++ zrange e (e + k + 1)) (ds_base d) (ds_mms d)
               (map (map (fun v => v ++ repeat (miss A) (Z.to_nat k))) (ds_data d)))
  end.

Definition ds_step (d : dslate) (o : slop) : res dslate :=
  match o with
  | SRemoveStart k => ds_remove_start d k
  | SRemoveEnd k => ds_remove_end d k
  | SAddEnd k => ds_add_end d k
  | SRemoveInitial => ds_remove_start d (- fst (ds_mms d))
  | SRemoveTerminal => ds_remove_end d (snd (ds_mms d))
  | SRename m => Ok (mkDs (map (rlookup m) (ds_names d)) (ds_periods d) (ds_base d) (ds_mms d) (ds_data d))
  | SSetBase ps =>
      Ok (mkDs (ds_names d) (ds_periods d)
               (map fst (filter (fun p => zmem (snd p) ps) (combine (seq 0 (length (ds_periods d))) (ds_periods d))))
               (ds_mms d) (ds_data d))
  end.

Fixpoint ds_run (d : dslate) (ops : list slop) : res dslate :=
  match ops with
  | [] => Ok d
  | o :: r => match ds_step d o with Ok d1 => ds_run d1 r | Err e => Err e end
  end.

(* Dataslate.base_periods *)
Definition ds_base_periods (d : dslate) : res (list Z) :=
  if forallb (fun i => Nat.ltb i (length (ds_periods d))) (ds_base d)
  then Ok (map (fun i => nth i (ds_periods d) 0) (ds_base d)) else Err 5.

(* Dataslate.to_databox(span="full" | "base", trim) *)
Definition ds_to_databox (d : dslate) (fr : Z) (base_span trimmed : bool) : res databox :=
  let nvar := length (ds_data d) in
  if base_span then
    match ds_base d with
    | [] => Err 5
    | b0 :: _ =>
        let bl := last (ds_base d) b0 in
        if Nat.leb (length (ds_periods d)) b0 then Err 5 else
        let w := (Nat.min (S bl) (ds_ncols d) - b0)%nat in
        Ok (to_databox (map (map (fun v => firstn w (skipn b0 v))) (ds_data d)) (ds_names d) fr
                       (nth b0 (ds_periods d) 0) w nvar trimmed [])
    end
  else
    match ds_periods d with
    | [] => Err 5
    | p0 :: _ => Ok (to_databox (ds_data d) (ds_names d) fr p0 (ds_ncols d) nvar trimmed [])
    end.

End SlateModel.

Arguments FScal {A}. Arguments FList {A}.
Arguments o_nvar {A}. Arguments o_fallbacks {A}. Arguments o_overwrites {A}. Arguments o_clip_base {A}. Arguments o_base {A}.
