(* C20  Object-graph model of the Python heap (definitions only; proofs in proofs/HeapProofs.v).

   A heap maps locations (object identities) to nodes.  A node carries the type of the
   object (kind), whether objects of that type can be modified in place (mut), a payload
   (the scalar content, abstracted to integers) and the references it holds (children).

   Two parties each hold a root (an original model and its copy).  A party may
     - write : replace payload and children of a MUTABLE node it can reach, storing only
               references it can already reach (or the node itself);
     - alloc : create a fresh object (any kind) referring to objects it can reach, and keep a
               local reference to it.
   Nothing else changes the heap (Python has no pointer arithmetic; immutable objects have no
   mutating operation).  An observation from a root is anything computed by following
   references from that root: here the unfolding of the graph to an arbitrary depth, and more
   generally every function of the heap that only depends on the reachable part. *)
From Coq Require Import ZArith List Bool PArith FMapPositive.
Import ListNotations.

Definition loc := positive.

Record node := mkNode {
  n_kind : Z;               (* type code *)
  n_mut : bool;             (* objects of this type can be modified in place *)
  n_payload : list Z;       (* scalar content *)
  n_children : list loc     (* references held *)
}.

(* semantic heaps: total lookup functions *)
Definition heap := loc -> option node.

Definition upd (g : heap) (l : loc) (nd : node) : heap :=
  fun x => if Pos.eqb x l then Some nd else g x.

Inductive reach (g : heap) : loc -> loc -> Prop :=
| reach_refl : forall r, reach g r r
| reach_step : forall r l nd c, reach g r l -> g l = Some nd -> In c (n_children nd) -> reach g r c.

(* reachable from one of several roots (a model root plus local references) *)
Definition acc (g : heap) (R : list loc) (l : loc) : Prop := exists r, In r R /\ reach g r l.

(* no dangling references *)
Definition wf (g : heap) : Prop :=
  forall l nd c, g l = Some nd -> In c (n_children nd) -> g c <> None.

(* one action of a party holding the roots R *)
Inductive step : heap * list loc -> heap * list loc -> Prop :=
| step_write : forall g R l nd nd',
    acc g R l -> g l = Some nd -> n_mut nd = true ->
    n_mut nd' = n_mut nd -> n_kind nd' = n_kind nd ->
    (forall c, In c (n_children nd') -> acc g R c) ->
    step (g, R) (upd g l nd', R)
| step_alloc : forall g R l nd',
    g l = None ->
    (forall c, In c (n_children nd') -> acc g R c \/ c = l) ->
    step (g, R) (upd g l nd', l :: R).

Inductive steps : heap * list loc -> heap * list loc -> Prop :=
| steps_nil : forall s, steps s s
| steps_cons : forall s s' s'', step s s' -> steps s' s'' -> steps s s''.

(* two parties acting in any interleaving *)
Definition state := (heap * list loc * list loc)%type.

Inductive astep : state -> state -> Prop :=
| astep_1 : forall g R1 R2 g' R1', step (g, R1) (g', R1') -> astep (g, R1, R2) (g', R1', R2)
| astep_2 : forall g R1 R2 g' R2', step (g, R2) (g', R2') -> astep (g, R1, R2) (g', R1, R2').

Inductive asteps : state -> state -> Prop :=
| asteps_nil : forall s, asteps s s
| asteps_cons : forall s s' s'', astep s s' -> asteps s' s'' -> asteps s s''.

(* observation: unfolding of the graph from a root, to depth n *)
Inductive tree :=
| TCut : tree
| TDangling : tree
| TNode : Z -> bool -> list Z -> list tree -> tree.

Fixpoint unfold (n : nat) (g : heap) (r : loc) : tree :=
  match n with
  | O => TCut
  | S n' =>
      match g r with
      | None => TDangling
      | Some nd => TNode (n_kind nd) (n_mut nd) (n_payload nd) (map (unfold n' g) (n_children nd))
      end
  end.

(* an observation function is local when it only depends on the part of the heap reachable from its root *)
Definition local_obs {T} (obs : heap -> loc -> T) : Prop :=
  forall g g' r, (forall l, reach g r l -> g' l = g l) -> obs g' r = obs g r.

(* ------------------------------------------------------------------ executable checker *)

Definition hmap := PositiveMap.t node.
Definition lset := PositiveMap.t unit.

Definition sem (m : hmap) : heap := fun l => PositiveMap.find l m.

Definition lmem (l : loc) (s : lset) : bool := PositiveMap.mem l s.

(* depth-first collection of the locations reachable from the stack; the fuel only bounds the
   work: the result is re-checked for closedness by [closedb], so soundness does not depend on it *)
Fixpoint dfs (fuel : nat) (m : hmap) (stack : list loc) (seen : lset) : lset :=
  match fuel with
  | O => seen
  | S f =>
      match stack with
      | [] => seen
      | l :: st =>
          if lmem l seen then dfs f m st seen
          else match PositiveMap.find l m with
               | None => dfs f m st (PositiveMap.add l tt seen)
               | Some nd => dfs f m (n_children nd ++ st) (PositiveMap.add l tt seen)
               end
      end
  end.

Definition edge_count (m : hmap) : nat :=
  PositiveMap.fold (fun _ nd a => (a + S (length (n_children nd)))%nat) m O.

Definition reach_set (m : hmap) (r : loc) : lset :=
  dfs (S (S (edge_count m))) m [r] (PositiveMap.empty unit).

(* every member exists and all its children are members *)
Definition closedb (m : hmap) (s : lset) : bool :=
  forallb (fun p : positive * unit =>
             match PositiveMap.find (fst p) m with
             | Some nd => forallb (fun c => lmem c s) (n_children nd)
             | None => false
             end) (PositiveMap.elements s).

Definition wfb (m : hmap) : bool :=
  forallb (fun p : positive * node => forallb (fun c => PositiveMap.mem c m) (n_children (snd p)))
          (PositiveMap.elements m).

(* every location in both sets is an immutable node *)
Definition shared_immutable (m : hmap) (s1 s2 : lset) : bool :=
  forallb (fun p : positive * unit =>
             if lmem (fst p) s2 then
               match PositiveMap.find (fst p) m with Some nd => negb (n_mut nd) | None => false end
             else true) (PositiveMap.elements s1).

Definition no_shared_mutable (m : hmap) (r1 r2 : loc) : bool :=
  let s1 := reach_set m r1 in
  let s2 := reach_set m r2 in
  wfb m && PositiveMap.mem r1 m && PositiveMap.mem r2 m
  && lmem r1 s1 && lmem r2 s2 && closedb m s1 && closedb m s2
  && shared_immutable m s1 s2.

(* what the correspondence compares with the harness' own computation *)
Definition shared_count (s1 s2 : lset) : nat :=
  length (filter (fun p : positive * unit => lmem (fst p) s2) (PositiveMap.elements s1)).

Definition shared_mutable_locs (m : hmap) (s1 s2 : lset) : list positive :=
  map fst (filter (fun p : positive * unit =>
                     lmem (fst p) s2 &&
                     match PositiveMap.find (fst p) m with Some nd => n_mut nd | None => true end)
                  (PositiveMap.elements s1)).

Definition graph_report (m : hmap) (r1 r2 : loc) : bool * (nat * nat * nat) * list positive :=
  let s1 := reach_set m r1 in
  let s2 := reach_set m r2 in
  (no_shared_mutable m r1 r2,
   (PositiveMap.cardinal s1, PositiveMap.cardinal s2, shared_count s1 s2),
   shared_mutable_locs m s1 s2).

Definition of_list (l : list (positive * node)) : hmap :=
  fold_left (fun m p => PositiveMap.add (fst p) (snd p) m) l (PositiveMap.empty node).
