(* Hand-written executable model of the part of Sequential.simulate that decides WHICH numbers the equations are
   evaluated with (sequentials/_simulate.py::simulate -> sequentials/_slatable_protocols.py::slatable_for_simulate ->
   dataslates/main.py::from_databox_for_slatable -> dataslates/_variants.py::from_databox_variant):

     raw databox rows  --fallbacks-->  --overwrites-->  initial working array  --_simulate_v-->  final array

   The routing of the two name->value dicts (the model's parameters, the residual defaults) into fallbacks /
   overwrites by the flags parameters_from_data, shocks_from_data, the default residual value and the per-entry
   effect of a fallback / an overwrite come from gen/SeqSlatableGen.v, regenerated from the source on every run.
   NO proofs in this file.

   A Python dict name->value is an association list over rows (keys of a dict are unique, so the first match is the
   only one); dict.update(other) lets the entries of `other` win. *)
From Coq Require Import ZArith List Bool.
From Verif Require Import lib.Arith gen.TransformsGen gen.SeqSlatableGen model.Sequential.
Import ListNotations.
Open Scope Z_scope.

Section SeqSlate.
Variable A : Arith.
Notation V := (car A).
Notation data := (data A).

Definition alist := list (nat * V).
Fixpoint alookup (l : alist) (r : nat) : option V :=
  match l with
  | [] => None
  | (k, v) :: rest => if Nat.eqb k r then Some v else alookup rest r
  end.

Definition dict := nat -> option V.
Definition dempty : dict := fun _ => None.
Definition dupdate (d : dict) (other : alist) : dict :=
  fun r => match alookup other r with Some v => Some v | None => d r end.

(* what a Sequential model contributes: parameter rows with the values assigned in the model
   (self.get_parameters(unpack_singleton=True)), and the residual rows (self.residual_names) *)
Record seqmodel := mkSeqModel { sm_params : alist; sm_resids : list nat }.

Definition group_dict (sm : seqmodel) (g : group) : alist :=
  match g with
  | GParams => sm_params sm
  | GResiduals => map (fun r => (r, default_residual A)) (sm_resids sm)
  end.

(* slatable.fallbacks / slatable.overwrites as slatable_for_simulate leaves them *)
Definition slatable_fallbacks (sm : seqmodel) (pfd sfd : bool) : dict :=
  fold_left (fun d g => dupdate d (group_dict sm g)) (slatable_fallbacks_groups pfd sfd) dempty.
Definition slatable_overwrites (sm : seqmodel) (pfd sfd : bool) : dict :=
  fold_left (fun d g => dupdate d (group_dict sm g)) (slatable_overwrites_groups pfd sfd) dempty.

(* Variant.from_databox_variant: the databox values (missing where the databox has none), then the fallbacks, then the
   overwrites *)
Definition slate_of (fb ow : dict) (raw : data) : data :=
  fun r c =>
    let v := raw r c in
    let v := match fb r with Some f => apply_fallback A f v | None => v end in
    match ow r with Some o => apply_overwrite A o v | None => v end.

Definition initial_slate (sm : seqmodel) (pfd sfd : bool) (raw : data) : data :=
  slate_of (slatable_fallbacks sm pfd sfd) (slatable_overwrites sm pfd sfd) raw.

(* Sequential.simulate, one variant: build the dataslate from the input databox, run the loop *)
Definition simulate_public (sm : seqmodel) (pfd sfd : bool) (pl : plan) (o : order) (cols : list Z)
           (eqs : list (eqn A)) (raw : data) : data :=
  simulate_model A pl o cols eqs (initial_slate sm pfd sfd raw).

(* the rows written to the output databox beside the LHS, RHS-only and residual rows *)
Definition output_param_rows (sm : seqmodel) (pfd sfd : bool) : list nat :=
  if slatable_outputs_parameters pfd sfd then map fst (sm_params sm) else [].

(* ---- the equations with the model's parameter values written into them ---- *)
Fixpoint subst_params (pv : alist) (e : expr A) : expr A :=
  match e with
  | ECst _ v => ECst A v
  | EVar _ r s => match alookup pv r with Some v => ECst A v | None => EVar A r s end
  | EAdd _ a b => EAdd A (subst_params pv a) (subst_params pv b)
  | ESub _ a b => ESub A (subst_params pv a) (subst_params pv b)
  | EMul _ a b => EMul A (subst_params pv a) (subst_params pv b)
  | EDiv _ a b => EDiv A (subst_params pv a) (subst_params pv b)
  | ENeg _ a => ENeg A (subst_params pv a)
  | ELn _ a => ELn A (subst_params pv a)
  | EExp _ a => EExp A (subst_params pv a)
  end.

Definition subst_eqn (pv : alist) (e : eqn A) : eqn A :=
  mkEqn A (e_lhs e) (e_tr e) (subst_params pv (e_rhs e)) (e_res e).

(* ---- helper for the generated correspondence cases ---- *)
Definition out_rows_cells (rows : list nat) (cols : list Z) : list (nat * Z) :=
  flat_map (fun r => map (fun c => (r, c)) cols) rows.

End SeqSlate.

Arguments sm_params {A} _.
Arguments sm_resids {A} _.
