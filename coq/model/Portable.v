(* C20  Portable representation of a Simultaneous model (definitions only; proofs in props/C20.v via
   proofs/PortableProofs.v).

   Model of  simultaneous/main.py::to_portable/from_portable,  _invariants.py::Invariant.to_portable,
   quantities.py / equations.py ::to_portable/from_portable,  _flags.py::Flags.to_portable,
   contexts.py::to_portable/from_portable  at the level of the JSON value that is produced / consumed.
   Numbers are abstract (N): Python's json module writes floats with repr and reads them back exactly;
   that and the character-level syntax of JSON are outside this model.  Attribute strings are opaque
   (the split/join of attributes is not in the property's list).
   The kind codes, the order of kinds, the format tag and all dictionary keys come from gen/PortableGen.v,
   regenerated from the source on every run by translator/portable.py. *)
From Coq Require Import String List Bool.
From Verif Require Import gen.PortableGen.
Import ListNotations.
Open Scope string_scope.

Section Portable.

Variable N : Type.

Inductive json :=
| JNull
| JBool (b : bool)
| JNum (x : N)
| JStr (s : string)
| JList (l : list json)
| JObj (o : list (string * json)).

(* what a model description consists of *)
Inductive qkind := QX | QY | QU | QV | QW | QP | QZ.
Inductive ekind := ET | EM | EA.

Record quantity := mkQ {
  q_kind : qkind; q_name : string; q_logly : option bool; q_descr : option string; q_attr : string }.

Record equation := mkE {
  e_kind : ekind; e_dynamic : string; e_steady : string; e_descr : option string; e_attr : string }.

Record value := mkV { v_level : option N; v_change : option N }.

Record mdesc := mkD {
  d_descr : string;
  d_linear : bool; d_flat : bool; d_determ : bool;
  d_quantities : list quantity;
  d_equations : list equation;
  d_context : list string;
  d_variants : list (list (string * value)) }.

(* ------------------------------------------------------------------ encoder *)

Definition qkind_code (k : qkind) : string :=
  match k with QX => gen_qcode_x | QY => gen_qcode_y | QU => gen_qcode_u | QV => gen_qcode_v | QW => gen_qcode_w
             | QP => gen_qcode_p | QZ => gen_qcode_z end.

Definition ekind_code (k : ekind) : string :=
  match k with ET => gen_ecode_t | EM => gen_ecode_m | EA => gen_ecode_a end.

Definition enc_opt {A} (f : A -> json) (o : option A) : json :=
  match o with None => JNull | Some a => f a end.

Definition enc_quantity (q : quantity) : json :=
  JList [JStr (qkind_code (q_kind q)); JStr (q_name q); enc_opt JBool (q_logly q);
         enc_opt JStr (q_descr q); JStr (q_attr q)].

(* Equation.to_portable: the steady form is written only when it differs from the dynamic one *)
Definition enc_equation (e : equation) : json :=
  JList [JStr (ekind_code (e_kind e)); JStr (e_dynamic e);
         (if String.eqb (e_steady e) (e_dynamic e) then JNull else JStr (e_steady e));
         enc_opt JStr (e_descr e); JStr (e_attr e)].

Definition enc_value (v : value) : json := JList [enc_opt JNum (v_level v); enc_opt JNum (v_change v)].

Definition enc_variant (vs : list (string * value)) : json :=
  JObj (map (fun p => (fst p, enc_value (snd p))) vs).

Definition encode (m : mdesc) : json :=
  JObj [(gen_key_format, JStr gen_format);
        (gen_key_source, JObj [(gen_key_description, JStr (d_descr m));
                         (gen_key_flags, JObj [(gen_key_linear, JBool (d_linear m)); (gen_key_flat, JBool (d_flat m));
                                         (gen_key_determ, JBool (d_determ m))]);
                         (gen_key_quantities, JList (map enc_quantity (d_quantities m)));
                         (gen_key_equations, JList (map enc_equation (d_equations m)));
                         (gen_key_context, JObj (map (fun k => (k, JNull)) (d_context m)))]);
        (gen_key_variants, JList (map enc_variant (d_variants m)))].

(* ------------------------------------------------------------------ decoder *)

Fixpoint lookup (k : string) (o : list (string * json)) : option json :=
  match o with
  | [] => None
  | (k', v) :: r => if String.eqb k k' then Some v else lookup k r
  end.

Definition field (k : string) (j : json) : option json :=
  match j with JObj o => lookup k o | _ => None end.

Fixpoint mapM {A B} (f : A -> option B) (l : list A) : option (list B) :=
  match l with
  | [] => Some []
  | a :: r => match f a, mapM f r with Some b, Some bs => Some (b :: bs) | _, _ => None end
  end.

Definition qkind_of_code (s : string) : option qkind :=
  if String.eqb s gen_qcode_x then Some QX else if String.eqb s gen_qcode_y then Some QY
  else if String.eqb s gen_qcode_u then Some QU else if String.eqb s gen_qcode_v then Some QV
  else if String.eqb s gen_qcode_w then Some QW else if String.eqb s gen_qcode_p then Some QP
  else if String.eqb s gen_qcode_z then Some QZ else None.

Definition ekind_of_code (s : string) : option ekind :=
  if String.eqb s gen_ecode_t then Some ET else if String.eqb s gen_ecode_m then Some EM
  else if String.eqb s gen_ecode_a then Some EA else None.

Definition dec_obool (j : json) : option (option bool) :=
  match j with JNull => Some None | JBool b => Some (Some b) | _ => None end.
Definition dec_ostr (j : json) : option (option string) :=
  match j with JNull => Some None | JStr s => Some (Some s) | _ => None end.
Definition dec_onum (j : json) : option (option N) :=
  match j with JNull => Some None | JNum x => Some (Some x) | _ => None end.
Definition dec_bool (j : json) : option bool :=
  match j with JBool b => Some b | _ => None end.

Definition dec_quantity (j : json) : option quantity :=
  match j with
  | JList [JStr c; JStr n; l; d; JStr a] =>
      match qkind_of_code c, dec_obool l, dec_ostr d with
      | Some k, Some l', Some d' => Some (mkQ k n l' d' a)
      | _, _, _ => None
      end
  | _ => None
  end.

(* Equation.from_portable:  complement_human or human  (None and "" both fall back to the dynamic form) *)
Definition dec_equation (j : json) : option equation :=
  match j with
  | JList [JStr c; JStr dyn; st; d; JStr a] =>
      match ekind_of_code c, dec_ostr st, dec_ostr d with
      | Some k, Some st', Some d' =>
          let steady := match st' with
                        | None => dyn
                        | Some s => if String.eqb s "" then dyn else s
                        end in
          Some (mkE k dyn steady d' a)
      | _, _, _ => None
      end
  | _ => None
  end.

Definition dec_value (j : json) : option value :=
  match j with
  | JList [l; c] => match dec_onum l, dec_onum c with Some l', Some c' => Some (mkV l' c') | _, _ => None end
  | _ => None
  end.

Definition dec_variant (j : json) : option (list (string * value)) :=
  match j with
  | JObj o => mapM (fun p => match dec_value (snd p) with Some v => Some (fst p, v) | None => None end) o
  | _ => None
  end.

Definition dec_list {A} (f : json -> option A) (j : json) : option (list A) :=
  match j with JList l => mapM f l | _ => None end.

Definition dec_context (j : json) : option (list string) :=
  match j with JObj o => Some (map fst o) | _ => None end.

Definition bind {A B} (o : option A) (f : A -> option B) : option B :=
  match o with Some a => f a | None => None end.

Definition decode (j : json) : option mdesc :=
  bind (field gen_key_format j) (fun fmt =>
  match fmt with
  | JStr f =>
    if String.eqb f gen_format then
      bind (field gen_key_source j) (fun src =>
      bind (field gen_key_variants j) (fun vars =>
      bind (field gen_key_description src) (fun de =>
      bind (field gen_key_flags src) (fun fl =>
      bind (bind (field gen_key_linear fl) dec_bool) (fun lin =>
      bind (bind (field gen_key_flat fl) dec_bool) (fun flat =>
      bind (bind (field gen_key_determ fl) dec_bool) (fun det =>
      bind (bind (field gen_key_quantities src) (dec_list dec_quantity)) (fun qs =>
      bind (bind (field gen_key_equations src) (dec_list dec_equation)) (fun es =>
      bind (bind (field gen_key_context src) dec_context) (fun ctx =>
      bind (dec_list dec_variant vars) (fun vs =>
      match de with
      | JStr d => Some (mkD d lin flat det qs es ctx vs)
      | _ => None
      end)))))))))))
    else None
  | _ => None
  end).

(* the steady form of an equation is never the empty string unless the dynamic form is (parser output) *)
Definition wf_equation (e : equation) : Prop := e_steady e <> "" \/ e_dynamic e = "".
Definition wf_mdesc (m : mdesc) : Prop := forall e, In e (d_equations m) -> wf_equation e.

(* ------------------------------------------------------------------ order of quantities *)

(* quantities.py::to_portable lists the quantities kind by kind, keeping the model order within a kind *)
Definition qkind_eqb (a b : qkind) : bool :=
  match a, b with
  | QX, QX | QY, QY | QU, QU | QV, QV | QW, QW | QP, QP | QZ, QZ => true
  | _, _ => false
  end.

Definition qkind_of_index (i : nat) : qkind :=
  match i with 0 => QX | 1 => QY | 2 => QU | 3 => QV | 4 => QW | 5 => QP | _ => QZ end.

Definition all_qkinds : list qkind := Eval compute in (map qkind_of_index gen_qkind_order).

Definition by_kind (qs : list quantity) : list quantity :=
  flat_map (fun k => filter (fun q => qkind_eqb (q_kind q) k) qs) all_qkinds.

End Portable.

Arguments JNull {N}.
Arguments JBool {N}.
Arguments JNum {N}.
Arguments JStr {N}.
Arguments JList {N}.
Arguments JObj {N}.
