(* Model of irispie's reduced-form VAR (red_vars/_estimators.py, _variants.py, _simulators.py,
   prior_obs.py, fords/least_squares.py::ordinary_least_squares, fords/simulators.py::simulate_flat).

   Three layers, no proofs here (proofs/RedVarProofs.v, proofs/RedVarDataProofs.v):
   1. Data layer (lists over any value type with a finiteness test): lag stacking y0, y1, x, k and the
      complete-column mask of _get_estimation_data / get_where_observations.
   2. Algebra layer, written ONCE over the matrix interface lib/MxC18.v::MatOps: OLS by the normal
      equations, the split of beta into A, B, c, residuals, residual covariance, companion matrices, mean,
      autocovariances from a Lyapunov solution, one simulation step and the simulation fold.
   3. Executable wrappers on the list instance LM (option bigQ entries), used by the correspondence. *)
From Coq Require Import ZArith List Bool.
From Bignums Require Import BigQ.
From Verif Require Import lib.MxC18 gen.RedVarGen model.Spectral.
Import ListNotations.

(* ================================================================== *)
(* 1. Data layer                                                       *)
(* ================================================================== *)
Section Data.
Variable T : Type.
Variable fin : T -> bool.      (* numpy.isfinite *)
Variable one : T.
Variable dflt : T.

(* Python slice row[a:b] for 0 <= a, 0 <= b *)
Definition pyslice (a b : nat) (row : list T) : list T := firstn (b - a) (skipn a row).

(* y[:, order:] *)
Definition stack_y0 (p : nat) (ys : list (list T)) : list (list T) := map (skipn p) ys.
(* y[:, order-i:-i] *)
Definition lag_block (p i : nat) (ys : list (list T)) : list (list T) :=
  map (fun row => pyslice (p - i) (length row - i) row) ys.
(* vstack([y[:, order-i:-i] for i in range(1, order+1)]) *)
Definition stack_y1 (p : nat) (ys : list (list T)) : list (list T) :=
  concat (map (fun i => lag_block p i ys) (seq 1 p)).
(* data[exogenous_qids, order:] *)
Definition stack_x (p : nat) (xs : list (list T)) : list (list T) := map (skipn p) xs.
(* ones((int(has_intercept), N)) *)
Definition stack_k (k N : nat) : list (list T) := repeat (repeat one N) k.

(* numpy.all(numpy.isfinite(numpy.vstack(rows)), axis=0) over N columns *)
Definition where_mask (N : nat) (rows : list (list T)) : list bool :=
  map (fun j => forallb (fun row => fin (nth j row dflt)) rows) (seq 0 N).

Fixpoint true_positions (i : nat) (mask : list bool) : list nat :=
  match mask with
  | [] => []
  | b :: r => if b then i :: true_positions (S i) r else true_positions (S i) r
  end.

Record est_data := {
  ed_y0 : list (list T); ed_y1 : list (list T); ed_x : list (list T); ed_k : list (list T);
  ed_N : nat; ed_where : list bool }.

(* _get_estimation_data: ys, xs have order + N columns (the dataslate reaches `order` periods before the span) *)
Definition estimation_data (p k : nat) (omit_missing : bool) (ys xs : list (list T)) : est_data :=
  let y0 := stack_y0 p ys in
  let y1 := stack_y1 p ys in
  let x := stack_x p xs in
  let N := length (nth 0 y0 []) in
  let kk := stack_k k N in
  {| ed_y0 := y0; ed_y1 := y1; ed_x := x; ed_k := kk; ed_N := N;
     ed_where := if omit_missing then where_mask N (y0 ++ y1 ++ x ++ kk) else repeat true N |}.
End Data.

Arguments ed_y0 {T}. Arguments ed_y1 {T}. Arguments ed_x {T}. Arguments ed_k {T}.
Arguments ed_N {T}. Arguments ed_where {T}.

(* ================================================================== *)
(* 2. Algebra layer over the matrix interface                          *)
(* ================================================================== *)
Section Algebra.
Variable M : MatOps.
Notation mx := (mx M).

(* fords/least_squares.py::ordinary_least_squares : solve(rhs rhs', rhs lhs')', regenerated from the source *)
Definition ols {n r N : nat} (L : mx n N) (R : mx r N) : mx n r := gen_ols L R.

Section Dims.
Variables n q m k : nat.     (* endogenous, order - 1, exogenous, intercept (0 or 1) *)
Notation np := (n + q * n).  (* number of lagged endogenous = order * n *)
Notation nr := (np + (m + k)).

(* vstack([y1, x, k]) *)
Definition rhs_stack {N : nat} (Y1 : mx np N) (X : mx m N) (Kc : mx k N) : mx nr N := mcol Y1 (mcol X Kc).

(* A = beta[:, :np];  B = beta[:, np:np+m];  c = beta[:, -1] (absent when k = 0) *)
Definition coef_A (beta : mx n nr) : mx n np := mlsub beta.
Definition coef_B (beta : mx n nr) : mx n m := mlsub (mrsub (n1 := np) beta).
Definition coef_c (beta : mx n nr) : mx n k := mrsub (mrsub (n1 := np) beta).

(* u = y0 - A @ y1 - B @ x - c.reshape(-1, 1)   (all columns, fitted or not) *)
Definition residuals {N : nat} (A : mx n np) (B : mx n m) (c : mx n k)
    (Y0 : mx n N) (Y1 : mx np N) (X : mx m N) (Kc : mx k N) : mx n N :=
  gen_residuals Y0 A Y1 B X (mmul c Kc).

(* symmetrize(u_w u_w' / (nfit - d)) *)
Definition second_moment {Nw : nat} (d : nat) (Uw : mx n Nw) : mx n n :=
  gen_symmetrize (gen_cov_residuals Uw (sc_sub M (sc_of_nat M Nw) (sc_of_nat M d))).

(* what is subtracted from the number of fitted periods (regenerated: num_exogenous + int(has_intercept)) *)
Definition dof_count (dof_correction : bool) : nat :=
  gen_dof_subtrahend n (S q) (negb (Nat.eqb k 0)) m dof_correction.

(* _estimate_variant after the data have been stacked: w selects the fitted columns,
   (Ld, Rd) are the prior dummy observations (zero columns when there is no prior) *)
Definition estimate_core {N Nw Nd : nat} (w : sel M Nw N) (dof_correction : bool)
    (Y0 : mx n N) (Y1 : mx np N) (X : mx m N) (Kc : mx k N) (Ld : mx n Nd) (Rd : mx nr Nd)
    : (mx n (Nw + Nd) * mx nr (Nw + Nd)) * (mx n nr * mx n N * mx n n) :=
  let L := mrow (mcolsel w Y0) Ld in
  let R := mrow (mcolsel w (rhs_stack Y1 X Kc)) Rd in
  let beta := ols L R in
  let U := residuals (coef_A beta) (coef_B beta) (coef_c beta) Y0 Y1 X Kc in
  ((L, R), (beta, U, second_moment (dof_count dof_correction) (mcolsel w U))).

(* ---- companion form (red_vars/_variants.py) ---- *)
Definition companion_T (A : mx n np) : mx np np := mcol A (meye M (q * n) np).
Definition cvec (c : mx n k) : mx n 1 := mmul c (mones M k 1).
Definition companion_K (c : mx n k) : mx np 1 := mcol (cvec c) (mzero M (q * n) 1).
Definition companion_P : mx np n := meye M np n.
Definition companion_sigma (S : mx n n) : mx np np :=
  mcol (mrow S (mzero M n (q * n))) (mrow (mzero M (q * n) n) (mzero M (q * n) (q * n))).

(* numpy.tile(eye(n), (j, 1)) *)
Fixpoint tileI (j : nat) : mx (j * n) n :=
  match j return mx (j * n) n with
  | O => mzero M 0 n
  | S j' => mcol (meye M n n) (tileI j')
  end.
(* A.reshape((n, n, order), order="F").sum(axis=2) = A_1 + ... + A_order *)
Definition sumA (A : mx n np) : mx n n := mmul A (tileI (S q)).
(* Variant.get_mean *)
Definition var_mean (A : mx n np) (c : mx n k) : mx n 1 :=
  if mis_zero (cvec c) then mzero M n 1 else msolve (msub (meye M n n) (sumA A)) (cvec c).

(* Variant.get_acov given the Lyapunov solution Omega of the companion system *)
Definition topleft (Om : mx np np) : mx n n := mlsub (musub Om).
Fixpoint acov_from (Tm Om : mx np np) (j : nat) : list (mx n n) :=
  topleft Om :: match j with O => [] | S j' => acov_from Tm (mmul Tm Om) j' end.
Definition lyap_residual (Tm Sg Om : mx np np) : mx np np :=
  msub Om (madd (mmul (mmul Tm Om) (mtr Tm)) Sg).

(* ---- simulation: fords/simulators.py::simulate_flat with the RedVAR exogenous impact ---- *)
Definition exo_impact (B : mx n m) (x : mx m 1) : mx np 1 := mcol (mmul B x) (mzero M (q * n) 1).
(* xi = T @ xi + K;  xi += P u[:, t];  xi += exogenous_impact[:, t] *)
Definition sim_step (A : mx n np) (B : mx n m) (c : mx n k) (xi : mx np 1) (u : mx n 1) (x : mx m 1) : mx np 1 :=
  madd (madd (madd (mmul (companion_T A) xi) (companion_K c)) (mmul companion_P u)) (exo_impact B x).
(* data_array[curr_xi_qids, t] = xi[curr_xi_indexes] *)
Definition sim_obs (xi : mx np 1) : mx n 1 := musub xi.
Fixpoint simulate (A : mx n np) (B : mx n m) (c : mx n k) (xi : mx np 1) (inp : list (mx n 1 * mx m 1))
    : list (mx n 1) :=
  match inp with
  | [] => []
  | (u, x) :: rest => let xi' := sim_step A B c xi u x in sim_obs xi' :: simulate A B c xi' rest
  end.
End Dims.
End Algebra.

Arguments ols {M n r N}.
Arguments rhs_stack {M n q m k N}.
Arguments coef_A {M n q m k}.
Arguments coef_B {M n q m k}.
Arguments coef_c {M n q m k}.
Arguments residuals {M n q m k N}.
Arguments second_moment {M n Nw}.
Arguments dof_count n q m k dof_correction : assert.
Arguments estimate_core {M n q m k N Nw Nd}.
Arguments companion_T {M n q}.
Arguments cvec {M n k}.
Arguments companion_K {M n q k}.
Arguments companion_P {M}.
Arguments companion_sigma {M n q}.
Arguments tileI {M}.
Arguments sumA {M n q}.
Arguments var_mean {M n q k}.
Arguments topleft {M n q}.
Arguments acov_from {M n q}.
Arguments lyap_residual {M n q}.
Arguments exo_impact {M n q m}.
Arguments sim_step {M n q m k}.
Arguments sim_obs {M n q}.
Arguments simulate {M n q m k}.

(* ================================================================== *)
(* 3. Executable wrappers on the list instance                         *)
(* ================================================================== *)

(* prior dummy observations (red_vars/prior_obs.py); y_std is not forwarded by generate_lhs/generate_rhs,
   so the scale is 1 *)
Inductive prior :=
  | Minnesota (rho : list V) (mu : V) (kappa : nat)
  | MeanPrior (mean : list V) (mu : V).

Definition vofnat (j : nat) : V := Some (BigQ.Qz (BigZ.of_Z (Z.of_nat j))).
Fixpoint vpow (b : V) (e : nat) : V := match e with O => vone | S e' => vmul b (vpow b e') end.
Definition ldiag (d : list V) : lmx :=
  let s := length d in tab s s (fun i j => if Nat.eqb i j then nth i d None else vzero).

Definition prior_num_obs (n p k : nat) (pr : prior) : nat :=
  match pr with
  | Minnesota _ _ _ => gen_minnesota_num_obs n p (negb (Nat.eqb k 0)) 0
  | MeanPrior _ _ => gen_mean_num_obs n p (negb (Nat.eqb k 0)) 0
  end.

Definition prior_lhs (n p m k : nat) (pr : prior) : lmx :=
  match pr with
  | Minnesota rho mu kappa =>
      let mu_scaled := repeat (vmul mu vone) n in
      map2 (@app V) (ldiag (map2 vmul mu_scaled rho)) (lconst vzero n (n * (p - 1)))
  | MeanPrior mean mu =>
      map (fun mi => repeat (vmul (vmul vone mi) mu) k) mean
  end.

Definition prior_rhs (n p m k : nat) (pr : prior) : lmx :=
  match pr with
  | Minnesota rho mu kappa =>
      let mu_scaled := repeat (vmul mu vone) n in
      let y1_diag := concat (map (fun i => map (fun s => vmul s (vpow (vofnat (S i)) kappa)) mu_scaled) (seq 0 p)) in
      ldiag y1_diag ++ lconst vzero m (n * p) ++ lconst vzero k (n * p)
  | MeanPrior mean mu =>
      let y0 := map (fun mi => repeat (vmul (vmul vone mi) mu) k) mean in
      concat (repeat y0 p) ++ lconst vzero m k ++ lconst (vmul vone mu) k k
  end.

Fixpoint hstack_all (rows : nat) (l : list lmx) : lmx :=
  match l with [] => repeat [] rows | A :: r => map2 (@app V) A (hstack_all rows r) end.

Record est_out := {
  o_data : est_data V;
  o_idx : list nat;
  o_L : lmx; o_R : lmx;
  o_A : lmx; o_B : lmx; o_c : lmx; o_U : lmx; o_cov : lmx }.

(* RedVAR.estimate for one variant; None = "No data available for estimation" *)
Definition run_estimate (n q m k : nat) (omit_missing dof : bool) (priors : list prior) (ys xs : lmx)
    : option est_out :=
  let p := S q in
  let d := estimation_data V vfin vone None p k omit_missing ys xs in
  let idx := true_positions 0 (ed_where d) in
  let Nw := length idx in
  if Nat.eqb Nw 0 then None else
  let Nd := fold_left Nat.add (map (prior_num_obs n p k) priors) 0 in
  let Ld := hstack_all n (map (prior_lhs n p m k) priors) in
  let Rd := hstack_all ((n + q * n) + (m + k)) (map (prior_rhs n p m k) priors) in
  let '((L, R), (beta, U, cov)) :=
    estimate_core (M := LM) (n := n) (q := q) (m := m) (k := k) (N := ed_N d) (Nw := Nw) (Nd := Nd)
      idx dof (ed_y0 d) (ed_y1 d) (ed_x d) (ed_k d) Ld Rd in
  Some {| o_data := d; o_idx := idx; o_L := L; o_R := R;
          o_A := coef_A (M := LM) (n := n) (q := q) (m := m) (k := k) beta;
          o_B := coef_B (M := LM) (n := n) (q := q) (m := m) (k := k) beta;
          o_c := coef_c (M := LM) (n := n) (q := q) (m := m) (k := k) beta;
          o_U := U; o_cov := cov |}.

(* RedVAR.simulate over the base columns p .. p+N-1 of a dataslate holding ys, xs and the residual rows us
   (p initial columns); missing residuals fall back to 0 (slatable fallbacks).  Returns the rows of the
   endogenous variables after the simulation. *)
Definition colvec (rows : lmx) (t : nat) : lmx := map (fun row => [nth t row None]) rows.
Definition fill0 (rows : lmx) : lmx := map (map (fun v => match v with None => vzero | _ => v end)) rows.

Definition run_simulate (n q m k : nat) (A B c : lmx) (ys xs us : lmx) : lmx :=
  let p := S q in
  let N := length (nth 0 ys []) - p in
  let us0 := fill0 us in
  (* get_init_xi: tokens (qid, -s), s = 0 .. p-1, read at column first_column - 1 - s *)
  let xi0 := concat (map (fun s => colvec ys (p - 1 - s)) (seq 0 p)) in
  let inp := map (fun t => (colvec us0 t, colvec xs t)) (seq p N) in
  let outs := simulate (M := LM) (n := n) (q := q) (m := m) (k := k) A B c xi0 inp in
  map (fun i => firstn p (nth i ys []) ++ map (fun o => lget o i 0) outs) (seq 0 n).

(* reported quantities *)
Definition run_mean (n q k : nat) (A c : lmx) : lmx := var_mean (M := LM) (n := n) (q := q) (k := k) A c.
Definition run_companion_T (n q : nat) (A : lmx) : lmx := companion_T (M := LM) (n := n) (q := q) A.
Definition run_companion_K (n q k : nat) (c : lmx) : lmx := companion_K (M := LM) (n := n) (q := q) (k := k) c.
Definition run_companion_P (n q : nat) : lmx := companion_P (M := LM) n q.
Definition run_charpoly (n q : nat) (A : lmx) : list V := charpoly (n + q * n) (run_companion_T n q A).
Definition run_lyap_residual (n q : nat) (A S Om : lmx) : lmx :=
  lyap_residual (M := LM) (n := n) (q := q) (run_companion_T n q A) (companion_sigma (M := LM) (n := n) (q := q) S) Om.
Definition run_acov (n q : nat) (A Om : lmx) (upto : nat) : list lmx :=
  acov_from (M := LM) (n := n) (q := q) (run_companion_T n q A) Om upto.

(* spectral radius and stability verdict (model/Spectral.v) on the eigenvalues numpy.linalg.eigvals returned, given as
   exact (re, im) pairs.  The executable instance works with SQUARED moduli re^2 + im^2 (no square root in Q); squaring
   is an order embedding of the non-negative numbers (proofs/SpectralProofs.v: max_of_embedding, Qsquare_embeds), and
   1^2 = 1, so the maximum is the square of the reported one and the verdict is the same. *)
Definition vleb (a b : V) : bool := match a, b with Some x, Some y => qle x y | _, _ => false end.
Definition vnormsq (z : V * V) : V := vadd (vmul (fst z) (fst z)) (vmul (snd z) (snd z)).
Definition run_max_abs_sq (eigs : list (V * V)) : option V :=
  max_abs_eigenvalue vnormsq vleb vofnat (fun l => hd (None, None) l) eigs.
Definition run_is_stable (eigs : list (V * V)) : option bool :=
  is_stable vnormsq vleb vofnat (fun l => hd (None, None) l) eigs.

(* ================================================================== *)
(* 4. Comparison of one implementation run with the model (correspondence case files)   *)
(* ================================================================== *)
Record acc_expect := mkAcc {
  x_mean : lmx; x_poly : list V; x_T : lmx; x_P : lmx; x_K : lmx; x_Om : lmx; x_acov : list lmx;
  x_eigs : list (V * V);        (* get_eigenvalues, exact (re, im) *)
  x_maxabs : V;                 (* get_max_abs_eigenvalue *)
  x_stable : option bool        (* get_stability; None: the spectral radius is within rounding of 1, verdict not compared *) }.

Record expect := mkExpect {
  x_y0 : lmx; x_y1 : lmx; x_x : lmx; x_k : lmx; x_where : list bool; x_fitted : list nat;
  x_L : lmx; x_R : lmx;
  x_A : lmx; x_B : lmx; x_c : lmx; x_U : lmx; x_cov : lmx;
  x_acc : option acc_expect;   (* None: the accessors were not observed (non-finite estimates) *)
  x_sim : option lmx           (* None: infinite observations / non-finite estimates, simulation not compared *) }.

Definition flag (code : nat) (ok : bool) : list nat := if ok then [] else [code].
Definition bools_eq (a b : list bool) : bool := all2 Bool.eqb a b.
Definition nats_eq (a b : list nat) : bool := all2 Nat.eqb a b.

(* codes: 1 stacking, 2 mask, 3 fitted positions, 4 OLS inputs (exact);  5 A, 6 B, 7 c, 8 residuals, 9 covariance,
   10 mean, 11 characteristic polynomial of the companion matrix vs reported eigenvalues, 12 companion matrices,
   13 Lyapunov equation at the recorded solution, 14 autocovariances, 15 simulation (tolerance);
   16 reported maximum modulus vs the model's spectral radius of the reported eigenvalues, 17 stability verdict;
   90/91 "no data" verdicts differ *)
Definition check (tol : bigQ) (n q m k : nat) (omit_missing dof : bool) (priors : list prior) (ys xs : lmx)
    (e : option expect) : list nat :=
  match run_estimate n q m k omit_missing dof priors ys xs, e with
  | None, None => []
  | None, Some _ => [90]
  | Some _, None => [91]
  | Some o, Some e =>
      let d := o_data o in
      let p := S q in
      let Tm := run_companion_T n q (o_A o) in
      let us := map (fun r => repeat vzero p ++ r) (o_U o) in
      flag 1 (mx_eq (ed_y0 d) (x_y0 e) && mx_eq (ed_y1 d) (x_y1 e) && mx_eq (ed_x d) (x_x e) && mx_eq (ed_k d) (x_k e))
      ++ flag 2 (bools_eq (ed_where d) (x_where e))
      ++ flag 3 (nats_eq (o_idx o) (x_fitted e))
      ++ flag 4 (mx_eq (o_L o) (x_L e) && mx_eq (o_R o) (x_R e))
      ++ flag 5 (mx_close tol (o_A o) (x_A e))
      ++ flag 6 (mx_close tol (o_B o) (x_B e))
      ++ flag 7 (mx_close tol (o_c o) (x_c e))
      ++ flag 8 (mx_close tol (o_U o) (x_U e))
      ++ flag 9 (mx_close tol (o_cov o) (x_cov e))
      ++ match x_acc e with
         | Some a =>
             flag 10 (mx_close tol (run_mean n q k (o_A o) (o_c o)) (x_mean a))
             ++ flag 11 (all2 (vclose tol) (run_charpoly n q (o_A o)) (x_poly a))
             ++ flag 12 (mx_close tol Tm (x_T a) && mx_close tol (run_companion_P n q) (x_P a)
                         && mx_close tol (run_companion_K n q k (o_c o)) (x_K a))
             ++ flag 13 (mx_close tol (lzip vsub (x_Om a) (run_lyap_residual n q (o_A o) (o_cov o) (x_Om a))) (x_Om a))
             ++ flag 14 (all2 (mx_close tol) (run_acov n q (o_A o) (x_Om a) (length (x_acov a) - 1)) (x_acov a))
             ++ flag 16 (match run_max_abs_sq (x_eigs a) with
                         | Some r => vclose tol r (vmul (x_maxabs a) (x_maxabs a))
                         | None => false
                         end)
             ++ flag 17 (match x_stable a, run_is_stable (x_eigs a) with
                         | Some b, Some b' => Bool.eqb b b'
                         | Some _, None => false
                         | None, _ => true
                         end)
         | None => []
         end
      ++ match x_sim e with
         | Some sim => flag 15 (mx_close tol (run_simulate n q m k (o_A o) (o_B o) (o_c o) ys xs us) sim)
         | None => []
         end
  end.

Fixpoint failing_codes (i : nat) (l : list (list nat)) : list (nat * nat) :=
  match l with [] => [] | c :: r => map (pair i) c ++ failing_codes (S i) r end.
