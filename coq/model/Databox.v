(* Executable model of irispie.Databox (databoxes/main.py, databoxes/_merge.py): an
   insertion-ordered finite map from names to items (time series with a description,
   scalars, lists), name selection (_resolve_source_target_names) and the databox-level
   operations copy / rename / remove / keep / overlay / underlay / clip / prepend /
   merge, plus a register machine replaying histories of operations.
   Series semantics are those of model/Series.v and model/SeriesOps.v (C10).
   NO proofs in this file. *)
From Coq Require Import String Ascii ZArith List Bool.
From Verif Require Import lib.Arith model.Series model.SeriesOps.
Import ListNotations.
Open Scope Z_scope.

Section DataboxModel.
Variable A : Arith.
Notation V := (car A).
Notation series := (series A).

(* error classes (canonicalised by the harness):
   1 = TypeError/AttributeError, 2 = IrisPieError/IrisPieCritical, 3 = ValueError, 4 = KeyError,
   5 = IndexError *)

Inductive elem := EScal (v : V) | ESer (d : string) (s : series).
Inductive item := INon (e : elem) | IList (l : list elem).
Definition databox := list (string * item).        (* python dict: keys unique, insertion order *)

Definition ISer (d : string) (s : series) : item := INon (ESer d s).

Definition names (db : databox) : list string := map fst db.

Definition smem (k : string) (l : list string) : bool := existsb (String.eqb k) l.

Fixpoint dget (db : databox) (k : string) : option item :=
  match db with
  | [] => None
  | (k', v) :: r => if String.eqb k' k then Some v else dget r k
  end.

Definition dhas (db : databox) (k : string) : bool :=
  match dget db k with Some _ => true | None => false end.

(* d[k] = v : in place when the key exists, appended otherwise *)
Fixpoint dset (db : databox) (k : string) (v : item) : databox :=
  match db with
  | [] => [(k, v)]
  | (k', v') :: r => if String.eqb k' k then (k', v) :: r else (k', v') :: dset r k v
  end.

(* del d[k] *)
Fixpoint ddel (db : databox) (k : string) : databox :=
  match db with
  | [] => []
  | (k', v') :: r => if String.eqb k' k then r else (k', v') :: ddel r k
  end.

(* Series.frequency: UNKNOWN (-1) for a series without a start *)
Definition sfreq (s : series) : Z := match s_start s with Some _ => s_freq s | None => -1 end.

Definition is_ser (db : databox) (k : string) : bool :=
  match dget db k with Some (INon (ESer _ _)) => true | _ => false end.

(* ---- name selection: Databox._resolve_source_target_names, strict_names=False ---- *)
Inductive sel := SelAll | SelList (l : list string) | SelPred (p : string -> bool).
Inductive tgt := TgtSame | TgtList (l : list string) | TgtFun (f : string -> string).

Definition sel_names (ctx : list string) (s : sel) : list string :=
  match s with SelAll => ctx | SelList l => l | SelPred p => filter p ctx end.

Definition resolve (ctx : list string) (s : sel) (t : tgt) : list (string * string) :=
  let src := sel_names ctx s in
  let tg := match t with TgtSame => src | TgtList l => l | TgtFun f => map f src end in
  filter (fun p => smem (fst p) ctx) (combine src tg).

(* ---- rename: for s, t in pairs: self[t] = self.pop(s) ---- *)
Definition rename_step (acc : res databox) (p : string * string) : res databox :=
  match acc with
  | Err e => Err e
  | Ok d => match dget d (fst p) with
            | None => Err 4
            | Some v => Ok (dset (ddel d (fst p)) (snd p) v)
            end
  end.

Definition rename_pairs (db : databox) (pairs : list (string * string)) : res databox :=
  fold_left rename_step pairs (Ok db).

Definition d_rename (db : databox) (s : sel) (t : tgt) : res databox :=
  rename_pairs db (resolve (names db) s t).

(* ---- remove: for n in names: del self[n]; remove(None) does nothing ---- *)
Definition remove_step (acc : res databox) (n : string) : res databox :=
  match acc with
  | Err e => Err e
  | Ok d => if dhas d n then Ok (ddel d n) else Err 4
  end.

Definition d_remove (db : databox) (s : sel) : res databox :=
  match s with
  | SelAll => Ok db
  | _ => fold_left remove_step (map fst (resolve (names db) s TgtSame)) (Ok db)
  end.

(* ---- keep: delete every key outside the resolved names; keep(None) does nothing ---- *)
Definition d_keep (db : databox) (s : sel) : databox :=
  match s with
  | SelAll => db
  | _ => let kept := map fst (resolve (names db) s TgtSame) in
         filter (fun p => smem (fst p) kept) db
  end.

(* ---- copy: deepcopy, then rename(resolved sources -> targets), then keep(targets) ---- *)
Definition d_copy (db : databox) (s : sel) (t : tgt) : res databox :=
  match s, t with
  | SelAll, TgtSame => Ok db
  | _, _ =>
      let pairs := resolve (names db) s t in
      match d_rename db (SelList (map fst pairs)) (TgtList (map snd pairs)) with
      | Err e => Err e
      | Ok d1 => Ok (d_keep d1 (SelList (map snd pairs)))
      end
  end.

(* ---- shallow: dict((t, self[s]) for s, t in pairs) ---- *)
Definition d_shallow (db : databox) (s : sel) (t : tgt) : databox :=
  fold_left (fun acc p => match dget db (fst p) with Some v => dset acc (snd p) v | None => acc end)
            (resolve (names db) s t) [].

(* ---- overlay / underlay (Databox._lay) ---- *)
Definition lay_names (db other : databox) (sel_names : option (list string)) : list string :=
  match sel_names with
  | None => filter (fun n => is_ser db n && is_ser other n) (names db)
  | Some l => filter (fun n => dhas db n && dhas other n) (nodup string_dec l)
  end.

(* Series.overlay trims its result in place, and a series trimmed to nothing is reset (description
   included); Series.underlay only copies start and data of the result into the receiver *)
Definition lay_desc (under : bool) (r : series) (ds : string) : string :=
  if under then ds else match s_start r with Some _ => ds | None => ""%string end.

Definition lay_step (under : bool) (other : databox) (acc : res databox) (n : string) : res databox :=
  match acc with
  | Err e => Err e
  | Ok d =>
      match dget d n with
      | Some (INon (ESer ds s)) =>
          if sfreq s =? -1 then Ok d else
          match dget other n with
          | Some (INon (ESer _ o)) =>
              if negb (sfreq s =? sfreq o) then Ok d else
              match (if under then underlay A s o else overlay A s o) with
              | Ok r => Ok (dset d n (ISer (lay_desc under r ds) r))
              | Err _ => Err 2
              end
          | _ => Err 2
          end
      | _ => Err 2
      end
  end.

Definition d_lay (under : bool) (db other : databox) (sel_names : option (list string)) : res databox :=
  fold_left (lay_step under other) (lay_names db other sel_names) (Ok db).

(* ---- clip: every series of the frequency of the given period(s) ---- *)
Definition clip_total (s : series) (a b : option Z) : series :=
  match clip A s a b with Ok r => r | Err _ => s end.

Definition clip_item (f : Z) (a b : option Z) (it : item) : item :=
  match it with
  | INon (ESer d s) => if sfreq s =? f then ISer d (clip_total s a b) else it
  | _ => it
  end.

Definition d_clip (db : databox) (f : Z) (a b : option Z) : databox :=
  match a, b with
  | None, None => db
  | _, _ => map (fun p => (fst p, clip_item f a b (snd p))) db
  end.

(* ---- prepend: other.copy(); other.clip(None, end); self.underlay(other) ---- *)
Definition d_prepend (db other : databox) (f : Z) (e : Z) : res databox :=
  d_lay true db (d_clip other f None (Some e)) None.

(* ---- merge ---- *)
Inductive strategy := MStack | MReplace | MDiscard | MReport (raises : bool).

Definition as_list (it : item) : list elem := match it with IList l => l | INon e => [e] end.

Definition merge_stack (cur value : item) : res item :=
  match value with
  | INon (ESer _ v) =>
      match cur with
      | INon (ESer _ c) => match hstack A c v with Ok r => Ok (ISer "" r) | Err e => Err e end
      | _ => Err 1
      end
  | _ => Ok (IList (as_list cur ++ as_list value))
  end.

(* state: the databox and whether a duplicate key was reported to the stream *)
Definition merge_step (st : strategy) (acc : res (databox * bool)) (kv : string * item) : res (databox * bool) :=
  match acc with
  | Err e => Err e
  | Ok (d, dup) =>
      match dget d (fst kv) with
      | None => Ok (dset d (fst kv) (snd kv), dup)
      | Some cur =>
          match st with
          | MStack => match merge_stack cur (snd kv) with
                      | Ok it => Ok (dset d (fst kv) it, dup)
                      | Err e => Err e
                      end
          | MReplace => Ok (dset d (fst kv) (snd kv), dup)
          | MDiscard => Ok (d, dup)
          | MReport _ => Ok (d, true)
          end
      end
  end.

Definition d_merge (db : databox) (others : list databox) (st : strategy) : res databox :=
  match fold_left (merge_step st) (concat others) (Ok (db, false)) with
  | Err e => Err e
  | Ok (d, dup) => match st with
                   | MReport true => if dup then Err 2 else Ok d
                   | _ => Ok d
                   end
  end.

(* ---- register machine over several databoxes ---- *)
Inductive dop :=
  | DCopy (dst src : nat) (s : sel) (t : tgt)          (* dst = src.copy(s, t) *)
  | DRename (dst : nat) (s : sel) (t : tgt)
  | DRemove (dst : nat) (s : sel)
  | DKeep (dst : nat) (s : sel)
  | DLay (dst src : nat) (under : bool) (ns : option (list string))
  | DClip (dst : nat) (f : Z) (a b : option Z)
  | DPrepend (dst src : nat) (f : Z) (e : Z)
  | DMerge (dst : nat) (srcs : list nat) (st : strategy).

Definition dregs := list databox.
Definition getd (rs : dregs) (i : nat) : databox := nth i rs [].
Fixpoint setd (rs : dregs) (i : nat) (d : databox) : dregs :=
  match rs, i with
  | [], _ => []
  | _ :: r, O => d :: r
  | x :: r, S j => x :: setd r j d
  end.

Definition op_dst (o : dop) : nat :=
  match o with
  | DCopy d _ _ _ | DRename d _ _ | DRemove d _ | DKeep d _ | DLay d _ _ _ | DClip d _ _ _
  | DPrepend d _ _ _ | DMerge d _ _ => d
  end.

Definition dexec (rs : dregs) (o : dop) : res databox :=
  match o with
  | DCopy _ s sl t => d_copy (getd rs s) sl t
  | DRename d sl t => d_rename (getd rs d) sl t
  | DRemove d sl => d_remove (getd rs d) sl
  | DKeep d sl => Ok (d_keep (getd rs d) sl)
  | DLay d s under ns => d_lay under (getd rs d) (getd rs s) ns
  | DClip d f a b => Ok (d_clip (getd rs d) f a b)
  | DPrepend d s f e => d_prepend (getd rs d) (getd rs s) f e
  | DMerge d srcs st => d_merge (getd rs d) (map (getd rs) srcs) st
  end.

(* the history stops at the first operation that raises *)
Fixpoint drun (rs : dregs) (ops : list dop) : dregs * list (res databox) :=
  match ops with
  | [] => (rs, [])
  | o :: r =>
      match dexec rs o with
      | Ok d => let '(rs2, outs) := drun (setd rs (op_dst o) d) r in (rs2, Ok d :: outs)
      | Err e => (rs, [Err e])
      end
  end.

End DataboxModel.

Arguments EScal {A}. Arguments ESer {A}. Arguments INon {A}. Arguments IList {A}.
