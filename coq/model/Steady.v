(* Executable model of irispie's steady-state solver plumbing (C05):
     simultaneous/_variants.py   Variant.create_steady_array, retrieve_maybelog_values_for_qids,
                                 zero_changes, update_levels/changes_from_array
     steadiers/evaluators.py     Flat/NonflatSteadyEvaluator (index bookkeeping, _update_steady_array,
                                 extract_levels/changes, _fill_missing, _prepare_time_shifts)
     steadiers/_equators.py      Flat/NonflatSteadyEquator.eval
     simultaneous/_steady.py     _resolve_steady_wrt, _steady_nonlinear (fold over blocks with write-back),
                                 _update_variant_with_final_guess, _steady_linear (selection + write-back)
     fords/steadiers.py          the stacked linear steady systems
   The scalar formulas come from gen/SteadyGen.v (regenerated from the source on every run).
   The Newton/Levenberg solver and numpy's lstsq are ORACLES: their outputs are arguments.
   Generic in the scalar carrier.  NO proofs in this file. *)
From Coq Require Import ZArith List Bool Lia.
From Verif Require Import lib.Arith gen.SteadyGen.
Import ListNotations.
Open Scope Z_scope.

Section SteadyModel.
Variable A : Arith.
Notation V := (car A).
(* numpy's isnan(x) | isinf(x) *)
Variable is_bad : V -> bool.

(* ------------------------------------------------------------------ lists *)
Fixpoint set_nth {T} (l : list T) (n : nat) (x : T) : list T :=
  match l, n with
  | [], _ => []
  | _ :: t, O => x :: t
  | h :: t, S n' => h :: set_nth t n' x
  end.

Definition mem_nat (q : nat) (l : list nat) : bool := existsb (Nat.eqb q) l.

Fixpoint index_of (q : nat) (l : list nat) : option nat :=
  match l with
  | [] => None
  | h :: t => if Nat.eqb q h then Some O else option_map S (index_of q t)
  end.

Fixpoint nodup_nat (l : list nat) : bool :=
  match l with
  | [] => true
  | h :: t => negb (mem_nat h t) && nodup_nat t
  end.

(* x[mask] for a boolean mask *)
Fixpoint mask_select {T} (l : list T) (mask : list bool) : list T :=
  match l, mask with
  | x :: l', true :: m' => x :: mask_select l' m'
  | _ :: l', false :: m' => mask_select l' m'
  | _, _ => []
  end.

(* x[mask] = g for a boolean mask (g has one entry per True) *)
Fixpoint mask_assign {T} (init : list T) (mask : list bool) (g : list T) : list T :=
  match init, mask with
  | x :: i', true :: m' =>
      match g with
      | y :: g' => y :: mask_assign i' m' g'
      | [] => x :: mask_assign i' m' []
      end
  | x :: i', false :: m' => x :: mask_assign i' m' g
  | _, _ => init
  end.

Definition count_true (m : list bool) : nat := length (filter (fun b => b) m).

Fixpoint map2 {T U W} (f : T -> U -> W) (a : list T) (b : list U) : list W :=
  match a, b with
  | x :: a', y :: b' => f x y :: map2 f a' b'
  | _, _ => []
  end.

(* first, first+1, ..., first+n-1 *)
Definition zrange_n (first : Z) (n : nat) : list Z := map (fun j => first + Z.of_nat j) (seq 0 n).

(* sorted(set(l) - set(excl)) for qids below n *)
Definition sorted_minus (n : nat) (l excl : list nat) : list nat :=
  filter (fun q => mem_nat q l && negb (mem_nat q excl)) (seq 0 n).

(* ------------------------------------------------------------------ equations *)
Inductive expr :=
| EConst (c : V)
| EVar (q : nat) (s : Z)              (* x[(q, t+s)] *)
| ENeg (a : expr)
| EAdd (a b : expr) | ESub (a b : expr) | EMul (a b : expr) | EDiv (a b : expr) | EPow (a b : expr)
| ELn (a : expr) | EExp (a : expr).

(* value of an equation's residual expression; [x q s] is the value of quantity q at shift s from the
   evaluation date *)
Fixpoint eval (x : nat -> Z -> V) (e : expr) : V :=
  match e with
  | EConst c => c
  | EVar q s => x q s
  | ENeg a => neg A (eval x a)
  | EAdd a b => add A (eval x a) (eval x b)
  | ESub a b => sub A (eval x a) (eval x b)
  | EMul a b => mul A (eval x a) (eval x b)
  | EDiv a b => div A (eval x a) (eval x b)
  | EPow a b => pow A (eval x a) (eval x b)
  | ELn a => ln A (eval x a)
  | EExp a => exp A (eval x a)
  end.

Fixpoint tokens (e : expr) : list (nat * Z) :=
  match e with
  | EConst _ => []
  | EVar q s => [(q, s)]
  | ENeg a | ELn a | EExp a => tokens a
  | EAdd a b | ESub a b | EMul a b | EDiv a b | EPow a b => tokens a ++ tokens b
  end.

Definition all_tokens (eqs : list expr) : list (nat * Z) := flat_map tokens eqs.

Definition min_shift_of (eqs : list expr) : Z :=
  match map snd (all_tokens eqs) with
  | [] => 0
  | s :: r => fold_left Z.min r s
  end.
Definition max_shift_of (eqs : list expr) : Z :=
  match map snd (all_tokens eqs) with
  | [] => 0
  | s :: r => fold_left Z.max r s
  end.

(* ------------------------------------------------------------------ arrays: rows = quantities, columns = dates *)
Definition array := list (list V).

Definition aget (arr : array) (q : nat) (col : Z) : V :=
  if col <? 0 then miss A else nth (Z.to_nat col) (nth q arr []) (miss A).

(* PlainEquator.eval(arr, t): every x[(q, t+s)] reads column t+s *)
Definition env_at (arr : array) (t : Z) : nat -> Z -> V := fun q s => aget arr q (t + s).
Definition eval_eqs (arr : array) (t : Z) (eqs : list expr) : list V := map (eval (env_at arr t)) eqs.

(* ------------------------------------------------------------------ variants *)
Record variant := mkVariant { v_levels : list V; v_changes : list V }.   (* None is [miss A] *)

Definition vget (l : list V) (q : nat) : V := nth q l (miss A).

Definition is_log (lg : list (option bool)) (q : nat) : bool :=
  match nth q lg None with Some true => true | _ => false end.

(* _update_from_array: what_to_update[qid] = value if value == value else None *)
Definition none_if_nan (x : V) : V := if is_miss A x then miss A else x.
Definition update_from_array (d : list V) (vals : list V) (qids : list nat) : list V :=
  fold_left (fun d qx => set_nth d (fst qx) (none_if_nan (snd qx))) (combine qids vals) d.

(* Variant.zero_changes *)
Definition zero_changes (lg : list (option bool)) (v : variant) : variant :=
  mkVariant (v_levels v) (map (fun q => gen_zero_change A (nth q lg None)) (seq 0 (length (v_changes v)))).

(* Variant.create_steady_array *)
Definition clean_level (x : V) : V := if is_bad x then gen_bad_level_fill A else x.
Definition clean_change (x : V) : V := if is_bad x then gen_bad_change_fill A else x.

Definition variant_cell (lgq : bool) (l c : V) (s : Z) : V :=
  let l1 := clean_level (if lgq then gen_variant_log_level A l else l) in
  let c1 := clean_change (if lgq then gen_variant_log_change A c else c) in
  let p := gen_variant_cell A l1 c1 (ofZ A s) in
  if lgq then gen_variant_delog A p else p.

Definition steady_array_general (lg : list (option bool)) (v : variant) (ncols : nat) (first : Z) : array :=
  map (fun q => map (variant_cell (is_log lg q) (vget (v_levels v) q) (vget (v_changes v) q)) (zrange_n first ncols))
      (seq 0 (length (v_levels v))).

Definition create_steady_array (lg : list (option bool)) (v : variant) (ncols : nat) (first : Z) : array :=
  if Nat.eqb ncols 1 && (first =? 0) then map (fun q => [vget (v_levels v) q]) (seq 0 (length (v_levels v)))
  else steady_array_general lg v ncols first.

(* Variant.retrieve_maybelog_values_for_qids followed by _fill_missing *)
Definition fill_level (x : V) : V := if is_miss A x then gen_default_level A else x.
Definition fill_change (x : V) : V := if is_miss A x then gen_default_change A else x.
Definition maybelog_level (lg : list (option bool)) (v : variant) (q : nat) : V :=
  let x := vget (v_levels v) q in if is_log lg q then gen_retrieve_log_level A x else x.
Definition maybelog_change (lg : list (option bool)) (v : variant) (q : nat) : V :=
  let x := vget (v_changes v) q in if is_log lg q then gen_retrieve_log_change A x else x.

(* ------------------------------------------------------------------ the steady evaluator *)
Record evaluator := mkEv {
  ev_flat : bool;
  ev_wrt : list nat;                 (* wrt_qids (order chosen by Python's set iteration: an oracle) *)
  ev_bl : list bool;                 (* _bool_index_wrt_levels *)
  ev_bc : list bool;                 (* _bool_index_wrt_changes ([] when flat) *)
  ev_lg : list bool;                 (* log status of every entry of ev_wrt *)
  ev_min_shift : Z;
  ev_ncols : nat;
  ev_init_levels : list V;           (* _maybelog_init_levels *)
  ev_init_changes : list V;          (* _maybelog_init_changes *)
  ev_base : array;                   (* variant.create_steady_array(...) at construction *)
  ev_eqs : list expr
}.

(* SteadyEvaluator.__init__; returns the (possibly reset) variant as well *)
Definition make_evaluator (flat : bool) (lg : list (option bool)) (v : variant)
           (wrt level_qids change_qids : list nat) (eqs : list expr) : variant * evaluator :=
  let v1 := if flat then zero_changes lg v else v in
  let mn := min_shift_of eqs in
  let mx := gen_max_shift (max_shift_of eqs) in
  let first := gen_shift_range_first mn mx in
  let ncols := Z.to_nat (gen_shift_range_stop mn mx - first) in
  (v1, mkEv flat wrt
        (map (fun q => mem_nat q level_qids) wrt)
        (if flat then [] else map (fun q => mem_nat q change_qids) wrt)
        (map (is_log lg) wrt)
        mn ncols
        (map (fun q => fill_level (maybelog_level lg v1 q)) wrt)
        (map (fun q => fill_change (maybelog_change lg v1 q)) wrt)
        (create_steady_array lg v1 ncols mn)
        eqs).

Definition ev_num_levels (ev : evaluator) : nat := count_true (ev_bl ev).

(* _get_maybelog_levels / _get_maybelog_changes *)
Definition new_levels (ev : evaluator) (g : list V) : list V :=
  if ev_flat ev then mask_assign (ev_init_levels ev) (ev_bl ev) g
  else mask_assign (ev_init_levels ev) (ev_bl ev) (firstn (ev_num_levels ev) g).
Definition new_changes (ev : evaluator) (g : list V) : list V :=
  if ev_flat ev then map (fun _ => ofZ A 0) (ev_init_changes ev)
  else mask_assign (ev_init_changes ev) (ev_bc ev) (skipn (ev_num_levels ev) g).

Definition init_guess (ev : evaluator) : list V :=
  mask_select (ev_init_levels ev) (ev_bl ev) ++ mask_select (ev_init_changes ev) (ev_bc ev).

(* one cell of new_paths *)
Definition ev_cell (flat lgi : bool) (l c : V) (s : Z) : V :=
  if flat then (let p := gen_flat_cell A l (ofZ A s) in if lgi then gen_flat_delog A p else p)
  else (let p := gen_nonflat_cell A l c (ofZ A s) in if lgi then gen_nonflat_delog A p else p).

Definition ev_shifts (ev : evaluator) : list Z := zrange_n (ev_min_shift ev) (ev_ncols ev).

(* _update_steady_array: self._steady_array[self.wrt_qids, :] = new_paths *)
Definition ev_array (ev : evaluator) (g : list V) : array :=
  let ls := new_levels ev g in
  let cs := new_changes ev g in
  map (fun q =>
         match index_of q (ev_wrt ev) with
         | Some i => map (ev_cell (ev_flat ev) (nth i (ev_lg ev) false) (nth i ls (miss A)) (nth i cs (miss A)))
                         (ev_shifts ev)
         | None => nth q (ev_base ev) []
         end)
      (seq 0 (length (ev_base ev))).

(* eval_func: Flat/NonflatSteadyEquator.eval on the updated array *)
Definition ev_func (ev : evaluator) (g : list V) : list V :=
  let arr := ev_array ev g in
  let off := gen_column_offset (ev_min_shift ev) in
  if ev_flat ev then eval_eqs arr off (ev_eqs ev)
  else eval_eqs arr off (ev_eqs ev) ++ eval_eqs arr (gen_time_k_column off) (ev_eqs ev).

(* extract_levels / extract_changes *)
Definition extract_levels (ev : evaluator) (g : list V) : list V * list nat :=
  let ls := map2 (fun (lgi : bool) x => if lgi then gen_extract_delog_levels A x else x) (ev_lg ev) (new_levels ev g) in
  (mask_select ls (ev_bl ev), mask_select (ev_wrt ev) (ev_bl ev)).
Definition extract_changes (ev : evaluator) (g : list V) : list V * list nat :=
  let cs := map2 (fun (lgi : bool) x => if lgi then gen_extract_delog_changes A x else x) (ev_lg ev) (new_changes ev g) in
  (mask_select cs (ev_bc ev), mask_select (ev_wrt ev) (ev_bc ev)).

(* ------------------------------------------------------------------ kinds, plans, blocks *)
Inductive qkind := KEndog (* transition / measurement variable *) | KExog | KParam | KOther.
Definition is_endog (k : qkind) : bool := match k with KEndog => true | _ => false end.
Definition is_loggable (k : qkind) : bool := match k with KEndog | KExog => true | _ => false end.
Definition kind_of (kinds : list qkind) (q : nat) : qkind := nth q kinds KOther.

Record plan := mkPlan { p_exogenized : list nat; p_endogenized : list nat;
                        p_fixed_level : list nat; p_fixed_change : list nat }.

(* _resolve_steady_wrt: (wrt_qids, fixed_level_qids, fixed_change_qids), each sorted *)
Definition resolve_wrt (kinds : list qkind) (p : plan) : list nat * list nat * list nat :=
  let n := length kinds in
  (filter (fun q => (is_endog (kind_of kinds q) && negb (mem_nat q (p_exogenized p))) || mem_nat q (p_endogenized p))
          (seq 0 n),
   filter (fun q => mem_nat q (p_fixed_level p)) (seq 0 n),
   filter (fun q => mem_nat q (p_fixed_change p) || mem_nat q (p_endogenized p)) (seq 0 n)).

(* _update_variant_with_final_guess *)
Definition write_back (kinds : list qkind) (v : variant) (ev : evaluator) (g : list V) : variant :=
  let '(ls, lq) := extract_levels ev g in
  let '(cs, cq) := extract_changes ev g in
  let keep := filter (fun cq => is_loggable (kind_of kinds (snd cq))) (combine cs cq) in
  mkVariant (update_from_array (v_levels v) ls lq)
            (update_from_array (v_changes v) (map fst keep) (map snd keep)).

Record block := mkBlock { b_eids : list nat; b_qids : list nat }.

(* what the harness observes of one solved block *)
Record block_obs := mkObs {
  o_bl : list bool; o_bc : list bool;
  o_init : list V;                   (* get_init_guess() *)
  o_resid : list V;                  (* eval_func(final_guess) *)
  o_perm_ok : bool                   (* the oracle's wrt order is a duplicate-free enumeration of the block's qids *)
}.

Definition same_set (n : nat) (a b : list nat) : bool :=
  forallb (fun q => Bool.eqb (mem_nat q a) (mem_nat q b)) (seq 0 n) && forallb (fun q => Nat.ltb q n) a.

(* one pass of the loop of _steady_nonlinear; [orc] = (wrt order, final guess) for this block, consumed only
   when the block is not skipped *)
Definition solve_block (flat : bool) (lg : list (option bool)) (kinds : list qkind) (eqs : list expr)
           (fixl fixc : list nat)
           (st : variant * list (list nat * list V) * list block_obs) (b : block)
  : variant * list (list nat * list V) * list block_obs :=
  let '(v, orcs, obs) := st in
  let n := length kinds in
  let level_qids := sorted_minus n (b_qids b) fixl in
  let change_qids := sorted_minus n (b_qids b) fixc in
  let beqs := map (fun eid => nth eid eqs (EConst (miss A))) (b_eids b) in
  let no_qids := match level_qids, change_qids with [], [] => true | _, _ => false end in
  let no_eqs := match beqs with [] => true | _ => false end in
  if no_qids || no_eqs then st
  else match orcs with
       | [] => st
       | (wrt, g) :: orcs' =>
           let '(v1, ev) := make_evaluator flat lg v wrt level_qids change_qids beqs in
           let expected := if flat then level_qids else level_qids ++ change_qids in
           let o := mkObs (ev_bl ev) (ev_bc ev) (init_guess ev) (ev_func ev g)
                          (nodup_nat wrt && same_set n wrt expected) in
           (write_back kinds v1 ev g, orcs', obs ++ [o])
       end.

Record nl_result := mkNl {
  r_wrt : list nat; r_fixl : list nat; r_fixc : list nat;
  r_blocks : list block_obs;
  r_levels : list V; r_changes : list V
}.

(* _steady_nonlinear for one variant.  [blocks] is blazer's list when [split], otherwise ignored. *)
Definition steady_nonlinear (flat : bool) (lg : list (option bool)) (kinds : list qkind) (eqs : list expr)
           (p : plan) (split : bool) (blocks : list block) (orcs : list (list nat * list V)) (v : variant)
  : nl_result :=
  let '(wrt, fixl, fixc) := resolve_wrt kinds p in
  let blocks1 := if split then blocks else [mkBlock (seq 0 (length eqs)) wrt] in
  let '(v', _, obs) := fold_left (solve_block flat lg kinds eqs fixl fixc) blocks1 (v, orcs, []) in
  mkNl wrt fixl fixc obs (v_levels v') (v_changes v').

(* ------------------------------------------------------------------ linear steady state *)
Definition dot (r x : list V) : V := fold_left (fun acc ab => add A acc (mul A (fst ab) (snd ab))) (combine r x) (ofZ A 0).
Definition matvec (M : list (list V)) (x : list V) : list V := map (fun r => dot r x) M.
Definition vadd (a b : list V) : list V := map2 (add A) a b.

(* rows of the stacked matrices of solve_steady_linear_nonflat *)
Definition stack2 (f11 f12 f21 f22 : V -> V -> V) (Am Bm : list (list V)) : list (list V) :=
  map2 (fun ra rb => map2 f11 ra rb ++ map2 f12 ra rb) Am Bm ++
  map2 (fun ra rb => map2 f21 ra rb ++ map2 f22 ra rb) Am Bm.
Definition stack1 (f11 f12 f21 f22 : V -> V) (Fm : list (list V)) : list (list V) :=
  map (fun r => map f11 r ++ map f12 r) Fm ++ map (fun r => map f21 r ++ map f22 r) Fm.

Definition lin_AB (Am Bm : list (list V)) := stack2 (gen_lin_AB11 A) (gen_lin_AB12 A) (gen_lin_AB21 A) (gen_lin_AB22 A) Am Bm.
Definition lin_FF (Fm : list (list V)) := stack1 (gen_lin_FF11 A) (gen_lin_FF12 A) (gen_lin_FF21 A) (gen_lin_FF22 A) Fm.
Definition lin_GG (Gm : list (list V)) := stack1 (gen_lin_GG11 A) (gen_lin_GG12 A) (gen_lin_GG21 A) (gen_lin_GG22 A) Gm.

(* residuals of the systems handed to left_div (zero when lstsq returned an exact solution):
   nonflat:  (-AB) x - CC          and  (-FF) y - (GG x + HH)
   flat:     (-(A+B)) xi - C       and  (-F) y - (G xi + H)                                  *)
Definition negm (M : list (list V)) := map (map (neg A)) M.
Definition vsub (a b : list V) : list V := map2 (sub A) a b.

Definition lin_nonflat_residuals (Am Bm Fm Gm : list (list V)) (Cv Hv xdx ydy : list V) : list V * list V :=
  (vsub (matvec (negm (lin_AB Am Bm)) xdx) (Cv ++ Cv),
   vsub (matvec (negm (lin_FF Fm)) ydy) (vadd (matvec (lin_GG Gm) xdx) (Hv ++ Hv))).
Definition lin_flat_residuals (Am Bm Fm Gm : list (list V)) (Cv Hv xi y : list V) : list V * list V :=
  (vsub (matvec (map2 (map2 (gen_lin_flat_lhs A)) Am Bm) xi) (map (gen_lin_flat_rhs A) Cv),
   vsub (matvec (negm Fm) y) (vadd (matvec Gm xi) Hv)).

(* _steady_linear after the algorithm returned (Xi, Y, dXi, dY): keep the zero-shift tokens, delogarithmize
   (by POSITION, as simultaneous/_logly.py::_apply does with the logly qids), write into the variant *)
Definition zero_shift_select {T} (toks : list (nat * Z)) (x : list T) : list T :=
  mask_select x (map (fun t => snd t =? 0) toks).
Definition delog_positions (logly_qids : list nat) (x : list V) : list V :=
  map2 (fun p y => if mem_nat p logly_qids then exp A y else y) (seq 0 (length x)) x.

Definition steady_linear (lg : list (option bool)) (toks : list (nat * Z)) (levels changes : list V) (v : variant)
  : variant :=
  let logly_qids := filter (is_log lg) (seq 0 (length lg)) in
  let qids := map fst (zero_shift_select toks toks) in
  let l := delog_positions logly_qids (zero_shift_select toks levels) in
  let c := delog_positions logly_qids (zero_shift_select toks changes) in
  mkVariant (update_from_array (v_levels v) l qids) (update_from_array (v_changes v) c qids).

End SteadyModel.

Arguments EConst {A} c.
Arguments EVar {A} q s.
Arguments ENeg {A} a.
Arguments EAdd {A} a b.
Arguments ESub {A} a b.
Arguments EMul {A} a b.
Arguments EDiv {A} a b.
Arguments EPow {A} a b.
Arguments ELn {A} a.
Arguments EExp {A} a.

(* ------------------------------------------------------------------ float instance used by the case files *)
From Coq Require Import PrimFloat.

Definition f_is_bad (x : float) : bool := PrimFloat.is_nan x || PrimFloat.is_infinity x.

Fixpoint flist_eqb (a b : list float) : bool :=
  match a, b with
  | [], [] => true
  | x :: a', y :: b' => feq x y && flist_eqb a' b'
  | _, _ => false
  end.
Fixpoint blist_eqb (a b : list bool) : bool :=
  match a, b with
  | [], [] => true
  | x :: a', y :: b' => Bool.eqb x y && blist_eqb a' b'
  | _, _ => false
  end.
Fixpoint nlist_eqb (a b : list nat) : bool :=
  match a, b with
  | [], [] => true
  | x :: a', y :: b' => Nat.eqb x y && nlist_eqb a' b'
  | _, _ => false
  end.

Definition obs_eqb (t : ftables) (a b : block_obs (FArith t)) : bool :=
  blist_eqb (o_bl _ a) (o_bl _ b) && blist_eqb (o_bc _ a) (o_bc _ b) &&
  flist_eqb (o_init _ a) (o_init _ b) && flist_eqb (o_resid _ a) (o_resid _ b) &&
  Bool.eqb (o_perm_ok _ a) (o_perm_ok _ b).

Fixpoint obs_list_eqb (t : ftables) (a b : list (block_obs (FArith t))) : bool :=
  match a, b with
  | [], [] => true
  | x :: a', y :: b' => obs_eqb t x y && obs_list_eqb t a' b'
  | _, _ => false
  end.

Definition nl_eqb (t : ftables) (a b : nl_result (FArith t)) : bool :=
  nlist_eqb (r_wrt _ a) (r_wrt _ b) && nlist_eqb (r_fixl _ a) (r_fixl _ b) && nlist_eqb (r_fixc _ a) (r_fixc _ b) &&
  obs_list_eqb t (r_blocks _ a) (r_blocks _ b) &&
  flist_eqb (r_levels _ a) (r_levels _ b) && flist_eqb (r_changes _ a) (r_changes _ b).

(* which component differs first: 0 = equal, 1 wrt, 2 fixed level, 3 fixed change, 4 block observations,
   5 levels, 6 changes *)
Definition nl_diff (t : ftables) (a b : nl_result (FArith t)) : nat :=
  if negb (nlist_eqb (r_wrt _ a) (r_wrt _ b)) then 1%nat
  else if negb (nlist_eqb (r_fixl _ a) (r_fixl _ b)) then 2%nat
  else if negb (nlist_eqb (r_fixc _ a) (r_fixc _ b)) then 3%nat
  else if negb (obs_list_eqb t (r_blocks _ a) (r_blocks _ b)) then 4%nat
  else if negb (flist_eqb (r_levels _ a) (r_levels _ b)) then 5%nat
  else if negb (flist_eqb (r_changes _ a) (r_changes _ b)) then 6%nat
  else 0%nat.

(* success criterion of neqs (max-norm of the residual strictly below the tolerance), on floats *)
Definition f_all_below (tol : float) (r : list float) : bool :=
  forallb (fun x => PrimFloat.ltb (PrimFloat.abs x) tol) r.

Definition variant_eqb (t : ftables) (a b : variant (FArith t)) : bool :=
  flist_eqb (v_levels _ a) (v_levels _ b) && flist_eqb (v_changes _ a) (v_changes _ b).

(* indices (and the differing component) of the cases on which model and implementation differ *)
Fixpoint failing_nl (t : ftables) (cases : list (nl_result (FArith t) * nl_result (FArith t))) (i : nat)
  : list (nat * nat) :=
  match cases with
  | [] => []
  | (m, x) :: r => match nl_diff t m x with
                   | O => failing_nl t r (S i)
                   | d => (i, d) :: failing_nl t r (S i)
                   end
  end.
