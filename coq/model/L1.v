(* Model of series/_ell_one.py (l1 trend filter "lonf", order 1 or 2).  NO proofs here.

   Same structure as model/HP.v: one text over [MatOps]; MathComp instance in
   proofs/L1Proofs.v, bigQ instance evaluated in the correspondence case files.

   Oracle: [qp] = daqp.solve(H, f, A = I, bupper = lam, blower = -lam): a minimiser of
   1/2 v'Hv + f'v over the box.  The theorems assume its KKT conditions; the case files
   CHECK them on the recorded output with [kkt_ok] (exact arithmetic, stated slack). *)
From Coq Require Import ZArith List Bool.
From Verif Require Import lib.MxC14 gen.HPGen model.HP.
Import ListNotations.

Section L1Model.
Variable O : MatOps.
Notation S := (sc O).
Notation M := (mx O).

Definition l1_stencil (order : nat) : list (Z * Z) :=
  match order with 1%nat => l1_stencil_1 | _ => l1_stencil_2 end.
(* _first_order_matrix_setup / _second_order_matrix_setup *)
Definition l1_D (order n : nat) : M (n - order) n := band O (l1_stencil order) (n - order) n.
Definition l1_H (order n : nat) : M (n - order) (n - order) := m_mul O (l1_D order n) (m_tr O (l1_D order n)).
Definition l1_y (n : nat) (y : list S) : M n 1 := m_fun O n 1 (fun i _ => nth i y (sZ O 0)).
(* f = -D @ data *)
Definition l1_f (order n : nat) (y : list S) : M (n - order) 1 :=
  m_mul O (m_scale O (sZ O (-1)) (l1_D order n)) (l1_y n y).

Section WithOracle.
Variable qp : forall p, M p p -> M p 1 -> S -> M p 1.

(* _lonf_for_variant *)
Definition l1_nu (order n : nat) (lam : S) (y : list S) : M (n - order) 1 :=
  qp _ (l1_H order n) (l1_f order n y) lam.
Definition l1_gap_vec (order n : nat) (lam : S) (y : list S) : M n 1 :=
  m_mul O (m_tr O (l1_D order n)) (l1_nu order n lam y).
Definition l1_trend_vec (order n : nat) (lam : S) (y : list S) : M n 1 :=
  m_sub O (l1_y n y) (l1_gap_vec order n lam y).

(* one variant on the filter span: (trend values, gap values) *)
Definition l1_variant (order : nat) (lam : S) (y : list S) : list S * list S :=
  let n := length y in
  let g := l1_gap_vec order n lam y in
  let t := m_sub O (l1_y n y) g in
  (map (fun i => m_get O t i 0) (seq 0 n), map (fun i => m_get O g i 0) (seq 0 n)).
End WithOracle.

(* lonf: the span (default: the whole series) selects the data that are filtered *)
Record l1_args := mkL1Args {
  l_start : Z;
  l_vars : list (list S);                       (* variants, fully observed *)
  l_span : option (Z * Z);                      (* first and last serial of the requested span *)
  l_order : nat;
  l_smooth : S
}.
Definition l1_span (a : l1_args) : Z * Z :=
  match l_span a with
  | Some s => s
  | None => (l_start a, l_start a + Z.of_nat (length (hd [] (l_vars a))) - 1)%Z
  end.
Definition l1_slice (a : l1_args) (v : list S) : list S :=
  firstn (Z.to_nat (snd (l1_span a) - fst (l1_span a) + 1)) (skipn (Z.to_nat (fst (l1_span a) - l_start a)) v).
(* result: start serial, and per variant the trend and gap values from that period on;
   [qps]: the oracle call of each variant *)
Definition lonf_model (qps : list (forall p, M p p -> M p 1 -> S -> M p 1)) (a : l1_args)
  : Z * list (list S * list S) :=
  (fst (l1_span a),
   map (fun qv => l1_variant (fst qv) (l_order a) (l_smooth a) (l1_slice a (snd qv))) (combine qps (l_vars a))).

(* ---------------- checker for the oracle's output ---------------- *)
Definition s_abs (a : S) : S := if s_leb O (sZ O 0) a then a else s_sub O (sZ O 0) a.
Definition s_sum (l : list S) : S := fold_left (s_add O) l (sZ O 0).

(* D x for x = y - D' nu, as a list *)
Definition l1_resid (order n : nat) (y : list S) (nu : M (n - order) 1) : list S :=
  let x := m_sub O (l1_y n y) (m_mul O (m_tr O (l1_D order n)) nu) in
  let r := m_mul O (l1_D order n) x in
  map (fun i => m_get O r i 0) (seq 0 (n - order)).
Definition l1_nu_list (order n : nat) (nu : M (n - order) 1) : list S :=
  map (fun i => m_get O nu i 0) (seq 0 (n - order)).
(* duality gap  sum_i ( lam |(Dx)_i| - nu_i (Dx)_i ) *)
Definition l1_dgap (order n : nat) (lam : S) (y : list S) (nu : M (n - order) 1) : S :=
  s_sum (map (fun p => s_sub O (s_mul O lam (s_abs (fst p))) (s_mul O (snd p) (fst p)))
             (combine (l1_resid order n y nu) (l1_nu_list order n nu))).
(* |nu_i| <= lam' for every i, and duality gap <= eps *)
Definition kkt_ok (order n : nat) (lam lam' eps : S) (y : list S) (nu : M (n - order) 1) : bool :=
  forallb (fun v => s_leb O (s_abs v) lam') (l1_nu_list order n nu)
  && s_leb O (l1_dgap order n lam y nu) eps.

(* the l1 objective (times 2, to stay division-free):  |y - x|^2 + 2 lam |Dx|_1  at x = y - D' nu *)
Definition l1_objective2 (order n : nat) (lam : S) (y : list S) (nu : M (n - order) 1) : S :=
  let g := m_mul O (m_tr O (l1_D order n)) nu in
  s_add O (s_sum (map (fun i => s_mul O (m_get O g i 0) (m_get O g i 0)) (seq 0 n)))
          (s_mul O (s_mul O (sZ O 2) lam) (s_sum (map s_abs (l1_resid order n y nu)))).
End L1Model.

(* ------------------------------------------------------------------ *)
(* executable instance                                                  *)
(* ------------------------------------------------------------------ *)
From Bignums Require Import BigQ.

Definition q_const_oracle (nu : list bigQ) : forall p : nat, qmat -> qmat -> bigQ -> qmat :=
  fun _ _ _ _ => map (fun v => [v]) nu.

(* one lonf case: model output (with daqp's recorded nu per variant) close to the implementation's
   output, same start, same number of variants, and the recorded nu passes the KKT checker with
   slack: |nu_i| <= lam (1 + 1e-8), duality gap <= 1e-7 (1 + 2 * objective) *)
Definition l1_case_ok (tol : bigQ) (a : l1_args QOps) (nus : list (list bigQ))
           (impl_start : Z) (impl : list (list bigQ * list bigQ)) : bool :=
  let m := lonf_model QOps (map q_const_oracle nus) a in
  Z.eqb (fst m) impl_start
  && all2 (fun mv iv => all2 (q_close tol) (fst mv) (fst iv) && all2 (q_close tol) (snd mv) (snd iv)) (snd m) impl
  && all2 (fun nu v =>
             let y := l1_slice QOps a v in
             let n := length y in
             let nuv : qmat := map (fun x => [x]) nu in
             Nat.eqb (length nu) (n - l_order QOps a)
             && kkt_ok QOps (l_order QOps a) n (l_smooth QOps a)
                       (qmul (l_smooth QOps a) (qadd q1 (qdiv q1 (qofZ 100000000))))
                       (qmul tol (qadd q1 (l1_objective2 QOps (l_order QOps a) n (l_smooth QOps a) y nuv)))
                       y nuv)
          nus (l_vars QOps a).
