(* C01  Model of fords/steadiers.py::solve_steady_linear_nonflat: the steady state (levels AND per-period changes) of a
   model declared linear=True, flat=False, computed from its first-order system

        A xi[t] + B xi[t-1] + C = 0            F y[t] + G xi[t] + H = 0

   by stacking the equations at the dates 0 and k:

        AB @ [Xi; dXi] + [C; C] = 0            FF @ [Y; dY] + GG @ [Xi; dXi] + [H; H] = 0.

   The twelve blocks of AB, FF, GG and the constant k are REGENERATED from the source (gen/FordSteadyGen.v); the stacked
   products are written block-row-wise here (hstack((b1, b2)) @ [x; dx] = b1 x + b2 dx).  lstsq (left_div) is an oracle:
   its contract is that its result solves the stacked system (which is consistent whenever a steady-state path exists).
   Written once over the matrix interface lib/MxC01.v; executable definitions only, no proofs in this file. *)
From Coq Require Import List ZArith Bool.
From Bignums Require Import BigQ BigZ BigN.
From Verif Require Import lib.MxC01 lib.MxScale gen.FordSteadyGen gen.FordGen model.Ford.
Import ListNotations.
Open Scope nat_scope.

Section Model.
Variable O : MxOps.

Local Notation "a |*| b" := (mmul a b) (at level 40, left associativity).
Local Notation "a |+| b" := (madd a b) (at level 50, left associativity).

(* the two block rows of  AB @ [Xi; dXi] + CC ,  CC = concatenate((C, C)) *)
Definition nonflat_transition_rows {m n} (A B : mx O m n) (C : mx O m 1) (Xi dXi : mx O n 1) : mx O m 1 * mx O m 1 :=
  (nonflat_AB_11 O A B |*| Xi |+| nonflat_AB_12 O A B |*| dXi |+| C,
   nonflat_AB_21 O A B |*| Xi |+| nonflat_AB_22 O A B |*| dXi |+| C).

(* the two block rows of  FF @ [Y; dY] + (GG @ [Xi; dXi] + HH) ,  HH = concatenate((H, H)) *)
Definition nonflat_measurement_rows {p n} (F : mx O p p) (G : mx O p n) (H : mx O p 1)
    (Xi dXi : mx O n 1) (Y dY : mx O p 1) : mx O p 1 * mx O p 1 :=
  (nonflat_FF_11 O F |*| Y |+| nonflat_FF_12 O F |*| dY |+| (nonflat_GG_11 O G |*| Xi |+| nonflat_GG_12 O G |*| dXi |+| H),
   nonflat_FF_21 O F |*| Y |+| nonflat_FF_22 O F |*| dY |+| (nonflat_GG_21 O G |*| Xi |+| nonflat_GG_22 O G |*| dXi |+| H)).

(* the steady-state path the Variant stores as (level, change): level + t * change, t = 0, 1, 2, ... *)
Definition steady_at {n} (t : nat) (X dX : mx O n 1) : mx O n 1 := X |+| mnat O t dX.

(* residuals of the unsolved equations on that path at date t+1 (transition: needs dates t+1 and t) *)
Definition transition_residual_at {m n} (A B : mx O m n) (C : mx O m 1) (Xi dXi : mx O n 1) (t : nat) : mx O m 1 :=
  A |*| steady_at (S t) Xi dXi |+| B |*| steady_at t Xi dXi |+| C.
Definition measurement_residual_at {p n} (F : mx O p p) (G : mx O p n) (H : mx O p 1)
    (Xi dXi : mx O n 1) (Y dY : mx O p 1) (t : nat) : mx O p 1 :=
  F |*| steady_at t Y dY |+| G |*| steady_at t Xi dXi |+| H.

End Model.

(* ==================================================================== *)
(* correspondence: exact rational evaluation on the matrices recorded from the running implementation *)
Module SteadyCase.
Import Case.
Import LF.
Notation FO := LF.FOps.
Definition tolinv : bigZ := BigZ.of_Z 10000000.       (* 1e-7 * (1 + |x|) *)
Definition fm_of (r : raw) : fm := of_dyadic (fst r) (snd r).
Definition zero_like (r : raw) : list (list BinNums.Z) := map (map (fun _ => 0%Z)) (fst r).
Definition is_zero (x : fm) (shape : raw) : bool := mclose tolinv x (zero_like shape) 0%Z.

(* sys = (A, B, C, F, G, H) and the four vectors solve_steady_linear_nonflat returned for it:
   [0;1] the stacked transition rows, [2;3] the stacked measurement rows (the lstsq contract on this input),
   [4..] the unsolved equations on the affine path level + t * change at t = 0 .. horizon-1 *)
Definition check_steady_nonflat (m n p : nat) (A B C F G H Xi dXi Y dY : raw) (horizon : nat) : list nat :=
  let tr := @nonflat_transition_rows FO m n (fm_of A) (fm_of B) (fm_of C) (fm_of Xi) (fm_of dXi) in
  let ms := @nonflat_measurement_rows FO p n (fm_of F) (fm_of G) (fm_of H) (fm_of Xi) (fm_of dXi) (fm_of Y) (fm_of dY) in
  failing_idx
    ([is_zero (fst tr) C; is_zero (snd tr) C; is_zero (fst ms) H; is_zero (snd ms) H]
     ++ flat_map (fun t =>
          [is_zero (@transition_residual_at FO m n (fm_of A) (fm_of B) (fm_of C) (fm_of Xi) (fm_of dXi) t) C;
           is_zero (@measurement_residual_at FO p n (fm_of F) (fm_of G) (fm_of H) (fm_of Xi) (fm_of dXi) (fm_of Y) (fm_of dY) t) H])
          (seq 0 horizon)) 0.
End SteadyCase.
