(* Model of series/_hp.py (constrained Hodrick-Prescott filter).  NO proofs here.

   One model text over the abstract matrix interface [MatOps] (lib/MxC14.v):
     - instantiated on MathComp matrices over a realFieldType in proofs/HPProofs.v
       (the theorems of props/C14.v are about THIS text);
     - instantiated on list (list bigQ) ([QOps]) and evaluated by vm_compute in the
       correspondence case files (exact rational arithmetic on the dyadic values of
       the doubles the implementation was run on).

   The stencil of K, the coefficients of the constraint rows and the default
   smoothing parameters come from gen/HPGen.v, regenerated from the source on every run.

   Oracles (arguments of the model, contracts in the theorems):
     [solve]  numpy.linalg.solve
     [lg] [ex] numpy.log / numpy.exp (log=True) *)
From Coq Require Import ZArith List Bool.
From Verif Require Import lib.MxC14 gen.HPGen.
Import ListNotations.

(* K[i, i+o] = c for (o, c) in the stencil; 0 elsewhere *)
Fixpoint stencil_coef (st : list (Z * Z)) (d : Z) : Z :=
  match st with
  | [] => 0%Z
  | (o, c) :: r => if Z.eqb d o then c else stencil_coef r d
  end.

Section HPModel.
Variable O : MatOps.
Notation S := (sc O).
Notation M := (mx O).
Variable solve : forall n, M n n -> M n 1 -> M n 1.

Definition sZ (z : Z) : S := s_ofZ O z.

Definition band (st : list (Z * Z)) (p n : nat) : M p n :=
  m_fun O p n (fun i j => sZ (stencil_coef st (Z.of_nat j - Z.of_nat i))).

(* _create_plain_filter_matrix *)
Definition hp_K (n : nat) : M (n - hp_rows_less) n := band hp_stencil (n - hp_rows_less) n.
Definition hp_F (n : nat) (lam : S) : M n n := m_scale O lam (m_mul O (m_tr O (hp_K n)) (hp_K n)).

(* one data variant on the filter span: None = missing observation (NaN) *)
Definition obs_at (data : list (option S)) (i : nat) : bool :=
  match nth i data None with Some _ => true | None => false end.
Definition val_at (data : list (option S)) (i : nat) : S :=
  match nth i data None with Some v => v | None => sZ 0 end.

(* _add_eye_for_observations: diag(observed) *)
Definition hp_E (n : nat) (data : list (option S)) : M n n :=
  m_fun O n n (fun i j => if Nat.eqb i j && obs_at data i then sZ 1 else sZ 0).

(* constraints: (position on the filter span, value) *)
Definition cpos (cs : list (nat * S)) (i : nat) : nat := fst (nth i cs (0%nat, sZ 0)).
Definition cval (cs : list (nat * S)) (i : nat) : S := snd (nth i cs (0%nat, sZ 0)).
Definition crows (st : list (Z * Z)) (n : nat) (cs : list (nat * S)) : M (length cs) n :=
  m_fun O (length cs) n (fun i j => sZ (stencil_coef st (Z.of_nat j - Z.of_nat (cpos cs i)))).
Definition cvec (cs : list (nat * S)) : M (length cs) 1 := m_fun O (length cs) 1 (fun i _ => cval cs i).

(* _add_level_constraints, _add_change_constraints: level rows first, then change rows *)
Definition hp_C (n : nat) (lc cc : list (nat * S)) : M (length lc + length cc) n :=
  m_col O (crows hp_level_row n lc) (crows hp_change_row n cc).
Definition hp_c (lc cc : list (nat * S)) : M (length lc + length cc) 1 := m_col O (cvec lc) (cvec cc).

(* the bordered matrix  [ F + E , C' ; C , 0 ]  and the right-hand side [ data with zeros at missing ; c ] *)
Definition hp_M (n : nat) (lam : S) (data : list (option S)) (lc cc : list (nat * S))
  : M (n + (length lc + length cc)) (n + (length lc + length cc)) :=
  m_block O (m_add O (hp_F n lam) (hp_E n data)) (m_tr O (hp_C n lc cc))
            (hp_C n lc cc) (m_fun O _ _ (fun _ _ => sZ 0)).
Definition hp_y0 (n : nat) (data : list (option S)) : M n 1 := m_fun O n 1 (fun i _ => val_at data i).
Definition hp_rhs (n : nat) (data : list (option S)) (lc cc : list (nat * S))
  : M (n + (length lc + length cc)) 1 := m_col O (hp_y0 n data) (hp_c lc cc).

(* filter_data (log=False): trend on every period of the filter span; gap where observed *)
Definition hp_trend_vec (n : nat) (lam : S) (data : list (option S)) (lc cc : list (nat * S)) : M n 1 :=
  m_up O (solve _ (hp_M n lam data lc cc) (hp_rhs n data lc cc)).
Definition hp_trend (n : nat) (lam : S) (data : list (option S)) (lc cc : list (nat * S)) (i : nat) : S :=
  m_get O (hp_trend_vec n lam data lc cc) i 0.
Definition hp_gap (n : nat) (lam : S) (data : list (option S)) (lc cc : list (nat * S)) (i : nat) : option S :=
  if obs_at data i then Some (s_sub O (val_at data i) (hp_trend n lam data lc cc i)) else None.

(* log=True: everything (data and constraint values) is logarithmized, the results are exponentiated *)
Section LogMode.
Variables lg ex : S -> S.
Definition log_data (data : list (option S)) : list (option S) := map (option_map lg) data.
Definition log_cs (cs : list (nat * S)) : list (nat * S) := map (fun p => (fst p, lg (snd p))) cs.
Definition mode_data (log : bool) (data : list (option S)) := if log then log_data data else data.
Definition mode_cs (log : bool) (cs : list (nat * S)) := if log then log_cs cs else cs.
Definition post (log : bool) (x : S) : S := if log then ex x else x.
Definition hp_trend_mode (log : bool) n lam data lc cc (i : nat) : S :=
  post log (hp_trend n lam (mode_data log data) (mode_cs log lc) (mode_cs log cc) i).
Definition hp_gap_mode (log : bool) n lam data lc cc (i : nat) : option S :=
  option_map (post log) (hp_gap n lam (mode_data log data) (mode_cs log lc) (mode_cs log cc) i).

(* ------------------------------------------------------------------ *)
(* _data_hpf: spans, constraint preparation, clipping                   *)
(* ------------------------------------------------------------------ *)

(* a series variant: start serial and values (None = NaN); value at a period *)
Definition at_period (start : Z) (vals : list (option S)) (t : Z) : option S :=
  if (t <? start)%Z then None else nth (Z.to_nat (t - start)) vals None.

Record hp_args := mkHpArgs {
  a_freq : Z;
  a_start : Z;                                   (* start serial of the input series *)
  a_vars : list (list (option S));               (* variants; every variant has the same length *)
  a_level : option (Z * list (option S));        (* start serial and first variant of the level series *)
  a_change : option (Z * list (option S));
  a_span : option (Z * Z);                       (* min and max serial of the requested span; None = own span *)
  a_smooth : option S;
  a_log : bool
}.

Definition series_len (a : hp_args) : Z := Z.of_nat (length (hd [] (a_vars a))).
Definition opt_min (o : option (Z * list (option S))) (z : Z) : Z :=
  match o with Some (s, _) => Z.min s z | None => z end.
Definition opt_max (o : option (Z * list (option S))) (z : Z) : Z :=
  match o with Some (s, v) => Z.max (s + Z.of_nat (length v) - 1) z | None => z end.
Definition span_of (a : hp_args) : Z * Z :=
  match a_span a with Some s => s | None => (a_start a, a_start a + series_len a - 1)%Z end.
(* get_encompassing_span(self, level, change, span) *)
Definition enc_start (a : hp_args) : Z :=
  opt_min (a_level a) (opt_min (a_change a) (Z.min (a_start a) (fst (span_of a)))).
Definition enc_end (a : hp_args) : Z :=
  opt_max (a_level a) (opt_max (a_change a) (Z.max (a_start a + series_len a - 1) (snd (span_of a)))).
Definition enc_len (a : hp_args) : nat := Z.to_nat (enc_end a - enc_start a + 1).

(* _prepare_constraints: positions and values of the non-missing entries on the filter span *)
Definition prepare (a : hp_args) (o : option (Z * list (option S))) : list (nat * S) :=
  match o with
  | None => []
  | Some (s, v) =>
      flat_map (fun i => match at_period s v (enc_start a + Z.of_nat i) with
                         | Some x => [(i, x)]
                         | None => []
                         end) (seq 0 (enc_len a))
  end.
(* _remove_first_date_change *)
Definition drop_first_date (cs : list (nat * S)) : list (nat * S) :=
  filter (fun p => negb (Nat.eqb (fst p) 0)) cs.

Definition auto_smooth (freq : Z) : Z :=
  match find (fun p => Z.eqb (fst p) freq) hp_auto_smooth with
  | Some p => snd p
  | None => hp_auto_smooth_default
  end.
Definition smooth_of (a : hp_args) : S :=
  match a_smooth a with Some l => l | None => sZ (auto_smooth (a_freq a)) end.

Definition enc_data (a : hp_args) (v : list (option S)) : list (option S) :=
  map (fun i => at_period (a_start a) v (enc_start a + Z.of_nat i)) (seq 0 (enc_len a)).

(* value of the returned trend / gap series, variant v, at period t (None = no value):
   the filter runs on the encompassing span, the requested span only selects rows *)
Definition in_span (a : hp_args) (t : Z) : bool :=
  (fst (span_of a) <=? t)%Z && (t <=? snd (span_of a))%Z.
Definition hpf_trend_at (a : hp_args) (v : list (option S)) (t : Z) : option S :=
  if in_span a t then
    Some (hp_trend_mode (a_log a) (enc_len a) (smooth_of a) (enc_data a v)
                        (prepare a (a_level a)) (drop_first_date (prepare a (a_change a)))
                        (Z.to_nat (t - enc_start a)))
  else None.
Definition hpf_gap_at (a : hp_args) (v : list (option S)) (t : Z) : option S :=
  if in_span a t then
    hp_gap_mode (a_log a) (enc_len a) (smooth_of a) (enc_data a v)
                (prepare a (a_level a)) (drop_first_date (prepare a (a_change a)))
                (Z.to_nat (t - enc_start a))
  else None.

(* the observable result on a window of periods [w, w + len): per variant, trend and gap.
   Same values as hpf_trend_at / hpf_gap_at (proofs/HPProofs.v: hpf_model_pointwise), with the
   linear system solved once per variant *)
Definition window (w : Z) (len : nat) : list Z := map (fun i => (w + Z.of_nat i)%Z) (seq 0 len).
Definition hpf_variant (a : hp_args) (w : Z) (len : nat) (v : list (option S))
  : list (option S) * list (option S) :=
  let log := a_log a in
  let data := mode_data log (enc_data a v) in
  let tv := hp_trend_vec (enc_len a) (smooth_of a) data
                         (mode_cs log (prepare a (a_level a)))
                         (mode_cs log (drop_first_date (prepare a (a_change a)))) in
  (map (fun t => if in_span a t then Some (post log (m_get O tv (Z.to_nat (t - enc_start a)) 0)) else None)
       (window w len),
   map (fun t => if in_span a t then
                   let i := Z.to_nat (t - enc_start a) in
                   if obs_at data i then Some (post log (s_sub O (val_at data i) (m_get O tv i 0))) else None
                 else None)
       (window w len)).
Definition hpf_model (a : hp_args) (w : Z) (len : nat) : list (list (option S) * list (option S)) :=
  map (hpf_variant a w len) (a_vars a).

End LogMode.
End HPModel.

(* ------------------------------------------------------------------ *)
(* executable instance                                                  *)
(* ------------------------------------------------------------------ *)
From Bignums Require Import BigQ.

Definition q_solve_oracle (n : nat) (A : qmat) (b : qmat) : qmat :=
  match q_solve_checked n A b with Some x => x | None => [] end.

(* numpy.log is a black box: the harness records its values on exactly the doubles that occur *)
Fixpoint q_lookup (t : list (bigQ * bigQ)) (x : bigQ) : bigQ :=
  match t with
  | [] => qofZ (-123456789)            (* not recorded: recognisable poison value *)
  | (k, v) :: r => if qeqb k x then v else q_lookup r x
  end.

(* the model with lg := recorded table, ex := identity: its output is the LOGARITHM of the
   trend/gap when log=True (the harness compares it with numpy.log of the implementation's output) *)
Definition hpf_q (tbl : list (bigQ * bigQ)) (a : hp_args QOps) (w : Z) (len : nat) :=
  hpf_model QOps q_solve_oracle (q_lookup tbl) (fun x => x) a w len.

Definition hp_case_ok (tol : bigQ) (tbl : list (bigQ * bigQ)) (a : hp_args QOps) (w : Z) (len : nat)
           (impl : list (list (option bigQ) * list (option bigQ))) : bool :=
  all2 (fun m v => all2 (q_close_opt tol) (fst m) (fst v) && all2 (q_close_opt tol) (snd m) (snd v))
       (hpf_q tbl a w len) impl.
