(* C19, round 5: the data rows of an export block as the source builds them
   (databoxes/_exports.py: _get_data_array_for_names, _ExportBlock.__iter__): one array per name read through the
   accessor regenerated from the source (gen/Csv5Gen.v: export_rows_of), stacked side by side behind an empty lead
   that has one row per selected period (numpy.hstack), and paired with the selected periods by zip.  The selected
   periods of a block are an ARBITRARY list (a Span with any step, a descending span, hand-picked periods).
   proofs/Csv5Proofs.v shows that this is the block of model/Csv.v: block_grid (row i holds, for every series, the
   values at period i of the list), and for which lists a from-first-to-last slice would be the same thing.
   NO proofs in this file. *)
From Coq Require Import String Ascii ZArith List Bool.
From Verif Require Import lib.Arith model.Series model.SeriesOps model.Databox gen.CsvGen gen.Csv5Gen model.Csv.
Import ListNotations.
Open Scope Z_scope.

Section Csv5Model.
Variable A : Arith.
Notation V := (car A).
Notation series := (series A).

Variable fmt_period : Z -> Z -> string.
Variable fmt_val : V -> string.
Variable rnd : V -> V.

(* numpy.hstack of two-dimensional arrays with the same number of rows: row-wise concatenation, left to right *)
Definition hstack2 (a b : list (list V)) : list (list V) := map (fun p => fst p ++ snd p) (combine a b).
Definition hstack (lead : list (list V)) (blocks : list (list (list V))) : list (list V) := fold_left hstack2 blocks lead.

(* what the exporter reads for one series of the block *)
Definition series_rows (s : series) (periods : list Z) : list (list V) :=
  export_rows_of (get_data A s) (get_data_from_until A s) periods.

(* _get_data_array_for_names: empty_lead = numpy.empty((len(periods), 0)) *)
Definition data_array (its : list (string * (string * series))) (periods : list Z) : list (list V) :=
  hstack (repeat [] (length periods)) (map (fun p => series_rows (snd (snd p)) periods) its).

(* for date, data_row in zip(self.periods, data_array): yield (date_formatter(date), ) + cells + ("", ) *)
Definition data_rows_src (o : wopts) (f : Z) (periods : list Z) (its : list (string * (string * series))) : grid :=
  map (fun p => fmt_period f (fst p) :: map (val_cell A fmt_val rnd (w_nan o)) (snd p) ++ [""%string])
      (combine periods (data_array its periods)).

(* _ExportBlock.__iter__ *)
Definition block_grid_src (o : wopts) (total : nat) (f : Z) (periods : list Z)
  (its : list (string * (string * series))) : grid :=
  let nvs := map (fun p => s_nv (snd (snd p))) its in
  let width := fold_left Nat.add nvs O in
  [mark_of_freq f :: header_cells (combine (map fst its) nvs) ++ [""%string]]
  ++ (if w_desc o then [""%string :: header_cells (combine (map (fun p => fst (snd p)) its) nvs) ++ [""%string]] else [])
  ++ data_rows_src o f periods its
  ++ repeat (""%string :: repeat ""%string width ++ [""%string]) (total - length periods).

(* the variant that reads ONE slice from the first to the last selected period (what an exporter that assumes a run
   of consecutive increasing periods would do) *)
Definition sliced_rows (s : series) (periods : list Z) : list (list V) :=
  get_data_from_until A s (hd 0 periods) (last periods 0).

End Csv5Model.
