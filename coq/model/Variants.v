(* C20  Parameter variants (definitions only; proofs in proofs/VariantsProofs.v).

   A model is an invariant (structure) and a list of variants (numbers).  Every public operation
   of has_variants.py / simultaneous/_assigns.py / solve / steady is a loop over the variants that
   touches one variant at a time; per-variant inputs are broadcast by
   conveniences/iterators.py::exhaust_then_last (yield the items, then repeat the last one; the
   default when there is none).  alter_num_variants truncates, or appends copies of the last
   variant.  The per-variant functions themselves (assign one value, steady, solve, ...) are
   section variables: nothing is assumed about them. *)
From Coq Require Import List Arith Bool.
Import ListNotations.

Section Variants.

Variables I V X : Type.        (* invariant, variant, per-variant input *)
Variable dv : V.               (* default for nth *)
Variable assign1 : I -> X -> V -> V.     (* update one variant from one input *)

Record model := mkModel { m_inv : I; m_vars : list V }.

(* specification of exhaust_then_last(xs, d) as a function of the position *)
Definition etl (xs : list X) (d : X) (k : nat) : X := nth k xs (last xs d).

(* operational form: zip(variants, exhaust_then_last(xs, d)) *)
Fixpoint zip_stream (g : X -> V -> V) (vs : list V) (xs : list X) (lastx : X) : list V :=
  match vs with
  | [] => []
  | v :: vs' =>
      match xs with
      | [] => g lastx v :: zip_stream g vs' [] lastx
      | x :: xs' => g x v :: zip_stream g vs' xs' x
      end
  end.

(* Mixin.alter_num_variants *)
Definition alter (n : nat) (vs : list V) : option (list V) :=
  if n <? length vs then (if n <? 1 then None else Some (firstn n vs))
  else if length vs <? n then
    match vs with
    | [] => None
    | _ => Some (vs ++ repeat (last vs dv) (n - length vs))
    end
  else Some vs.

Inductive op :=
| OAssign (xs : list X) (d : X)       (* assign(name=[x0, x1, ...]) *)
| OMap (f : I -> V -> V)              (* steady(), solve(), any loop over the variants *)
| OAlter (n : nat).                   (* alter_num_variants(n) *)

Definition apply_op (i : I) (o : op) (vs : list V) : option (list V) :=
  match o with
  | OAssign xs d => Some (zip_stream (assign1 i) vs xs d)
  | OMap f => Some (map (f i) vs)
  | OAlter n => alter n vs
  end.

Fixpoint run (i : I) (ops : list op) (vs : list V) : option (list V) :=
  match ops with
  | [] => Some vs
  | o :: r => match apply_op i o vs with None => None | Some vs' => run i r vs' end
  end.

Definition run_model (ops : list op) (m : model) : option model :=
  match run (m_inv m) ops (m_vars m) with
  | None => None
  | Some vs => Some (mkModel (m_inv m) vs)
  end.

(* --- the history of ONE variant ------------------------------------------------------------ *)

Definition len_after (o : op) (len : nat) : nat :=
  match o with OAlter n => n | _ => len end.

(* position, before the operation, of the variant that ends up at position j *)
Definition anc_op (o : op) (len : nat) (j : nat) : nat :=
  match o with OAlter _ => Nat.min j (len - 1) | _ => j end.

(* what the operation does to the variant that ends up at position j *)
Definition single_op (i : I) (o : op) (j : nat) (v : V) : V :=
  match o with
  | OAssign xs d => assign1 i (etl xs d j) v
  | OMap f => f i v
  | OAlter _ => v
  end.

Fixpoint anc_run (ops : list op) (len : nat) (k : nat) : nat :=
  match ops with
  | [] => k
  | o :: r => anc_op o len (anc_run r (len_after o len) k)
  end.

Fixpoint fun_run (i : I) (ops : list op) (len : nat) (k : nat) (v : V) : V :=
  match ops with
  | [] => v
  | o :: r => fun_run i r (len_after o len) k (single_op i o (anc_run r (len_after o len) k) v)
  end.

(* the same history as seen by a single-variant model: variant k's own inputs, no resizing *)
Fixpoint project (ops : list op) (len : nat) (k : nat) : list op :=
  match ops with
  | [] => []
  | o :: r =>
      let j := anc_run r (len_after o len) k in
      match o with
      | OAssign xs d => OAssign [etl xs d j] d
      | OMap f => OMap f
      | OAlter _ => OAlter 1
      end :: project r (len_after o len) k
  end.

(* get_variant(k) as a value *)
Definition get_variant (k : nat) (m : model) : model := mkModel (m_inv m) [nth k (m_vars m) dv].

End Variants.

Arguments mkModel {I V}.
Arguments m_inv {I V}.
Arguments m_vars {I V}.
Arguments OAssign {I V X}.
Arguments OMap {I V X}.
Arguments OAlter {I V X}.
