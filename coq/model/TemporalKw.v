(* Keyword shifts (yoy / soy / eopy / tty) for EVERY frequency class, daily included.
   The reference period of a DAILY period is defined by the fragments of gen/DatesGen.v
   (DailyPeriod.create_soy / create_eopy / create_tty and the "yoy" arm of Period.shift,
   regenerated from dates.py on every run) on top of lib/Calendar.v; for the regular
   classes it is lib/Period.v::period_shift as before.  The loops of model/Temporal.v are
   repeated here over an arbitrary reference function.  NO proofs in this file. *)
From Coq Require Import ZArith List Bool Lia.
From Verif Require Import lib.Calendar lib.Arith lib.PyRange lib.Period model.Series gen.TemporalGen
     gen.DatesGen model.Temporal.
Import ListNotations.
Open Scope Z_scope.

(* Period.shift(by) of a period of frequency [fr] with serial [t]:
   None = the code raises (datetime out of range), Some None = create_tty returned None *)
Definition kw_ref (fr : Z) (by_ : shift_spec) (t : Z) : option (option Z) :=
  if fr =? freq_DAILY then
    match by_ with
    | ByInt k => Some (Some (gen_shift_default t k))
    | Yoy => Some (Some (gen_shift_arm_yoy fr t))
    | Soy => option_map (@Some Z) (gen_daily_create_soy t)
    | Eopy => option_map (@Some Z) (gen_daily_create_eopy t)
    | Tty => gen_daily_create_tty t
    end
  else Some (period_shift fr by_ t).

Definition kw_ref_tot (fr : Z) (by_ : shift_spec) (t : Z) : option Z :=
  match kw_ref fr by_ t with Some r => r | None => None end.

Definition kw_raises (fr : Z) (by_ : shift_spec) (sp : list Z) : bool :=
  existsb (fun t => match kw_ref fr by_ t with None => true | Some _ => false end) sp.

Section TemporalKwModel.
Variable A : Arith.
Notation V := (car A).
Notation series := (series A).

(* Series.shift(by, neutral_value=...) over a reference function rf (None = no reference: neutral value) *)
Definition series_shift_rf (rf : Z -> option Z) (by_ : shift_spec) (neutral : option Z) (s : series) : series :=
  let fr := s_freq s in
  let refd := fun t => match rf t with Some r => r | None => t end in
  match by_ with
  | ByInt k => shift_by A s k
  | Yoy => shift_by A s (- fr)
  | Soy | Eopy =>
      match s_start s with
      | None => s
      | Some st => trim A (mkSeries fr (Some st) (s_nv s) (get_data A s (map refd (span_of A s))))
      end
  | Tty =>
      let sp := span_of A s in
      let with_tty := filter (fun t => match rf t with Some _ => true | None => false end) sp in
      let neutral_periods := filter (fun t => match rf t with Some _ => false | None => true end) sp in
      let tty_vals := get_data A s (map refd with_tty) in
      let s1 := set_data A fr s with_tty tty_vals None in
      let nrow := [match neutral with Some z => ofZ A z | None => miss A end] in
      set_data A fr s1 neutral_periods (map (fun _ => nrow) neutral_periods) None
  end.

Definition series_shift_kw (by_ : shift_spec) (neutral : option Z) (s : series) : series :=
  series_shift_rf (kw_ref_tot (s_freq s) by_) by_ neutral s.

(* Inlay.temporal_change for every frequency class *)
Definition temporal_change_kw (f : V -> V -> V) (by_ : shift_spec) (neutral : option Z) (s : series) : res series :=
  if shift_invalid by_ then Err 3
  else if kw_raises (s_freq s) by_ (span_of A s) then Err 3
  else binop A f s (series_shift_kw by_ neutral s).

Definition change_kw (k : change_kind) (by_ : shift_spec) (s : series) : res series :=
  let by' := match change_fixed_shift k with Some z => ByInt z | None => by_ end in
  temporal_change_kw (change_fun A k (factor_of A s)) by' (change_neutral k) s.

(* Inlay._cumulate_forward over a reference function *)
Definition cumulate_forward_rf (cumf : V -> V -> V) (rf : Z -> option Z) (init_rows : list Z -> list (list V))
           (span : list Z) (span_start span_end : Z) (change_s : series) : series :=
  let fr := s_freq change_s in
  let zipped := flat_map (fun t => match rf t with Some sh => [(t, sh)] | None => [] end) span in
  let min_period := match map snd zipped with [] => span_start | sh0 :: r => minl sh0 r end in
  let init_dates := py_range min_period (span_end + 1) 1 in
  let s0 := set_data A fr (mkSeries fr (s_start change_s) (s_nv change_s) []) init_dates
                     (init_rows init_dates) None in
  fold_left (fun s '(t, sh) =>
               set_data A fr s [t] [zip_rows A cumf (row_at A s sh) (row_at A change_s t)] None)
            zipped s0.

(* Inlay.temporal_cumulation with a forward span, for every frequency class *)
Definition temporal_cumulation_kw (k : cum_kind) (by_ : shift_spec) (init : initial_spec A) (sp : span_spec)
           (s : series) : res series :=
  if shift_invalid by_ then Err 3
  else
    match sp, s_start s, s_end A s with
    | SpanDefault, None, _ | SpanDefault, _, None => Err 1
    | _, _, _ =>
        let '(a, b, step) := match sp, s_start s, s_end A s with
                             | SpanFromTo a b step, _, _ => (a, b, step)
                             | SpanDefault, Some st, Some en => (st, en, 1)
                             | _, _, _ => (0, 0, 1) end in
        let serials := py_range a (b + sgn step) step in
        if step >? 0 then
          if kw_raises (s_freq s) by_ serials then Err 3
          else Ok (cumulate_forward_rf (cum_forward A k) (kw_ref_tot (s_freq s) by_) (initial_rows A k init) serials a b s)
        else match by_ with
             | ByInt sh => Ok (cumulate_backward A k sh init serials a s)
             | _ => Err 1
             end
    end.

End TemporalKwModel.
