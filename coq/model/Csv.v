(* Executable model of the CSV export and import of databoxes
   (databoxes/_exports.py: Inlay.to_csv_file, _ExportBlock.__iter__, _resolve_frequency_span,
    _resolve_frequency_names, _get_total_num_data_rows;
    databoxes/_imports.py: Inlay.from_csv_file, _block_iterator, _ImportBlock.column_iterator,
    _extract_periods_from_data_rows, _add_series_for_block).

   The sheet is modelled as a grid of cells (strings).  The csv module (quoting, delimiter),
   numpy.genfromtxt's line splitting, period <-> string and float <-> string conversions are GLUE:
   the last two are Section variables (abstract codecs); the correspondence harness instantiates
   them with tables recorded from Python and compares the grid cell by cell with the file.
   NO proofs in this file. *)
From Coq Require Import String Ascii ZArith List Bool.
From Verif Require Import lib.Arith model.Series model.SeriesOps model.Databox gen.CsvGen.
Import ListNotations.
Open Scope Z_scope.

(* ---- strings ---- *)
Definition lower_ascii (c : ascii) : ascii :=
  let n := nat_of_ascii c in if Nat.leb 65 n && Nat.leb n 90 then ascii_of_nat (n + 32) else c.
Definition upper_ascii (c : ascii) : ascii :=
  let n := nat_of_ascii c in if Nat.leb 97 n && Nat.leb n 122 then ascii_of_nat (n - 32) else c.
Fixpoint lower (s : string) : string :=
  match s with EmptyString => EmptyString | String c r => String (lower_ascii c) (lower r) end.

(* _get_frequency_mark: "__" + frequency.name.lower() + "__" *)
Definition mark_of_freq (f : Z) : string :=
  match find (fun p => snd p =? f) freq_members with
  | Some p => ("__" ++ lower (fst p) ++ "__")%string
  | None => "__?__"%string
  end.

(* Frequency.from_letter on one character: the first member whose name starts with the upper-cased letter *)
Definition freq_of_letter (c : ascii) : option Z :=
  match find (fun p => match fst p with String c0 _ => Ascii.eqb c0 (upper_ascii c) | EmptyString => false end)
             freq_members with
  | Some p => Some (snd p)
  | None => None
  end.

(* _block_iterator._is_end *)
Definition is_end (c : string) : bool := prefix "__" c.
(* _block_iterator._is_start, returning the frequency Frequency.from_letter(cell) of the block *)
Definition is_start (c : string) : option Z :=
  if prefix "__" c then match get 2 c with Some ch => freq_of_letter ch | None => None end else None.

Definition row := list string.
Definition grid := list row.

Definition cell_at (r : row) (c : nat) : string := nth c r ""%string.
Definition slice {T} (l : list T) (a b : nat) : list T := firstn (b - a) (skipn a l).   (* l[a:b] *)
Definition str_nonempty (s : string) : bool := negb (String.eqb s "").

(* zip over the blocks, followed by chaining the cells of each row *)
Definition hcat (g1 g2 : grid) : grid := map (fun p => fst p ++ snd p) (combine g1 g2).
Fixpoint hcat_all (bs : list grid) : grid :=
  match bs with
  | [] => []
  | [b] => b
  | b :: r => hcat b (hcat_all r)
  end.

Fixpoint all_some {T} (l : list (option T)) : option (list T) :=
  match l with
  | [] => Some []
  | Some x :: r => match all_some r with Some xs => Some (x :: xs) | None => None end
  | None :: _ => None
  end.

Section CsvModel.
Variable A : Arith.
Notation V := (car A).
Notation series := (series A).
Notation databox := (databox A).

Variable fmt_period : Z -> Z -> string.             (* frequency, serial -> str(period) *)
Variable parse_period : Z -> string -> option Z.    (* Period.from_sdmx_string(cell, frequency=f) *)
Variable fmt_val : V -> string.                     (* text written by csv.writer for a float *)
Variable parse_val : string -> V.                   (* numpy.genfromtxt's conversion of a cell *)
Variable rnd : V -> V.                              (* numpy.round(x, round); identity for round=None *)

(* ------------------------------------------------------------------ export *)
Record wopts := mkWopts {
  w_names : option (list string);                   (* names= *)
  w_fspan : list (Z * option (list Z));             (* frequency_span: frequency -> periods, None for "..." *)
  w_desc : bool;                                    (* description_row *)
  w_nan : string                                    (* nan_str *)
}.

Definition default_fspan : list (Z * option (list Z)) := map (fun f => (f, None)) default_freq_order.

(* Databox.get_series_names_by_frequency, with the items *)
Definition series_of_freq (db : databox) (f : Z) : list (string * (string * series)) :=
  flat_map (fun p => match snd p with
                     | INon (ESer d s) => if sfreq A s =? f then [(fst p, (d, s))] else []
                     | _ => []
                     end) db.

(* Databox.get_span_by_frequency *)
Definition span_of_freq (db : databox) (f : Z) : list Z :=
  if f =? -1 then [] else
  match series_of_freq db f with
  | [] => []
  | (_, (_, s0)) :: _ as l =>
      let st0 := match s_start s0 with Some x => x | None => 0 end in
      let starts := map (fun p => match s_start (snd (snd p)) with Some x => x | None => 0 end) l in
      let ends := map (fun p => match s_end A (snd (snd p)) with Some x => x | None => 0 end) l in
      zrange (minl st0 starts) (maxl (match s_end A s0 with Some x => x | None => 0 end) ends + 1)
  end.

Definition resolve_fspan (db : databox) (fs : list (Z * option (list Z))) : list (Z * list Z) :=
  map (fun p => (fst p, match snd p with Some l => l | None => span_of_freq db (fst p) end)) fs.

Definition total_rows (fs : list (Z * list Z)) : nat :=
  fold_left (fun m p => Nat.max m (length (snd p))) fs O.

(* n, "*", ..., "*" : one cell per variant *)
Definition header_cells (l : list (string * nat)) : row :=
  flat_map (fun p => fst p :: repeat "*"%string (snd p - 1)) l.

Definition val_cell (nan_str : string) (x : V) : string :=
  let y := rnd x in if is_miss A y then nan_str else fmt_val y.

(* _ExportBlock.__iter__ *)
Definition block_grid (o : wopts) (total : nat) (f : Z) (periods : list Z)
  (its : list (string * (string * series))) : grid :=
  let nvs := map (fun p => s_nv (snd (snd p))) its in
  let width := fold_left Nat.add nvs O in
  [mark_of_freq f :: header_cells (combine (map fst its) nvs) ++ [""%string]]
  ++ (if w_desc o then [""%string :: header_cells (combine (map (fun p => fst (snd p)) its) nvs) ++ [""%string]] else [])
  ++ map (fun t => fmt_period f t
                   :: flat_map (fun p => map (val_cell (w_nan o)) (row_at A (snd (snd p)) t)) its
                   ++ [""%string]) periods
  ++ repeat (""%string :: repeat ""%string width ++ [""%string]) (total - length periods).

(* the sub-databox selected by names= *)
Definition selected (db : databox) (o : wopts) : databox :=
  d_shallow A db (match w_names o with Some l => SelList l | None => SelAll end) TgtSame.

(* Inlay.to_csv_file: the cells of the sheet *)
Definition export (db : databox) (o : wopts) : grid :=
  let db1 := selected db o in
  let fs := resolve_fspan db1 (w_fspan o) in
  let total := total_rows fs in
  hcat_all (flat_map (fun p => match series_of_freq db1 (fst p) with
                               | [] => []
                               | its => [block_grid o total (fst p) (snd p) its]
                               end) fs).

(* ------------------------------------------------------------------ import *)
(* _block_iterator: (frequency, date column, end column) of every block of the name row *)
Fixpoint scan (cells : list string) (col : nat) (cur : option (Z * nat)) : list (Z * nat * nat) :=
  match cells with
  | [] => []
  | c :: r =>
      let ended := match cur with
                   | Some (f, dc) => if is_end c then [(f, dc, col)] else []
                   | None => []
                   end in
      let cur1 := match cur with Some _ => if is_end c then None else cur | None => None end in
      let cur2 := match cur1 with
                  | Some _ => cur1
                  | None => match is_start c with Some f => Some (f, col) | None => None end
                  end in
      ended ++ scan r (S col) cur2
  end.

Definition blocks_of (name_row : row) : list (Z * nat * nat) := scan (name_row ++ ["__"%string]) O None.

(* _ImportBlock.column_iterator over zip(names + [""], descriptions + [""]) *)
Fixpoint col_iter (cells : list (string * string)) (i : nat) (cur : option (list nat * string * string))
  : list (list nat * string * string) :=
  match cells with
  | [] => []
  | (n, d) :: r =>
      let star := String.eqb n "*" in
      let out := match cur with Some x => if star then [] else [x] | None => [] end in
      let cur1 := match cur with Some _ => if star then cur else None | None => None end in
      let cur2 := match cur1 with
                  | Some (cs, cn, cd) => Some (cs ++ [i], cn, cd)
                  | None => if str_nonempty n && negb star then Some ([i], n, d) else None
                  end in
      out ++ col_iter r (S i) cur2
  end.

(* Series.set_data ends with trim(), and trimming a series without observations resets it,
   description included; with no periods and no data set_data returns before that *)
Definition kept_desc (periods : list Z) (s : series) (ds : string) : string :=
  match periods with
  | [] => ds
  | _ => match s_start s with Some _ => ds | None => ""%string end
  end.

(* one block: periods from the non-empty date cells, one series per group of columns *)
Definition import_block (name_row desc_row : row) (data_rows : grid) (acc : res databox) (b : Z * nat * nat)
  : res databox :=
  let '(f, dc, ec) := b in
  match acc with
  | Err e => Err e
  | Ok db =>
      match data_rows with
      | [] =>                                                   (* no data rows: no periods, empty series (fix C19_2) *)
          let groups := col_iter (combine (slice name_row (S dc) ec ++ [""%string])
                                          (slice desc_row (S dc) ec ++ [""%string])) O None in
          Ok (fold_left
                (fun d g =>
                   let '(cs, n, ds) := g in
                   let s := set_data A f (empty_series A (length cs)) [] [] None in
                   dset A d n (ISer A (kept_desc [] s ds) s))
                groups db)
      | r0 :: _ =>
          match parse_period f (cell_at r0 dc) with
          | None => Err 3
          | Some _ =>
              let rows := filter (fun r => str_nonempty (cell_at r dc)) data_rows in
              match all_some (map (fun r => parse_period f (cell_at r dc)) rows) with
              | None => Err 3
              | Some periods =>
                  let groups := col_iter (combine (slice name_row (S dc) ec ++ [""%string])
                                                  (slice desc_row (S dc) ec ++ [""%string])) O None in
                  Ok (fold_left
                        (fun d g =>
                           let '(cs, n, ds) := g in
                           let s := set_data A f (empty_series A (length cs)) periods
                                      (map (fun r => map (fun c => parse_val (cell_at r (S dc + c))) cs) rows) None in
                           dset A d n (ISer A (kept_desc periods s ds) s))
                        groups db)
              end
          end
      end
  end.

(* Inlay.from_csv_file(description_row=...) on the cells of the sheet *)
Definition import (desc : bool) (g : grid) : res databox :=
  match g with
  | [] => Ok []
  | name_row :: rest =>
      if desc then
        match rest with
        | [] => Err 5
        | desc_row :: data_rows =>
            fold_left (import_block name_row desc_row data_rows) (blocks_of name_row) (Ok [])
        end
      else
        fold_left (import_block name_row (repeat ""%string (length name_row)) rest) (blocks_of name_row) (Ok [])
  end.

End CsvModel.
