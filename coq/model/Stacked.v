(* Executable model of the bookkeeping of the stacked-time simulator
   (stacked_time/simulators.py, _evaluators.py, _jacobians.py; fords/terminators.py; the frame loop of
   simultaneous/_simulate.py).  NO proofs here.  The Newton solver is an oracle: its result enters as the
   frame data it leaves behind. *)
From Coq Require Import ZArith List Bool.
From Verif Require Import gen.FramesGen model.Frames.
Import ListNotations.
Open Scope Z_scope.

(* a cell of the data array: (quantity id, column) -- irispie's Token(qid, shift) *)
Definition spot := (Z * Z)%type.

Definition spot_eqb (a b : spot) : bool := (fst a =? fst b) && (snd a =? snd b).
(* Python tuple order: by qid, then by column *)
Definition spot_ltb (a b : spot) : bool := (fst a <? fst b) || ((fst a =? fst b) && (snd a <? snd b)).
Definition smem (s : spot) (l : list spot) : bool := existsb (spot_eqb s) l.

(* sorted(set(...)): insertion into a strictly sorted list, duplicates dropped *)
Fixpoint sinsert (s : spot) (l : list spot) : list spot :=
  match l with
  | [] => [s]
  | x :: r => if spot_ltb s x then s :: l else if spot_eqb s x then l else x :: sinsert s r
  end.
Definition sort_spots (l : list spot) : list spot := fold_right sinsert [] l.

(* ---------- wrt_spots (stacked_time/simulators.py::_get_wrt_spots) ---------- *)

(* tuple(Token(qid, column) for column, qid in product(columns_to_run, endogenous_qids)) *)
Definition base_spots (cols qids : list Z) : list spot :=
  flat_map (fun c => map (fun q => (q, c)) qids) cols.

(* a plan register restricted to the periods to run: one row per name = (qid of the name, flags per period) *)
Definition register := list (Z * list bool).

Definition spots_from_register (reg : register) (cols : list Z) : list spot :=
  flat_map (fun row => map (fun cf => (fst row, fst cf)) (filter snd (combine cols (snd row)))) reg.

Record plan_regs := mkPlan {
  exog_ant : register; endog_ant : register; exog_unant : register; endog_unant : register }.

Definition exogenized_spots (p : plan_regs) (cols : list Z) : list spot :=
  spots_from_register (exog_ant p) cols ++ spots_from_register (exog_unant p) (firstn 1 cols).
Definition endogenized_spots (p : plan_regs) (cols : list Z) : list spot :=
  spots_from_register (endog_ant p) cols ++ spots_from_register (endog_unant p) (firstn 1 cols).

(* set(base).difference(exog).union(endog), sorted *)
Definition swap_spots (base exog endog : list spot) : list spot :=
  sort_spots (filter (fun s => negb (smem s exog)) base ++ endog).

Definition wrt_spots (plan : option plan_regs) (cols qids : list Z) : list spot :=
  match plan with
  | None => base_spots cols qids
  | Some p => swap_spots (base_spots cols qids) (exogenized_spots p cols) (endogenized_spots p cols)
  end.

(* restriction of a register given over the base periods to the periods of the columns to run *)
Definition restrict_register (skip n : nat) (reg : register) : register :=
  map (fun row => (fst row, firstn n (skipn skip (snd row)))) reg.
Definition restrict_plan (skip n : nat) (p : plan_regs) : plan_regs :=
  mkPlan (restrict_register skip n (exog_ant p)) (restrict_register skip n (endog_ant p))
         (restrict_register skip n (exog_unant p)) (restrict_register skip n (endog_unant p)).

(* ---------- stacking of residuals (stacked_time/_evaluators.py) ---------- *)

(* position of (equation e, column index j) in the stacked residual: the regenerated row formula *)
Definition stack_index (neq e j : Z) : Z := jac_lhs_row e neq j.

(* np.vstack(outcome).flatten(order=...) of per-equation arrays F e j *)
Definition stack {V} (F : nat -> nat -> V) (neq ncols : nat) : list V :=
  if stack_equation_fastest
  then map (fun i => F (i mod neq)%nat (i / neq)%nat) (seq 0 (neq * ncols))
  else map (fun i => F (i / ncols)%nat (i mod ncols)%nat) (seq 0 (neq * ncols)).

Definition stack_lists {V} (dflt : V) (vals : list (list V)) (ncols : nat) : list V :=
  stack (fun e j => nth j (nth e vals []) dflt) (length vals) ncols.

(* ---------- Jacobian map (stacked_time/_jacobians.py::_populate_map) ---------- *)

(* dict built from enumerate(...): the last occurrence wins *)
Fixpoint index_last_from (s : spot) (l : list spot) (i : Z) (acc : option Z) : option Z :=
  match l with
  | [] => acc
  | x :: r => index_last_from s r (i + 1) (if spot_eqb s x then Some i else acc)
  end.
Definition index_last (s : spot) (l : list spot) : option Z := index_last_from s l 0 None.

Definition enumerate_from {A} (i : Z) (l : list A) : list (Z * A) := mapi_from (fun k x => (k, x)) i l.

(* entries (lhs_row, lhs_column, rhs_row, rhs_column); wrt_tokens: per equation, the tokens it is differentiated
   with respect to, in the order the implementation iterates them (set order: an oracle) *)
Fixpoint jac_map_from (neq : Z) (eqn_enum offset : Z) (wrt_tokens : list (list spot)) (cols : list Z)
         (lhs_tokens : list spot) : list (Z * Z * Z * Z) :=
  match wrt_tokens with
  | [] => []
  | toks :: rest =>
      flat_map (fun rt =>
        flat_map (fun cc =>
          match index_last (fst (snd rt), snd (snd rt) + snd cc) lhs_tokens with
          | Some lhs_column => [(stack_index neq eqn_enum (fst cc), lhs_column, fst rt, fst cc)]
          | None => []
          end) (enumerate_from 0 cols)) (enumerate_from offset toks)
      ++ jac_map_from neq (eqn_enum + 1) (offset + Z.of_nat (length toks)) rest cols lhs_tokens
  end.
Definition jac_map (wrt_tokens : list (list spot)) (cols : list Z) (lhs_tokens : list spot) :=
  jac_map_from (Z.of_nat (length wrt_tokens)) 0 0 wrt_tokens cols lhs_tokens.

(* ---------- first-order terminator, index part (fords/terminators.py) ---------- *)

Definition terminal_columns (last_simulation max_lead : Z) : list Z :=
  let r := term_columns_range last_simulation max_lead in zrange (fst r) (snd r).

(* max shift with which a quantity occurs in the equations *)
Definition max_shift_of (tokens : list spot) (q : Z) : option Z :=
  fold_left (fun acc t => if fst t =? q then
                            match acc with Some m => Some (Z.max m (snd t)) | None => Some (snd t) end
                          else acc) tokens None.

(* (index in product(terminal_columns, curr_xi_qids), Token(qid, col)) kept when col <= last + max shift of qid *)
Definition terminal_product (last_simulation max_lead : Z) (curr_xi_qids : list Z) (tokens : list spot)
  : list (Z * spot) :=
  filter (fun it => match max_shift_of tokens (fst (snd it)) with
                    | Some ms => term_keep last_simulation (snd (snd it)) ms
                    | None => false end)
         (enumerate_from 0 (flat_map (fun c => map (fun q => (q, c)) curr_xi_qids)
                                     (terminal_columns last_simulation max_lead))).

Definition terminal_wrt_spots last max_lead qids tokens : list spot := map snd (terminal_product last max_lead qids tokens).
Definition terminal_column_index last max_lead qids tokens : list Z := map fst (terminal_product last max_lead qids tokens).

(* cells from which the terminal condition is started: Token(qid, last_simulation + shift) over the solution vector *)
Definition terminit_spots (last_simulation : Z) (transition_vector : list spot) : list spot :=
  map (fun t => (fst t, term_init_column last_simulation (snd t))) transition_vector.

(* create_terminal_jacobian_map: (column among the unknowns, column in the solution vector) *)
Definition terminal_jacobian_map (wrt : list spot) (tinit : list spot) : list (Z * Z) :=
  flat_map (fun it => match index_last (snd it) wrt with Some i => [(i, fst it)] | None => [] end)
           (enumerate_from 0 tinit).

(* ---------- what simulate_frame may write in the frame's data ---------- *)

Section Data.
Context {V : Type}.
Variable dflt : V.

Definition set_cell (d : list (list V)) (s : spot) (v : V) : list (list V) :=
  mapi2 (fun q c old => if spot_eqb (q, c) s then v else old) d.

(* data[rows, cols] = vals, element by element *)
Fixpoint update_cells (d : list (list V)) (spots : list spot) (vals : list V) : list (list V) :=
  match spots, vals with
  | s :: ss, v :: vs => update_cells (set_cell d s v) ss vs
  | _, _ => d
  end.

(* _copy_exogenized_data_to_frame_data: data[exogenized] = input_data_array[exogenized] *)
Definition copy_exogenized (d input : list (list V)) (exog : list spot) : list (list V) :=
  mapi2 (fun q c old => if smem (q, c) exog then get dflt input q c else old) d.

Record term_info := mkTerm {
  t_curr_xi_qids : list Z;      (* rows overwritten in the terminal columns *)
  t_columns : list Z;           (* terminal columns *)
  t_logly : list Z              (* rows passed through log/exp on every evaluation *)
}.

(* cells whose value after simulate_frame is the solver's business *)
Definition touched (wrt : list spot) (term : option term_info) (q c : Z) : bool :=
  smem (q, c) wrt ||
  match term with
  | Some t => (zmem q (t_curr_xi_qids t) && zmem c (t_columns t)) || zmem q (t_logly t)
  | None => false
  end.

(* frame data after simulate_frame, given the oracle (the array the solver left behind) *)
Definition frame_after (pre oracle : list (list V)) (wrt : list spot) (term : option term_info) : list (list V) :=
  mapi2 (fun q c old => if touched wrt term q c then get dflt oracle q c else old) pre.

(* ---------- the frame loop of Simultaneous.simulate ---------- *)

Record sim_setup := mkSetup {
  s_fcp : Z;                        (* period of the first column *)
  s_base_first : Z;                 (* first base column *)
  s_uqids : list Z;                 (* unanticipated shock rows *)
  s_endogenous : list Z;            (* transition variable rows *)
  s_plan : option plan_regs;        (* registers over the base periods *)
  s_term : option (list Z * Z * list Z)  (* first-order terminal: (curr_xi_qids, max_lead, logly rows) *)
}.

Definition frame_plan (S : sim_setup) (f : frame) : option plan_regs :=
  match s_plan S with
  | None => None
  | Some p => Some (restrict_plan (Z.to_nat (f_first (s_fcp S) f - s_base_first S))
                                  (length (columns_to_run (s_fcp S) f)) p)
  end.

Definition frame_wrt (S : sim_setup) (f : frame) : list spot :=
  wrt_spots (frame_plan S f) (columns_to_run (s_fcp S) f) (s_endogenous S).

Definition frame_exog (S : sim_setup) (f : frame) : list spot :=
  match frame_plan S f with
  | None => []
  | Some p => exogenized_spots p (columns_to_run (s_fcp S) f)
  end.

Definition frame_term (S : sim_setup) (f : frame) : option term_info :=
  match s_term S with
  | None => None
  | Some (qids, max_lead, logly) =>
      Some (mkTerm qids (terminal_columns (f_sim_last (s_fcp S) f) max_lead) logly)
  end.

Definition step_frame (zero : V) (S : sim_setup) (input : list (list V))
           (main : list (list V)) (f : frame) (oracle : list (list V)) : list (list V) * list (list V) :=
  let pruned := prune zero (s_uqids S) (s_fcp S) f main in
  let pre := copy_exogenized pruned input (frame_exog S f) in
  let after := frame_after pre oracle (frame_wrt S f) (frame_term S f) in
  (after, write_back dflt (s_uqids S) (s_fcp S) f main after).

(* returns the frame arrays after each simulate_frame and the final main array *)
Fixpoint run_frames (zero : V) (S : sim_setup) (input main : list (list V))
         (frames : list frame) (oracles : list (list (list V))) : list (list (list V)) * list (list V) :=
  match frames, oracles with
  | f :: fs, o :: os =>
      let r := step_frame zero S input main f o in
      let rest := run_frames zero S input (snd r) fs os in
      (fst r :: fst rest, snd rest)
  | _, _ => ([], main)
  end.

End Data.
