(* Executable model of
   (a) the failure report of Inlay.simulate (simultaneous/_simulate.py): the loop over variants, the loop over frames,
       `exit_status = simulate_frame(...)`, `if not exit_status.is_success: when_fails_stream.add(...)`,
       `when_fails_stream._raise()`, with the four streams of wrongdoings.py;
   (b) the assembly of the fallbacks / overwrites of the slatable from the three `*_from_data` flags
       (simultaneous/_slatable_protocols.py) and the row of the dataslate that results for a name
       (dataslates/_variants.py: _apply_fallbacks, _apply_overwrites).
   The statement shapes (sim_program, stream_add, stream_fin, slatable_blocks, variant_post, sim_flag_wiring,
   sim_default_from_data) come from gen/SimReportGen.v, regenerated from the source on every run.
   NO proofs in this file. *)
From Coq Require Import List Bool Arith.
From Verif Require Import lib.SimProg gen.SimReportGen.
Import ListNotations.

(* ------------------------------------------------------------------ (a) the failure report *)

(* the Python variables: exit_status (unbound before the first simulate_frame; it keeps its value across iterations
   and across variants) and when_fails_stream.messages (as the (variant, frame) the message is about) *)
Record rstate := mkRs {
  s_cur : option (nat * nat * bool);      (* (variant, frame, is_success) of the last simulate_frame *)
  s_msgs : list (nat * nat)
}.

Inductive rres :=
  | Go (s : rstate)
  | Raised (s : rstate)        (* IrisPieCritical raised inside CriticalStream.add: nothing after it runs *)
  | Unbound.                   (* NameError: exit_status read before assignment *)

Section Report.
Variable add_of : wf_kind -> add_beh.
Variable fin_of : wf_kind -> fin_beh.
Variable k : wf_kind.
Variable status : nat -> nat -> bool.     (* oracle: is_success of frame f of variant v (the Newton solver) *)

Definition step (v f : nat) (s : rstate) (x : fstmt) : rres :=
  match x with
  | FSimulate => Go (mkRs (Some (v, f, status v f)) (s_msgs s))
  | FReport =>
      match s_cur s with
      | None => Unbound
      | Some (_, _, true) => Go s
      | Some (v', f', false) =>
          match add_of k with
          | AddRaise => Raised (mkRs (s_cur s) (s_msgs s ++ [(v', f')]))
          | AddAppend => Go (mkRs (s_cur s) (s_msgs s ++ [(v', f')]))
          | AddIgnore => Go s
          end
      end
  | FRecord => match s_cur s with None => Unbound | Some _ => Go s end
  | FOther => Go s
  end.

Fixpoint run_stmts (v f : nat) (l : list fstmt) (s : rstate) : rres :=
  match l with
  | [] => Go s
  | x :: r => match step v f s x with Go s' => run_stmts v f r s' | o => o end
  end.

Fixpoint run_frames (body : list fstmt) (v : nat) (fs : list nat) (s : rstate) : rres :=
  match fs with
  | [] => Go s
  | f :: r => match run_stmts v f body s with Go s' => run_frames body v r s' | o => o end
  end.

(* one iteration of the variant loop: nf frames, then the statements after the frame loop *)
Definition run_variant (p : sim_prog) (v nf : nat) (s : rstate) : rres :=
  match run_frames (p_frame_body p) v (seq 0 nf) s with
  | Go s' => run_stmts v (pred nf) (p_after_frames p) s'
  | o => o
  end.

Fixpoint run_variants (p : sim_prog) (vs : list (nat * nat)) (s : rstate) : rres :=
  match vs with
  | [] => Go s
  | (v, nf) :: r => match run_variant p v nf s with Go s' => run_variants p r s' | o => o end
  end.

(* what the caller of simulate() sees *)
Inductive outcome :=
  | OReturned                               (* returns normally, no warning: "reports success" *)
  | OWarned (m : list (nat * nat))          (* returns, IrisPieWarning listing the failed frames *)
  | OError (m : list (nat * nat))           (* IrisPieError after all frames *)
  | OCritical (m : list (nat * nat))        (* IrisPieCritical at the first failed frame *)
  | ONameError.

Definition finish (s : rstate) : outcome :=
  match fin_of k, s_msgs s with
  | FinNothing, _ => OReturned
  | _, [] => OReturned
  | FinErrorIfAny, m => OError m
  | FinWarnIfAny, m => OWarned m
  end.

(* nfs: number of frames of variant 0, 1, ... *)
Definition simulate_outcome (p : sim_prog) (nfs : list nat) : outcome :=
  match run_variants p (combine (seq 0 (length nfs)) nfs) (mkRs None []) with
  | Unbound => ONameError
  | Raised s => OCritical (s_msgs s)
  | Go s => if p_final_raise p then finish s else OReturned
  end.

End Report.

Definition reports_success (o : outcome) : bool := match o with OReturned => true | _ => false end.

(* the statements that change neither variable *)
Definition neutral (x : fstmt) : bool := match x with FOther => true | _ => false end.
Definition strip (l : list fstmt) : list fstmt := filter (fun x => negb (neutral x)) l.

(* the shape under which the report is sound: in the frame loop one simulate_frame, then the report, then (possibly)
   the record; nothing about the status after the frame loop; _raise() after the variant loop *)
Fixpoint list_fstmt_eqb (a b : list fstmt) : bool :=
  match a, b with
  | [], [] => true
  | x :: r, y :: t => fstmt_eqb x y && list_fstmt_eqb r t
  | _, _ => false
  end.

Definition report_in_frame_loop (p : sim_prog) : bool :=
  (list_fstmt_eqb (strip (p_frame_body p)) [FSimulate; FReport; FRecord]
   || list_fstmt_eqb (strip (p_frame_body p)) [FSimulate; FReport])
  && list_fstmt_eqb (strip (p_after_frames p)) []
  && p_final_raise p.

(* a kind of stream that does report: add is not ignored, and what add collects is raised or warned at the end *)
Definition reporting_kind (add_of : wf_kind -> add_beh) (fin_of : wf_kind -> fin_beh) (k : wf_kind) : bool :=
  match add_of k, fin_of k with
  | AddRaise, _ => true
  | AddAppend, FinErrorIfAny | AddAppend, FinWarnIfAny => true
  | _, _ => false
  end.

(* every frame of every variant is a success *)
Definition all_success (status : nat -> nat -> bool) (nfs : list nat) : Prop :=
  forall v f, v < length nfs -> f < nth v nfs 0 -> status v f = true.

(* the code as it is *)
Definition simulate_report (k : wf_kind) (status : nat -> nat -> bool) (nfs : list nat) : outcome :=
  simulate_outcome stream_add stream_fin k status sim_program nfs.

(* ------------------------------------------------------------------ (b) fallbacks / overwrites and dataslate rows *)

Section Slatable.
Variable V : Type.
Variable is_nan : V -> bool.

(* the model's value of a name: Some v iff the model has a quantity of that group with that name *)
Definition source := group -> nat -> option V.        (* names are numbered *)

(* dictionaries as association lists, dict.update = later entries win *)
Definition dict := list (nat * V).
Fixpoint dlookup (d : dict) (n : nat) : option V :=
  match d with
  | [] => None
  | (m, v) :: r => match dlookup r n with Some w => Some w | None => if Nat.eqb m n then Some v else None end
  end.

(* the (name, value) pairs the model files for group g: names 0..nn-1 that the model has in g *)
Definition group_items (src : source) (nn : nat) (g : group) : dict :=
  flat_map (fun n => match src g n with Some v => [(n, v)] | None => [] end) (seq 0 nn).

(* one block: `if flag: fallbacks.update(X) else: overwrites.update(X)` *)
Definition run_block (src : source) (nn : nat) (flags : group -> bool) (fo : dict * dict) (b : sl_block) : dict * dict :=
  let items := group_items src nn (fst b) in
  if flags (snd b) then (fst fo ++ items, snd fo) else (fst fo, snd fo ++ items).

Definition assemble_with (blocks : list sl_block) (src : source) (nn : nat) (flags : group -> bool) : dict * dict :=
  fold_left (run_block src nn flags) blocks ([], []).

(* _slatable_for_simulate_or_kalman_filter as it is *)
Definition assemble := assemble_with slatable_blocks.

(* Variant._apply_fallbacks / _apply_overwrites on one row *)
Definition apply_post (fo : dict * dict) (n : nat) (row : list V) (p : post) : list V :=
  match p with
  | PFallbacks => match dlookup (fst fo) n with
                  | Some v => map (fun x => if is_nan x then v else x) row
                  | None => row
                  end
  | POverwrites => match dlookup (snd fo) n with
                   | Some v => map (fun _ => v) row
                   | None => row
                   end
  end.

Definition slate_row_with (posts : list post) (fo : dict * dict) (n : nat) (row : list V) : list V :=
  fold_left (apply_post fo n) posts row.

(* the row of name n of the dataslate, from the row read from the databox (NaN where the databox has nothing) *)
Definition slate_row := slate_row_with variant_post.

(* Simultaneous.simulate(..., parameters_from_data=, shocks_from_data=, stds_from_data=): the flags the slatable gets *)
Definition slatable_flags (sim_flags : group -> bool) (g : group) : bool := sim_flags (sim_flag_wiring g).

Definition simulate_row (src : source) (nn : nat) (sim_flags : group -> bool) (n : nat) (row : list V) : list V :=
  slate_row (assemble src nn (slatable_flags sim_flags)) n row.

End Slatable.

Arguments dlookup {V}. Arguments group_items {V}. Arguments assemble {V}. Arguments assemble_with {V}.
Arguments slate_row {V}. Arguments slate_row_with {V}. Arguments simulate_row {V}. Arguments apply_post {V}.
Arguments run_block {V}.
