(* Model of irispie/fords/covariances.py (get_cov_alpha_00, get_cov_triangular_00,
   get_autocov_triangular_00, get_autocov_square_00, get_autocov_square,
   acorr_from_acov, _get_scale_matrix) and of the glue in
   simultaneous/_covariances.py (getv_cov_u / getv_cov_w, getv_autocov's selection
   of the zero-shift rows, get_acorr), written once over the abstract matrix
   interface lib/MxC15.v.  NO proofs in this file.

   scipy.linalg.solve_discrete_lyapunov is a black box: its output X enters as an
   argument (contract X = Ta_stable X Ta_stable' + sigma_u, see [lyap_contract]).

   Dimensions: nu unit roots, ns stable elements of alpha, ny measurement
   variables, ne transition shocks, nw measurement shocks. *)
From Coq Require Import List Bool.
From Verif Require Import lib.MxC15.
Import ListNotations.

Section AcovModel.
Variable O : MxOps.
Notation mx := (mx O).
Notation omx := (omx O).
Variables nu ns ny ne nw : nat.
Notation na := (nu + ns).
Notation nn := (nu + ns + ny).

(* the part of fords/solutions.py::Solution that the covariance code reads *)
Record solution := {
  Ta : mx na na;
  Pa : mx na ne;
  Za : mx ny na;
  Hm : mx ny nw;
  Ua : mx na na;
  tolv : sc O;                (* tolerance of _classify_solution_vector_stability *)
}.

Variable sol : solution.

Infix "*m" := (mmul O) (at level 40, left associativity).
Infix "+m" := (madd O) (at level 50, left associativity).
Notation "A ^T" := (mtr O A) (at level 8, format "A ^T").
Notation Z0 := (mzero O).

(* Solution.Ta_stable, Pa_stable, Za_stable *)
Definition Ta_stable : mx ns ns := mrsub O (mdsub O (Ta sol)).
Definition Pa_stable : mx ns ne := mdsub O (Pa sol).
Definition Za_stable : mx ny ns := mrsub O (Za sol).

(* simultaneous/_covariances.py: getv_cov_u, getv_cov_w = numpy.diag(stds**2) *)
Definition cov_of_std {n} (std : mx 1 n) : mx n n := mdiagsq O std.

(* get_cov_alpha_00: the right-hand side handed to the Lyapunov solver ... *)
Definition sigma_u (cov_u : mx ne ne) : mx ns ns := Pa_stable *m cov_u *m Pa_stable^T.
(* ... the solver's contract ... *)
Definition lyap_contract (cov_u : mx ne ne) (X : mx ns ns) : Prop :=
  X = Ta_stable *m X *m Ta_stable^T +m sigma_u cov_u.
(* ... and the zero padding for the unit roots *)
Definition cov_alpha_00 (X : mx ns ns) : mx na na := mblock O Z0 Z0 Z0 X.

(* get_cov_triangular_00 *)
Definition sigma_w (cov_w : mx nw nw) : mx ny ny := Hm sol *m cov_w *m (Hm sol)^T.
Definition cov_alpha_stable_of (c : mx na na) : mx ns ns := mrsub O (mdsub O c).
Definition cov_y_00 (cov_w : mx nw nw) (X : mx ns ns) : mx ny ny :=
  Za_stable *m cov_alpha_stable_of (cov_alpha_00 X) *m Za_stable^T +m sigma_w cov_w.
Definition cov_alpha_y_00 (X : mx ns ns) : mx na ny := cov_alpha_00 X *m (Za sol)^T.
Definition cov_triangular_00 (cov_w : mx nw nw) (X : mx ns ns) : mx nn nn :=
  mblock O (cov_alpha_00 X) (cov_alpha_y_00 X) (cov_alpha_y_00 X)^T (cov_y_00 cov_w X).

(* get_autocov_triangular_00 *)
Definition Ta_00 : mx na na := mblock O Z0 Z0 Z0 Ta_stable.
Definition A_tri : mx nn nn := mblock O Ta_00 Z0 (Za sol *m Ta_00) Z0.
Fixpoint iter_autocov (A G : mx nn nn) (order : nat) : list (mx nn nn) :=
  match order with
  | 0 => [G]
  | S k => G :: iter_autocov A (A *m G) k
  end.
Definition autocov_triangular_00 (cov_w : mx nw nw) (X : mx ns ns) (order : nat) : list (mx nn nn) :=
  iter_autocov A_tri (cov_triangular_00 cov_w X) order.

(* get_autocov_square_00: cov[:na,:] = Ua @ cov[:na,:]; cov[:,:na] = cov[:,:na] @ Ua.T *)
Definition transform_rows (c : mx nn nn) : mx nn nn :=
  let u := musub O c in let d := mdsub O c in
  mblock O (Ua sol *m mlsub O u) (Ua sol *m mrsub O u) (mlsub O d) (mrsub O d).
Definition transform_cols (c : mx nn nn) : mx nn nn :=
  let u := musub O c in let d := mdsub O c in
  mblock O (mlsub O u *m (Ua sol)^T) (mrsub O u) (mlsub O d *m (Ua sol)^T) (mrsub O d).
Definition transform_cov_triangular_to_square (c : mx nn nn) : mx nn nn :=
  transform_cols (transform_rows c).
Definition autocov_square_00 (cov_w : mx nw nw) (X : mx ns ns) (order : nat) : list (mx nn nn) :=
  map transform_cov_triangular_to_square (autocov_triangular_00 cov_w X order).

(* get_autocov_square: NaN for the elements loaded on unit roots
   (_classify_solution_vector_stability on Ua[:, :nu] and Za[:, :nu]) *)
Definition unstable_flags : bvec O nn :=
  bcat O (mloaded O (tolv sol) (mlsub O (Ua sol))) (mloaded O (tolv sol) (mlsub O (Za sol))).
Definition autocov_square (cov_w : mx nw nw) (X : mx ns ns) (order : nat) : list (omx nn nn) :=
  map (mmask O unstable_flags) (autocov_square_00 cov_w X order).

(* getv_autocov: rows/columns of the current-dated (zero-shift) tokens *)
Definition getv_autocov {k} (sel : idx O k nn) (std_w : mx 1 nw) (X : mx ns ns) (order : nat)
  : list (omx k k) :=
  map (osel O sel) (autocov_square (cov_of_std std_w) X order).

(* the right-hand side the solver receives, from the std vector *)
Definition lyap_rhs (std_u : mx 1 ne) : mx ns ns := sigma_u (cov_of_std std_u).

End AcovModel.

Section AcorrModel.
Variable O : MxOps.

(* _get_scale_matrix: inv_std = diag; positive -> 1/sqrt, everything else (also NaN) -> 0 *)
Definition inv_std_entry (o : option (sc O)) : sc O :=
  match o with
  | Some x => if spos O x then sisqrt O x else s0 O
  | None => s0 O
  end.
Definition scale_matrix {k} (c : omx O k k) : mx O k k :=
  let d := odiagvec O inv_std_entry c in mmul O d (mtr O d).
(* NaN * anything = NaN *)
Definition omul_entry (o : option (sc O)) (s : sc O) : option (sc O) :=
  match o with Some a => Some (smul O a s) | None => None end.
(* acorr_from_acov *)
Definition acorr_from_acov {k} (acov : list (omx O k k)) : list (omx O k k) :=
  match acov with
  | [] => []
  | c0 :: _ => map (fun c => ozip O omul_entry c (scale_matrix c0)) acov
  end.

End AcorrModel.

Arguments Ta {O nu ns ny ne nw}.
Arguments Pa {O nu ns ny ne nw}.
Arguments Za {O nu ns ny ne nw}.
Arguments Hm {O nu ns ny ne nw}.
Arguments Ua {O nu ns ny ne nw}.
Arguments tolv {O nu ns ny ne nw}.
Arguments Build_solution {O nu ns ny ne nw}.
Arguments Ta_stable {O nu ns ny ne nw} sol.
Arguments Pa_stable {O nu ns ny ne nw} sol.
Arguments Za_stable {O nu ns ny ne nw} sol.
Arguments cov_of_std {O n} std.
Arguments sigma_u {O nu ns ny ne nw} sol cov_u.
Arguments lyap_contract {O nu ns ny ne nw} sol cov_u X.
Arguments cov_alpha_00 {O} nu {ns} X.
Arguments sigma_w {O nu ns ny ne nw} sol cov_w.
Arguments cov_alpha_stable_of {O nu ns} c.
Arguments cov_y_00 {O nu ns ny ne nw} sol cov_w X.
Arguments cov_alpha_y_00 {O nu ns ny ne nw} sol X.
Arguments cov_triangular_00 {O nu ns ny ne nw} sol cov_w X.
Arguments Ta_00 {O nu ns ny ne nw} sol.
Arguments A_tri {O nu ns ny ne nw} sol.
Arguments iter_autocov {O nu ns ny} A G order.
Arguments autocov_triangular_00 {O nu ns ny ne nw} sol cov_w X order.
Arguments transform_rows {O nu ns ny ne nw} sol c.
Arguments transform_cols {O nu ns ny ne nw} sol c.
Arguments transform_cov_triangular_to_square {O nu ns ny ne nw} sol c.
Arguments autocov_square_00 {O nu ns ny ne nw} sol cov_w X order.
Arguments unstable_flags {O nu ns ny ne nw} sol.
Arguments autocov_square {O nu ns ny ne nw} sol cov_w X order.
Arguments getv_autocov {O nu ns ny ne nw} sol {k} sel std_w X order.
Arguments lyap_rhs {O nu ns ny ne nw} sol std_u.
Arguments inv_std_entry {O} o.
Arguments scale_matrix {O k} c.
Arguments omul_entry {O} o s.
Arguments acorr_from_acov {O k} acov.

(* ------------------------------------------------------------------------ *)
(* Entry point of the correspondence run: the SAME model text instantiated on  *)
(* exact dyadic numbers (lib/MxC15.v: LOps), fed with the solution matrices of *)
(* the variant, the std vectors assigned through the public API, the recorded  *)
(* output of scipy.linalg.solve_discrete_lyapunov and the shifts of the        *)
(* solution-vector tokens; compared with get_acov / get_acorr.                 *)
(* ------------------------------------------------------------------------ *)
From Coq Require Import ZArith PrimFloat.

Record ccase := {
  c_nu : nat; c_ns : nat; c_ny : nat; c_ne : nat; c_nw : nat;
  c_Ta : list (list float); c_Pa : list (list float); c_Za : list (list float);
  c_H : list (list float); c_Ua : list (list float);
  c_tol : float;                                   (* eigenvalue tolerance of the model object *)
  c_stdu : list float; c_stdw : list float;        (* std vectors, in the order of the shock tokens *)
  c_X : list (list float);                         (* recorded Lyapunov output *)
  c_shifts : list Z;                               (* shifts of transition_variables ++ measurement_variables *)
  c_order : nat;
  c_scale : float;                                 (* largest shock variance (1 when all are 0): scale of the comparisons *)
  c_acov : list (list (list float));               (* get_acov(up_to_order=c_order), this variant; NaN = masked *)
  c_acorr : list (list (list float));              (* get_acorr(up_to_order=c_order), this variant *)
}.

Fixpoint zero_shift_positions (shifts : list Z) (i : nat) : list nat :=
  match shifts with
  | [] => []
  | s :: r => if Z.eqb s 0 then i :: zero_shift_positions r (S i) else zero_shift_positions r (S i)
  end.

Definition case_solution (c : ccase) : solution LOps (c_nu c) (c_ns c) (c_ny c) (c_ne c) (c_nw c) :=
  Build_solution (O:=LOps) (lmx_of (c_Ta c)) (lmx_of (c_Pa c)) (lmx_of (c_Za c)) (lmx_of (c_H c))
                 (lmx_of (c_Ua c)) (dyf0 (c_tol c)).

Definition case_acov (c : ccase) : list lomx :=
  let sel := zero_shift_positions (c_shifts c) 0 in
  getv_autocov (O:=LOps) (case_solution c) (k:=length sel) sel (lmx_of [c_stdw c]) (lmx_of (c_X c)) (c_order c).

Definition case_acorr (c : ccase) : list lomx :=
  acorr_from_acov (O:=LOps) (k:=length (zero_shift_positions (c_shifts c) 0)) (case_acov c).

(* the solver's contract on the recorded output: X = Ta_stable X Ta_stable' + sigma_u, X symmetric *)
Definition case_contract (ctol : dy) (c : ccase) : bool :=
  let sol := case_solution c in
  let X := lmx_of (c_X c) in
  let T := Ta_stable sol in
  let ns := c_ns c in
  let rhs := madd LOps (m:=ns) (n:=ns)
               (mmul LOps (m:=ns) (n:=ns) (p:=ns) (mmul LOps (m:=ns) (n:=ns) (p:=ns) T X) (mtr LOps (m:=ns) (n:=ns) T))
               (lyap_rhs sol (lmx_of [c_stdu c])) in
  lmx_close_s ctol (dyf0 (c_scale c)) X rhs && lmx_close_s ctol (dyf0 (c_scale c)) X (mtr LOps (m:=ns) (n:=ns) X).

(* 0 = agrees; 1 = recorded solver output violates its contract; 2 = get_acov differs; 3 = get_acorr differs *)
Definition run_case (ctol tol : dy) (c : ccase) : nat :=
  if negb (case_contract ctol c) then 1
  else if negb (lomx_list_close_s tol (dyf0 (c_scale c)) (case_acov c) (map lomx_of (c_acov c))) then 2
  else if negb (lomx_list_close tol (case_acorr c) (map lomx_of (c_acorr c))) then 3
  else 0.
