(* Model of what irispie's reduced-form VAR reports about the spectrum of its companion matrix
   (red_vars/_variants.py::Variant._populate_eigenvalues, max_abs_eigenvalue, is_stable and
   red_vars/main.py::RedVAR.get_eigenvalues / get_max_abs_eigenvalue / get_stability).

   numpy.linalg.eigvals is a black box: the list [eigs] below is what it returned (the correspondence checks it
   against the exact characteristic polynomial of the model's companion matrix).  What the code does with that
   list is regenerated from the source (gen/RedVarGen.v: gen_max_abs_eigenvalue, gen_is_stable) and is the model:

     C        the type of the eigenvalues (complex numbers, e.g. pairs (re, im))
     T        the type of their moduli (an ordered type; [leb] is <=)
     modulus  numpy.abs of one complex number

   No proofs here (proofs/SpectralProofs.v). *)
From Coq Require Import List Bool.
From Verif Require Import gen.RedVarGen.
Import ListNotations.

Section Spectral.
Variables C T : Type.
Variable modulus : C -> T.          (* numpy.abs(z) *)
Variable leb : T -> T -> bool.      (* a <= b *)
Variable of_nat : nat -> T.         (* the integer literal of the stability test *)
Variable cmax : list C -> C.        (* numpy.max of a complex array: lexicographic maximum; unused by the code as it stands *)

Definition ltb (a b : T) : bool := negb (leb b a).      (* a < b *)

(* numpy.max of a real array: left-to-right maximum *)
Definition maxT (a b : T) : T := if leb a b then b else a.
Definition max_of (x : T) (l : list T) : T := fold_left maxT l x.
Definition max_real (d : T) (l : list T) : T := match l with [] => d | x :: r => max_of x r end.

Definition np_ops (d : T) : NpOps C T :=
  {| np_abs_arr := map modulus; np_abs_sc := modulus; np_max_real := max_real d; np_max_complex := cmax;
     lt_T := ltb; of_nat_T := of_nat |}.

(* Variant.max_abs_eigenvalue: None when there are no eigenvalues (not estimated) *)
Definition max_abs_eigenvalue (eigs : list C) : option T :=
  match eigs with
  | [] => None
  | z :: _ => Some (gen_max_abs_eigenvalue (np_ops (modulus z)) eigs)
  end.

(* Variant.eigenvalues *)
Definition reported_eigenvalues (eigs : list C) : list C := gen_reported_eigenvalues eigs.

(* Variant.is_stable *)
Definition is_stable (eigs : list C) : option bool :=
  gen_is_stable (np_ops (of_nat 0)) (max_abs_eigenvalue eigs).

(* RedVAR.get_max_abs_eigenvalue / get_stability / get_eigenvalues (unpack_singleton=False): one entry per variant,
   in the order of the variants *)
Definition get_max_abs_eigenvalue (variants : list (list C)) : list (option T) := map max_abs_eigenvalue variants.
Definition get_stability (variants : list (list C)) : list (option bool) := map is_stable variants.
Definition get_eigenvalues (variants : list (list C)) : list (list C) := map reported_eigenvalues variants.
End Spectral.

Arguments ltb {T}.
Arguments maxT {T}.
Arguments max_of {T}.
Arguments max_real {T}.
Arguments max_abs_eigenvalue {C T}.
Arguments reported_eigenvalues {C}.
Arguments is_stable {C T}.
Arguments get_max_abs_eigenvalue {C T}.
Arguments get_stability {C T}.
Arguments get_eigenvalues {C}.
