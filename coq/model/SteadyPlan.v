(* Executable model of the steady plan register machine (C05):
     plans/steady_plans.py        SteadyPlan.__init__, exogenize/unexogenize, endogenize/unendogenize, fix_level/
                                  unfix_level, fix_change/unfix_change (the exec template), fix, unfix, swap, unswap,
                                  is_empty, any_in_register, _write_to_register, _get_names_from_register
     plans/_registers.py          _initialize_registers, _resolve_register_names, _validate_register_names
     simultaneous/_plannable_protocols.py   _SteadyPlannable (which names each register has, flat / growth)
     simultaneous/_steady.py      _resolve_steady_wrt (what the plan hands to the solver loop), _resolve_split_into_blocks,
                                  _steady_linear (which descriptor is systemized)
   Names are qids.  A register is a Python dict name -> bool in insertion order.  A call that raises (invalid name)
   leaves the registers as they are at that moment (fix / swap may have written a part already) and reports ok = false.
   The statement shapes (the register each generated method writes, the guard of fix / unfix, the order of the
   two writes of swap, which registers exist in flat mode, the set algebra of _resolve_steady_wrt, the descriptor of
   _steady_linear) come from gen/SteadyPlanGen.v, regenerated from the source on every run.  NO proofs in this file. *)
From Coq Require Import List Bool Arith.
From Verif Require Import lib.Arith gen.SteadyGen gen.SteadyPlanGen model.Steady.
Import ListNotations.

Definition register := list (nat * bool).

Record splan := mkSP { sp_exog : register; sp_endog : register; sp_fixl : register; sp_fixc : register }.

Definition get_reg (p : splan) (r : rname) : register :=
  match r with RExog => sp_exog p | REndog => sp_endog p | RFixL => sp_fixl p | RFixC => sp_fixc p end.
Definition set_reg (p : splan) (r : rname) (g : register) : splan :=
  match r with
  | RExog => mkSP g (sp_endog p) (sp_fixl p) (sp_fixc p)
  | REndog => mkSP (sp_exog p) g (sp_fixl p) (sp_fixc p)
  | RFixL => mkSP (sp_exog p) (sp_endog p) g (sp_fixc p)
  | RFixC => mkSP (sp_exog p) (sp_endog p) (sp_fixl p) g
  end.

(* names argument: Ellipsis | a string / an iterable of strings *)
Inductive sel := SAll | SNames (l : list nat).

Definition keys (g : register) : list nat := map fst g.

(* _initialize_registers with default_value = False; SteadyPlan.__init__ over _SteadyPlannable *)
Definition init_register (names : list nat) : register := map (fun n => (n, false)) names.
Definition init_plan (endog params : list nat) (flat : bool) : splan :=
  mkSP (init_register endog) (init_register params) (init_register endog)
       (init_register (gen_can_be_fixed_change flat endog)).

(* _resolve_register_names + _validate_register_names: None = IrisPieCritical *)
Definition resolve_names (g : register) (s : sel) : option (list nat) :=
  match s with
  | SAll => Some (keys g)
  | SNames l => if forallb (fun n => mem_nat n (keys g)) l then Some l else None
  end.

(* register[n] = new_status for a key that exists (order kept) *)
Definition set_status (g : register) (n : nat) (v : bool) : register :=
  map (fun kv => if Nat.eqb (fst kv) n then (fst kv, v) else kv) g.

(* _write_to_register *)
Definition write_reg (p : splan) (r : rname) (s : sel) (v : bool) : splan * bool :=
  match resolve_names (get_reg p r) s with
  | Some ns => (set_reg p r (fold_left (fun g n => set_status g n v) ns (get_reg p r)), true)
  | None => (p, false)
  end.

(* any_in_register / truthiness of the dict *)
Definition any_in (g : register) : bool := existsb snd g.
Definition nonempty (g : register) : bool := match g with [] => false | _ => true end.

(* the public calls *)
Inductive op :=
| OCall (m : gmethod) (s : sel)                 (* the eight generated methods *)
| OFix (s : sel) | OUnfix (s : sel)
| OSwap (pairs : list (nat * nat)) | OUnswap (pairs : list (nat * nat)).

(* fix / unfix: the level call, then - under the guard read from the source - the change call *)
Definition fix_like (p : splan) (s : sel) (v : bool) (guard : bool -> bool -> bool) : splan * bool :=
  let '(p1, ok1) := write_reg p RFixL s v in
  if negb ok1 then (p1, false)
  else if guard (nonempty (sp_fixc p1)) (any_in (sp_fixc p1)) then write_reg p1 RFixC s v
  else (p1, true).

(* swap / unswap: for a in args: first(a[0]); second(a[1]) *)
Fixpoint swap_like (p : splan) (v : bool) (pairs : list (nat * nat)) : splan * bool :=
  match pairs with
  | [] => (p, true)
  | (a, b) :: rest =>
      let '(p1, ok1) := write_reg p (gen_swap_first) (SNames [a]) v in
      if negb ok1 then (p1, false)
      else let '(p2, ok2) := write_reg p1 (gen_swap_second) (SNames [b]) v in
           if negb ok2 then (p2, false) else swap_like p2 v rest
  end.

Definition step (p : splan) (o : op) : splan * bool :=
  match o with
  | OCall m s => write_reg p (gen_method_register m) s (gen_method_status m)
  | OFix s => fix_like p s true gen_fix_guard
  | OUnfix s => fix_like p s false gen_unfix_guard
  | OSwap ps => swap_like p true ps
  | OUnswap ps => swap_like p false ps
  end.

Definition run (p : splan) (h : list op) : splan := fold_left (fun p o => fst (step p o)) h p.

(* the state and the ok flag after every call (what the correspondence compares) *)
Fixpoint run_trace (p : splan) (h : list op) : list (splan * bool) :=
  match h with
  | [] => []
  | o :: r => let '(p1, ok) := step p o in (p1, ok) :: run_trace p1 r
  end.

(* _get_names_from_register; is_empty *)
Definition names_on (g : register) : list nat := map fst (filter snd g).
Definition is_on (g : register) (n : nat) : bool := existsb (fun kv => Nat.eqb (fst kv) n && snd kv) g.
Definition plan_is_empty (p : splan) : bool :=
  negb (any_in (sp_exog p) || any_in (sp_endog p) || any_in (sp_fixl p) || any_in (sp_fixc p)).

(* what _resolve_steady_wrt reads off the plan (None / empty plan: four empty tuples) *)
Definition plan_view (p : option splan) : plan :=
  match p with
  | None => mkPlan [] [] [] []
  | Some p => if plan_is_empty p then mkPlan [] [] [] []
              else mkPlan (names_on (sp_exog p)) (names_on (sp_endog p)) (names_on (sp_fixl p)) (names_on (sp_fixc p))
  end.

(* _resolve_steady_wrt written with the set algebra regenerated from the source (sorted qids) *)
Definition resolve_wrt_gen (kinds : list qkind) (p : plan) : list nat * list nat * list nat :=
  let n := length kinds in
  (filter (fun q => gen_wrt_member (is_endog (kind_of kinds q)) (mem_nat q (p_exogenized p)) (mem_nat q (p_endogenized p)))
          (seq 0 n),
   filter (fun q => mem_nat q (p_fixed_level p)) (seq 0 n),
   filter (fun q => gen_fixed_change_member (mem_nat q (p_fixed_change p)) (mem_nat q (p_endogenized p))) (seq 0 n)).

(* _resolve_split_into_blocks *)
Definition resolve_split (user : option bool) (p : option splan) : bool :=
  match user with
  | Some b => b
  | None => match p with
            | None => true
            | Some p => negb (any_in (sp_fixl p) || any_in (sp_fixc p))
            end
  end.

(* the unknowns handed to the solver for a block with quantities [bq] *)
Definition level_unknowns (kinds : list qkind) (p : plan) (bq : list nat) : list nat :=
  sorted_minus (length kinds) bq (snd (fst (resolve_wrt kinds p))).
Definition change_unknowns (kinds : list qkind) (p : plan) (bq : list nat) : list nat :=
  sorted_minus (length kinds) bq (snd (resolve_wrt kinds p)).

(* _steady_linear: the first-order system whose stacked form is solved is that of the descriptor named in the
   source; [sys_of d] is the system of descriptor d *)
Definition linear_system {S : Type} (sys_of : descriptor -> S) : S := sys_of gen_linear_systemized_descriptor.
Definition linear_tokens {S : Type} (toks_of : descriptor -> S) : S := toks_of gen_linear_token_descriptor.

(* ------------------------------------------------------------------ comparison helpers for the case files *)
Fixpoint reg_eqb (a b : register) : bool :=
  match a, b with
  | [], [] => true
  | (n, v) :: a', (m, w) :: b' => Nat.eqb n m && Bool.eqb v w && reg_eqb a' b'
  | _, _ => false
  end.
Definition splan_eqb (a b : splan) : bool :=
  reg_eqb (sp_exog a) (sp_exog b) && reg_eqb (sp_endog a) (sp_endog b) &&
  reg_eqb (sp_fixl a) (sp_fixl b) && reg_eqb (sp_fixc a) (sp_fixc b).
Fixpoint trace_eqb (a b : list (splan * bool)) : bool :=
  match a, b with
  | [], [] => true
  | (p, x) :: a', (q, y) :: b' => splan_eqb p q && Bool.eqb x y && trace_eqb a' b'
  | _, _ => false
  end.
Definition triple_eqb (a b : list nat * list nat * list nat) : bool :=
  nlist_eqb (fst (fst a)) (fst (fst b)) && nlist_eqb (snd (fst a)) (snd (fst b)) && nlist_eqb (snd a) (snd b).

(* one correspondence case: model-side values computed from (kinds, flat, history), implementation-side values recorded *)
Record plan_case := mkPC {
  pc_kinds : list qkind; pc_flat : bool; pc_endog : list nat; pc_params : list nat; pc_hist : list op;
  pc_trace : list (splan * bool);                         (* registers and ok flag after every call *)
  pc_wrt : list nat * list nat * list nat;                (* _resolve_steady_wrt(...).qids / fixed_level_qids / fixed_change_qids *)
  pc_split : bool                                         (* _resolve_split_into_blocks(None, plan) *)
}.
Definition plan_case_ok (c : plan_case) : bool :=
  let p0 := init_plan (pc_endog c) (pc_params c) (pc_flat c) in
  let pf := run p0 (pc_hist c) in
  trace_eqb (run_trace p0 (pc_hist c)) (pc_trace c) &&
  triple_eqb (resolve_wrt (pc_kinds c) (plan_view (Some pf))) (pc_wrt c) &&
  triple_eqb (resolve_wrt_gen (pc_kinds c) (plan_view (Some pf))) (pc_wrt c) &&
  Bool.eqb (resolve_split None (Some pf)) (pc_split c).
Fixpoint failing_plan_cases (cs : list plan_case) (i : nat) : list nat :=
  match cs with
  | [] => []
  | c :: r => if plan_case_ok c then failing_plan_cases r (S i) else i :: failing_plan_cases r (S i)
  end.
