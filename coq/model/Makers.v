(* C04: how the text of a compiled equation becomes a Python function (irispie/makers.py), as a state machine over
   sessions of calls.  Executable model, no proofs here.

   make_function(func_name, args, expression, context) builds the source text of a def, prepares a globals dict from the
   context (the user functions) and the function adaptations, and executes the text in it.  Whatever module-level table the
   implementation consults on the way is the state threaded through a session ([table]); which one is consulted
   (mk_cache) and the shapes (mk_func_str_parts, mk_prepare_steps, mk_adaptation_names, eq_...) come from gen/MakersGen.v,
   regenerated from the source on every run by translator/makers.py (fail closed).

   Python's exec / function objects are a black box: Section variable [exec_def]. *)
From Coq Require Import String List Bool ZArith.
From Verif Require Import lib.MakersSyntax gen.MakersGen.
Import ListNotations.
Open Scope string_scope.

(* ---- Python dicts: association lists in insertion order, unique keys ---- *)
Section Dict.
Context {V : Type}.
Definition dict := list (string * V).

Fixpoint dict_get (k : string) (d : dict) : option V :=
  match d with
  | [] => None
  | (k', v) :: r => if String.eqb k k' then Some v else dict_get k r
  end.

(* d[k] = v : an existing key keeps its position *)
Fixpoint dict_set (k : string) (v : V) (d : dict) : dict :=
  match d with
  | [] => [(k, v)]
  | (k', v') :: r => if String.eqb k k' then (k', v) :: r else (k', v') :: dict_set k v r
  end.

(* d1 | d2  (and d1.update(d2)) *)
Definition dict_union (d1 d2 : dict) : dict := fold_left (fun d kv => dict_set (fst kv) (snd kv) d) d2 d1.
End Dict.
Arguments dict : clear implicits.

Section Makers.
Variable V : Type.                    (* Python objects a context / a globals dict holds *)
Variable F : Type.                    (* function objects *)
Variable v_empty_dict : V.            (* {} *)
Variable v_adapt : string -> V.       (* irispie.aldi.adaptations.<name> *)
Variable v_fun : F -> V.              (* a function object as a dict value *)
(* exec(func_str, globals_); globals_[func_name] -- the function object Python makes from the text of a def
   executed in the given globals dict (its free names are looked up in that dict) *)
Variable exec_def : string -> string -> dict V -> F.

Record request := mkReq { rq_name : string; rq_args : list string; rq_expr : string; rq_ctx : dict V }.
Record result := mkRes { rs_func : F; rs_str : string; rs_globals : dict V }.

Definition func_str_of (name : string) (args : list string) (expr : string) : string :=
  String.concat "" (map (fun p => match p with
                                  | FLit s => s
                                  | FName => name
                                  | FArgs => String.concat mk_args_sep args
                                  | FExpr => expr
                                  end) mk_func_str_parts).
Definition func_str (r : request) : string := func_str_of (rq_name r) (rq_args r) (rq_expr r).

Definition prepare_step (ctx : dict V) (g : dict V) (st : gstep) : dict V :=
  match st with
  | GContext => dict_union g ctx
  | GSetEmptyDict k => dict_set k v_empty_dict g
  | GAdaptations => fold_left (fun d n => dict_set n (v_adapt n) d) mk_adaptation_names g
  end.
Definition prepare_globals (ctx : dict V) : dict V := fold_left (prepare_step ctx) mk_prepare_steps [].

(* the function determined by the request alone: text and context *)
Definition compile (r : request) : result :=
  let g := prepare_globals (rq_ctx r) in
  let s := func_str r in
  let f := exec_def s (rq_name r) g in
  mkRes f s (dict_set (rq_name r) (v_fun f) g).

(* ---- the session: module-level state threaded through the calls ---- *)
Definition table := list (string * result).

Definition make_function_keyed (key : option (request -> string)) (tb : table) (r : request) : table * result :=
  match key with
  | None => (tb, compile r)
  | Some k =>
      match dict_get (k r) tb with
      | Some res => (tb, res)
      | None => let res := compile r in (dict_set (k r) res tb, res)
      end
  end.

Definition key_of (c : cache_mode) : option (request -> string) :=
  match c with CacheNone => None | CacheBySource => Some func_str end.

Fixpoint run_session_keyed (key : option (request -> string)) (tb : table) (reqs : list request) : list result :=
  match reqs with
  | [] => []
  | r :: rs => let '(tb', res) := make_function_keyed key tb r in res :: run_session_keyed key tb' rs
  end.

(* the implementation as it is (mk_cache is generated) *)
Definition make_function : table -> request -> table * result := make_function_keyed (key_of mk_cache).
Definition run_session (reqs : list request) : list result := run_session_keyed (key_of mk_cache) [] reqs.

(* remake_function(func_name, func_str, context): after copying / unpickling *)
Definition remake_function (name s : string) (ctx : dict V) : F := exec_def s name (prepare_globals ctx).

(* equators/plain.py _create_function: one function for all the equations of an equator *)
Definition equator_request (xtrings : list string) (ctx : dict V) : request :=
  mkReq eq_func_name eq_args (eq_expr_prefix ++ String.concat eq_expr_sep xtrings ++ eq_expr_suffix) ctx.

(* a session of models: every model makes its equators one after the other (dynamic, steady, ...) *)
Definition model_requests (m : list (list string) * dict V) : list request :=
  map (fun xs => equator_request xs (snd m)) (fst m).
End Makers.

(* ---- a symbolic instance, evaluated by the correspondence cases: objects are tokens, a function object is the
        triple (text, name, globals it was compiled in) ---- *)
Definition SV := string.
Definition SF := (string * string * dict SV)%type.
Definition s_exec (s n : string) (g : dict SV) : SF := (s, n, g).
Definition s_vfun (f : SF) : SV := "<function " ++ snd (fst f) ++ ">".
Definition s_request := request SV.
Definition s_run (c : cache_mode) (reqs : list s_request) : list (result SV SF) :=
  run_session_keyed SV SF "{}" (fun n => "adapt:" ++ n) s_vfun s_exec (key_of SV c) [] reqs.
(* what the harness observes of a result: the text, and the (name, object) entries of the globals of the function *)
Definition s_observe (r : result SV SF) : string * dict SV * dict SV := (rs_str SV SF r, rs_globals SV SF r, snd (rs_func SV SF r)).
Definition s_session (reqs : list s_request) := map s_observe (s_run mk_cache reqs).

Fixpoint str_list_eqb (a b : list (string * string)) : bool :=
  match a, b with
  | [], [] => true
  | (x, y) :: r, (x', y') :: r' => String.eqb x x' && String.eqb y y' && str_list_eqb r r'
  | _, _ => false
  end.
Definition obs_eqb (a b : string * dict SV * dict SV) : bool :=
  String.eqb (fst (fst a)) (fst (fst b)) && str_list_eqb (snd (fst a)) (snd (fst b)) && str_list_eqb (snd a) (snd b).
Fixpoint obs_failing (model impl : list (string * dict SV * dict SV)) (i : nat) : list nat :=
  match model, impl with
  | [], [] => []
  | m :: ms, x :: xs => if obs_eqb m x then obs_failing ms xs (S i) else i :: obs_failing ms xs (S i)
  | _, _ => [i]
  end.
