(* Hand-written executable model of Sequential.simulate (sequentials/_simulate.py::_simulate_v,
   _get_transform, _detect_exogenized; explanatories/main.py::Explanatory).  The formulas (LHS transforms and
   their inverses, the residual body, the implied levels of the plan transforms, the writes performed by
   Explanatory.simulate / Explanatory.exogenize) come from gen/TransformsGen.v, regenerated from the source on
   every run.  NO proofs in this file.

   Data: the working array of the dataslate, rows = names, columns = periods, as a total function
   row -> column -> value.  Columns are integers (any origin); a token  name[s]  evaluated at column t reads
   column t+s.  Parameters are rows like any other (the dataslate fills them with a constant). *)
From Coq Require Import ZArith List Bool.
From Verif Require Import lib.Arith gen.TransformsGen.
Import ListNotations.
Open Scope Z_scope.

Section SequentialModel.
Variable A : Arith.
Notation V := (car A).

Definition data := nat -> Z -> V.

Definition upd (d : data) (r : nat) (c : Z) (v : V) : data :=
  fun r' c' => if (Nat.eqb r' r && Z.eqb c' c)%bool then v else d r' c'.

(* right-hand sides: arithmetic over tokens row[shift] and constants; log/exp are the context functions *)
Inductive expr :=
| ECst (v : V)
| EVar (r : nat) (s : Z)
| EAdd (a b : expr) | ESub (a b : expr) | EMul (a b : expr) | EDiv (a b : expr)
| ENeg (a : expr) | ELn (a : expr) | EExp (a : expr).

Fixpoint eval (e : expr) (d : data) (t : Z) : V :=
  match e with
  | ECst v => v
  | EVar r s => d r (t + s)
  | EAdd a b => add A (eval a d t) (eval b d t)
  | ESub a b => sub A (eval a d t) (eval b d t)
  | EMul a b => mul A (eval a d t) (eval b d t)
  | EDiv a b => div A (eval a d t) (eval b d t)
  | ENeg a => neg A (eval a d t)
  | ELn a => ln A (eval a d t)
  | EExp a => exp A (eval a d t)
  end.

(* tokens (row, shift) occurring in an expression *)
Fixpoint vars (e : expr) : list (nat * Z) :=
  match e with
  | ECst _ => []
  | EVar r s => [(r, s)]
  | EAdd a b | ESub a b | EMul a b | EDiv a b => vars a ++ vars b
  | ENeg a | ELn a | EExp a => vars a
  end.

(* ---- LHS transforms (explanatories/_transforms.py) ---- *)
Inductive transform := TNone | TLog | TDiff | TDiffLog | TRoc | TPct.

Definition lhs_level (tr : transform) : V -> V -> V :=
  match tr with
  | TNone => lhs_level_none A | TLog => lhs_level_log A | TDiff => lhs_level_diff A
  | TDiffLog => lhs_level_diff_log A | TRoc => lhs_level_roc A | TPct => lhs_level_pct A
  end.
Definition lhs_level_shift (tr : transform) : Z :=
  match tr with
  | TNone => lhs_level_none_shift | TLog => lhs_level_log_shift | TDiff => lhs_level_diff_shift
  | TDiffLog => lhs_level_diff_log_shift | TRoc => lhs_level_roc_shift | TPct => lhs_level_pct_shift
  end.
Definition lhs_of_level (tr : transform) : V -> V -> V :=
  match tr with
  | TNone => lhs_of_level_none A | TLog => lhs_of_level_log A | TDiff => lhs_of_level_diff A
  | TDiffLog => lhs_of_level_diff_log A | TRoc => lhs_of_level_roc A | TPct => lhs_of_level_pct A
  end.
Definition lhs_of_level_shift (tr : transform) : Z :=
  match tr with
  | TNone => lhs_of_level_none_shift | TLog => lhs_of_level_log_shift | TDiff => lhs_of_level_diff_shift
  | TDiffLog => lhs_of_level_diff_log_shift | TRoc => lhs_of_level_roc_shift | TPct => lhs_of_level_pct_shift
  end.

(* ---- explanatory equations ---- *)
(* e_res = None: identity (no residual, never exogenized) *)
Record eqn := mkEqn { e_lhs : nat; e_tr : transform; e_rhs : expr; e_res : option nat }.

(* the RHS as the makers see it: the residual term is appended for non-identities *)
Definition rhs_total (e : eqn) (t : Z) (d : data) : V :=
  match e_res e with
  | Some r => rhs_with_residual A (eval (e_rhs e) d t) (d r t)
  | None => eval (e_rhs e) d t
  end.

(* Explanatory.eval_level: level template applied to the RHS and the lagged LHS token *)
Definition eval_level (e : eqn) (t : Z) (d : data) : V :=
  lhs_level (e_tr e) (rhs_total e t d) (d (e_lhs e) (t + lhs_level_shift (e_tr e))).

(* the LHS of the equation as written (transform of the level) *)
Definition lhs_value (e : eqn) (t : Z) (d : data) : V :=
  lhs_of_level (e_tr e) (d (e_lhs e) t) (d (e_lhs e) (t + lhs_of_level_shift (e_tr e))).

(* Explanatory.eval_residual *)
Definition eval_residual (e : eqn) (t : Z) (d : data) : V :=
  residual_body A (lhs_value e t d) (rhs_total e t d).

Definition get_lhs (e : eqn) (t : Z) (d : data) : V := d (e_lhs e) t.
Definition get_res (e : eqn) (t : Z) (d : data) : V :=
  match e_res e with Some r => d r t | None => miss A end.
Definition set_lhs (e : eqn) (t : Z) (d : data) (v : V) : data := upd d (e_lhs e) t v.
Definition set_res (e : eqn) (t : Z) (d : data) (v : V) : data :=
  match e_res e with Some r => upd d r t v | None => d end.

(* Explanatory.simulate / Explanatory.exogenize at one cell *)
Definition simulate_cell (e : eqn) (t : Z) (d : data) : data :=
  simulate_gen A data (get_lhs e t) (get_res e t) (set_lhs e t) (set_res e t) (eval_level e t) (eval_residual e t)
               (miss A) d.
Definition exogenize_cell (e : eqn) (t : Z) (v : V) (d : data) : data :=
  exogenize_gen A data (get_lhs e t) (get_res e t) (set_lhs e t) (set_res e t) (eval_level e t) (eval_residual e t)
                v d.

(* ---- simulation plans (plans/transforms.py, plans/simulation_plans.py) ---- *)
Inductive pkind := PNone | PLog | PDiff | PDiffLog | PRoc | PPct | PFlat.

Definition plan_implied (k : pkind) : V -> V -> V :=
  match k with
  | PNone => plan_implied_none A | PLog => plan_implied_log A | PDiff => plan_implied_diff A
  | PDiffLog => plan_implied_diff_log A | PRoc => plan_implied_roc A | PPct => plan_implied_pct A
  | PFlat => plan_implied_flat A
  end.

(* one exogenized point: transform kind, when_data flag, shift of the reference value, the row of the
   databox series holding the exogenized (transformed) values, if the transform has one *)
Record ppoint := mkPP { p_kind : pkind; p_when_data : bool; p_shift : Z; p_row : option nat }.

(* the exogenized register: LHS row -> column -> point *)
Definition plan := nat -> Z -> option ppoint.

Definition plan_of_list (l : list ((nat * Z) * ppoint)) : plan :=
  fun r t =>
    match find (fun x => (Nat.eqb (fst (fst x)) r && Z.eqb (snd (fst x)) t)%bool) l with
    | Some x => Some (snd x)
    | None => None
    end.

(* _get_transform: identities are never exogenized *)
Definition get_transform (pl : plan) (e : eqn) (t : Z) : option ppoint :=
  match e_res e with Some _ => pl (e_lhs e) t | None => None end.

(* _detect_exogenized: values_before[shift] is the LHS row at column t+shift (shift < 0),
   exogenized_values_after[0] the transformed series at column t *)
Definition detect (p : option ppoint) (lhs : nat) (t : Z) (d : data) : option V :=
  match p with
  | None => None
  | Some pp =>
      let exo := match p_row pp with Some r => d r t | None => miss A end in
      let v := plan_implied (p_kind pp) exo (d lhs (t + p_shift pp)) in
      if (p_when_data pp && is_miss A v)%bool then None else Some v
  end.

(* one iteration of the loop of _simulate_v *)
Definition step (pl : plan) (s : Z * eqn) (d : data) : data :=
  let '(t, e) := s in
  match detect (get_transform pl e t) (e_lhs e) t d with
  | None => simulate_cell e t d
  | Some v => exogenize_cell e t v d
  end.

Definition run (pl : plan) (steps : list (Z * eqn)) (d : data) : data :=
  fold_left (fun d s => step pl s d) steps d.

(* _iter_dates_equations / _iter_equations_dates *)
Definition steps_dates_equations (cols : list Z) (eqs : list eqn) : list (Z * eqn) :=
  flat_map (fun t => map (fun e => (t, e)) eqs) cols.
Definition steps_equations_dates (cols : list Z) (eqs : list eqn) : list (Z * eqn) :=
  flat_map (fun e => map (fun t => (t, e)) cols) eqs.

Inductive order := DatesEquations | EquationsDates.
Definition steps_of (o : order) := match o with DatesEquations => steps_dates_equations
                                              | EquationsDates => steps_equations_dates end.

Definition simulate_model (pl : plan) (o : order) (cols : list Z) (eqs : list eqn) (d : data) : data :=
  run pl (steps_of o cols eqs) d.

(* ---- helpers for the generated correspondence cases ---- *)
Definition data_of_rows (rows : list (list V)) : data :=
  fun r c => if c <? 0 then miss A else nth (Z.to_nat c) (nth r rows []) (miss A).

Definition out_cells (d : data) (cells : list (nat * Z)) : list V :=
  map (fun rc => d (fst rc) (snd rc)) cells.

(* is_finite, as seen by the non-finite stream: x - x is NaN exactly for NaN and the infinities *)
Definition nonfinite (x : V) : bool := is_miss A (sub A x x).

(* the value Explanatory.simulate / exogenize report in "simulated_value" for one step *)
Definition reported (pl : plan) (s : Z * eqn) (d : data) : V :=
  let '(t, e) := s in
  match detect (get_transform pl e t) (e_lhs e) t d with
  | None => step pl s d (e_lhs e) t
  | Some _ => get_res e t (step pl s d)
  end.

(* number of steps that reported a non-finite value (what when_simulates_nan reacts to) *)
Fixpoint count_nonfinite (pl : plan) (steps : list (Z * eqn)) (d : data) : nat :=
  match steps with
  | [] => O
  | s :: r => ((if nonfinite (reported pl s d) then 1 else 0) + count_nonfinite pl r (step pl s d))%nat
  end.

End SequentialModel.

Arguments e_lhs {A} _.
Arguments e_tr {A} _.
Arguments e_rhs {A} _.
Arguments e_res {A} _.
