(* The public operations of irispie.Series over the model of model/Series.v, and a
   register machine that replays histories of operations (C10).  NO proofs here. *)
From Coq Require Import ZArith List Bool Lia.
From Verif Require Import lib.Arith model.Series.
Import ListNotations.
Open Scope Z_scope.

Section SeriesOps.
Variable A : Arith.
Notation V := (car A).
Notation series := (series A).

(* operations the Arith record does not carry; instantiated by PrimFloat for the correspondence *)
Record ArithExt := mkExt {
  x_abs : V -> V;
  x_sqrt : V -> V;
  x_ltb : V -> V -> bool;        (* IEEE <, false on NaN *)
  x_eqb : V -> V -> bool;        (* IEEE ==, false on NaN *)
}.
Variable X : ArithExt.

Definition is_obs (v : V) : bool := negb (is_miss A v).
Definition zero : V := ofZ A 0.
Definition one : V := ofZ A 1.
Definition of_bool (b : bool) : V := if b then one else zero.

(* ---- reading ---- *)
Definition select_cols (vids : option (list nat)) (r : list V) : list V :=
  match vids with None => r | Some l => map (fun c => nth c r (miss A)) l end.

(* Series.__call__(dates, variants): a new series holding the addressed cells *)
Definition recreate (fr : Z) (s : series) (dates : list Z) (vids : option (list nat)) : series :=
  let nv' := match vids with None => s_nv s | Some l => length l end in
  set_data A fr (empty_series A nv') dates (map (fun t => select_cols vids (row_at A s t)) dates) None.

(* ---- clip ---- *)
Definition clip (s : series) (a b : option Z) : res series :=
  match s_start s, s_end A s with
  | Some st, Some en =>
      let ns := match a with None => st | Some x => Z.max x st end in
      let ne := match b with None => en | Some x => Z.min x en end in
      if (ns =? st) && (ne =? en) then Ok s
      else Ok (mkSeries (s_freq s) (Some ns) (s_nv s) (get_data_from_until A s ns ne))
  | _, _ => Ok s          (* empty series: nothing to clip *)
  end.

(* ---- variants ---- *)
Definition bcast_series (s : series) (n : nat) : res series :=
  if Nat.eqb (s_nv s) n then Ok s
  else if Nat.eqb (s_nv s) 1 then
    Ok (mkSeries (s_freq s) (s_start s) n (map (fun r => repeat (nth 0 r (miss A)) n) (s_data s)))
  else Err 2.

Definition alter_num_variants (s : series) (n : nat) : series :=
  let f r := firstn n r ++ repeat (last r (miss A)) (n - length r) in
  mkSeries (s_freq s) (s_start s) n (map f (s_data s)).

(* ---- overlay / underlay (by span) ---- *)
Definition span_list (s : series) : list Z :=
  match s_start s, s_end A s with Some st, Some en => zrange st (en + 1) | _, _ => [] end.

Definition freq_clash (s1 s2 : series) : bool :=
  match s_start s1, s_start s2 with Some _, Some _ => negb (s_freq s1 =? s_freq s2) | _, _ => false end.

Definition overlay_core (s other : series) : series :=
  trim A (set_data A (s_freq other) s (span_list other) (s_data other) None).

(* returns the new receiver; [other] itself is never modified *)
Definition overlay (s other : series) : res series :=
  if freq_clash s other then Err 2 else
  if Nat.eqb (s_nv s) (s_nv other) then Ok (overlay_core s other)
  else if Nat.eqb (s_nv s) 1 then
    match bcast_series s (s_nv other) with Ok s' => Ok (overlay_core s' other) | Err e => Err e end
  else if Nat.eqb (s_nv other) 1 then
    match bcast_series other (s_nv s) with Ok o' => Ok (overlay_core s o') | Err e => Err e end
  else Err 2.

Definition underlay (s other : series) : res series :=
  if freq_clash s other then Err 2 else
  if Nat.eqb (s_nv s) (s_nv other) then Ok (overlay_core other s)
  else if Nat.eqb (s_nv s) 1 then
    match bcast_series s (s_nv other) with Ok s' => Ok (overlay_core other s') | Err e => Err e end
  else if Nat.eqb (s_nv other) 1 then
    match bcast_series other (s_nv s) with Ok o' => Ok (overlay_core o' s) | Err e => Err e end
  else Err 2.

(* ---- hstack (&) ---- *)
Definition hstack (s1 s2 : series) : res series :=
  match s_start s1, s_start s2 with
  | None, None => Ok (empty_series A (s_nv s1 + s_nv s2))
  | _, _ =>
      if freq_clash s1 s2 then Err 2 else
      match omin (s_start s1) (s_start s2), omax (s_end A s1) (s_end A s2) with
      | Some lo, Some hi =>
          let fr := match s_start s1 with Some _ => s_freq s1 | None => s_freq s2 end in
          Ok (build A fr (s_nv s1 + s_nv s2) lo hi (fun t => row_at A s1 t ++ row_at A s2 t))
      | _, _ => Err 1
      end
  end.

(* ---- scalar operators: Series.apply(lambda data: func(data, c)) ---- *)
Definition scalar_op (f : V -> V) (s : series) : series := map_data A f s.

(* -self : no trim ; abs(): in place, no trim *)
Definition map_notrim (f : V -> V) (s : series) : series :=
  mkSeries (s_freq s) (s_start s) (s_nv s) (map (map f) (s_data s)).

(* ---- moving windows ---- *)
Definition window_rows (s : series) (i : nat) (k : nat) : list (list V) :=
  (* rows i-k+1 .. i of the stored data, missing rows before the first *)
  map (fun j => let idx := (Z.of_nat i - Z.of_nat k + 1 + Z.of_nat j) in
                if idx <? 0 then missrow A (s_nv s) else nth (Z.to_nat idx) (s_data s) (missrow A (s_nv s)))
      (seq 0 k).

Definition col_of (rows : list (list V)) (c : nat) : list V := map (fun r => nth c r (miss A)) rows.

Definition fold1 (f : V -> V -> V) (l : list V) (d : V) : V :=
  match l with [] => d | x :: r => fold_left f r x end.

Inductive mov_kind := MovSum | MovAvg | MovProd.

Definition mov_value (m : mov_kind) (k : nat) (w : list V) : V :=
  match m with
  | MovSum => fold1 (add A) w zero
  | MovAvg => div A (fold1 (add A) w zero) (ofZ A (Z.of_nat k))
  | MovProd => fold1 (mul A) w one
  end.

Definition moving (m : mov_kind) (k : nat) (s : series) : res series :=
  match s_data s with
  | [] => Err 3
  | _ =>
    if Nat.eqb k 0 then Err 3 else
    Ok (trim A (mkSeries (s_freq s) (s_start s) (s_nv s)
          (map (fun i => map (fun c => mov_value m k (col_of (window_rows s i k) c)) (seq 0 (s_nv s)))
               (seq 0 (length (s_data s))))))
  end.

(* ---- statistics across variants (axis=1) ---- *)
Inductive stat_kind := StSum | StMean | StProd | StMax | StMin | StNanSum | StNanProd | StNanMax | StNanMin | StNanMean.

Definition fmax (a b : V) : V :=       (* numpy.maximum reduction: NaN propagates *)
  if is_miss A a then a else if is_miss A b then b else if x_ltb X a b then b else a.
Definition fmin (a b : V) : V :=
  if is_miss A a then a else if is_miss A b then b else if x_ltb X b a then b else a.

Definition stat_value (k : stat_kind) (r : list V) : V :=
  let obs := filter is_obs r in
  match k with
  | StSum => fold1 (add A) r zero
  | StMean => div A (fold1 (add A) r zero) (ofZ A (Z.of_nat (length r)))
  | StProd => fold1 (mul A) r one
  | StMax => fold1 fmax r (miss A)
  | StMin => fold1 fmin r (miss A)
  | StNanSum => fold_left (add A) (map (fun v => if is_miss A v then zero else v) r) zero
  | StNanProd => fold_left (mul A) (map (fun v => if is_miss A v then one else v) r) one
  | StNanMax => fold1 fmax obs (miss A)
  | StNanMin => fold1 fmin obs (miss A)
  | StNanMean => div A (fold_left (add A) (map (fun v => if is_miss A v then zero else v) r) zero)
                     (ofZ A (Z.of_nat (length obs)))
  end.

Definition statistic (k : stat_kind) (s : series) : series :=
  trim A (mkSeries (s_freq s) (s_start s) 1 (map (fun r => [stat_value k r]) (s_data s))).

(* ---- fill_missing ---- *)
Inductive fill_kind := FillNext | FillPrev | FillNearest | FillLinear | FillConst (c : V) | FillSeries (x : series).

Definition obs_indexes (col : list V) : list nat :=
  map fst (filter (fun p => is_obs (snd p)) (combine (seq 0 (length col)) col)).

Definition next_obs (i : nat) (obs : list nat) : option nat :=
  hd_error (filter (fun j => Nat.leb i j) obs).
Definition prev_obs (i : nat) (obs : list nat) : option nat :=
  hd_error (rev (filter (fun j => Nat.leb j i) obs)).
Definition absdiff (a b : nat) : nat := if Nat.leb a b then (b - a)%nat else (a - b)%nat.
Definition nearest_obs (i : nat) (obs : list nat) : option nat :=
  (* first index attaining the minimum distance (numpy.argmin) *)
  fold_left (fun best j => match best with
                           | None => Some j
                           | Some b => if Nat.ltb (absdiff i j) (absdiff i b) then Some j else Some b
                           end) obs None.

Definition fill_col (k : fill_kind) (dates : list Z) (colidx : nat) (col : list V) : list V :=
  let obs := obs_indexes col in
  let at_ j := nth j col (miss A) in
  match obs with
  | [] => match k with
          | FillConst c => map (fun v => if is_miss A v then c else v) col
          | FillSeries x => map (fun '(t, v) => if is_miss A v then nth 0 (row_at A x t) (miss A) else v) (combine dates col)
          | _ => col
          end
  | _ =>
    map (fun '(i, v) =>
      if is_obs v then v else
      match k with
      | FillNext => match next_obs i obs with Some j => at_ j | None => miss A end
      | FillPrev => match prev_obs i obs with Some j => at_ j | None => miss A end
      | FillNearest => match nearest_obs i obs with Some j => at_ j | None => miss A end
      | FillLinear =>
          match prev_obs i obs, next_obs i obs with
          | Some p, Some n =>
              add A (at_ p) (mul A (sub A (at_ n) (at_ p))
                                 (div A (ofZ A (Z.of_nat i - Z.of_nat p)) (ofZ A (Z.of_nat n - Z.of_nat p))))
          | Some p, None => at_ p
          | None, Some n => at_ n
          | None, None => v
          end
      | FillConst c => c
      | FillSeries x => nth 0 (row_at A x (nth i dates 0)) (miss A)
      end) (combine (seq 0 (length col)) col)
  end.

Definition transpose_cols (cols : list (list V)) (n : nat) : list (list V) :=
  (* rows 0..n-1 from a list of columns *)
  map (fun i => map (fun c => nth i c (miss A)) cols) (seq 0 n).

(* Series.fill_missing(method, args, span): span = explicit dates, or the whole series *)
Definition fill_missing (fr : Z) (k : fill_kind) (span : option (list Z)) (s : series) : series :=
  let dates := match span with Some d => d | None => span_list s end in
  let rows := get_data A s dates in
  let cols := map (fun c => fill_col k dates c (col_of rows c)) (seq 0 (s_nv s)) in
  (* the data is passed as a list of variants, so set_data always reaches its final trim, also for no dates *)
  trim A (set_data A fr s dates (transpose_cols cols (length dates)) None).

(* ---- register machine ---- *)
Inductive sop :=
  | OpSet (dst : nat) (fr : Z) (dates : list Z) (rows : list (list V)) (vids : option (list nat))
  | OpGet (dst src : nat) (fr : Z) (dates : list Z) (vids : option (list nat))
  | OpCopy (dst src : nat)
  | OpShift (dst src : nat) (k : Z)                      (* dst = src[k]; dst = src is the in-place method *)
  | OpClip (dst : nat) (a b : option Z)
  | OpOverlay (dst src : nat) (under : bool)             (* in place on dst *)
  | OpOverlayF (dst a b : nat) (under : bool)            (* dst = irispie.overlay(a, b) *)
  | OpHstack (dst a b : nat)
  | OpBin (dst a b : nat) (code : nat)                   (* 0 + 1 - 2 * 3 / 4 < 5 == *)
  | OpScalar (dst src : nat) (code : nat) (c : V) (cfirst : bool)   (* src op c, or c op src when right *)
  | OpNeg (dst src : nat)
  | OpAbs (dst : nat)
  | OpSqrt (dst : nat)
  | OpMov (dst src : nat) (m : mov_kind) (k : nat)
  | OpStat (dst src : nat) (k : stat_kind)
  | OpFill (dst src : nat) (fr : Z) (k : fill_kind) (span : option (list Z))
  | OpFillFrom (dst src from : nat) (fr : Z) (span : option (list Z))
  | OpAlterNv (dst : nat) (n : nat).

Definition binfun (code : nat) : V -> V -> V :=
  match code with
  | 0%nat => add A | 1%nat => sub A | 2%nat => mul A | 3%nat => div A
  | 4%nat => fun a b => of_bool (x_ltb X a b)
  | _ => fun a b => of_bool (x_eqb X a b)
  end.

Definition regs := list series.
Definition getr (rs : regs) (i : nat) : series := nth i rs (empty_series A 1).
Fixpoint setr (rs : regs) (i : nat) (s : series) : regs :=
  match rs, i with
  | [], _ => []
  | _ :: r, O => s :: r
  | x :: r, S j => x :: setr r j s
  end.

(* result written to the destination register (or the error class; registers then unchanged) *)
Definition exec (rs : regs) (o : sop) : nat * res series :=
  match o with
  | OpSet d fr dates rows vids => (d, Ok (set_data A fr (getr rs d) dates rows vids))
  | OpGet d s fr dates vids => (d, Ok (recreate fr (getr rs s) dates vids))
  | OpCopy d s => (d, Ok (getr rs s))
  | OpShift d s k => (d, Ok (shift_by A (getr rs s) k))
  | OpClip d a b => (d, clip (getr rs d) a b)
  | OpOverlay d s under => (d, if under then underlay (getr rs d) (getr rs s) else overlay (getr rs d) (getr rs s))
  | OpOverlayF d a b under => (d, if under then underlay (getr rs a) (getr rs b) else overlay (getr rs a) (getr rs b))
  | OpHstack d a b => (d, hstack (getr rs a) (getr rs b))
  | OpBin d a b code => (d, binop A (binfun code) (getr rs a) (getr rs b))
  | OpScalar d s code c cfirst =>
      (d, Ok (scalar_op (fun v => if cfirst then binfun code c v else binfun code v c) (getr rs s)))
  | OpNeg d s => (d, Ok (map_notrim (neg A) (getr rs s)))
  | OpAbs d => (d, Ok (map_notrim (x_abs X) (getr rs d)))
  | OpSqrt d => (d, Ok (map_notrim (x_sqrt X) (getr rs d)))
  | OpMov d s m k => (d, moving m k (getr rs s))
  | OpStat d s k => (d, Ok (statistic k (getr rs s)))
  | OpFill d s fr k span => (d, Ok (fill_missing fr k span (getr rs s)))
  | OpFillFrom d s f fr span => (d, Ok (fill_missing fr (FillSeries (getr rs f)) span (getr rs s)))
  | OpAlterNv d n => (d, Ok (alter_num_variants (getr rs d) n))
  end.

Definition step (rs : regs) (o : sop) : regs * res series :=
  let '(d, r) := exec rs o in
  match r with
  | Ok s => (setr rs d s, r)
  | Err _ => (rs, r)
  end.

Fixpoint run (rs : regs) (ops : list sop) : regs * list (res series) :=
  match ops with
  | [] => (rs, [])
  | o :: r => let '(rs1, out) := step rs o in
              let '(rs2, outs) := run rs1 r in (rs2, out :: outs)
  end.

End SeriesOps.
