(* Executable model of irispie/incidences/blazer.py (prefetch, triangularize_inner_block,
   _generate_inner_blocks, blaze, sequentialize_strictly, is_sequential) and of
   Sequential.sequentialize / is_sequential / Invariant.reorder_equations.
   NO proofs in this file (coq/proofs/BlazerProofs.v).

   Representation.  The implementation carries a boolean numpy matrix `im` together with
   the tuples `eids`, `qids` that label its rows and columns, and only ever deletes or
   permutes rows and columns.  The model keeps the ORIGINAL incidence `inc e q` fixed and
   carries only the two label lists: "the current matrix" is `inc` restricted to
   `es x qs` in list order.  Deleting rows/columns = filtering the lists, reordering =
   permuting the lists, `im.sum(axis=1)` = counting `inc e` over `qs`, and so on.
   The core runs on row/column POSITIONS of the input matrix (which are distinct labels);
   the caller's id labels are substituted at the end, before `Block` sorts them.  For
   distinct id labels (ids are) this is what the code does; the exact correspondence run
   (harness/C16.py) checks it on every generated matrix and labelling.

   numpy.argsort is not stable: every permutation the code obtains from it is an ORACLE
   argument `oracle : call index -> sorted key -> permutation` (the harness records the
   real ones).  Constants and code shapes come from gen/BlazerGen.v (regenerated from the
   source on every run). *)
From Coq Require Import List Arith Bool PeanoNat.
From Verif Require Import gen.BlazerGen.
Import ListNotations.

(* ------------------------------------------------------------------ list helpers *)

Definition count {A} (f : A -> bool) (l : list A) : nat := length (filter f l).

Definition mem (x : nat) (l : list nat) : bool := existsb (Nat.eqb x) l.

Fixpoint nat_list_eqb (a b : list nat) : bool :=
  match a, b with
  | [], [] => true
  | x :: xs, y :: ys => (x =? y) && nat_list_eqb xs ys
  | _, _ => false
  end.

Definition is_nil {A} (l : list A) : bool := match l with [] => true | _ => false end.

(* numpy fancy indexing  l[p]  *)
Definition permute {A} (d : A) (p : list nat) (l : list A) : list A := map (fun i => nth i l d) p.

(* sorted(...) on ids *)
Fixpoint insert (x : nat) (l : list nat) : list nat :=
  match l with
  | [] => [x]
  | y :: r => if x <=? y then x :: l else y :: insert x r
  end.
Definition sortn (l : list nat) : list nat := fold_right insert [] l.

(* a Block: (eids, qids) *)
Definition block := (list nat * list nat)%type.
Definition beids (bs : list block) : list nat := concat (map fst bs).
Definition bqids (bs : list block) : list nat := concat (map snd bs).

(* Block((eid,), (qid,)) for eid, qid in zip(eids, qids) *)
Definition singles (es qs : list nat) : list block := map (fun eq => ([fst eq], [snd eq])) (combine es qs).

Record prefetched := mkPre {
  p_ef : list nat; p_qf : list nat;     (* eids_first, qids_first *)
  p_el : list nat; p_ql : list nat;     (* eids_last, qids_last *)
  p_ei : list nat; p_qi : list nat      (* remaining (inner) eids, qids *)
}.

Definition oracle_t := nat -> list nat -> list nat.

Section Core.
Variable inc : nat -> nat -> bool.

Definition rowsum (qs : list nat) (e : nat) : nat := count (inc e) qs.                 (* im.sum(axis=1)[e] *)
Definition colsum (es : list nat) (q : nat) : nat := count (fun e => inc e q) es.      (* im.sum(axis=0)[q] *)
Definition msize (es qs : list nat) : nat := length es * length qs.                    (* im.size *)

(* _prefetch_first: (eids_first, qids_first, eids_rem, qids_rem) *)
Definition prefetch_first (es qs : list nat) : list nat * list nat * list nat * list nat :=
  let single e := rowsum qs e =? singleton_row_count in
  let ef := filter single es in
  let qf := map (fun e => hd 0 (filter (inc e) qs)) ef in
  (ef, qf, filter (fun e => negb (single e)) es, filter (fun q => negb (mem q qf)) qs).

(* _prefetch_last: (eids_last, qids_last, eids_rem, qids_rem) *)
Definition prefetch_last (es qs : list nat) : list nat * list nat * list nat * list nat :=
  let single q := colsum es q =? singleton_column_count in
  let ql := filter single qs in
  let el := map (fun q => hd 0 (filter (fun e => inc e q) es)) ql in
  (el, ql, filter (fun e => negb (mem e el)) es, filter (fun q => negb (single q)) qs).

(* prefetch: recursion while the matrix shrinks.  `fuel` bounds the recursion depth; the
   callers pass the size of the matrix, which suffices (BlazerProofs.prefetch_fuel_irrelevant). *)
Fixpoint prefetch (fuel : nat) (es qs : list nat) : prefetched :=
  let '(ef, qf, e1, q1) := prefetch_first es qs in
  let '(el, ql, e2, q2) := prefetch_last e1 q1 in
  let stop := mkPre ef qf el ql e2 q2 in
  if msize e2 q2 <? msize es qs then
    match fuel with
    | 0 => stop
    | S f =>
        let r := prefetch f e2 q2 in
        mkPre (ef ++ p_ef r) (qf ++ p_qf r) (p_el r ++ el) (p_ql r ++ ql) (p_ei r) (p_qi r)
    end
  else stop.

(* triangularize_inner_block: at most max_iterations rounds of
   (reorder columns by incidence count, reorder rows by incidence count), stopping when
   neither id vector changed.  Returns (eids, qids, iterations). *)
Variable oracle : oracle_t.

Definition flip_if (b : bool) (p : list nat) : list nat := if b then rev p else p.

Fixpoint triang (fuel cnt : nat) (es qs : list nat) : list nat * list nat * nat :=
  match fuel with
  | 0 => (es, qs, cnt)
  | S f =>
      let pc := flip_if column_reordering_flips (oracle (2 * cnt) (map (colsum es) qs)) in
      let qs' := permute 0 pc qs in
      let pr := flip_if row_reordering_flips (oracle (2 * cnt + 1) (map (rowsum qs') es)) in
      let es' := permute 0 pr es in
      if nat_list_eqb es es' && nat_list_eqb qs qs' then (es', qs', S cnt)
      else triang f (S cnt) es' qs'
  end.

(* not im[:i, i:].any() *)
Definition corner_zero (i : nat) (es qs : list nat) : bool :=
  forallb (fun e => forallb (fun q => negb (inc e q)) (skipn i qs)) (firstn i es).

(* next(i for i in range(first, first + k) if corner_zero i) *)
Fixpoint find_cut (k i : nat) (es qs : list nat) : option nat :=
  match k with
  | 0 => None
  | S k' => if corner_zero i es qs then Some i else find_cut k' (S i) es qs
  end.

(* _generate_inner_blocks; None = the generator raises (StopIteration -> RuntimeError).
   `fuel` = number of rows suffices (every block has at least one row). *)
Fixpoint gen_blocks (fuel : nat) (es qs : list nat) : option (list block) :=
  if msize es qs =? 0 then Some []
  else match fuel with
       | 0 => None
       | S f =>
           match find_cut (length es + 1 - first_block_size_candidate) first_block_size_candidate es qs with
           | None => None
           | Some bs =>
               match gen_blocks f (skipn bs es) (skipn bs qs) with
               | None => None
               | Some r => Some ((firstn bs es, firstn bs qs) :: r)
               end
           end
       end.

(* blaze on positions: (blocks, prefetched with the inner ids after triangularisation, argsort calls) *)
Definition blaze_core (es qs : list nat) : option (list block * prefetched * nat) :=
  let pre := prefetch (msize es qs) es qs in
  let '(ei, qi, it) :=
    if msize (p_ei pre) (p_qi pre) =? 0 then (p_ei pre, p_qi pre, 0)
    else triang max_iterations 0 (p_ei pre) (p_qi pre) in
  match gen_blocks (length ei) ei qi with
  | None => None
  | Some inner =>
      Some (singles (p_ef pre) (p_qf pre) ++ inner ++ singles (p_el pre) (p_ql pre),
            mkPre (p_ef pre) (p_qf pre) (p_el pre) (p_ql pre) ei qi,
            2 * it)
  end.

End Core.

(* ------------------------------------------------------------------ matrices and labels *)

Definition bmat := list (list bool).
Definition inc_pos (im : bmat) (i j : nat) : bool := nth j (nth i im []) false.
Definition ncols (im : bmat) : nat := length (hd [] im).

Definition lab (ids : list nat) (i : nat) : nat := nth i ids 0.

(* Block.__init__ sorts both id tuples *)
Definition relabel_block (eids qids : list nat) (b : block) : block :=
  (sortn (map (lab eids) (fst b)), sortn (map (lab qids) (snd b))).

Record blaze_out := mkOut {
  o_blocks : list block;
  o_info : prefetched;          (* eids_first ... qids_inner of return_info=True, as labels *)
  o_im_inner : bmat;            (* info["im_inner"] *)
  o_calls : nat                 (* number of numpy.argsort calls consumed *)
}.

Definition blaze (oracle : oracle_t) (im : bmat) (eids qids : list nat) : option blaze_out :=
  let inc := inc_pos im in
  match blaze_core inc oracle (seq 0 (length im)) (seq 0 (ncols im)) with
  | None => None
  | Some (bs, pre, calls) =>
      Some (mkOut (map (relabel_block eids qids) bs)
                  (mkPre (map (lab eids) (p_ef pre)) (map (lab qids) (p_qf pre))
                         (map (lab eids) (p_el pre)) (map (lab qids) (p_ql pre))
                         (map (lab eids) (p_ei pre)) (map (lab qids) (p_qi pre)))
                  (map (fun e => map (inc e) (p_qi pre)) (p_ei pre))
                  calls)
  end.

(* The recorded argsort calls as an oracle.  The calls are stored without repetition
   (`tb`: distinct (key, permutation) pairs; `idx`: for the k-th call, its entry of `tb`).
   The k-th call must have sorted the key the model passes; anything else (other key, more
   calls than recorded) yields [] (not a permutation), which makes the outputs differ. *)
Definition table_oracle (tb : list (list nat * list nat)) (idx : list nat) : oracle_t :=
  fun k v => match nth_error idx k with
             | Some t => match nth_error tb t with
                         | Some (key, p) => if nat_list_eqb key v then p else []
                         | None => []
                         end
             | None => []
             end.

(* ------------------------------------------------------------------ Sequential models *)

(* blazer.is_sequential: _np.all(~_np.triu(im, order)) *)
Definition is_sequential_im (im : bmat) : bool :=
  forallb (fun i => forallb (fun j => negb (inc_pos im i j))
                            (seq (i + is_sequential_order) (ncols im - (i + is_sequential_order))))
          (seq 0 (length im)).

(* An equation of a Sequential model, as far as ordering is concerned:
   (name of the LHS variable, names occurring at zero shift anywhere in the equation --
   this always includes the LHS variable itself). *)
Definition eqn := (nat * list nat)%type.

(* Invariant.collect_lhs_names: unique LHS names in order of first appearance *)
Fixpoint uniq (l : list nat) (seen : list nat) : list nat :=
  match l with
  | [] => []
  | x :: r => if mem x seen then uniq r seen else x :: uniq r (x :: seen)
  end.
Definition lhs_names (M : list eqn) : list nat := uniq (map fst M) [].

(* Sequential.incidence_matrix: equations in rows, LHS names in columns, zero-shift tokens *)
Definition seq_im (M : list eqn) : bmat :=
  map (fun eq => map (fun v => mem v (snd eq)) (lhs_names M)) M.

Definition model_is_sequential (M : list eqn) : bool :=
  if is_nil M then true else is_sequential_im (seq_im M).

Inductive seq_result := SeqOk (order : list nat) | SeqErr (code : nat).
Definition ERR_IRISPIE := 1.      (* IrisPieError from sequentialize_strictly (only if it is raised) *)
Definition ERR_VALUE := 2.        (* ValueError from Invariant.reorder_equations *)

(* blazer.sequentialize_strictly: (eids_first + eids_last, fail) *)
Definition sequentialize_strictly (im : bmat) : list nat * bool :=
  let es := seq 0 (length im) in
  let qs := seq 0 (ncols im) in
  let inc := inc_pos im in
  let r := prefetch inc (msize es qs) es qs in
  let fail := negb (msize (p_ei r) (p_qi r) =? 0) || negb (is_nil (p_ei r)) || negb (is_nil (p_qi r))
              || negb (nat_list_eqb (p_ef r) (p_qf r)) || negb (nat_list_eqb (p_el r) (p_ql r)) in
  (p_ef r ++ p_el r, fail).

(* Sequential.sequentialize: (result, model afterwards).  `raises` = does
   sequentialize_strictly raise its failure (BlazerGen.strict_failure_raises). *)
Definition sequentialize_gen (raises : bool) (M : list eqn) : seq_result * list eqn :=
  let n := length M in
  if model_is_sequential M then (SeqOk (seq 0 n), M)
  else
    let '(ord, fail) := sequentialize_strictly (seq_im M) in
    if fail && raises then (SeqErr ERR_IRISPIE, M)
    else if negb (nat_list_eqb (sortn ord) (seq 0 n)) then (SeqErr ERR_VALUE, M)   (* reorder_equations raises first *)
    else (SeqOk ord, permute (0, []) ord M).

Definition sequentialize := sequentialize_gen strict_failure_raises.

(* ------------------------------------------------------------------ helpers for the generated case files
   (harness/C16.py).  Elaborating long list literals dominates the cost of a case file, so every list of small
   numbers is written as ONE binary number (base 256 digits, least significant first) and unpacked here. *)
From Coq Require Import NArith.

Fixpoint unpackN (width : N) (len : nat) (x : N) : list nat :=     (* digits of `width` bits *)
  match len with
  | 0 => []
  | S k => N.to_nat (N.land x (N.ones width)) :: unpackN width k (N.shiftr x width)
  end.
Definition U (len x : N) : list nat := unpackN 8 (N.to_nat len) x.
(* a row of a boolean matrix: bit j = column j *)
Definition R (len x : N) : list bool := map (fun j => N.testbit x (N.of_nat j)) (seq 0 (N.to_nat len)).
(* the index list of the recorded argsort calls is eventually periodic: prefix ++ cycle ++ cycle ++ ..., cut at `total` *)
Definition cyc (pre cy : list nat) (total : N) : list nat :=
  map (fun k => if k <? length pre then nth k pre 0 else nth ((k - length pre) mod length cy) cy 0)
      (seq 0 (N.to_nat total)).
Definition mkE (i len x : N) : eqn := (N.to_nat i, U len x).
Definition okN (len x : N) : seq_result := SeqOk (U len x).
Definition errN (c : N) : seq_result := SeqErr (N.to_nat c).

(* everything return_info=True shows, flattened *)
Record blaze_flat := mkFlat {
  f_sizes_e : list nat; f_sizes_q : list nat;   (* number of eids / qids of each block *)
  f_eids : list nat; f_qids : list nat;          (* the blocks' eids / qids, concatenated *)
  f_ef : list nat; f_qf : list nat; f_el : list nat; f_ql : list nat; f_ei : list nat; f_qi : list nat;
  f_im_inner : list bool;                        (* row-major *)
  f_calls : nat
}.

Definition flatten_out (o : blaze_out) : blaze_flat :=
  mkFlat (map (fun b => length (fst b)) (o_blocks o)) (map (fun b => length (snd b)) (o_blocks o))
         (beids (o_blocks o)) (bqids (o_blocks o))
         (p_ef (o_info o)) (p_qf (o_info o)) (p_el (o_info o)) (p_ql (o_info o)) (p_ei (o_info o)) (p_qi (o_info o))
         (concat (o_im_inner o)) (o_calls o).

Fixpoint bool_list_eqb (a b : list bool) : bool :=
  match a, b with
  | [], [] => true
  | x :: xs, y :: ys => Bool.eqb x y && bool_list_eqb xs ys
  | _, _ => false
  end.

Definition flat_eqb (a b : blaze_flat) : bool :=
  nat_list_eqb (f_sizes_e a) (f_sizes_e b) && nat_list_eqb (f_sizes_q a) (f_sizes_q b) &&
  nat_list_eqb (f_eids a) (f_eids b) && nat_list_eqb (f_qids a) (f_qids b) &&
  nat_list_eqb (f_ef a) (f_ef b) && nat_list_eqb (f_qf a) (f_qf b) &&
  nat_list_eqb (f_el a) (f_el b) && nat_list_eqb (f_ql a) (f_ql b) &&
  nat_list_eqb (f_ei a) (f_ei b) && nat_list_eqb (f_qi a) (f_qi b) &&
  bool_list_eqb (f_im_inner a) (f_im_inner b) && (f_calls a =? f_calls b).

Definition opt_flat_eqb (a b : option blaze_flat) : bool :=
  match a, b with Some x, Some y => flat_eqb x y | None, None => true | _, _ => false end.

(* one blaze case: model output (flattened) and the expected value *)
Definition blaze_case (tb : list (list nat * list nat)) (idx : list nat) (im : bmat) (eids qids : list nat)
  : option blaze_flat := option_map flatten_out (blaze (table_oracle tb idx) im eids qids).

Fixpoint list_eqb_ {T} (e : T -> T -> bool) (a b : list T) : bool :=
  match a, b with
  | [], [] => true
  | x :: xs, y :: ys => e x y && list_eqb_ e xs ys
  | _, _ => false
  end.

Definition eqn_eqb (a b : eqn) : bool := (fst a =? fst b) && nat_list_eqb (snd a) (snd b).

Definition seq_eqb (a b : seq_result * list eqn) : bool :=
  (match fst a, fst b with
   | SeqOk x, SeqOk y => nat_list_eqb x y
   | SeqErr i, SeqErr j => i =? j
   | _, _ => false
   end) && list_eqb_ eqn_eqb (snd a) (snd b).

Fixpoint failing_ {T} (e : T -> T -> bool) (cases : list (T * T)) (i : nat) : list nat :=
  match cases with
  | [] => []
  | (m, x) :: r => if e m x then failing_ e r (S i) else i :: failing_ e r (S i)
  end.
