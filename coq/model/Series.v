(* Executable model of irispie.Series (series/main.py): a start serial (None for
   the empty series) and a rows-by-variants block of values.  Generic in the
   scalar carrier.  NO proofs in this file. *)
From Coq Require Import ZArith List Bool Lia.
From Verif Require Import lib.Arith.
Import ListNotations.
Open Scope Z_scope.

Section SeriesModel.
Variable A : Arith.
Notation V := (car A).

Record series := mkSeries {
  s_freq : Z;                      (* Frequency.value; meaningful when s_start is Some *)
  s_start : option Z;              (* serial of the first row *)
  s_nv : nat;                      (* number of variants (columns) *)
  s_data : list (list V)           (* rows, oldest first, each of length s_nv *)
}.

Inductive res (T : Type) := Ok (x : T) | Err (e : nat).
Arguments Ok {T} x.
Arguments Err {T} e.
(* error classes (canonicalised on the Python side):
   1 = TypeError/None arithmetic, 2 = IrisPieError (frequency mismatch / broadcast), 3 = ValueError *)

Definition missrow (n : nat) : list V := repeat (miss A) n.

Definition empty_series (nv : nat) : series := mkSeries 0 None nv [].

Definition zrange (a b : Z) : list Z :=        (* a, a+1, ..., b-1 *)
  map (fun i => a + Z.of_nat i) (seq 0 (Z.to_nat (b - a))).

Definition s_end (s : series) : option Z :=
  match s_start s with
  | None => None
  | Some st => Some (st + Z.of_nat (length (s_data s)) - 1)
  end.

(* row stored for period t; missing outside the stored rows *)
Definition row_at (s : series) (t : Z) : list V :=
  match s_start s with
  | None => missrow (s_nv s)
  | Some st =>
      if t <? st then missrow (s_nv s)
      else nth (Z.to_nat (t - st)) (s_data s) (missrow (s_nv s))
  end.

Definition cell (s : series) (t : Z) (c : nat) : V := nth c (row_at s t) (miss A).

Definition all_miss (r : list V) : bool := forallb (is_miss A) r.

Fixpoint drop_leading (rows : list (list V)) : nat * list (list V) :=
  match rows with
  | [] => (O, [])
  | r :: rs => if all_miss r then let '(n, x) := drop_leading rs in (S n, x) else (O, rows)
  end.

(* Series.trim *)
Definition trim (s : series) : series :=
  match s_start s with
  | None => empty_series (s_nv s)
  | Some st =>
      let '(n, rows1) := drop_leading (s_data s) in
      let rows2 := rev (snd (drop_leading (rev rows1))) in
      match rows2 with
      | [] => empty_series (s_nv s)
      | _ => mkSeries (s_freq s) (Some (st + Z.of_nat n)) (s_nv s) rows2
      end
  end.

(* a series given by a function on [lo, hi], then trimmed *)
Definition build (fr : Z) (nv : nat) (lo hi : Z) (f : Z -> list V) : series :=
  trim (mkSeries fr (Some lo) nv (map f (zrange lo (hi + 1)))).

Definition get_data (s : series) (dates : list Z) : list (list V) := map (row_at s) dates.

Definition get_data_from_until (s : series) (from until : Z) : list (list V) :=
  map (row_at s) (zrange from (until + 1)).

(* exhaust-then-last broadcasting of a data row over nv columns *)
Definition bcast_row (nv : nat) (r : list V) : list V :=
  map (fun c => nth (Nat.min c (length r - 1)) r (miss A)) (seq 0 nv).

Fixpoint last_assoc (t : Z) (dates : list Z) (rows : list (list V)) (acc : option (list V)) : option (list V) :=
  match dates, rows with
  | d :: ds, r :: rs => last_assoc t ds rs (if d =? t then Some r else acc)
  | _, _ => acc
  end.

Fixpoint upd_cols (old : list V) (vids : list nat) (new : list V) (k : nat) : list V :=
  (* column vids[j] takes new[min j (len-1)] *)
  match vids with
  | [] => old
  | c :: cs =>
      let v := nth (Nat.min k (length new - 1)) new (miss A) in
      upd_cols (map (fun '(i, x) => if Nat.eqb i c then v else x) (combine (seq 0 (length old)) old)) cs new (S k)
  end.

Definition minl (d0 : Z) (l : list Z) : Z := fold_left Z.min l d0.
Definition maxl (d0 : Z) (l : list Z) : Z := fold_left Z.max l d0.

(* Series.set_data(dates, data, variants): rows[i] is the data written at dates[i];
   vids = None means all variants *)
Definition set_data (fr : Z) (s : series) (dates : list Z) (rows : list (list V)) (vids : option (list nat)) : series :=
  match dates with
  | [] => s
  | d0 :: _ =>
      let st0 := match s_start s with Some st => st | None => d0 end in
      let en0 := match s_end s with Some en => en | None => d0 end in
      let lo := Z.min st0 (minl d0 dates) in
      let hi := Z.max en0 (maxl d0 dates) in
      let fr' := match s_start s with Some _ => s_freq s | None => fr end in
      build fr' (s_nv s) lo hi
        (fun t => match last_assoc t dates rows None with
                  | Some r => match vids with
                              | None => bcast_row (s_nv s) r
                              | Some cols => upd_cols (row_at s t) cols r 0
                              end
                  | None => row_at s t
                  end)
  end.

Definition shift_by (s : series) (k : Z) : series :=
  match s_start s with
  | None => s
  | Some st => mkSeries (s_freq s) (Some (st - k)) (s_nv s) (s_data s)
  end.

(* numpy broadcasting of two rows: equal lengths, or one of them has length 1 *)
Definition zip_bcast (f : V -> V -> V) (r1 r2 : list V) : list V :=
  let n := Nat.max (length r1) (length r2) in
  map (fun c => f (nth (if Nat.eqb (length r1) 1 then O else c) r1 (miss A))
                  (nth (if Nat.eqb (length r2) 1 then O else c) r2 (miss A))) (seq 0 n).

Definition omin (a b : option Z) : option Z :=
  match a, b with Some x, Some y => Some (Z.min x y) | Some x, None => Some x | None, y => y end.
Definition omax (a b : option Z) : option Z :=
  match a, b with Some x, Some y => Some (Z.max x y) | Some x, None => Some x | None, y => y end.

(* Series._binop(other, func) for two series *)
Definition binop (f : V -> V -> V) (s1 s2 : series) : res series :=
  match s_start s1, s_start s2 with
  | None, None => Ok (empty_series (Nat.max (s_nv s1) (s_nv s2)))     (* both empty: the empty series *)
  | _, _ =>
      let mismatch := match s_start s1, s_start s2 with
                      | Some _, Some _ => negb (s_freq s1 =? s_freq s2)
                      | _, _ => false end in
      if mismatch then Err 2
      else if negb (Nat.eqb (s_nv s1) (s_nv s2) || Nat.eqb (s_nv s1) 1 || Nat.eqb (s_nv s2) 1) then Err 3
      else
        match omin (s_start s1) (s_start s2), omax (s_end s1) (s_end s2) with
        | Some lo, Some hi =>
            let fr := match s_start s1 with Some _ => s_freq s1 | None => s_freq s2 end in
            Ok (build fr (Nat.max (s_nv s1) (s_nv s2)) lo hi
                  (fun t => zip_bcast f (row_at s1 t) (row_at s2 t)))
        | _, _ => Err 1
        end
  end.

(* Series.apply(func) for an element-wise func (shape preserved): copy, replace data, trim *)
Definition map_data (f : V -> V) (s : series) : series :=
  trim (mkSeries (s_freq s) (s_start s) (s_nv s) (map (map f) (s_data s))).

End SeriesModel.

Arguments Ok {T} x.
Arguments Err {T} e.
Arguments mkSeries {A}.
Arguments s_freq {A}. Arguments s_start {A}. Arguments s_nv {A}. Arguments s_data {A}.
