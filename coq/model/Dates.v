(* Executable model of irispie/dates.py: Period (all frequencies), Span,
   ContextualPeriod, resolution contexts.  Every arithmetic body, table and
   keyword arm comes from gen/DatesGen.v (regenerated from the source on every
   run); the dispatch over classes, the Span constructor / indexing / slicing /
   resolution and the error classes are hand-modelled here and tied to the
   implementation by the C09 correspondence.  NO proofs in this file. *)
From Coq Require Import ZArith Bool Ascii String List Uint63.
From Verif Require Import lib.Calendar lib.PyRange lib.DatesBase lib.PyStr gen.DatesGen.
Import ListNotations.
Open Scope Z_scope.

(* error classes (canonicalised in the same way on the Python side) *)
Inductive err :=
| ErrFreq      (* IrisPieError: periods of different classes / None in a checked context *)
| ErrType      (* TypeError *)
| ErrValue     (* ValueError *)
| ErrIndex     (* IndexError *)
| ErrAttr      (* AttributeError *)
| ErrKey       (* KeyError *)
| ErrNone.     (* the call returns None where a value is expected *)

Inductive dres (T : Type) := Ok (x : T) | Err (e : err).
Arguments Ok {T} x.
Arguments Err {T} e.

Definition of_opt {T} (e : err) (o : option T) : dres T := match o with Some x => Ok x | None => Err e end.
Definition bind {T U} (r : dres T) (f : T -> dres U) : dres U := match r with Ok x => f x | Err e => Err e end.
Definition dmap {T U} (f : T -> U) (r : dres T) : dres U := match r with Ok x => Ok (f x) | Err e => Err e end.

(* ------------------------------------------------------------------ periods *)

Record period := mkP { p_freq : Z; p_serial : Z }.

Inductive fkind := KReg | KDaily | KInt | KNone.

Definition is_regular_freq (f : Z) : bool :=
  (f =? gen_class_freq_YEARLY) || (f =? gen_class_freq_HALFYEARLY) || (f =? gen_class_freq_QUARTERLY)
  || (f =? gen_class_freq_MONTHLY).

Definition kind_of (f : Z) : fkind :=
  if is_regular_freq f then KReg else if f =? freq_DAILY then KDaily else if f =? freq_INTEGER then KInt else KNone.

(* one class per frequency (PERIOD_CLASS_FROM_FREQUENCY_RESOLUTION) *)
Definition same_class (p q : period) : bool := p_freq p =? p_freq q.

(* _check_periods(p, other) where other may be None *)
Definition check_periods (p : period) (o : option period) : bool :=
  gen_check_periods_by_class && match o with Some q => same_class p q | None => false end.

Definition padd (p : period) (n : Z) : period := mkP (p_freq p) (gen_period_add (p_serial p) n).
Definition psub_int (p : period) (n : Z) : period := mkP (p_freq p) (gen_period_sub_int (p_serial p) n).

(* result of an unchecked comparison when the other operand is None *)
Definition unchecked {T} (o : option period) (f : period -> T) : dres T :=
  match o with Some q => Ok (f q) | None => Err ErrAttr end.

(* p - q for a period q (Period.__sub__ dispatches on _is_period(other) first) *)
Definition psub (p q : period) : dres Z :=
  if gen_period_sub_period_checked && negb (check_periods p (Some q)) then Err ErrFreq
  else Ok (gen_period_sub_period (p_serial p) (p_serial q)).

Inductive cmpop := CEq | CNe | CLt | CLe | CGt | CGe.

Definition cmp_fun (c : cmpop) : Z -> Z -> bool :=
  match c with CEq => gen_cmp_eq | CNe => gen_cmp_ne | CLt => gen_cmp_lt | CLe => gen_cmp_le | CGt => gen_cmp_gt
             | CGe => gen_cmp_ge end.
Definition cmp_checked (c : cmpop) : bool :=
  match c with CEq => gen_cmp_eq_checked | CNe => gen_cmp_ne_checked | CLt => gen_cmp_lt_checked
             | CLe => gen_cmp_le_checked | CGt => gen_cmp_gt_checked | CGe => gen_cmp_ge_checked end.

(* p <op> q *)
Definition pcmp (c : cmpop) (p : period) (o : option period) : dres bool :=
  if cmp_checked c
  then (if check_periods p o then unchecked o (fun q => cmp_fun c (p_serial p) (p_serial q)) else Err ErrFreq)
  else unchecked o (fun q => cmp_fun c (p_serial p) (p_serial q)).

Definition hash_key (p : period) : Z * Z := gen_hash_key (p_freq p) (p_serial p).

(* constructors *)
Definition month_to_segment (f month : Z) : Z :=
  if f =? gen_class_freq_YEARLY then gen_month_to_segment_YEARLY month
  else if f =? gen_class_freq_HALFYEARLY then gen_month_to_segment_HALFYEARLY month
  else if f =? gen_class_freq_QUARTERLY then gen_month_to_segment_QUARTERLY month
  else gen_month_to_segment_MONTHLY month.

Definition from_year_segment (f year seg : Z) : dres period :=
  match kind_of f with
  | KReg => Ok (mkP f (gen_reg_from_year_segment f year seg))
  | KDaily => dmap (mkP f) (of_opt ErrValue (gen_daily_from_year_segment year seg))
  | KInt => Ok (mkP f (gen_int_from_year_segment year seg))
  | KNone => Err ErrKey
  end.

Definition from_ymd (f year month day : Z) : dres period :=
  match kind_of f with
  | KReg => Ok (mkP f (gen_reg_from_ymd (month_to_segment f) f year month day))
  | KDaily => dmap (mkP f) (of_opt ErrValue (gen_daily_from_ymd year month day))
  | KInt => Err ErrKey       (* IntegerPeriod inherits the static Period.from_ymd(freq, ...): the year is looked up as a frequency *)
  | KNone => Err ErrKey
  end.

(* accessors *)
Definition to_year_segment (p : period) : dres (Z * Z) :=
  match kind_of (p_freq p) with
  | KReg => Ok (gen_reg_to_year_segment (p_freq p) (p_serial p))
  | KDaily => if gen_daily_to_year_segment_welltyped then of_opt ErrValue (gen_daily_to_year_segment (p_serial p))
              else Err ErrType
  | _ => Err ErrAttr
  end.

Definition p_year (p : period) : dres Z :=
  match kind_of (p_freq p) with
  | KReg => Ok (gen_reg_year (p_freq p) (p_serial p))
  | KDaily => if gen_daily_year_welltyped then of_opt ErrValue (gen_daily_year (p_serial p)) else Err ErrType
  | _ => Err ErrNone
  end.

Definition p_segment (p : period) : dres Z :=
  match kind_of (p_freq p) with
  | KReg => Ok (gen_reg_segment (p_freq p) (p_serial p))
  | KDaily => if gen_daily_segment_welltyped then of_opt ErrValue (gen_daily_segment (p_serial p)) else Err ErrType
  | _ => Err ErrNone
  end.

Inductive position := PStart | PMiddle | PEnd.

Definition mdr_table (f : Z) (pos : position) : list (Z * (Z * option Z)) :=
  if f =? gen_class_freq_YEARLY then
    match pos with PStart => gen_mdr_YEARLY_start | PMiddle => gen_mdr_YEARLY_middle | PEnd => gen_mdr_YEARLY_end end
  else if f =? gen_class_freq_HALFYEARLY then
    match pos with PStart => gen_mdr_HALFYEARLY_start | PMiddle => gen_mdr_HALFYEARLY_middle
                 | PEnd => gen_mdr_HALFYEARLY_end end
  else if f =? gen_class_freq_QUARTERLY then
    match pos with PStart => gen_mdr_QUARTERLY_start | PMiddle => gen_mdr_QUARTERLY_middle
                 | PEnd => gen_mdr_QUARTERLY_end end
  else
    match pos with PStart => gen_mdr_MONTHLY_start | PMiddle => gen_mdr_MONTHLY_middle | PEnd => gen_mdr_MONTHLY_end end.

Definition to_ymd (pos : position) (p : period) : dres (Z * Z * Z) :=
  match kind_of (p_freq p) with
  | KReg => of_opt ErrKey (gen_reg_to_ymd (mdr_table (p_freq p) pos) (p_freq p) (p_serial p))
  | KDaily => if gen_daily_to_ymd_welltyped then of_opt ErrValue (gen_daily_to_ymd (p_serial p)) else Err ErrType
  | _ => Err ErrNone
  end.

(* ordinal of the date returned by to_ymd (what to_python_date().toordinal() returns) *)
Definition to_ordinal (pos : position) (p : period) : dres Z :=
  bind (to_ymd pos p) (fun '(y, m, d) => if date_ok y m d then Ok (ord_of_ymd y m d) else Err ErrValue).

(* keyword shifts *)
Definition create_soy (p : period) : dres period :=
  match kind_of (p_freq p) with
  | KReg => Ok (mkP (p_freq p) (gen_reg_create_soy (p_freq p) (p_serial p)))
  | KDaily => if gen_daily_create_soy_welltyped
              then dmap (mkP (p_freq p)) (of_opt ErrValue (gen_daily_create_soy (p_serial p))) else Err ErrType
  | _ => Err ErrAttr
  end.
Definition create_eoy (p : period) : dres period :=
  match kind_of (p_freq p) with
  | KReg => Ok (mkP (p_freq p) (gen_reg_create_eoy (p_freq p) (p_serial p)))
  | KDaily => if gen_daily_create_eoy_welltyped
              then dmap (mkP (p_freq p)) (of_opt ErrValue (gen_daily_create_eoy (p_serial p))) else Err ErrType
  | _ => Err ErrAttr
  end.
Definition create_eopy (p : period) : dres period :=
  match kind_of (p_freq p) with
  | KReg => Ok (mkP (p_freq p) (gen_reg_create_eopy (p_freq p) (p_serial p)))
  | KDaily => if gen_daily_create_eopy_welltyped
              then dmap (mkP (p_freq p)) (of_opt ErrValue (gen_daily_create_eopy (p_serial p))) else Err ErrType
  | _ => Err ErrAttr
  end.
(* create_tty returns a period or None *)
Definition create_tty (p : period) : dres (option period) :=
  match kind_of (p_freq p) with
  | KReg => Ok (option_map (mkP (p_freq p)) (gen_reg_create_tty (p_freq p) (p_serial p)))
  | KDaily => if gen_daily_create_tty_welltyped
              then dmap (option_map (mkP (p_freq p))) (of_opt ErrValue (gen_daily_create_tty (p_serial p)))
              else Err ErrType
  | _ => Err ErrAttr
  end.

Inductive shift_by := ByInt (k : Z) | ByKw (kw : string).

Fixpoint sassoc {T} (k : string) (l : list (string * T)) : option T :=
  match l with
  | [] => None
  | (k', v) :: r => if String.eqb k k' then Some v else sassoc k r
  end.

(* Period.shift(by): Ok None = the method returns None (tty of a first segment) *)
Definition pshift (p : period) (b : shift_by) : dres (option period) :=
  match b with
  | ByInt k => Ok (Some (mkP (p_freq p) (gen_shift_default (p_serial p) k)))
  | ByKw kw =>
      match sassoc kw gen_shift_arms with
      | Some (TFun f) => Ok (Some (mkP (p_freq p) (f (p_freq p) (p_serial p))))
      | Some TSoy => dmap Some (create_soy p)
      | Some TEoy => dmap Some (create_eoy p)
      | Some TEopy => dmap Some (create_eopy p)
      | Some TTty => create_tty p
      | None => Err ErrValue           (* default arm: self + "<string>" -> int("<string>") *)
      end
  end.

(* ------------------------------------------------------------------ spans *)

(* an end point: a period, or a ContextualPeriod(start_date|end_date, offset) *)
Inductive endpoint := At (p : period) | Ctx (from_start : bool) (offset : Z).

Definition ep_needs (e : endpoint) : bool := match e with At _ => false | Ctx _ _ => true end.
Definition ep_add (e : endpoint) (k : Z) : endpoint :=
  match e with At p => At (padd p k) | Ctx b o => Ctx b (gen_ctx_add o k) end.
Definition ep_sub (e : endpoint) (k : Z) : endpoint :=
  match e with At p => At (psub_int p k) | Ctx b o => Ctx b (gen_ctx_sub o k) end.

(* needs_resolve is computed by the constructor only *)
Record span := mkSpan { sp_start : endpoint; sp_end : endpoint; sp_step : Z; sp_needs : bool }.

(* Span(from, until, step); None = the contextual default of that side.  The defaults, needs_resolve and the final
   frequency check are the fragments regenerated from Span.__init__ (the gen_span_init fragments), instantiated with the module-level
   contextual periods start = Ctx true 0, end = Ctx false 0 *)
Definition span_make (a b : option endpoint) (step : Z) : dres span :=
  let s := gen_span_init_start endpoint (Ctx true 0) (Ctx false 0) a b step in
  let e := gen_span_init_end endpoint (Ctx true 0) (Ctx false 0) a b step in
  let needs := gen_span_init_needs endpoint ep_needs s e in
  if needs then Ok (mkSpan s e step true)
  else match s, e with
       | At p, At q => if negb gen_span_init_checks_when_resolved || check_periods p (Some q)
                       then Ok (mkSpan s e step false) else Err ErrFreq
       | _, _ => Err ErrFreq
       end.

(* the range of serials of a resolved span *)
Definition span_range (s : span) : dres (Z * Z * Z) :=
  if sp_needs s then Err ErrNone
  else match sp_start s, sp_end s with
       | At p, At q => Ok (gen_span_serials (p_serial p) (p_serial q) (sp_step s))
       | _, _ => Err ErrAttr
       end.

Definition range_list (t : Z * Z * Z) : dres (list Z) :=
  let '(a, b, c) := t in if c =? 0 then Err ErrValue else Ok (py_range a b c).
Definition range_len (t : Z * Z * Z) : dres Z :=
  let '(a, b, c) := t in if c =? 0 then Err ErrValue else Ok (py_range_len a b c).

Definition span_serials (s : span) : dres (list Z) := bind (span_range s) range_list.

Definition span_freq (s : span) : Z := match sp_start s with At p => p_freq p | Ctx _ _ => freq_UNKNOWN end.

(* len(span): TypeError when unresolved (the method returns None) *)
Definition span_len (s : span) : dres Z :=
  if sp_needs s then Err ErrType else bind (span_range s) range_len.

(* list(span) *)
Definition span_iter (s : span) : dres (list period) :=
  if sp_needs s then Err ErrType else dmap (map (mkP (span_freq s))) (span_serials s).

(* range.__getitem__(i) *)
Definition range_nth (t : Z * Z * Z) (i : Z) : dres Z :=
  let '(a, b, c) := t in
  if c =? 0 then Err ErrValue
  else let n := py_range_len a b c in
       let j := if i <? 0 then i + n else i in
       if (j <? 0) || (n <=? j) then Err ErrIndex else Ok (a + j * c).

(* span[i] *)
Definition span_nth (s : span) (i : Z) : dres period :=
  if sp_needs s then Err ErrNone
  else dmap (mkP (span_freq s)) (bind (span_range s) (fun t => range_nth t i)).

(* slice(start, stop, step).indices(n) *)
Definition slice_indices (sl : option Z * option Z * option Z) (n : Z) : dres (Z * Z * Z) :=
  let '(a, b, c) := sl in
  let step := match c with Some x => x | None => 1 end in
  if step =? 0 then Err ErrValue
  else
    let lower := if step <? 0 then -1 else 0 in
    let upper := if step <? 0 then n - 1 else n in
    let adj (x : Z) := if x <? 0 then Z.max (x + n) lower else Z.min x upper in
    let start := match a with Some x => adj x | None => if step <? 0 then upper else lower end in
    let stop := match b with Some x => adj x | None => if step <? 0 then lower else upper end in
    Ok (start, stop, step).

Fixpoint select_idx {T} (l : list T) (i : Z) (idx : list Z) : list T :=
  match l with
  | [] => []
  | x :: r => if existsb (Z.eqb i) idx then x :: select_idx r (i + 1) idx else select_idx r (i + 1) idx
  end.

(* span[a:b:c] = tuple(t for i, t in enumerate(span) if i in range( *slice.indices(len))) *)
Definition span_slice (s : span) (sl : option Z * option Z * option Z) : dres (list period) :=
  bind (span_len s) (fun n =>
  bind (slice_indices sl n) (fun '(a, b, c) =>
  bind (span_iter s) (fun l => Ok (select_idx l 0 (py_range a b c))))).

(* in-place mutations *)
Inductive sop := OReverse | OShift (k : Z) | OShiftStart (k : Z) | OShiftEnd (k : Z).

Definition with_state (s : span) (t : endpoint * endpoint * Z) : span :=
  let '(a, b, c) := t in mkSpan a b c (sp_needs s).

Definition sstep (s : span) (o : sop) : span :=
  match o with
  | OReverse => with_state s (gen_span_reverse endpoint (sp_start s) (sp_end s) (sp_step s))
  | OShift k => with_state s (gen_span_shift endpoint ep_add (sp_start s) (sp_end s) (sp_step s) k)
  | OShiftStart k => with_state s (gen_span_shift_start endpoint ep_add (sp_start s) (sp_end s) (sp_step s) k)
  | OShiftEnd k => with_state s (gen_span_shift_end endpoint ep_add (sp_start s) (sp_end s) (sp_step s) k)
  end.

Definition run_ops (s : span) (ops : list sop) : span := fold_left sstep ops s.

(* functional forms *)
Definition span_add (s : span) (k : Z) : dres span :=
  span_make (Some (ep_add (sp_start s) k)) (Some (ep_add (sp_end s) k)) (sp_step s).
Definition span_sub (s : span) (k : Z) : dres span :=
  span_make (Some (ep_sub (sp_start s) k)) (Some (ep_sub (sp_end s) k)) (sp_step s).
Definition span_rshift (s : span) (k : Z) : dres span :=
  if k <? 0 then Err ErrValue else span_make (Some (sp_start s)) (Some (sp_end s)) k.
Definition span_lshift (s : span) (k : Z) : dres span :=
  if k >? 0 then Err ErrValue else span_make (Some (sp_start s)) (Some (sp_end s)) k.
(* span.reversed(): a copy, reversed in place *)
Definition span_reversed (s : span) : span := sstep s OReverse.

(* resolution context: start_date and end_date *)
Record context := mkCtx { c_start : period; c_end : period }.

Definition ep_resolve (c : context) (e : endpoint) : endpoint :=
  match e with
  | At p => At p
  | Ctx true o => At (padd (c_start c) o)
  | Ctx false o => At (padd (c_end c) o)
  end.

(* bool(end point): Period.__bool__ = not needs_resolve, ContextualPeriod.__bool__ = False *)
Definition ep_truthy (e : endpoint) : bool := negb (ep_needs e).

(* Span.resolve(context): the statement shape is regenerated from the source (gen_span_resolve); the resolved span is
   built by the constructor, which re-checks the frequencies of its two ends *)
Definition span_resolve (c : context) (s : span) : dres span :=
  gen_span_resolve endpoint (dres span) ep_truthy (ep_resolve c) span_make (sp_start s) (sp_end s) (sp_step s).

(* span == other (both resolved) *)
Definition span_eq (s t : span) : dres bool :=
  match sp_start s, sp_start t, sp_end s, sp_end t with
  | At a, At b, At c, At d =>
      bind (pcmp CEq a (Some b)) (fun x => if x then bind (pcmp CEq c (Some d)) (fun y => Ok (y && (sp_step s =? sp_step t)))
                                          else Ok false)
  | _, _, _, _ => Err ErrAttr
  end.

(* periods_from_until(start, end, step) *)
Definition periods_from_until (p q : period) (step : Z) : dres (list period) :=
  if check_periods p (Some q)
  then dmap (map (mkP (p_freq p))) (range_list (gen_pfu_range (p_serial p) (p_serial q) step))
  else Err ErrFreq.

(* p ** n  (n other than 1, -1 which return the period itself) and the >> / << constructors *)
Definition span_pow (p : period) (n : Z) : dres span :=
  if n >? 0 then span_make (Some (At p)) (Some (At (psub_int (padd p n) 1))) 1
  else if n <? 0 then span_make (Some (At p)) (Some (At (padd (padd p n) 1))) (-1)
  else Err ErrNone.

(* the observable state of a span *)
Definition span_state (s : span) : endpoint * endpoint * Z * bool := (sp_start s, sp_end s, sp_step s, sp_needs s).

(* ------------------------------------------------------------------ case runners
   (used by the generated correspondence case files; observations are compared
   with what the implementation returned) *)

Inductive obs :=
| OZ (z : Z) | OB (b : bool) | ONone | OE (e : err) | OP (p : period) | OC (from_start : bool) (off : Z)
| OL (l : list obs).

Definition err_code (e : err) : Z :=
  match e with ErrFreq => 1 | ErrType => 2 | ErrValue => 3 | ErrIndex => 4 | ErrAttr => 5 | ErrKey => 6 | ErrNone => 7 end.

Fixpoint obs_eqb (a b : obs) : bool :=
  match a, b with
  | OZ x, OZ y => x =? y
  | OB x, OB y => Bool.eqb x y
  | ONone, ONone => true
  | OE x, OE y => err_code x =? err_code y
  | OP p, OP q => (p_freq p =? p_freq q) && (p_serial p =? p_serial q)
  | OC a1 o1, OC a2 o2 => Bool.eqb a1 a2 && (o1 =? o2)
  | OL l1, OL l2 =>
      (fix go (l1 l2 : list obs) : bool :=
         match l1, l2 with
         | [], [] => true
         | x :: r, y :: t => obs_eqb x y && go r t
         | _, _ => false
         end) l1 l2
  | _, _ => false
  end.

Definition obs_of {T} (f : T -> obs) (r : dres T) : obs := match r with Ok x => f x | Err e => OE e end.
Definition obs_ymd (t : Z * Z * Z) : obs := let '(y, m, d) := t in OL [OZ y; OZ m; OZ d].
Definition obs_pair (t : Z * Z) : obs := OL [OZ (fst t); OZ (snd t)].
Definition obs_optp (o : option period) : obs := match o with Some p => OP p | None => ONone end.
Definition obs_ep (e : endpoint) : obs := match e with At p => OP p | Ctx b o => OC b o end.
Definition obs_span (s : span) : obs := OL [obs_ep (sp_start s); obs_ep (sp_end s); OZ (sp_step s); OB (sp_needs s)].

(* how the harness builds a period through the public constructors *)
Inductive pspec :=
| SReg (f y s : Z)        (* yy(y) hh(y,s) qq(y,s) mm(y,s) *)
| SDay (y m d : Z)        (* dd(y, m, d) *)
| SDoy (y k : Z)          (* dd(y, None, k) *)
| SInt (n : Z).           (* ii(n) *)

Definition mk (s : pspec) : dres period :=
  match s with
  | SReg f y s => from_year_segment f y s
  | SDay y m d => from_ymd freq_DAILY y m d
  | SDoy y k => from_year_segment freq_DAILY y k
  | SInt n => Ok (mkP freq_INTEGER n)
  end.

Definition mko (o : option pspec) : dres (option period) :=
  match o with Some s => dmap Some (mk s) | None => Ok None end.

Definition pos_of (k : Z) : position := if k =? 0 then PStart else if k =? 1 then PMiddle else PEnd.
Definition cmp_of (k : Z) : cmpop :=
  if k =? 0 then CEq else if k =? 1 then CNe else if k =? 2 then CLt else if k =? 3 then CLe else if k =? 4 then CGt else CGe.

Definition c_mk (s : pspec) : obs := obs_of OP (mk s).
Definition c_add (s : pspec) (n : Z) : obs := obs_of OP (dmap (fun p => padd p n) (mk s)).
Definition c_subint (s : pspec) (n : Z) : obs := obs_of OP (dmap (fun p => psub_int p n) (mk s)).
Definition c_sub (s o : pspec) : obs :=
  obs_of OZ (bind (mk s) (fun p => bind (mk o) (fun q => psub p q))).
Definition c_cmp (c : Z) (s : pspec) (o : option pspec) : obs :=
  obs_of OB (bind (mk s) (fun p => bind (mko o) (fun q => pcmp (cmp_of c) p q))).
(* hash(p) == hash((p + k) - k) *)
Definition c_hasheq (s : pspec) (k : Z) : obs :=
  obs_of OB (dmap (fun p => let '(a, b) := hash_key p in let '(c, d) := hash_key (psub_int (padd p k) k) in
                            (a =? c) && (b =? d)) (mk s)).
Definition c_yearseg (s : pspec) : obs := obs_of obs_pair (bind (mk s) to_year_segment).
Definition c_year (s : pspec) : obs := obs_of OZ (bind (mk s) p_year).
Definition c_segment (s : pspec) : obs := obs_of OZ (bind (mk s) p_segment).
Definition c_toymd (pos : Z) (s : pspec) : obs := obs_of obs_ymd (bind (mk s) (to_ymd (pos_of pos))).
Definition c_toord (pos : Z) (s : pspec) : obs := obs_of OZ (bind (mk s) (to_ordinal (pos_of pos))).
Definition c_shift (s : pspec) (b : shift_by) : obs := obs_of obs_optp (bind (mk s) (fun p => pshift p b)).
Definition c_fromymd (f y m d : Z) : obs := obs_of OP (from_ymd f y m d).
Definition c_pfu (a b : pspec) (step : Z) : obs :=
  obs_of (fun l => OL (map OP l)) (bind (mk a) (fun p => bind (mk b) (fun q => periods_from_until p q step))).
Definition c_pow (s : pspec) (n : Z) : obs := obs_of obs_span (bind (mk s) (fun p => span_pow p n)).

(* structural digest of an observation (the harness computes the same digest of what the implementation
   returned, so that case files carry one integer per case instead of a large literal) *)
Definition mix (h : int) (x : Z) : int := (h * 1000003 + Uint63.of_Z x + 7)%uint63.
Definition mixi (h x : int) : int := (h * 1000003 + x + 7)%uint63.
Fixpoint obs_digest (o : obs) : int :=
  match o with
  | OZ z => mix 1 z
  | OB b => mix 2 (if b then 1 else 0)
  | ONone => mix 3 0
  | OE e => mix 4 (err_code e)
  | OP p => mix (mix 5 (p_freq p)) (p_serial p)
  | OC b o => mix (mix 6 (if b then 1 else 0)) o
  | OL l => (fix go (l : list obs) (h : int) : int :=
               match l with [] => h | x :: r => go r (mixi h (obs_digest x)) end) l (mix 7 (Z.of_nat (length l)))
  end.
Definition dg (o : obs) : Z := Uint63.to_Z (obs_digest o).

(* rolling digest of all accessors of a block of consecutive periods of one frequency *)
(* digests use primitive 63-bit integers (arithmetic modulo 2^63), only to keep the evaluation cheap *)
Definition hstep (h : int) (x : Z) : int := (h * 1000003 + Uint63.of_Z x + 7)%uint63.
Definition h_dres {T} (f : int -> T -> int) (h : int) (r : dres T) : int :=
  match r with Ok x => f h x | Err e => hstep h (- err_code e) end.
Definition h_ymd (h : int) (t : Z * Z * Z) : int := let '(y, m, d) := t in hstep (hstep (hstep h y) m) d.
Definition h_pair (h : int) (t : Z * Z) : int := hstep (hstep h (fst t)) (snd t).

Definition period_digest (h : int) (p : period) : int :=
  let h := h_dres h_pair h (to_year_segment p) in
  let h := h_dres h_ymd h (to_ymd PStart p) in
  let h := h_dres h_ymd h (to_ymd PMiddle p) in
  let h := h_dres h_ymd h (to_ymd PEnd p) in
  let h := h_dres hstep h (to_ordinal PStart p) in
  let h := h_dres hstep h (to_ordinal PEnd p) in
  let h := h_dres (fun h o => match o with Some q => hstep h (p_serial q) | None => hstep h (-99) end) h
             (pshift p (ByKw "tty")) in
  let h := h_dres (fun h o => match o with Some q => hstep h (p_serial q) | None => hstep h (-99) end) h
             (pshift p (ByKw "soy")) in
  h_dres (fun h o => match o with Some q => hstep h (p_serial q) | None => hstep h (-99) end) h
             (pshift p (ByKw "eopy")).

Fixpoint block_digest (n : nat) (f serial : Z) (h : int) : int :=
  match n with
  | O => h
  | S k => block_digest k f (serial + 1) (period_digest h (mkP f serial))
  end.
Definition c_block (f first : Z) (count : nat) : obs := OZ (Uint63.to_Z (block_digest count f first 0%uint63)).

(* span histories *)
Inductive epspec := EP (s : pspec) | EC (from_start : bool) (off : Z).
Inductive sact :=
| AMut (o : sop) | AAdd (k : Z) | ASub (k : Z) | ARsh (k : Z) | ALsh (k : Z) | AReversed | AResolve (a b : pspec).
Definition query := (Z * Z * (option Z * option Z * option Z))%type.

Definition mkep (e : epspec) : dres endpoint :=
  match e with EP s => dmap At (mk s) | EC b o => Ok (Ctx b o) end.
Definition mkepo (e : option epspec) : dres (option endpoint) :=
  match e with Some x => dmap Some (mkep x) | None => Ok None end.

Definition observe (s : span) (q : query) : obs :=
  let '(i1, i2, sl) := q in
  OL [obs_span s; obs_of OZ (span_len s); obs_of (fun l => OL (map OP l)) (span_iter s);
      obs_of OP (span_nth s i1); obs_of OP (span_nth s i2); obs_of (fun l => OL (map OP l)) (span_slice s sl)].

Definition act (s : span) (a : sact) : dres span :=
  match a with
  | AMut o => Ok (sstep s o)
  | AAdd k => span_add s k
  | ASub k => span_sub s k
  | ARsh k => span_rshift s k
  | ALsh k => span_lshift s k
  | AReversed => Ok (span_reversed s)
  | AResolve a b => bind (mk a) (fun p => bind (mk b) (fun q => span_resolve (mkCtx p q) s))
  end.

Fixpoint run_hist (s : span) (l : list (sact * query)) : list obs :=
  match l with
  | [] => []
  | (a, q) :: r =>
      match act s a with
      | Ok s' => observe s' q :: run_hist s' r
      | Err e => OE e :: run_hist s r
      end
  end.

Definition c_hist (a b : option epspec) (step : Z) (q0 : query) (l : list (sact * query)) : obs :=
  match bind (mkepo a) (fun x => bind (mkepo b) (fun y => span_make x y step)) with
  | Ok s => OL (observe s q0 :: run_hist s l)
  | Err e => OE e
  end.

Definition c_spaneq (a b : pspec) (s1 : Z) (c d : pspec) (s2 : Z) : obs :=
  obs_of OB (bind (mk a) (fun pa => bind (mk b) (fun pb => bind (mk c) (fun pc => bind (mk d) (fun pd =>
    bind (span_make (Some (At pa)) (Some (At pb)) s1) (fun x =>
    bind (span_make (Some (At pc)) (Some (At pd)) s2) (fun y => span_eq x y))))))).

(* calendar oracle: datetime.date / calendar.monthrange *)
Fixpoint ord_digest (n : nat) (o : Z) (h : int) : int :=
  match n with
  | O => h
  | S k => let '(y, m, d) := ymd_of_ord o in
           ord_digest k (o + 1) (hstep (hstep (hstep (hstep h y) m) d) (ord_of_ymd y m d))
  end.
Definition c_ords (first : Z) (count : nat) : obs := OZ (Uint63.to_Z (ord_digest count first 0%uint63)).
Definition c_monthrange (y m : Z) : obs := OZ (monthrange_days y m).
