(* Model of series/_conversions.py for a DAILY source or target:
   _aggregate_daily_to_regular and _disaggregate_{flat,first,middle,last} with
   high_freq = DAILY.  A daily serial is the proleptic Gregorian ordinal
   (datetime.date.toordinal), a regular serial is year*freq + segment - 1.
   The calendar is lib/Calendar.v (tied to CPython datetime by C09/C11).  NO proofs here. *)
From Coq Require Import ZArith List Bool Lia.
From Verif Require Import lib.Arith lib.Calendar model.Series model.SeriesOps model.Convert.
Import ListNotations.
Open Scope Z_scope.

(* YEARLY, HALFYEARLY, QUARTERLY, MONTHLY *)
Definition reg_freq (f : Z) : bool := (f =? 1) || (f =? 2) || (f =? 4) || (f =? 12).

(* RegularPeriodMixin.to_ymd(position="start"/"end"): first and last month of period t of frequency f *)
Definition lp_first_month (f t : Z) : Z := (t mod f) * (12 / f) + 1.
Definition lp_last_month (f t : Z) : Z := (t mod f + 1) * (12 / f).

(* t.to_daily(position="start").serial and t.to_daily(position="end").serial *)
Definition day_start (f t : Z) : Z := ord_of_ymd (t / f) (lp_first_month f t) 1.
Definition day_end (f t : Z) : Z :=
  ord_of_ymd (t / f) (lp_last_month f t) (days_in_month (t / f) (lp_last_month f t)).
Definition ndays (f t : Z) : Z := day_end f t - day_start f t + 1.

(* the period of frequency f containing day n: DailyPeriod -> from_ymd(f, year, month, day) *)
Definition low_of_day (f n : Z) : Z := year_of_ord n * f + (month_of_ord n - 1) / (12 / f).

Section ConvertDaily.
Variable A : Arith.
Notation V := (car A).
Notation series := (series A).
Variable X : ArithExt A.

(* data_variant[to_daily(start) - start_date : to_daily(end) - start_date + 1] of the padded data *)
Definition day_rows (s : series) (f l : Z) : list (list V) :=
  map (fun j => row_at A s (day_start f l + Z.of_nat j)) (seq 0 (Z.to_nat (ndays f l))).

(* _aggregate_daily_to_regular: from segment 1 of the first year to the last segment of the last year *)
Definition aggregate_daily (m : agg_method) (select : option (list nat)) (discard : bool)
           (f_tgt : Z) (s : series) : res series :=
  match s_start s, s_end A s with
  | Some st, Some en =>
      if reg_freq f_tgt then
        let y0 := year_of_ord st in
        let y1 := year_of_ord en in
        Ok (build A f_tgt (s_nv s) (y0 * f_tgt) ((y1 + 1) * f_tgt - 1)
              (fun l => agg_row A X m select discard (s_nv s) (day_rows s f_tgt l)))
      else Err 1
  | _, _ => Err 1
  end.

(* _disaggregate_flat/_first/_middle/_last to DAILY: low period l is repeated over ndays f l days; first / middle /
   last keep offset 0 / ndays//2 / ndays-1 of each block (cumsum(factor) - factor + ...) *)
Definition disaggregate_daily (d : dis_method) (s : series) : res series :=
  match s_start s, s_end A s with
  | Some st, Some en =>
      let f := s_freq s in
      if reg_freq f then
        Ok (build A 365 (s_nv s) (day_start f st) (day_end f en)
              (fun h => let l := low_of_day f h in
                        if dis_keep d (ndays f l) (h - day_start f l) then row_at A s l
                        else missrow A (s_nv s)))
      else Err 1
  | _, _ => Err 1
  end.

End ConvertDaily.
