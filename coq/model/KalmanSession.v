(* C03 / C08, round 4.  The model OBJECT as a state machine (definitions only; proofs in
   proofs/KalmanSessionProofs.v).

   A Simultaneous model is a list of parameter variants; a variant holds its parameter values
   (Variant.levels/changes) and, once solved, its first-order solution together with the two
   memoised lists of forward expansion matrices (Solution.square_expansion / triangular_expansion,
   fords/solutions.py: _get_solution_expansion appends R(t+k), k = len(cache)+1 .. forward, and returns
   the first `forward` entries).  Python name -> model name:

     has_variants.alter_num_variants            alter        (truncate / append copies of the last variant)
     Simultaneous.assign(name=[x0, x1, ..])     OAssign      (conveniences/iterators.exhaust_then_last)
     Simultaneous.solve -> _solve_variant       OSolve       (variant.solution := Solution.from_system(..):
                                                              a NEW solution, both caches empty)
     Inlay._gets_solution(deviation)            gets_solution (the solution of the FIRST variant of the
                                                              object it is called on; the deviation solution is
                                                              derived from it at call time)
     fords/kalmans.kalman_filter, the loop
       `for vid, model_v, input_ds_v in zip(range(nv), model.iter_variants(), input_ds.iter_variants())`
                                                filter_model (model_v = the view [v] of variant vid)
     shock_simulators._simulate_anticipated_shock_values
                                                use_cache    (expansion of model_v._gets_solution(), i.e. of
                                                              the level solution, also in deviation mode)
     fords/simulators (simulate)                simulate_model (square expansion)

   The numerical black boxes are Section variables: assign1 (update the values of one variant), solve1
   (Solution.from_system of the variant's values), devsol (Solution.create_deviation_solution), expand
   (-X J^(k-1) Ru in the triangular / square basis), kf (everything the loop body of kalman_filter computes
   from solution_v, the variant's values (stds), the expansion matrices and the variant's data), sim. *)
From Coq Require Import List Arith Bool.
Import ListNotations.

Section Stream.
Variables A B X : Type.
(* zip(items, exhaust_then_last(xs, d)) : the k-th item meets nth k xs (last xs d) *)
Fixpoint zip_stream (g : X -> A -> B) (vs : list A) (xs : list X) (lastx : X) : list B :=
  match vs with
  | [] => []
  | v :: vs' =>
      match xs with
      | [] => g lastx v :: zip_stream g vs' [] lastx
      | x :: xs' => g x v :: zip_stream g vs' xs' x
      end
  end.
Definition etl (xs : list X) (d : X) (k : nat) : X := nth k xs (last xs d).
End Stream.
Arguments zip_stream {A B X}.
Arguments etl {X}.

Section Session.

Variables P X S E D O : Type.
Variable assign1 : X -> P -> P.
Variable solve1 : P -> S.
Variable devsol : S -> S.
Variable expand : bool -> S -> nat -> E.        (* basis (true = triangular), solution, k-1  |->  R(t+k) *)
Variable fwd_of : D -> option nat.              (* None: no anticipated shock in the data (no expansion call) *)
Variable kf : S -> P -> list E -> D -> O.
Variable sim : S -> P -> list E -> D -> O.

Record csol := mkCsol { c_s : S; c_sq : list E; c_tri : list E }.
Record variant := mkVariant { v_par : P; v_sol : option csol }.

(* _get_solution_expansion: append the missing matrices to the memo list *)
Definition extend (b : bool) (s : S) (cache : list E) (fwd : nat) : list E :=
  cache ++ map (expand b s) (seq (length cache) (fwd - length cache)).

Definition use_cache (b : bool) (c : csol) (f : option nat) : csol * list E :=
  match f with
  | None => (c, [])
  | Some k =>
      let cache' := extend b (c_s c) (if b then c_tri c else c_sq c) k in
      (if b then mkCsol (c_s c) (c_sq c) cache' else mkCsol (c_s c) cache' (c_tri c), firstn k cache')
  end.

(* Inlay._gets_solution(deviation) on a model object / view *)
Definition gets_solution (dev : bool) (view : list variant) : option S :=
  match view with
  | v :: _ => option_map (fun c => if dev then devsol (c_s c) else c_s c) (v_sol v)
  | [] => None
  end.

(* one pass of the loop of kalman_filter (b = true) / simulate (b = false) over the view [v] *)
Definition call_variant (b : bool) (dev : bool) (d : D) (v : variant) : variant * option O :=
  match v_sol v with
  | None => (v, None)
  | Some c =>
      let cx := use_cache b c (fwd_of d) in
      let v' := mkVariant (v_par v) (Some (fst cx)) in
      (v', option_map (fun s => (if b then kf else sim) s (v_par v) (snd cx) d) (gets_solution dev [v']))
  end.

Definition call_model (b dev : bool) (vs : list variant) (ds : list D) (dd : D) : list (variant * option O) :=
  zip_stream (call_variant b dev) vs ds dd.

Definition solve_variant (v : variant) : variant := mkVariant (v_par v) (Some (mkCsol (solve1 (v_par v)) [] [])).
Definition assign_variant (x : X) (v : variant) : variant := mkVariant (assign1 x (v_par v)) (v_sol v).

(* Mixin.alter_num_variants (Variant.copy copies values and solution) *)
Definition alter {V : Type} (n : nat) (vs : list V) : option (list V) :=
  if n <? 1 then None
  else match vs with
       | [] => None
       | v0 :: _ => if n <? length vs then Some (firstn n vs)
                    else Some (vs ++ repeat (last vs v0) (n - length vs))
       end.

Inductive op :=
| OAssign (xs : list X) (d : X)
| OSolve
| OAlter (n : nat)
| OFilter (dev : bool) (ds : list D) (dd : D)
| OSimulate (dev : bool) (ds : list D) (dd : D).

(* new state (None: the call raises) and what the call returns, variant by variant *)
Definition step (o : op) (vs : list variant) : option (list variant) * list (option O) :=
  match o with
  | OAssign xs d => (Some (zip_stream assign_variant vs xs d), [])
  | OSolve => (Some (map solve_variant vs), [])
  | OAlter n => (alter n vs, [])
  | OFilter dev ds dd => let r := call_model true dev vs ds dd in (Some (map fst r), map snd r)
  | OSimulate dev ds dd => let r := call_model false dev vs ds dd in (Some (map fst r), map snd r)
  end.

(* a session: the trace of everything returned, and the final state *)
Fixpoint run (ops : list op) (vs : list variant) : list (list (option O)) * option (list variant) :=
  match ops with
  | [] => ([], Some vs)
  | o :: r =>
      match step o vs with
      | (None, out) => ([out], None)
      | (Some vs', out) => let t := run r vs' in (out :: fst t, snd t)
      end
  end.

(* ---- the specification machine: no stored solutions, no caches -------------------------------------
   a variant is its current values and the values it was last solved for; a call recomputes everything *)
Record avariant := mkAv { a_par : P; a_solved : option P }.

Definition spec_out (b dev : bool) (par solved : P) (d : D) : O :=
  let s := solve1 solved in
  (if b then kf else sim) (if dev then devsol s else s) par
     (match fwd_of d with None => [] | Some k => map (expand b s) (seq 0 k) end) d.

Definition acall_variant (b dev : bool) (d : D) (a : avariant) : option O :=
  option_map (fun ps => spec_out b dev (a_par a) ps d) (a_solved a).

Definition astep (o : op) (vs : list avariant) : option (list avariant) * list (option O) :=
  match o with
  | OAssign xs d => (Some (zip_stream (fun x a => mkAv (assign1 x (a_par a)) (a_solved a)) vs xs d), [])
  | OSolve => (Some (map (fun a => mkAv (a_par a) (Some (a_par a))) vs), [])
  | OAlter n => (alter n vs, [])
  | OFilter dev ds dd => (Some vs, zip_stream (acall_variant true dev) vs ds dd)
  | OSimulate dev ds dd => (Some vs, zip_stream (acall_variant false dev) vs ds dd)
  end.

Fixpoint arun (ops : list op) (vs : list avariant) : list (list (option O)) * option (list avariant) :=
  match ops with
  | [] => ([], Some vs)
  | o :: r =>
      match astep o vs with
      | (None, out) => ([out], None)
      | (Some vs', out) => let t := arun r vs' in (out :: fst t, snd t)
      end
  end.

(* the refinement relation: same values; the stored solution is the solution of the values of the last
   solve; each memo list is a prefix of the canonical sequence of expansion matrices of THAT solution *)
Definition canon (b : bool) (s : S) (cache : list E) : Prop :=
  cache = map (expand b s) (seq 0 (length cache)).

Definition rel (v : variant) (a : avariant) : Prop :=
  v_par v = a_par a /\
  match v_sol v, a_solved a with
  | None, None => True
  | Some c, Some ps => c_s c = solve1 ps /\ canon false (c_s c) (c_sq c) /\ canon true (c_s c) (c_tri c)
  | _, _ => False
  end.

(* a freshly built single-variant model with values p, solved *)
Definition fresh (p : P) : list variant := [solve_variant (mkVariant p None)].

(* what a session prints for the correspondence run: per variant (solved?, |square memo|, |triangular memo|) *)
Definition shape (v : variant) : bool * nat * nat :=
  match v_sol v with None => (false, 0, 0) | Some c => (true, length (c_sq c), length (c_tri c)) end.

End Session.
