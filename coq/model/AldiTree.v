(* C02 model, part 1: expression trees of the model language and the evaluator that the
   algorithmic differentiator (aldi/differentiators.py: Context.eval) amounts to.

   An equation's `xtring` is evaluated by Python with every name `x[(qid, t+shift)]`
   bound to an Atom (variables, shocks and parameters alike) and every numeric literal a
   plain Python number.  So each sub-expression evaluates to a plain number ([VC]), to an
   Atom ([VA], a dual number (value, diff)), or raises TypeError ([VRej]).  Operators
   follow Python's binary-operator protocol (Atom.__op__, else the reflected
   Atom.__rop__ when it exists); functions follow aldi/adaptations.py (the method of the
   first argument if it has one of that name, else the numpy function, which rejects Atoms).
   Every rule applied to an Atom is a definition of gen/AldiGen.v, regenerated from the
   source on every run.  The diff of an Atom in the code is a vector with one component per
   differentiated token; components do not interact, so the model computes one component
   (one seed assignment [sd]) at a time.
   NO proofs in this file. *)
From Coq Require Import ZArith List String Bool.
From Verif Require Import lib.Dual gen.AldiGen.
Import ListNotations.
Open Scope string_scope.

Definition token : Type := (Z * Z)%type.     (* (qid, shift) *)
Definition token_eqb (a b : token) : bool := Z.eqb (fst a) (fst b) && Z.eqb (snd a) (snd b).

Inductive fn := FLog | FExp | FSqrt | FAbs | FLogistic | FNormalCdf | FNormalPdf.
Inductive fn2 := FMaximum | FMinimum.
Inductive bop := BAdd | BSub | BMul | BDiv | BPow.

Definition fn_name (f : fn) : string :=
  match f with
  | FLog => "log" | FExp => "exp" | FSqrt => "sqrt" | FAbs => "abs" | FLogistic => "logistic"
  | FNormalCdf => "normal_cdf" | FNormalPdf => "normal_pdf"
  end.
Definition fn2_name (f : fn2) : string := match f with FMaximum => "maximum" | FMinimum => "minimum" end.

Section Tree.
Variable A : DArith.
Notation V := (dcar A).

Inductive tree :=
| TConst (c : V)
| TVar (q s : Z)
| TPos (a : tree)
| TNeg (a : tree)
| TBin (o : bop) (a b : tree)
| TFun (f : fn) (a : tree)
| TFun2 (f : fn2) (a b : tree)
| TFun2d (f : fn2) (a : tree).         (* second argument left to its default *)

Inductive val := VC (c : V) | VA (d : dual A) | VRej.

(* does class Atom have a public method of this name (hasattr(x, name) in adaptations.py) *)
Definition is_method (name : string) : bool := existsb (String.eqb name) atom_methods.

(* plain numbers *)
Definition num_bop (o : bop) (x y : V) : V :=
  match o with
  | BAdd => dadd A x y | BSub => dsub A x y | BMul => dmul A x y | BDiv => ddiv A x y | BPow => dpow A x y
  end.
Definition num_fn (f : fn) (x : V) : V :=
  match f with
  | FLog => dln A x | FExp => dexp A x | FSqrt => dsqrt A x | FAbs => dabs A x | FLogistic => dexpit A x
  | FNormalCdf => dncdf A x | FNormalPdf => dnpdf A x
  end.
Definition num_fn2 (f : fn2) (x y : V) : V := match f with FMaximum => dmax A x y | FMinimum => dmin A x y end.

(* Atom op Atom, Atom op number, number op Atom *)
Definition atom_bop_aa (o : bop) : dual A -> dual A -> dual A :=
  match o with
  | BAdd => atom_add_aa A | BSub => atom_sub_aa A | BMul => atom_mul_aa A | BDiv => atom_truediv_aa A
  | BPow => atom_pow_aa A
  end.
Definition atom_bop_ac (o : bop) : dual A -> V -> dual A :=
  match o with
  | BAdd => atom_add_ac A | BSub => atom_sub_ac A | BMul => atom_mul_ac A | BDiv => atom_truediv_ac A
  | BPow => atom_pow_ac A
  end.
Definition atom_bop_ca (o : bop) (x : V) (d : dual A) : val :=
  match o with
  | BAdd => VA (atom_radd A d x) | BSub => VA (atom_rsub A d x) | BMul => VA (atom_rmul A d x)
  | BDiv => VA (atom_rtruediv A d x)
  | BPow => if has_rpow then VA (atom_rpow A d x) else VRej
  end.

Definition apply_bop (o : bop) (a b : val) : val :=
  match a, b with
  | VRej, _ | _, VRej => VRej
  | VC x, VC y => VC (num_bop o x y)
  | VA d, VC y => VA (atom_bop_ac o d y)
  | VA d, VA e => VA (atom_bop_aa o d e)
  | VC x, VA e => atom_bop_ca o x e
  end.

Definition apply_fn (f : fn) (a : val) : val :=
  match a with
  | VRej => VRej
  | VC c => VC (num_fn f c)
  | VA d =>
      if is_method (fn_name f) then
        match f with
        | FLog => VA (atom_log A d) | FExp => VA (atom_exp A d) | FSqrt => VA (atom_sqrt A d)
        | FLogistic => VA (atom_logistic A d)
        | _ => VRej          (* unreachable: the translator fails closed on an Atom method it has no rule for *)
        end
      else VRej              (* the numpy/scipy function applied to an Atom raises TypeError *)
  end.

Definition atom_fn2_aa (f : fn2) : dual A -> dual A -> dual A :=
  match f with FMaximum => atom_maximum_aa A | FMinimum => atom_minimum_aa A end.
Definition atom_fn2_ac (f : fn2) : dual A -> V -> dual A :=
  match f with FMaximum => atom_maximum_ac A | FMinimum => atom_minimum_ac A end.
Definition fn2_default (f : fn2) : V :=
  match f with FMaximum => atom_maximum_default A | FMinimum => atom_minimum_default A end.

Definition apply_fn2 (f : fn2) (a b : val) : val :=
  match a, b with
  | VRej, _ | _, VRej => VRej
  | VC x, VC y => VC (num_fn2 f x y)
  | VC _, VA _ => VRej       (* numpy.maximum(number, Atom) raises TypeError *)
  | VA d, VC y => if is_method (fn2_name f) then VA (atom_fn2_ac f d y) else VRej
  | VA d, VA e => if is_method (fn2_name f) then VA (atom_fn2_aa f d e) else VRej
  end.

Definition apply_fn2d (f : fn2) (a : val) : val :=
  match a with
  | VRej => VRej
  | VC _ => VRej             (* numpy.maximum needs two arguments *)
  | VA d => if is_method (fn2_name f) then VA (atom_fn2_ac f d (fn2_default f)) else VRej
  end.

Section Eval.
Variable rho : token -> V.      (* the data array: value of every token *)
Variable sd : token -> V.       (* Atom._diff of every token for the differentiated component *)
Variable lg : Z -> bool.        (* qid -> is a log-variable *)

Fixpoint eval (t : tree) : val :=
  match t with
  | TConst c => VC c
  | TVar q s => VA (rho (q, s), atom_diff A (lg q) (rho (q, s)) (sd (q, s)))
  | TPos a => match eval a with VA d => VA (atom_pos A d) | v => v end
  | TNeg a => match eval a with VA d => VA (atom_neg A d) | VC c => VC (dneg A c) | VRej => VRej end
  | TBin o a b => apply_bop o (eval a) (eval b)
  | TFun f a => apply_fn f (eval a)
  | TFun2 f a b => apply_fn2 f (eval a) (eval b)
  | TFun2d f a => apply_fn2d f (eval a)
  end.

(* _adapt_equation_for_aldi appends ` + Atom.zero(shape)`: the result is always an Atom *)
Definition eval_equation (t : tree) : val :=
  apply_bop BAdd (eval t) (VA (dofZ A 0, dofZ A 0)).
End Eval.

Fixpoint vars (t : tree) : list token :=
  match t with
  | TConst _ => []
  | TVar q s => [(q, s)]
  | TPos a | TNeg a | TFun _ a | TFun2d _ a => vars a
  | TBin _ a b | TFun2 _ a b => vars a ++ vars b
  end.

End Tree.

Arguments TConst {A}. Arguments TVar {A}. Arguments TPos {A}. Arguments TNeg {A}. Arguments TBin {A}.
Arguments TFun {A}. Arguments TFun2 {A}. Arguments TFun2d {A}.
Arguments VC {A}. Arguments VA {A}. Arguments VRej {A}.

