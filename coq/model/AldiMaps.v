(* C02 model, part 2: where each derivative is placed (aldi/maps.py, jacobians/base.py,
   fords/descriptors.py: SystemMap, fords/systems.py, steadiers/_jacobian.py,
   stacked_time/_jacobians.py).

   The differentiator returns, per equation, one diff row per differentiated token
   ("wrt token"), stacked over the equations: [td].  A map is a list of entries
   (lhs_row, lhs_column, rhs_row, rhs_column); the Jacobian is assembled by the numpy
   statement  M = zeros(shape); M[lhs] = td[rhs]  (a repeated lhs index keeps the last
   assignment).
   NO proofs in this file. *)
From Coq Require Import ZArith List Bool Arith Lia.
From Verif Require Import lib.Dual gen.AldiGen model.AldiTree.
Import ListNotations.

Definition entry : Type := (nat * nat * nat * nat)%type.     (* lhs_row, lhs_column, rhs_row, rhs_column *)
Definition emap : Type := list (Z * list token).             (* eid_to_wrt_tokens, a Python dict *)

(* Python dict lookup; a dict built from a sequence of pairs keeps the LAST value of a repeated key *)
Fixpoint dict_get {T} (d : list (Z * T)) (k : Z) : option T :=
  match d with
  | [] => None
  | (k', v) :: r => match dict_get r k with Some w => Some w | None => if Z.eqb k' k then Some v else None end
  end.

Definition wrt_of (m : emap) (eid : Z) : list token :=
  match dict_get m eid with Some l => l | None => [] end.

(* maps.create_eid_to_rhs_offset: exclusive running sum of the numbers of wrt tokens *)
Fixpoint offsets_from (m : emap) (eids : list Z) (acc : nat) : list (Z * nat) :=
  match eids with
  | [] => []
  | e :: r => (e, acc) :: offsets_from m r (acc + length (wrt_of m e))
  end.
Definition create_eid_to_rhs_offset (m : emap) (eids : list Z) : list (Z * nat) := offsets_from m eids 0.
Definition offset_of (offs : list (Z * nat)) (eid : Z) : nat :=
  match dict_get offs eid with Some n => n | None => 0 end.

(* token_to_lhs_column = {t: i for i, t in enumerate(columns)}; a column may be None (SystemMap.B) *)
Definition otoken_eqb (a : option token) (t : token) : bool :=
  match a with Some u => token_eqb u t | None => false end.
Fixpoint col_from (cols : list (option token)) (i : nat) (t : token) : option nat :=
  match cols with
  | [] => None
  | c :: r => match col_from r (S i) t with
              | Some j => Some j
              | None => if otoken_eqb c t then Some i else None
              end
  end.
Definition col_of (cols : list (option token)) (t : token) : option nat := col_from cols 0 t.

(* maps._get_raw_map_for_single_equation *)
Fixpoint raw_map_single (toks : list token) (cols : list (option token)) (rhs_row lhs_row rhs_column lhs_column_offset : nat)
  : list entry :=
  match toks with
  | [] => []
  | t :: r =>
      let rest := raw_map_single r cols (S rhs_row) lhs_row rhs_column lhs_column_offset in
      match col_of cols t with
      | Some c => (lhs_row, lhs_column_offset + c, rhs_row, rhs_column) :: rest
      | None => rest
      end
  end.

(* maps.ArrayMap.static *)
Fixpoint static_from (m : emap) (offs : list (Z * nat)) (cols : list (option token)) (rhs_column lhs_column_offset : nat)
  (eids : list Z) (lhs_row : nat) : list entry :=
  match eids with
  | [] => []
  | e :: r => raw_map_single (wrt_of m e) cols (offset_of offs e) lhs_row rhs_column lhs_column_offset
              ++ static_from m offs cols rhs_column lhs_column_offset r (S lhs_row)
  end.
Definition array_map_static (eids : list Z) (m : emap) (cols : list (option token)) (offs : list (Z * nat))
  (rhs_column lhs_column_offset : nat) : list entry :=
  static_from m offs cols rhs_column lhs_column_offset eids 0.

(* fords/descriptors.py SystemMap: the columns of B are the transition variables lagged by one period,
   those that are themselves transition variables replaced by None *)
Definition shifted (t : token) (k : Z) : token := (fst t, (snd t + k)%Z).
Definition mem_token (t : token) (l : list token) : bool := existsb (token_eqb t) l.
Definition lagged_columns (tv : list token) : list (option token) :=
  map (fun t => let u := shifted t (-1) in if mem_token u tv then None else Some u) tv.
Definition some_columns (l : list token) : list (option token) := map Some l.

(* stacked_time/_jacobians.py Jacobian._populate_map *)
Fixpoint stacked_cols (tok : token) (cols : list (option token)) (columns_to_eval : list Z)
  (eqn_enum num_eids rhs_row rhs_column : nat) : list entry :=
  match columns_to_eval with
  | [] => []
  | c :: r =>
      let rest := stacked_cols tok cols r eqn_enum num_eids rhs_row (S rhs_column) in
      match col_of cols (shifted tok c) with
      | Some lc => (eqn_enum + num_eids * rhs_column, lc, rhs_row, rhs_column) :: rest
      | None => rest
      end
  end.
Fixpoint stacked_toks (toks : list token) (cols : list (option token)) (columns_to_eval : list Z)
  (eqn_enum num_eids rhs_row : nat) : list entry :=
  match toks with
  | [] => []
  | t :: r => stacked_cols t cols columns_to_eval eqn_enum num_eids rhs_row 0
              ++ stacked_toks r cols columns_to_eval eqn_enum num_eids (S rhs_row)
  end.
Fixpoint stacked_from (m : emap) (cols : list (option token)) (columns_to_eval : list Z) (num_eids : nat)
  (eids : list Z) (eqn_enum rhs_row_offset : nat) : list entry :=
  match eids with
  | [] => []
  | e :: r => stacked_toks (wrt_of m e) cols columns_to_eval eqn_enum num_eids rhs_row_offset
              ++ stacked_from m cols columns_to_eval num_eids r (S eqn_enum) (rhs_row_offset + length (wrt_of m e))
  end.
Definition stacked_map (eids : list Z) (m : emap) (cols : list token) (columns_to_eval : list Z) : list entry :=
  stacked_from m (some_columns cols) columns_to_eval (length eids) eids 0 0.

(* fords/terminators.py Terminator.create_terminal_jacobian_map: the j-th element of the solution transition vector,
   dated at the last simulated period (the j-th column of the first-order transition matrices used for the terminal
   condition), is paired with the column of the unknown that this spot is - or skipped when the spot is not an unknown
   (exogenized by the simulation plan): pairs (lhs column, rhs column) *)
Fixpoint terminal_map_from (terminit : list token) (spots : list (option token)) (rhs_column : nat) : list (nat * nat) :=
  match terminit with
  | [] => []
  | t :: r =>
      let rest := terminal_map_from r spots (S rhs_column) in
      match col_of spots t with
      | Some i => (i, rhs_column) :: rest
      | None => rest
      end
  end.
Definition terminal_jacobian_map (terminit spots : list token) : list (nat * nat) :=
  terminal_map_from terminit (some_columns spots) 0.

(* jacobians/base.py: M = zeros(shape); M[map.lhs] = td[map.rhs] *)
Section Assemble.
Context {V : Type}.
Variable zero : V.
Variable td : nat -> nat -> V.
Definition hits (r c : nat) (e : entry) : bool :=
  let '(lr, lc, _, _) := e in Nat.eqb lr r && Nat.eqb lc c.
Definition cell (entries : list entry) (r c : nat) : V :=
  match find (hits r c) (rev entries) with
  | Some (_, _, rr, rc) => td rr rc
  | None => zero
  end.
End Assemble.

(* ---- the stacked diff array produced by Context.eval_to_arrays ---------------------------- *)
Section Stacked.
Variable A : DArith.
Notation V := (dcar A).

Definition ind (v : token) : token -> V := fun w => if token_eqb w v then dofZ A 1 else dofZ A 0.

Definition diff_of (v : val A) : V := match v with VA d => snd d | _ => dofZ A 0 end.

(* rows of one equation: one per wrt token; the k-th component of every leaf's diff vector is the
   indicator of the k-th wrt token (descriptors._AtomFactory.create_diff_for_token) *)
Definition eq_rows (rho : token -> V) (lg : Z -> bool) (t : tree A) (wrt : list token) : list V :=
  map (fun tok => diff_of (eval_equation A rho (ind tok) lg t)) wrt.

Definition td_rows (rho : token -> V) (lg : Z -> bool) (eqs : list (Z * tree A)) (m : emap) : list V :=
  flat_map (fun et => eq_rows rho lg (snd et) (wrt_of m (fst et))) eqs.

Definition td_of (rows : list V) : nat -> nat -> V := fun r _ => nth r rows (dofZ A 0).

(* one matrix of the unsolved system: rows = the given equation ids, columns = the given tokens *)
Definition system_matrix (rho : token -> V) (lg : Z -> bool) (all_eqs : list (Z * tree A)) (m : emap)
  (eids : list Z) (cols : list (option token)) : list (list V) :=
  let offs := create_eid_to_rhs_offset m (map fst all_eqs) in
  let entries := array_map_static eids m cols offs 0 0 in
  let td := td_of (td_rows rho lg all_eqs m) in
  map (fun r => map (fun c => cell (dofZ A 0) td entries r c) (seq 0 (length cols))) (seq 0 (length eids)).

(* steady state (steadiers/_jacobian.py): wrt are qids; a token's seed is 1 for the level and its shift
   for the change of its quantity *)
Definition seed_level (q0 : Z) : token -> V := fun w => if Z.eqb (fst w) q0 then dofZ A 1 else dofZ A 0.
Definition seed_change (q0 : Z) : token -> V := fun w => if Z.eqb (fst w) q0 then dofZ A (snd w) else dofZ A 0.

End Stacked.

(* ---- the three Jacobians as the implementation assembles them (executable; used by the
        correspondence on PrimFloat and by the theorems on R) --------------------------------- *)
Section Jacobians.
Variable A : DArith.
Notation V := (dcar A).

Definition rho_of (l : list (token * V)) : token -> V :=
  fun w => match find (fun p => token_eqb (fst p) w) l with Some p => snd p | None => dofZ A 0 end.
Definition lg_of (l : list Z) : Z -> bool := fun q => existsb (Z.eqb q) l.
Definition shift_rho (rho : token -> V) (k : Z) : token -> V := fun w => rho (fst w, (snd w + k)%Z).

Definition any_rejects (rho : token -> V) (lg : Z -> bool) (eqs : list (Z * tree A)) : bool :=
  existsb (fun et => match eval_equation A rho (fun _ => dofZ A 0) lg (snd et) with VRej => true | _ => false end) eqs.

Record sysvec := { sv_teids : list Z; sv_meids : list Z; sv_tv : list token; sv_shocks : list token;
                   sv_mv : list token; sv_mshocks : list token }.

(* fords/systems.py System.__init__: A, B, D, F, G, J without the dynamic-identity rows *)
Definition systemize (rho : token -> V) (lg : Z -> bool) (eqs : list (Z * tree A)) (m : emap) (sv : sysvec)
  : option (list (list (list V))) :=
  if any_rejects rho lg eqs then None else
  Some [ system_matrix A rho lg eqs m (sv_teids sv) (some_columns (sv_tv sv));
         system_matrix A rho lg eqs m (sv_teids sv) (lagged_columns (sv_tv sv));
         system_matrix A rho lg eqs m (sv_teids sv) (some_columns (sv_shocks sv));
         system_matrix A rho lg eqs m (sv_meids sv) (some_columns (sv_mv sv));
         system_matrix A rho lg eqs m (sv_meids sv) (some_columns (sv_tv sv));
         system_matrix A rho lg eqs m (sv_meids sv) (some_columns (sv_mshocks sv)) ].

(* steadiers/_jacobian.py: wrt are quantities (qids); eid_to_wrts keeps the qids present in the equation *)
Definition qtok (q : Z) : token := (q, 0%Z).
Definition steady_wrts (eqs : list (Z * tree A)) (wrt_qids : list Z) : emap :=
  map (fun et => (fst et, map qtok (filter (fun q => existsb (fun w => Z.eqb (fst w) q) (vars A (snd et))) wrt_qids))) eqs.

Definition steady_rows (seed : Z -> token -> V) (rho : token -> V) (lg : Z -> bool) (eqs : list (Z * tree A)) (m : emap) : list V :=
  flat_map (fun et => map (fun tok => diff_of A (eval_equation A rho (seed (fst tok)) lg (snd et))) (wrt_of m (fst et))) eqs.

Definition steady_block (seed : Z -> token -> V) (rho : token -> V) (lg : Z -> bool) (eqs : list (Z * tree A)) (wrt_qids : list Z)
  : list (list V) :=
  let m := steady_wrts eqs wrt_qids in
  let eids := map fst eqs in
  let offs := create_eid_to_rhs_offset m eids in
  let cols := some_columns (map qtok wrt_qids) in
  let entries := array_map_static eids m cols offs 0 0 in
  let td := td_of A (steady_rows seed rho lg eqs m) in
  map (fun r => map (fun c => cell (dofZ A 0) td entries r c) (seq 0 (length cols))) (seq 0 (length eids)).

Definition flat_steady_jacobian (rho : token -> V) (lg : Z -> bool) (eqs : list (Z * tree A)) (wrt_qids : list Z)
  : option (list (list V)) :=
  if any_rejects rho lg eqs then None else Some (steady_block (seed_level A) rho lg eqs wrt_qids).

Definition mat_add_scaled (k : V) (B Am : list (list V)) : list (list V) :=
  map (fun p => map (fun q => dadd A (fst q) (dmul A k (snd q))) (combine (fst p) (snd p))) (combine B Am).
Definition hcat (X Y : list (list V)) : list (list V) := map (fun p => fst p ++ snd p) (combine X Y).

(* [[A, B], [Ak, Bk + k*Ak]]: second block row differentiates the residuals evaluated k periods ahead *)
Definition nonflat_steady_jacobian (k : Z) (rho : token -> V) (lg : Z -> bool) (eqs : list (Z * tree A)) (wrt_qids : list Z)
  : option (list (list V)) :=
  if any_rejects rho lg eqs then None else
  let A0 := steady_block (seed_level A) rho lg eqs wrt_qids in
  let B0 := steady_block (seed_change A) rho lg eqs wrt_qids in
  let rk := shift_rho rho k in
  let Ak := steady_block (seed_level A) rk lg eqs wrt_qids in
  let Bk := steady_block (seed_change A) rk lg eqs wrt_qids in
  Some (hcat A0 B0 ++ hcat Ak (mat_add_scaled (dofZ A k) Bk Ak)).

(* stacked_time/_jacobians.py: rows = (period j, equation e) at e + n*j, columns = the wrt spots *)
Definition stacked_td (rho : token -> V) (lg : Z -> bool) (eqs : list (Z * tree A)) (m : emap) (columns_to_eval : list Z)
  : list (list V) :=
  flat_map (fun et => map (fun tok => map (fun c => diff_of A (eval_equation A (shift_rho rho c) (ind A tok) lg (snd et)))
                                           columns_to_eval)
                          (wrt_of m (fst et))) eqs.
Definition td2_of (rows : list (list V)) : nat -> nat -> V := fun r c => nth c (nth r rows []) (dofZ A 0).

Definition stacked_wrts (eqs : list (Z * tree A)) (spot_qids : list Z) (incid : Z -> list token) : emap :=
  map (fun et => (fst et, filter (fun w => existsb (Z.eqb (fst w)) spot_qids) (incid (fst et)))) eqs.

Definition stacked_jacobian (rho : token -> V) (lg : Z -> bool) (eqs : list (Z * tree A)) (m : emap)
  (spots : list token) (columns_to_eval : list Z) : option (list (list V)) :=
  if existsb (fun c => any_rejects (shift_rho rho c) lg eqs) columns_to_eval then None else
  let eids := map fst eqs in
  let entries := stacked_map eids m spots columns_to_eval in
  let td := td2_of (stacked_td rho lg eqs m columns_to_eval) in
  Some (map (fun r => map (fun c => cell (dofZ A 0) td entries r c) (seq 0 (length spots)))
            (seq 0 (length eids * length columns_to_eval))).
End Jacobians.

(* comparison helpers for the generated case files *)
Fixpoint list_eqb2 {T U} (e : T -> U -> bool) (a : list T) (b : list U) : bool :=
  match a, b with
  | [], [] => true
  | x :: xs, y :: ys => e x y && list_eqb2 e xs ys
  | _, _ => false
  end.
Definition opt_eqb2 {T U} (e : T -> U -> bool) (a : option T) (b : option U) : bool :=
  match a, b with Some x, Some y => e x y | None, None => true | _, _ => false end.
