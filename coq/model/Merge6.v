(* C19, round 6: the reporting merge strategies (silent / warning / error / critical) of databoxes/_merge.py as the
   in-place procedure they are: the state of the TARGET databox after self.merge(others, strategy) returned or raised,
   and whether a duplicate key was met.  `error` adds the key to the stream and goes on (the stream raises after the
   loop); `critical` raises at the first duplicate key (wrongdoings: the critical stream raises in add).
   [kvs] is the concatenation of the items of the merged databoxes, in their order.
   NO proofs in this file. *)
From Coq Require Import String Ascii ZArith List Bool.
From Verif Require Import lib.Arith model.Series model.SeriesOps model.Databox.
Import ListNotations.

Section Merge6.
Variable A : Arith.

Fixpoint report_run (critical : bool) (d : databox A) (kvs : list (string * item A)) : databox A * bool :=
  match kvs with
  | [] => (d, false)
  | kv :: r =>
      match dget A d (fst kv) with
      | None => report_run critical (dset A d (fst kv) (snd kv)) r
      | Some _ => if critical then (d, true) else (fst (report_run critical d r), true)
      end
  end.

(* target after the call, duplicate met *)
Definition merge_report_state (critical : bool) (db : databox A) (others : list (databox A)) : databox A * bool :=
  report_run critical db (concat others).

End Merge6.
