(* C02 model, part 3 (specification side): what an equation means - its residual as a real
   function of the data - and which evaluation points are admissible.  NO proofs in this file. *)
From Coq Require Import ZArith List String Bool Reals.
From Verif Require Import lib.Dual lib.DualR gen.AldiGen model.AldiTree.
Import ListNotations.

(* ------------------------------------------------------------------------------------ *)
(* what an equation means: its residual as a real function of the data                   *)
(* ------------------------------------------------------------------------------------ *)
Local Open Scope R_scope.

Definition den_bop (o : bop) (x y : R) : R :=
  match o with BAdd => x + y | BSub => x - y | BMul => x * y | BDiv => x / y | BPow => rpow x y end.
Definition den_fn (f : fn) (x : R) : R :=
  match f with
  | FLog => ln x | FExp => exp x | FSqrt => sqrt x | FAbs => Rabs x | FLogistic => expit x
  | FNormalCdf => ncdf x | FNormalPdf => npdf x
  end.
Definition den_fn2 (f : fn2) (x y : R) : R := match f with FMaximum => Rmax x y | FMinimum => Rmin x y end.

Fixpoint den (t : tree RD) (rho : token -> R) : R :=
  match t with
  | TConst c => c
  | TVar q s => rho (q, s)
  | TPos a => den a rho
  | TNeg a => - den a rho
  | TBin o a b => den_bop o (den a rho) (den b rho)
  | TFun f a => den_fn f (den a rho)
  | TFun2 f a b => den_fn2 f (den a rho) (den b rho)
  | TFun2d f a => den_fn2 f (den a rho) (fn2_default RD f)
  end.

Fixpoint novars (t : tree RD) : bool :=
  match t with
  | TConst _ => true
  | TVar _ _ => false
  | TPos a | TNeg a | TFun _ a | TFun2d _ a => novars a
  | TBin _ a b | TFun2 _ a b => novars a && novars b
  end.

(* evaluation points inside the expression's domain and away from kinks *)
Fixpoint adm (t : tree RD) (rho : token -> R) : Prop :=
  match t with
  | TConst _ | TVar _ _ => True
  | TPos a | TNeg a => adm a rho
  | TBin BDiv a b => adm a rho /\ adm b rho /\ den b rho <> 0
  | TBin BPow a b => adm a rho /\ adm b rho /\
                     (0 < den a rho \/ (den a rho <> 0 /\ novars b = true /\ exists n : Z, den b rho = IZR n))
  | TBin _ a b => adm a rho /\ adm b rho
  | TFun FLog a | TFun FSqrt a => adm a rho /\ 0 < den a rho
  | TFun _ a => adm a rho
  | TFun2 _ a b => adm a rho /\ adm b rho /\ den a rho <> den b rho
  | TFun2d f a => adm a rho /\ den a rho <> fn2_default RD f
  end.

Definition upd (rho : token -> R) (v : token) (u : R) : token -> R :=
  fun w => if token_eqb w v then u else rho w.
