(* Model of irispie's model-source compiler, one level above the text
   (property C04).  The implementation rewrites strings with regular
   expressions (parsers/preparser.py, _pseudofunctions.py, _substitutions.py,
   models.py, sources.py, equations.py, simultaneous/_invariants.py); this
   model works on token lists / syntax trees:

     source  = list (directive item)          !for / !if / !else / !end around items
     item    = keyword | declaration | log name | equation | substitution
     expr    = expression as written (bracket styles, ^ or **, <context> values,
               $substitutions$, names with !for control variables in them)
     sexpr   = cexpr string : expression after macro expansion
     xexpr   = cexpr Z      : compiled equation (xtring), names are quantity ids

   The pseudofunction templates, their default shifts, the residual template
   -(lhs)+rhs, the arithmetic of name shifting, the order of quantity kinds
   and the ant_/std_ prefixes come from gen/PseudoGen.v, regenerated from the
   source on every run.  NOT modelled (glue, exercised by the correspondence
   run only): the character-level regular expressions, the two PEG grammars
   (parsimonious), Jinja, white space and comments.

   NO proofs in this file. *)
From Coq Require Import ZArith List String Bool Ascii.
From Verif Require Import lib.PyRange lib.LangSyntax gen.PseudoGen.
Import ListNotations.
Open Scope Z_scope.

Notation sexpr := (cexpr string).
Notation xexpr := (cexpr Z).

(* ------------------------------------------------------------------ *)
(* 1. Expressions after macro expansion                                *)
(* ------------------------------------------------------------------ *)
Section Core.
Context {N : Type}.

(* _shift_all_names(code, by): every name not followed by ( or [ -- i.e. every
   quantity name, parameters included, never a function name -- gets its shift
   changed by shift_name_new (generated) *)
Fixpoint shiftE (by_ : Z) (e : cexpr N) : cexpr N :=
  match e with
  | CName n k => CName n (shift_name_new k by_)
  | CNum m d => CNum m d
  | CBin o a b => CBin o (shiftE by_ a) (shiftE by_ b)
  | CNeg a => CNeg (shiftE by_ a)
  | CCall f args => CCall f (map (shiftE by_) args)
  | CParen a => CParen (shiftE by_ a)
  | CPseudo f a k => CPseudo f (shiftE by_ a) k
  end.

(* "o".join(sequence): a chain that Python parses left-associatively *)
Definition join (o : binop) (elems : list (cexpr N)) : cexpr N :=
  match elems with
  | [] => CNum 0 0
  | e :: r => fold_left (fun acc x => CBin o acc x) r e
  end.

(* instantiate a builder's template: code = argument, s = shift *)
Fixpoint inst (t : tpl) (code : cexpr N) (s : Z) (joined : binop -> cexpr N) (total : Z) : cexpr N :=
  match t with
  | TCode => code
  | TShifted => shiftE s code
  | TTotal => CNum total 0
  | TNum z => CNum z 0
  | TBin o a b => CBin o (inst a code s joined total) (inst b code s joined total)
  | TNeg a => CNeg (inst a code s joined total)
  | TCall1 f a => CCall f [inst a code s joined total]
  | TParen a => CParen (inst a code s joined total)
  | TJoin o => joined o
  end.

Definition no_join (o : binop) : cexpr N := CNum 0 0.

Fixpoint lookup_pseudo (tbl : list (string * (pseudo * Z))) (f : string) : option (pseudo * Z) :=
  match tbl with
  | [] => None
  | (g, v) :: r => if String.eqb g f then Some v else lookup_pseudo r f
  end.

(* _expand_pseudofunction for one call f(a, k) *)
Definition expand_call (p : pseudo) (s : Z) (a : cexpr N) : cexpr N :=
  let '(seq, total) := mov_sequence s in
  let elems := map (fun ts : tpl * Z => inst (fst ts) a (snd ts) no_join 0) seq in
  inst (pseudo_template p) a s (fun o => join o elems) total.

(* resolve_pseudofunctions *)
Fixpoint expand (e : cexpr N) : cexpr N :=
  match e with
  | CName n k => CName n k
  | CNum m d => CNum m d
  | CBin o a b => CBin o (expand a) (expand b)
  | CNeg a => CNeg (expand a)
  | CCall f args => CCall f (map expand args)
  | CParen a => CParen (expand a)
  | CPseudo f a k =>
      match lookup_pseudo pseudo_resolution f with
      | Some (p, dfl) => expand_call p (resolve_shift k dfl) (expand a)
      | None => CPseudo f (expand a) k
      end
  end.

(* what Python's parser makes of the text: parentheses disappear *)
Fixpoint strip (e : cexpr N) : cexpr N :=
  match e with
  | CName n k => CName n k
  | CNum m d => CNum m d
  | CBin o a b => CBin o (strip a) (strip b)
  | CNeg a => CNeg (strip a)
  | CCall f args => CCall f (map strip args)
  | CParen a => strip a
  | CPseudo f a k => CPseudo f (strip a) k
  end.

(* _postprocess_xtring: "-(" + lhs + ")+" + rhs.  The rhs text is appended bare, so
   Python attaches -(lhs) to the first term of the left-most +/- chain of rhs. *)
Fixpoint graft (n : cexpr N) (r : cexpr N) : cexpr N :=
  match r with
  | CBin Add a b => CBin Add (graft n a) b
  | CBin Sub a b => CBin Sub (graft n a) b
  | _ => CBin Add n r
  end.

Definition residual (lhs rhs : cexpr N) : cexpr N := graft (CNeg (CParen lhs)) rhs.

(* rhs text followed by "+ t" / "- t" pieces (the body of a !for inside an equation) *)
Definition add_tails (base : cexpr N) (tails : list (bool * cexpr N)) : cexpr N :=
  fold_left (fun acc (st : bool * cexpr N) => CBin (if fst st then Add else Sub) acc (snd st)) tails base.

Fixpoint has_pseudo (e : cexpr N) : bool :=
  match e with
  | CName _ _ | CNum _ _ => false
  | CBin _ a b => has_pseudo a || has_pseudo b
  | CNeg a | CParen a => has_pseudo a
  | CCall _ args => existsb has_pseudo args
  | CPseudo _ _ _ => true
  end.

End Core.

(* cexpr map on names *)
Section MapNames.
Context {N M : Type}.
Variable f : N -> option M.
Fixpoint map_opt {A B} (g : A -> option B) (l : list A) : option (list B) :=
  match l with
  | [] => Some []
  | x :: r => match g x, map_opt g r with Some y, Some ys => Some (y :: ys) | _, _ => None end
  end.
Fixpoint map_names (e : cexpr N) : option (cexpr M) :=
  match e with
  | CName n k => match f n with Some m => Some (CName m k) | None => None end
  | CNum m d => Some (CNum m d)
  | CBin o a b => match map_names a, map_names b with Some a', Some b' => Some (CBin o a' b') | _, _ => None end
  | CNeg a => match map_names a with Some a' => Some (CNeg a') | None => None end
  | CCall g args =>
      match (fix go (l : list (cexpr N)) : option (list (cexpr M)) :=
               match l with
               | [] => Some []
               | x :: r => match map_names x, go r with Some y, Some ys => Some (y :: ys) | _, _ => None end
               end) args with
      | Some args' => Some (CCall g args') | None => None end
  | CParen a => match map_names a with Some a' => Some (CParen a') | None => None end
  | CPseudo g a k => match map_names a with Some a' => Some (CPseudo g a' k) | None => None end
  end.
End MapNames.

(* ------------------------------------------------------------------ *)
(* 2. Meaning                                                          *)
(* ------------------------------------------------------------------ *)
(* An abstract carrier: the operations the equations use.  Laws are hypotheses of the
   theorems that need them (proofs/LangProofs.v). *)
Record carrier := mkCarrier {
  val : Type;
  vadd : val -> val -> val;
  vsub : val -> val -> val;
  vmul : val -> val -> val;
  vdiv : val -> val -> val;
  vpow : val -> val -> val;
  vneg : val -> val;
  vnum : Z -> nat -> val;                 (* decimal literal m / 10^d *)
  vfun : string -> list val -> val        (* log, exp, ..., functions of the context *)
}.

Section Sem.
Variable C : carrier.
Notation V := (val C).
Context {N : Type}.

Definition vbin (o : binop) : V -> V -> V :=
  match o with Add => vadd C | Sub => vsub C | Mul => vmul C | Div => vdiv C | Pow => vpow C end.

(* documented meaning of a moving window of n terms stepping by st: e, e[st], e[2 st], ... *)
Fixpoint window (op : V -> V -> V) (f : Z -> V) (st : Z) (n : nat) : V :=
  match n with
  | O => f 0
  | S m => op (window op f st m) (f (Z.of_nat (S m) * st))
  end.

(* documented meaning of the pseudofunctions at shift s (value of the argument at date offset j is f j) *)
Definition pseudo_sem (p : pseudo) (s : Z) (f : Z -> V) : V :=
  let n := Z.to_nat (Z.abs s) in
  let st := sgn s in
  match p with
  | Pshift => f s
  | Pdiff => vsub C (f 0) (f s)
  | Pdifflog => vsub C (vfun C "log" [f 0]) (vfun C "log" [f s])
  | Ppct => vmul C (vnum C 100 0) (vsub C (vdiv C (f 0) (f s)) (vnum C 1 0))
  | Proc => vdiv C (f 0) (f s)
  | Pmovsum => match n with O => vnum C 0 0 | S m => window (vadd C) f st m end
  | Pmovavg => vdiv C (match n with O => vnum C 0 0 | S m => window (vadd C) f st m end) (vnum C (Z.abs s) 0)
  | Pmovprod => match n with O => vnum C 0 0 | S m => window (vmul C) f st m end
  end.

(* rho n t : value of name n at date t *)
Fixpoint sem (rho : N -> Z -> V) (e : cexpr N) (t : Z) : V :=
  match e with
  | CName n k => rho n (t + k)
  | CNum m d => vnum C m d
  | CBin o a b => vbin o (sem rho a t) (sem rho b t)
  | CNeg a => vneg C (sem rho a t)
  | CCall f args => vfun C f (map (fun a => sem rho a t) args)
  | CParen a => sem rho a t
  | CPseudo f a k =>
      match lookup_pseudo pseudo_resolution f with
      | Some (p, dfl) => pseudo_sem p (resolve_shift k dfl) (fun j => sem rho a (t + j))
      | None => vfun C f [sem rho a t]
      end
  end.
End Sem.

(* ------------------------------------------------------------------ *)
(* 3. Source syntax                                                    *)
(* ------------------------------------------------------------------ *)
(* names and descriptions may contain !for control variables *)
Inductive cvariant := VPlain | VUpper | VLower | VUpperPipe | VLowerPipe.
Inductive piece := Lit (s : string) | Ctl (c : string) (v : cvariant).
Definition tname := list piece.

(* integer expressions / conditions evaluated in the preparser context (<...>, {{...}}, !if) *)
Inductive iexpr := IConst (z : Z) | IVar (s : string) | IAdd (a b : iexpr) | ISub (a b : iexpr) | IMul (a b : iexpr).
Inductive cmp := CmpEq | CmpNe | CmpLt | CmpLe | CmpGt | CmpGe.
Inductive cond :=
| CdTruth (ie : iexpr)                       (* truthiness of a context value *)
| CdCmp (c : cmp) (a b : iexpr)
| CdStrEq (a : tname) (b : string) (neg : bool)   (* "?c" == "x"  /  != *)
| CdNot (a : cond) | CdAnd (a b : cond) | CdOr (a b : cond).

Inductive bracket := Curly | Square.
Inductive shiftspec := ShZ (z : Z) (b : bracket) | ShCtx (ie : iexpr).
Inductive powstyle := Caret | StarStar.

Inductive expr :=
| EName (n : tname) (k : shiftspec)
| ENum (m : Z) (d : nat)
| ECtx (ie : iexpr) (jinja : bool)
| EBin (o : binop) (ps : powstyle) (a b : expr)
| ENeg (a : expr)
| ECall (f : string) (args : list expr)
| EParen (a : expr)
| EPseudo (f : string) (a : expr) (k : option Z)
| ESubs (s : string).

Inductive tokitem := TokName (n : tname) | TokCtx (v : string).

Section Directive.
Variable T : Type.
Inductive directive :=
| DText (x : T)
| DFor (c : string) (toks : list tokitem)
| DIf (cd : cond)
| DElse
| DEnd.
End Directive.
Arguments DText {T}. Arguments DFor {T}. Arguments DIf {T}. Arguments DElse {T}. Arguments DEnd {T}.

Inductive eqkind := KTransition | KMeasurement.
Inductive blockkw :=
| BQty (k : qkind) (spelling : nat)
| BLog (allbut : bool) (spelling : nat)
| BEqn (k : eqkind) (spelling : nat)
| BSubs (spelling : nat).

Definition tail := (bool * expr)%type.                (* + term / - term *)
Record eqside := mkSide { s_lhs : expr; s_assign : bool; s_rhs : expr; s_tails : list (directive tail) }.

Inductive item :=
| IKeyword (b : blockkw)
| IQty (descr : tname) (n : tname) (tag : option string)     (* name`tag *)
| ILog (n : tname)
| ILogList (tag : string)                                    (* !list(`tag) in a !log-variables block *)
| IEqn (descr : tname) (dyn : eqside) (steady : option eqside)
| ISubs (name : string) (assign : bool) (body : expr).

Definition source := list (directive item).

(* preparser context *)
Inductive cval := VInt (z : Z) | VList (l : list string).
Definition context := list (string * cval).

(* ------------------------------------------------------------------ *)
(* 4. Control-variable substitution (_For._expand_tokens)              *)
(* ------------------------------------------------------------------ *)
Definition is_lower (a : ascii) : bool := let n := nat_of_ascii a in (97 <=? n)%nat && (n <=? 122)%nat.
Definition is_upper (a : ascii) : bool := let n := nat_of_ascii a in (65 <=? n)%nat && (n <=? 90)%nat.
Definition up (a : ascii) : ascii := if is_lower a then ascii_of_nat (nat_of_ascii a - 32) else a.
Definition low (a : ascii) : ascii := if is_upper a then ascii_of_nat (nat_of_ascii a + 32) else a.
Fixpoint smap (f : ascii -> ascii) (s : string) : string :=
  match s with EmptyString => EmptyString | String a r => String (f a) (smap f r) end.

Definition apply_variant (v : cvariant) (tok : string) : string :=
  match v with
  | VPlain => tok
  | VUpper | VUpperPipe => smap up tok
  | VLower | VLowerPipe => smap low tok
  end.

Definition subst_piece (c tok : string) (p : piece) : piece :=
  match p with
  | Lit s => Lit s
  | Ctl c' v => if String.eqb c' c then Lit (apply_variant v tok) else Ctl c' v
  end.
Definition subst_tname (c tok : string) (n : tname) : tname := map (subst_piece c tok) n.

Fixpoint subst_cond (c tok : string) (cd : cond) : cond :=
  match cd with
  | CdStrEq a b ng => CdStrEq (subst_tname c tok a) b ng
  | CdNot a => CdNot (subst_cond c tok a)
  | CdAnd a b => CdAnd (subst_cond c tok a) (subst_cond c tok b)
  | CdOr a b => CdOr (subst_cond c tok a) (subst_cond c tok b)
  | _ => cd
  end.

Fixpoint subst_expr (c tok : string) (e : expr) : expr :=
  match e with
  | EName n k => EName (subst_tname c tok n) k
  | ENum m d => ENum m d
  | ECtx ie j => ECtx ie j
  | EBin o ps a b => EBin o ps (subst_expr c tok a) (subst_expr c tok b)
  | ENeg a => ENeg (subst_expr c tok a)
  | ECall f args => ECall f (map (subst_expr c tok) args)
  | EParen a => EParen (subst_expr c tok a)
  | EPseudo f a k => EPseudo f (subst_expr c tok a) k
  | ESubs s => ESubs s
  end.

Definition subst_tokitem (c tok : string) (ti : tokitem) : tokitem :=
  match ti with TokName n => TokName (subst_tname c tok n) | TokCtx v => TokCtx v end.

(* .replace on one element of the sequence: the control name of an inner !for is not touched *)
Definition subst_directive {T} (f : string -> string -> T -> T) (c tok : string) (d : directive T) : directive T :=
  match d with
  | DText x => DText (f c tok x)
  | DFor c' toks => DFor c' (map (subst_tokitem c tok) toks)
  | DIf cd => DIf (subst_cond c tok cd)
  | DElse => DElse
  | DEnd => DEnd
  end.

Definition subst_tail (c tok : string) (t : tail) : tail := (fst t, subst_expr c tok (snd t)).
Definition subst_side (c tok : string) (s : eqside) : eqside :=
  mkSide (subst_expr c tok (s_lhs s)) (s_assign s) (subst_expr c tok (s_rhs s))
         (map (subst_directive subst_tail c tok) (s_tails s)).

Definition subst_item (c tok : string) (it : item) : item :=
  match it with
  | IKeyword b => IKeyword b
  | IQty d n tg => IQty (subst_tname c tok d) (subst_tname c tok n) tg
  | ILog n => ILog (subst_tname c tok n)
  | ILogList tg => ILogList tg
  | IEqn d dy st => IEqn (subst_tname c tok d) (subst_side c tok dy)
                         (match st with Some s => Some (subst_side c tok s) | None => None end)
  | ISubs nm a b => ISubs nm a b
  end.

(* ------------------------------------------------------------------ *)
(* 5. Context evaluation                                               *)
(* ------------------------------------------------------------------ *)
Fixpoint ctx_lookup (cx : context) (s : string) : option cval :=
  match cx with [] => None | (k, v) :: r => if String.eqb k s then Some v else ctx_lookup r s end.

Fixpoint ieval (cx : context) (ie : iexpr) : option Z :=
  match ie with
  | IConst z => Some z
  | IVar s => match ctx_lookup cx s with Some (VInt z) => Some z | _ => None end
  | IAdd a b => match ieval cx a, ieval cx b with Some x, Some y => Some (x + y) | _, _ => None end
  | ISub a b => match ieval cx a, ieval cx b with Some x, Some y => Some (x - y) | _, _ => None end
  | IMul a b => match ieval cx a, ieval cx b with Some x, Some y => Some (x * y) | _, _ => None end
  end.

Fixpoint close_name (n : tname) : option string :=
  match n with
  | [] => Some EmptyString
  | Lit s :: r => match close_name r with Some t => Some (s ++ t)%string | None => None end
  | Ctl _ _ :: _ => None
  end.

Definition cmp_eval (c : cmp) (x y : Z) : bool :=
  match c with
  | CmpEq => x =? y | CmpNe => negb (x =? y) | CmpLt => x <? y | CmpLe => x <=? y | CmpGt => x >? y | CmpGe => x >=? y
  end.

Fixpoint cond_eval (cx : context) (cd : cond) : option bool :=
  match cd with
  | CdTruth ie => match ieval cx ie with Some z => Some (negb (z =? 0)) | None => None end
  | CdCmp c a b => match ieval cx a, ieval cx b with Some x, Some y => Some (cmp_eval c x y) | _, _ => None end
  | CdStrEq a b ng => match close_name a with Some s => Some (xorb ng (String.eqb s b)) | None => None end
  | CdNot a => match cond_eval cx a with Some v => Some (negb v) | None => None end
  | CdAnd a b => match cond_eval cx a, cond_eval cx b with Some x, Some y => Some (x && y) | _, _ => None end
  | CdOr a b => match cond_eval cx a, cond_eval cx b with Some x, Some y => Some (x || y) | _, _ => None end
  end.

(* _For._prepare_tokens *)
Fixpoint tokens_of (cx : context) (toks : list tokitem) : option (list string) :=
  match toks with
  | [] => Some []
  | TokName n :: r =>
      match close_name n, tokens_of cx r with Some s, Some l => Some (s :: l) | _, _ => None end
  | TokCtx v :: r =>
      match ctx_lookup cx v, tokens_of cx r with Some (VList l0), Some l => Some (l0 ++ l) | _, _ => None end
  end.

(* ------------------------------------------------------------------ *)
(* 6. _resolve_sequence                                                *)
(* ------------------------------------------------------------------ *)
Inductive rres (T : Type) := ROk (l : list T) | RErr | RFuel.
Arguments ROk {T}. Arguments RErr {T}. Arguments RFuel {T}.

Section Resolve.
Context {T : Type}.
Variable sub : string -> string -> T -> T.
Variable cx : context.

Definition level (d : directive T) : Z :=
  match d with DFor _ _ | DIf _ => 1 | DEnd => -1 | _ => 0 end.

(* _find_matching_end: first index at which the cumulated level is 0 *)
Fixpoint find_end_from (acc : Z) (i : nat) (s : list (directive T)) : option nat :=
  match s with
  | [] => None
  | d :: r => let acc' := acc + level d in if acc' =? 0 then Some i else find_end_from acc' (S i) r
  end.
Definition find_end (s : list (directive T)) : option nat := find_end_from 0 0 s.

Definition is_else (d : directive T) : bool := match d with DElse => true | _ => false end.

(* _find_matching_else: first !else at cumulated level 1.  [bound] = Some e restricts the
   search to the indices before the matching !end (the repaired code); None searches the
   whole rest of the sequence (the code before the repair). *)
Fixpoint find_else_from (acc : Z) (i : nat) (bound : option nat) (s : list (directive T)) : option nat :=
  match s with
  | [] => None
  | d :: r =>
      if (match bound with Some e => (e <=? i)%nat | None => false end) then None
      else let acc' := acc + level d in
           if (acc' =? 1) && is_else d then Some i else find_else_from acc' (S i) bound r
  end.

Variable bounded_else : bool.

Definition find_else (e : nat) (s : list (directive T)) : option nat :=
  find_else_from 0 0 (if bounded_else then Some e else None) s.

Definition slice (a b : nat) (s : list (directive T)) : list (directive T) := firstn (b - a) (skipn a s).

Definition rapp (a b : rres T) : rres T :=
  match a, b with
  | ROk x, ROk y => ROk (x ++ y)
  | RErr, _ => RErr
  | RFuel, _ => RFuel
  | ROk _, RErr => RErr
  | ROk _, RFuel => RFuel
  end.

Fixpoint resolve (fuel : nat) (s : list (directive T)) : rres T :=
  match fuel with
  | O => RFuel
  | S fu =>
      match s with
      | [] => ROk []
      | DText x :: r => rapp (ROk [x]) (resolve fu r)
      | DFor c toks :: _ =>
          match find_end s, tokens_of cx toks with
          | Some e, Some tl =>
              let body := slice 1 e s in
              let new := flat_map (fun tok => map (subst_directive sub c tok) body) tl in
              rapp (resolve fu new) (resolve fu (skipn (S e) s))
          | _, _ => RErr
          end
      | DIf cd :: _ =>
          match find_end s, cond_eval cx cd with
          | Some e, Some b =>
              let el := match find_else e s with Some i => i | None => e end in
              let chosen := if b then slice 1 el s else slice (S el) e s in
              rapp (resolve fu chosen) (resolve fu (skipn (S e) s))
          | _, _ => RErr
          end
      | DElse :: _ => RErr
      | DEnd :: _ => RErr
      end
  end.
End Resolve.

(* ------------------------------------------------------------------ *)
(* 7. Elaboration of one expression: close names, evaluate <...>,      *)
(*    inline $substitutions$                                           *)
(* ------------------------------------------------------------------ *)
Fixpoint lookup_s {A} (tbl : list (string * A)) (s : string) : option A :=
  match tbl with [] => None | (k, v) :: r => if String.eqb k s then Some v else lookup_s r s end.

Definition num_of_Z (z : Z) : sexpr := if z <? 0 then CNeg (CNum (- z) 0) else CNum z 0.

Section Elab.
Variable cx : context.
Variable subs : list (string * sexpr).

Fixpoint elab (e : expr) : option sexpr :=
  match e with
  | EName n k =>
      match close_name n, (match k with ShZ z _ => Some z | ShCtx ie => ieval cx ie end) with
      | Some s, Some z => Some (CName s z)
      | _, _ => None
      end
  | ENum m d => Some (CNum m d)
  | ECtx ie _ => match ieval cx ie with Some z => Some (num_of_Z z) | None => None end
  | EBin o _ a b => match elab a, elab b with Some a', Some b' => Some (CBin o a' b') | _, _ => None end
  | ENeg a => match elab a with Some a' => Some (CNeg a') | None => None end
  | ECall f args =>
      match (fix go (l : list expr) : option (list sexpr) :=
               match l with
               | [] => Some []
               | x :: r => match elab x, go r with Some y, Some ys => Some (y :: ys) | _, _ => None end
               end) args with
      | Some args' => Some (CCall f args') | None => None end
  | EParen a => match elab a with Some a' => Some (CParen a') | None => None end
  | EPseudo f a k => match elab a with Some a' => Some (CPseudo f a' k) | None => None end
  | ESubs s => lookup_s subs s
  end.
End Elab.

(* ------------------------------------------------------------------ *)
(* 8. Blocks -> quantities and equations                               *)
(* ------------------------------------------------------------------ *)
Inductive block := InNone | InQty (k : qkind) | InLog | InEqn (k : eqkind) | InSubs.

Record decl := mkDecl { d_kind : qkind; d_name : string; d_descr : string }.
Record eqn := mkEqn { e_kind : eqkind; e_descr : string; e_dyn : eqside; e_steady : option eqside }.

Record collected := mkColl {
  c_block : block;
  c_decls : list decl;                      (* in order of appearance *)
  c_log : list string;
  c_allbut : list bool;                     (* one flag per !log-variables block *)
  c_eqns : list eqn;
  c_subs : list (string * expr)
}.

Definition coll0 : collected := mkColl InNone [] [] [] [] [].

(* _lists.resolve_lists: every name`tag of the whole (preparsed) source, and !list(`tag) = the names with that tag *)
Definition tags_of (items : list item) : list (string * string) :=
  flat_map (fun it => match it with
                      | IQty _ n (Some tg) => match close_name n with Some s => [(tg, s)] | None => [] end
                      | _ => []
                      end) items.
Definition names_tagged (tags : list (string * string)) (tg : string) : list string :=
  map snd (filter (fun p => String.eqb (fst p) tg) tags).

Definition collect1 (tags : list (string * string)) (st : option collected) (it : item) : option collected :=
  match st with
  | None => None
  | Some c =>
      match it, c_block c with
      | IKeyword (BQty k _), _ => Some (mkColl (InQty k) (c_decls c) (c_log c) (c_allbut c) (c_eqns c) (c_subs c))
      | IKeyword (BLog ab _), _ => Some (mkColl InLog (c_decls c) (c_log c) (c_allbut c ++ [ab]) (c_eqns c) (c_subs c))
      | IKeyword (BEqn k _), _ => Some (mkColl (InEqn k) (c_decls c) (c_log c) (c_allbut c) (c_eqns c) (c_subs c))
      | IKeyword (BSubs _), _ => Some (mkColl InSubs (c_decls c) (c_log c) (c_allbut c) (c_eqns c) (c_subs c))
      | IQty d n _, InQty k =>
          match close_name d, close_name n with
          | Some ds, Some ns =>
              Some (mkColl (c_block c) (c_decls c ++ [mkDecl k ns ds]) (c_log c) (c_allbut c) (c_eqns c) (c_subs c))
          | _, _ => None
          end
      | ILog n, InLog =>
          match close_name n with
          | Some ns => Some (mkColl (c_block c) (c_decls c) (c_log c ++ [ns]) (c_allbut c) (c_eqns c) (c_subs c))
          | None => None
          end
      | ILogList tg, InLog =>
          Some (mkColl (c_block c) (c_decls c) (c_log c ++ names_tagged tags tg) (c_allbut c) (c_eqns c) (c_subs c))
      | IEqn d dy sd, InEqn k =>
          match close_name d with
          | Some ds => Some (mkColl (c_block c) (c_decls c) (c_log c) (c_allbut c) (c_eqns c ++ [mkEqn k ds dy sd]) (c_subs c))
          | None => None
          end
      | ISubs nm _ b, InSubs =>
          Some (mkColl (c_block c) (c_decls c) (c_log c) (c_allbut c) (c_eqns c) (c_subs c ++ [(nm, b)]))
      | _, _ => None
      end
  end.

Definition collect (items : list item) : option collected := fold_left (collect1 (tags_of items)) items (Some coll0).

(* quantities *)
Record quantity := mkQ { q_name : string; q_kind : qkind; q_descr : string; q_logly : option bool }.

Definition of_kind (k : qkind) (l : list decl) : list decl := filter (fun d => qkind_eqb (d_kind d) k) l.
Definition mem_s (s : string) (l : list string) : bool := existsb (String.eqb s) l.
Definition mem_kind (k : qkind) (l : list qkind) : bool := existsb (qkind_eqb k) l.

Definition descr_or_name (d : decl) : string :=
  if String.eqb (d_descr d) EmptyString then d_name d else d_descr d.

(* ModelSource.from_lists (entry order) followed by Invariant.from_source:
   anticipated shocks, std_ parameters, reorder_by_kind, stamp_id *)
Definition all_decls (decls : list decl) : list decl :=
  let entered := flat_map (fun k => of_kind k decls) entry_order in
  let tshocks := of_kind QTransitionShock entered in
  let mshocks := of_kind QMeasurementShock entered in
  let ants := map (fun d => mkDecl QAnticipatedShockValue (append ant_prefix (d_name d)) (append ant_descr_prefix (descr_or_name d))) tshocks in
  let stds_t := map (fun d => mkDecl QTransitionStd (append std_prefix (d_name d)) (append std_descr_prefix (descr_or_name d))) tshocks in
  let stds_m := map (fun d => mkDecl QMeasurementStd (append std_prefix (d_name d)) (append std_descr_prefix (descr_or_name d))) mshocks in
  let withall := entered ++ ants ++ stds_t ++ stds_m in
  flat_map (fun k => of_kind k withall) kind_order.

(* _is_all_but_present / _verify_all_but *)
Definition allbut_flag (flags : list bool) : option bool :=
  match flags with
  | [] => Some false
  | f :: r => if forallb (Bool.eqb f) r then Some f else None
  end.

(* _populate_logly *)
Definition logly_of (allbut : bool) (logs : list string) (d : decl) : option bool :=
  if mem_kind (d_kind d) loggable_kinds
  then Some (if mem_s (d_name d) logs then negb allbut else allbut)
  else None.

Fixpoint nodup_s (l : list string) : bool :=
  match l with [] => true | x :: r => negb (mem_s x r) && nodup_s r end.

Fixpoint index_of (s : string) (l : list string) (i : Z) : option Z :=
  match l with [] => None | x :: r => if String.eqb x s then Some i else index_of s r (i + 1) end.

(* _introduce_anticipated_shocks_for_transition_shocks (after the repair that keeps the time shift) *)
Fixpoint ant_subst (shocks : list string) (e : sexpr) : sexpr :=
  match e with
  | CName n k => if mem_s n shocks then CParen (CBin Add (CName n k) (CName (append ant_prefix n) k)) else CName n k
  | CNum m d => CNum m d
  | CBin o a b => CBin o (ant_subst shocks a) (ant_subst shocks b)
  | CNeg a => CNeg (ant_subst shocks a)
  | CCall f args => CCall f (map (ant_subst shocks) args)
  | CParen a => CParen (ant_subst shocks a)
  | CPseudo f a k => CPseudo f (ant_subst shocks a) k
  end.

Definition big_fuel : nat := 4000.

Section CompileEq.
Variable cx : context.
Variable subs : list (string * sexpr).
Variable bounded_else : bool.

(* one side of !! : macro expansion up to the expression "as written" *)
Definition elab_tail (t : tail) : option (bool * sexpr) :=
  match elab cx subs (snd t) with Some e => Some (fst t, expand e) | None => None end.

Definition side_written (s : eqside) : option (sexpr * sexpr) :=
  match resolve subst_tail cx bounded_else big_fuel (s_tails s) with
  | ROk tl =>
      match elab cx subs (s_lhs s), elab cx subs (s_rhs s), map_opt elab_tail tl with
      | Some l, Some r, Some tls => Some (expand l, add_tails (expand r) tls)
      | _, _, _ => None
      end
  | _ => None
  end.

Definition compile_side (names : list string) (shocks : list string) (s : eqside) : option xexpr :=
  match side_written s with
  | Some (l, r) =>
      map_names (fun n => index_of n names 0) (strip (residual (ant_subst shocks l) (ant_subst shocks r)))
  | None => None
  end.
End CompileEq.

Record cmodel := mkModel {
  m_quantities : list quantity;            (* in id order *)
  m_dynamic : list xexpr;
  m_steady : list xexpr;
  m_eq_descr : list string
}.

Inductive cres := COk (m : cmodel) | CFail.

Definition eqkind_eqb (a b : eqkind) : bool :=
  match a, b with KTransition, KTransition | KMeasurement, KMeasurement => true | _, _ => false end.

Definition compile_collected (cx : context) (bounded_else : bool) (c : collected) : cres :=
  match allbut_flag (c_allbut c) with
  | None => CFail
  | Some ab =>
      let decls := all_decls (c_decls c) in
      let names := map d_name decls in
      let loggable := map d_name (filter (fun d => mem_kind (d_kind d) loggable_kinds) decls) in
      let tshocks := map d_name (of_kind QTransitionShock decls) in
      let eqs := filter (fun e => eqkind_eqb (e_kind e) KTransition) (c_eqns c)
                 ++ filter (fun e => eqkind_eqb (e_kind e) KMeasurement) (c_eqns c) in
      let count k := List.length (filter (fun e => eqkind_eqb (e_kind e) k) (c_eqns c)) in
      if negb (nodup_s names) then CFail
      else if negb (forallb (fun s => mem_s s loggable) (c_log c)) then CFail
      else if negb (Nat.eqb (count KTransition) (List.length (of_kind QTransitionVariable decls))) then CFail
      else if negb (Nat.eqb (count KMeasurement) (List.length (of_kind QMeasurementVariable decls))) then CFail
      else
        match map_opt (fun nb : string * expr =>
                         match elab cx [] (snd nb) with Some b => Some (fst nb, expand b) | None => None end) (c_subs c) with
        | None => CFail
        | Some subs =>
            let dyn := map_opt (fun e => compile_side cx subs bounded_else names
                                   (match e_kind e with KTransition => tshocks | KMeasurement => [] end) (e_dyn e)) eqs in
            let std := map_opt (fun e => compile_side cx subs bounded_else names []
                                   (match e_steady e with Some s => s | None => e_dyn e end)) eqs in
            match dyn, std with
            | Some dy, Some sd =>
                COk (mkModel (map (fun d => mkQ (d_name d) (d_kind d) (d_descr d) (logly_of ab (c_log c) d)) decls)
                             dy sd (map e_descr eqs))
            | _, _ => CFail
            end
        end
  end.

(* Simultaneous.from_string *)
Definition compile (cx : context) (bounded_else : bool) (fuel : nat) (src : source) : cres :=
  match resolve subst_item cx bounded_else fuel src with
  | ROk items => match collect items with Some c => compile_collected cx bounded_else c | None => CFail end
  | _ => CFail
  end.

(* ------------------------------------------------------------------ *)
(* 9. Boolean equalities used by the generated correspondence cases    *)
(* ------------------------------------------------------------------ *)
Fixpoint xexpr_eqb (a b : xexpr) : bool :=
  match a, b with
  | CName n k, CName n' k' => (n =? n') && (k =? k')
  | CNum m d, CNum m' d' => (m =? m') && Nat.eqb d d'
  | CBin o x y, CBin o' x' y' => binop_eqb o o' && xexpr_eqb x x' && xexpr_eqb y y'
  | CNeg x, CNeg x' => xexpr_eqb x x'
  | CCall f l, CCall f' l' =>
      String.eqb f f' &&
      (fix go (l l' : list xexpr) : bool :=
         match l, l' with
         | [], [] => true
         | x :: r, x' :: r' => xexpr_eqb x x' && go r r'
         | _, _ => false
         end) l l'
  | CParen x, CParen x' => xexpr_eqb x x'
  | CPseudo f x k, CPseudo f' x' k' =>
      String.eqb f f' && xexpr_eqb x x' &&
      match k, k' with Some u, Some v => u =? v | None, None => true | _, _ => false end
  | _, _ => false
  end.

Fixpoint list_eqb_ {A} (e : A -> A -> bool) (a b : list A) : bool :=
  match a, b with
  | [], [] => true
  | x :: r, y :: s => e x y && list_eqb_ e r s
  | _, _ => false
  end.

Definition quantity_eqb (a b : quantity) : bool :=
  String.eqb (q_name a) (q_name b) && qkind_eqb (q_kind a) (q_kind b) && String.eqb (q_descr a) (q_descr b) &&
  match q_logly a, q_logly b with Some x, Some y => Bool.eqb x y | None, None => true | _, _ => false end.

Definition cmodel_eqb (a b : cmodel) : bool :=
  list_eqb_ quantity_eqb (m_quantities a) (m_quantities b) &&
  list_eqb_ xexpr_eqb (m_dynamic a) (m_dynamic b) &&
  list_eqb_ xexpr_eqb (m_steady a) (m_steady b) &&
  list_eqb_ String.eqb (m_eq_descr a) (m_eq_descr b).

Definition cres_eqb (a b : cres) : bool :=
  match a, b with
  | COk x, COk y => cmodel_eqb x y
  | CFail, CFail => true
  | _, _ => false
  end.

(* which component differs (for the harness's diagnostics): 0 = none, 1 = quantities, 2 = dynamic, 3 = steady,
   4 = descriptions, 5 = one side failed *)
Definition cres_diff (a b : cres) : nat :=
  match a, b with
  | COk x, COk y =>
      if negb (list_eqb_ quantity_eqb (m_quantities x) (m_quantities y)) then 1
      else if negb (list_eqb_ xexpr_eqb (m_dynamic x) (m_dynamic y)) then 2
      else if negb (list_eqb_ xexpr_eqb (m_steady x) (m_steady y)) then 3
      else if negb (list_eqb_ String.eqb (m_eq_descr x) (m_eq_descr y)) then 4 else 0
  | CFail, CFail => 0
  | _, _ => 5
  end%nat.
