(* C07  The loop over variants of Simultaneous.simulate (simultaneous/_simulate.py::Inlay.simulate), definitions
   only; proofs in proofs/PlanLoopProofs.v.

     zipped = zip(range(num_variants), self.iter_variants(), dataslate.iter_variants())
     for vid, model_v, dataslate_v in zipped:
         input_data_array = dataslate_v.get_data_variant().copy()
         frames = create_frames(model_v, dataslate_v, plan); simulate_initial_guess(model_v, dataslate_v, plan)
         for frame in frames: ... simulate_frame(model_v, frame_ds, input_data_array=input_data_array, plan=plan) ...

   iter_variants() of the model and of the dataslate are conveniences/iterators.py::exhaust_then_last over the own
   variants (model/Variants.v::etl: the items, then the last one for ever).  What the frame loop of variant k is given
   -- which model variant, which array the exogenized values are read from, which working data -- is GENERATED from
   the source (gen/PlanLoopGen.v: gen_model_of, gen_input_of, gen_work_of).  Everything done for one variant
   (create_frames, the initial guess, the loop over frames with either simulator) is the section variable sim1:
   nothing is assumed about it here; the first-order instance is model/Plans.v Part B inside lib/PlansCase.v. *)
From Coq Require Import List Arith.
From Verif Require Import model.Variants gen.PlanLoopGen.
Import ListNotations.

Section SimVariants.

Variables MV DS PL : Type.        (* model variant, dataslate variant (the data array), simulation plan *)
Variables (dm : MV) (dd : DS).    (* what exhaust_then_last yields for an empty collection; never reached *)
(* one variant: model variant, plan, input_data_array, working dataslate variant -> the simulated dataslate variant *)
Variable sim1 : MV -> PL -> DS -> DS -> DS.

Definition sim_variant (ms : list MV) (pl : PL) (ds : list DS) (k : nat) : DS :=
  let mk := fun i => etl MV ms dm i in
  let dk := fun i => etl DS ds dd i in
  sim1 (gen_model_of mk k (mk k)) pl (gen_input_of dk k (dk k)) (gen_work_of dk k (dk k)).

(* the dataslate after the loop: one simulated variant per vid in range(num_variants) *)
Definition simulate_variants (nv : nat) (ms : list MV) (pl : PL) (ds : list DS) : list DS :=
  map (sim_variant ms pl ds) (seq 0 nv).

End SimVariants.
