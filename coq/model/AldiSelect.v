(* C02 model, part 3: which columns / rows of an assembled Jacobian are kept, and what is cached between calls.

   (a) steadiers/evaluators.py  SteadyEvaluator: the unknowns of a (non-flat) steady computation are
         [ levels of the iterated quantities | changes of the iterated quantities ]
       (two possibly DIFFERENT subsets of wrt_qids, chosen by the steady plan: fix_level / fix_change), the full
       Jacobian of steadiers/_jacobian.py has the columns [ levels of all wrt_qids | changes of all wrt_qids ];
       eval_jacob returns   jacobian[:, _bool_index_wrt_levels + _bool_index_wrt_changes]
       (numpy boolean-mask column selection with the CONCATENATED masks).
   (b) fords/terminators.py  Terminator.terminate_jacobian: the rows of the terminal map are completed on the FIRST
       call and cached in the object (_terminal_jacobian_map_completed); every later call, at any other evaluation
       point, adds the terminal-condition correction only in the cached rows.
   NO proofs in this file. *)
From Coq Require Import ZArith List Bool Arith.
Import ListNotations.

(* ---- (a) ---------------------------------------------------------------------------------- *)

(* numpy: a[mask] for a boolean list mask (same length) *)
Fixpoint select {T} (mask : list bool) (l : list T) : list T :=
  match mask, l with
  | b :: m, x :: r => if b then x :: select m r else select m r
  | _, _ => []
  end.

(* SteadyEvaluator._merge_levels_and_changes: [qid in wrt_qids_levels for qid in self.wrt_qids] *)
Definition mask_of (wrt chosen : list Z) : list bool := map (fun q => existsb (Z.eqb q) chosen) wrt.

(* an unknown / a column label: (false, q) = level of quantity q, (true, q) = change of quantity q *)
Definition label : Type := (bool * Z)%type.
Definition full_labels (wrt : list Z) : list label := map (pair false) wrt ++ map (pair true) wrt.
(* the vector of unknowns: _init_guess = hstack(levels[mask_levels], changes[mask_changes]) *)
Definition unknown_labels (wrt : list Z) (ml mc : list bool) : list label :=
  map (pair false) (select ml wrt) ++ map (pair true) (select mc wrt).

(* eval_jacob: jacobian[:, ml + mc], row by row *)
Definition reduce_row {V} (ml mc : list bool) (row : list V) : list V := select (ml ++ mc) row.
Definition reduce_jacobian {V} (ml mc : list bool) (J : list (list V)) : list (list V) := map (reduce_row ml mc) J.

(* integer (fancy) indexing a[:, idx], and the index vector a precomputed column selection would use:
   the positions of the True entries of the level mask, then those of the change mask offset by [off] *)
Definition gather {V} (idx : list nat) (row : list V) (d : V) : list V := map (fun i => nth i row d) idx.
Fixpoint positions (mask : list bool) (i : nat) : list nat :=
  match mask with
  | [] => []
  | b :: m => if b then i :: positions m (S i) else positions m (S i)
  end.
Definition column_index (ml mc : list bool) (off : nat) : list nat := positions ml 0 ++ positions mc off.
(* number of iterated levels: sum(mask) *)
Definition count_true (m : list bool) : nat := length (filter (fun b => b) m).

(* ---- (b) ---------------------------------------------------------------------------------- *)

(* sorted(set(rows)) of a list of row numbers *)
Fixpoint insert_nodup (x : nat) (l : list nat) : list nat :=
  match l with
  | [] => [x]
  | y :: r => if Nat.ltb x y then x :: l else if Nat.eqb x y then l else y :: insert_nodup x r
  end.
Definition sorted_set (l : list nat) : list nat := fold_right insert_nodup [] l.

(* the terminal block in coordinate form: stored entries (row, column, value); an entry whose value happens to be
   zero at this evaluation point is still stored (the sparse pattern comes from the static stacked-time map) *)
Definition coo (V : Type) : Type := list (nat * nat * V).
Definition coo_rows {V} (m : coo V) : list nat := sorted_set (map (fun e => fst (fst e)) m).              (* tocoo().row *)
Definition nonzero_rows {V} (is0 : V -> bool) (m : coo V) : list nat :=                                   (* .nonzero()[0] *)
  sorted_set (map (fun e => fst (fst e)) (filter (fun e => negb (is0 (snd e))) m)).

(* rows of the stacked-time Jacobian that have a stored entry in one of the terminal columns (>= nreg), computed
   from the entries (lhs_row, lhs_column, rhs_row, rhs_column) of the stacked-time map: the STRUCTURAL pattern *)
Definition structural_terminal_rows (entries : list (nat * nat * nat * nat)) (nreg : nat) : list nat :=
  sorted_set (map (fun e => let '(lr, _, _, _) := e in lr)
                  (filter (fun e => let '(_, lc, _, _) := e in Nat.leb nreg lc) entries)).

Section Terminate.
Context {V : Type}.
Variable zero : V.
Variable add : V -> V -> V.

(* terminate_jacobian on one evaluation: regular[ix_(rows, lhs_cols)] += addm[ix_(rows, rhs_cols)]; matrices as
   functions row -> column -> value; pairs = (lhs column, rhs column) of the terminal map (distinct lhs columns) *)
Definition rhs_for (pairs : list (nat * nat)) (c : nat) : option nat :=
  match find (fun p => Nat.eqb (fst p) c) pairs with Some p => Some (snd p) | None => None end.
Definition corrected (rows : list nat) (pairs : list (nat * nat)) (regular addm : nat -> nat -> V) : nat -> nat -> V :=
  fun r c => if existsb (Nat.eqb r) rows
             then match rhs_for pairs c with Some rc => add (regular r c) (addm r rc) | None => regular r c end
             else regular r c.
(* what the property demands: the correction in EVERY row *)
Definition corrected_all (pairs : list (nat * nat)) (regular addm : nat -> nat -> V) : nat -> nat -> V :=
  fun r c => match rhs_for pairs c with Some rc => add (regular r c) (addm r rc) | None => regular r c end.

(* the terminator as a state machine: state = the cached rows (None before the first call);
   [rows_now] = the rows the first call would cache if it happened at this evaluation point *)
Definition tstate : Type := option (list nat).
Definition tstep (st : tstate) (rows_now : list nat) (pairs : list (nat * nat)) (regular addm : nat -> nat -> V)
  : tstate * (nat -> nat -> V) :=
  let rows := match st with Some r => r | None => rows_now end in
  (Some rows, corrected rows pairs regular addm).

(* a whole Newton run: the list of evaluation points, each given by (rows_now, regular, addm) *)
Fixpoint trun (st : tstate) (pairs : list (nat * nat))
  (calls : list (list nat * (nat -> nat -> V) * (nat -> nat -> V))) : list (nat -> nat -> V) :=
  match calls with
  | [] => []
  | (rows_now, regular, addm) :: rest =>
      let '(st', out) := tstep st rows_now pairs regular addm in out :: trun st' pairs rest
  end.
End Terminate.
