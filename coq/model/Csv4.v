(* C19, round 4: the frequency -> periods table of the CSV exporter as the source builds it
   (databoxes/_exports.py: _resolve_frequency_span): entries given as `...` are resolved by
   Databox.get_span_by_frequency, and an entry whose span is the EmptySpan object (unknown frequency, or no
   series of that frequency) is kept or dropped by the test regenerated from the source (gen/Csv4Gen.v:
   fspan_keep).  model/Csv.v: resolve_fspan keeps every entry; proofs/Csv4Proofs.v shows that both tables write
   the same sheet, and that no frequency that has series -- empty series included -- is dropped.
   NO proofs in this file. *)
From Coq Require Import String Ascii ZArith List Bool.
From Verif Require Import lib.Arith model.Series model.SeriesOps model.Databox gen.CsvGen gen.Csv4Gen model.Csv.
Import ListNotations.
Open Scope Z_scope.

Section Csv4Model.
Variable A : Arith.
Notation databox := (databox A).

(* get_span_by_frequency(f) is EmptySpan() *)
Definition span_is_empty_object (db : databox) (f : Z) : bool :=
  (f =? -1) || match series_of_freq A db f with [] => true | _ => false end.

Definition resolve_fspan_src (db : databox) (fs : list (Z * option (list Z))) : list (Z * list Z) :=
  flat_map (fun p => match snd p with
                     | Some l => [(fst p, l)]                 (* periods given by the caller: never the EmptySpan object *)
                     | None => if fspan_keep (span_is_empty_object db (fst p)) (fst p)
                               then [(fst p, span_of_freq A db (fst p))] else []
                     end) fs.

Variable fmt_period : Z -> Z -> string.
Variable fmt_val : car A -> string.
Variable rnd : car A -> car A.

Definition blocks_of_table (db1 : databox) (o : wopts) (fs : list (Z * list Z)) (total : nat) : list grid :=
  flat_map (fun p => match series_of_freq A db1 (fst p) with
                     | [] => []
                     | its => [block_grid A fmt_period fmt_val rnd o total (fst p) (snd p) its]
                     end) fs.

(* Inlay.to_csv_file with the table of the source *)
Definition export_src (db : databox) (o : wopts) : grid :=
  let db1 := selected A db o in
  let fs := resolve_fspan_src db1 (w_fspan o) in
  hcat_all (blocks_of_table db1 o fs (total_rows fs)).

End Csv4Model.
