"""frames.py / stacked_time/_jacobians.py / fords/terminators.py  ->  coq/gen/FramesGen.v

Regenerated on every run (integer index formulas only):

* `Frame.resolve_columns`: first, last, simulation_last, the three slices, num_simulation_columns
  as functions of (start, end, simulation_end, first_column_period) over Z
  (Period - Period of one frequency is the difference of serials: C09);
* `SplitFrame.prune_frame_data`: the guard `self.start == self.simulation_end` and the value 0 written;
* `stacked_time/_jacobians.py::Jacobian._populate_map`: the stacked row formula
  `lhs_row = eqn_enum + num_eids*rhs_column`;
* `stacked_time/_evaluators.py`: the flattening order of the stacked residual ("F": equation index runs fastest);
* `fords/terminators.py::Terminator.__init__`: first_terminal, the range of terminal columns, the filter on
  terminal unknowns and the column of the terminal initial condition.

The loops and set algebra are hand-modelled in coq/model/Frames.v and coq/model/Stacked.v (defined in terms of
these fragments) and tied by exact correspondence."""
from __future__ import annotations

import ast

from vf import core
from vf.core import TranslatorError
from . import pyexpr as px

OUT = "gen/FramesGen.v"

_BIN = {ast.Add: "+", ast.Sub: "-", ast.Mult: "*"}


def zexpr(node: ast.AST, env: dict[str, str], where: str) -> str:
    """Integer expression over Z: names from env, integer constants, + - *."""
    if isinstance(node, ast.BinOp) and type(node.op) in _BIN:
        return f"({zexpr(node.left, env, where)} {_BIN[type(node.op)]} {zexpr(node.right, env, where)})"
    if isinstance(node, ast.Constant) and isinstance(node.value, int) and not isinstance(node.value, bool):
        return f"({node.value})"
    if isinstance(node, ast.UnaryOp) and isinstance(node.op, ast.USub):
        return f"(- {zexpr(node.operand, env, where)})"
    key = ast.unparse(node)
    if key in env:
        return env[key]
    raise TranslatorError(f"{where}: unsupported integer expression {key}")


def _slice(node: ast.AST, env, where) -> tuple[str, str]:
    """slice(a, b, ) -> (a, option b)"""
    if not (isinstance(node, ast.Call) and isinstance(node.func, ast.Name) and node.func.id == "slice"
            and len(node.args) == 2 and not node.keywords):
        raise TranslatorError(f"{where}: not a two-argument slice(): {ast.unparse(node)}")
    a, b = node.args
    lo = zexpr(a, env, where)
    if isinstance(b, ast.Constant) and b.value is None:
        hi = "None"
    else:
        hi = f"(Some {zexpr(b, env, where)})"
    return lo, hi


def _resolve_columns(tree) -> list[str]:
    frame = px.find_class(tree, "Frame")
    fn = px.find_func(frame.body, "resolve_columns")
    params = [a.arg for a in fn.args.args]
    if params != ["self", "first_column_period"]:
        raise TranslatorError(f"Frame.resolve_columns: unexpected parameters {params}")
    env = {"self.start": "start", "self.end": "end_", "self.simulation_end": "simulation_end",
           "first_column_period": "fcp"}
    args = "(start end_ simulation_end fcp : Z)"
    call = "start end_ simulation_end fcp"
    out = []
    seen = []
    for st in px.strip_doc(fn):
        if not (isinstance(st, ast.Assign) and len(st.targets) == 1 and isinstance(st.targets[0], ast.Attribute)
                and ast.unparse(st.targets[0].value) == "self"):
            raise TranslatorError(f"Frame.resolve_columns: unsupported statement {ast.unparse(st)}")
        name = st.targets[0].attr
        where = f"Frame.resolve_columns.{name}"
        if name in seen:
            raise TranslatorError(f"{where}: assigned twice")
        if isinstance(st.value, ast.Call):
            lo, hi = _slice(st.value, env, where)
            out.append(f"Definition fr_{name} {args} : Z * option Z := ({lo}, {hi}).")
            # a slice is not usable in later integer expressions
        else:
            e = zexpr(st.value, env, where)
            out.append(f"Definition fr_{name} {args} : Z := {e}.")
            env[f"self.{name}"] = f"(fr_{name} {call})"
        seen.append(name)
    need = ["first", "last", "simulation_last", "slice", "zero_unanticipated_slice", "simulation_slice",
            "num_simulation_columns"]
    if seen != need:
        raise TranslatorError(f"Frame.resolve_columns: assigns {seen}, expected {need}")
    return out


def _prune(tree) -> list[str]:
    cls = px.find_class(tree, "SplitFrame")
    fn = px.find_func(cls.body, "prune_frame_data")
    body = px.strip_doc(fn)
    if len(body) != 3:
        raise TranslatorError("SplitFrame.prune_frame_data: unexpected number of statements")
    g = body[0]
    if not (isinstance(g, ast.If) and not g.orelse and len(g.body) == 1 and isinstance(g.body[0], ast.Return)
            and g.body[0].value is None and isinstance(g.test, ast.Compare) and len(g.test.ops) == 1
            and isinstance(g.test.ops[0], ast.Eq)):
        raise TranslatorError(f"SplitFrame.prune_frame_data: unexpected guard {ast.unparse(g)}")
    env = {"self.start": "start", "self.end": "end_", "self.simulation_end": "simulation_end"}
    a = zexpr(g.test.left, env, "prune guard")
    b = zexpr(g.test.comparators[0], env, "prune guard")
    if ast.unparse(body[1]) != "data = frame_ds.get_data_variant()":
        raise TranslatorError(f"SplitFrame.prune_frame_data: {ast.unparse(body[1])}")
    w = body[2]
    if not (isinstance(w, ast.Assign) and ast.unparse(w.targets[0]) == "data[unanticipated_qids, self.zero_unanticipated_slice]"
            and isinstance(w.value, ast.Constant) and w.value.value == 0 and not isinstance(w.value.value, bool)):
        raise TranslatorError(f"SplitFrame.prune_frame_data: unexpected write {ast.unparse(w)}")
    return [f"Definition prune_skipped (start end_ simulation_end : Z) : bool := Z.eqb {a} {b}.",
            "Definition prune_value : Z := 0."]


def _split_write_back(tree) -> list[str]:
    """The two assignments of SplitFrame.write_frame_data_to_main_dataslate, checked literally."""
    cls = px.find_class(tree, "SplitFrame")
    fn = px.find_func(cls.body, "write_frame_data_to_main_dataslate")
    body = [ast.unparse(s) for s in px.strip_doc(fn)]
    want = [
        "main_data = main_ds.get_data_variant(0)",
        "frame_data = frame_ds.get_data_variant(0)",
        "all_qids = range(frame_ds.num_names)",
        "regular_qids = tuple((qid for qid in all_qids if qid not in unanticipated_shock_qids))",
        "main_data[regular_qids, self.slice] = frame_data[regular_qids, self.slice]",
        "main_data[unanticipated_shock_qids, self.first] = frame_data[unanticipated_shock_qids, self.first]",
    ]
    if body != want:
        diff = [b for b in body if b not in want] or body
        raise TranslatorError(f"SplitFrame.write_frame_data_to_main_dataslate changed: {diff[:2]}")
    # which column range each class of rows is written on: True = the frame slice, False = first column only
    return ["Definition wb_regular_on_slice : bool := true.",
            "Definition wb_unanticipated_on_first_only : bool := true."]


def _jacobian_row(tree) -> list[str]:
    cls = px.find_class(tree, "Jacobian")
    fn = px.find_func(cls.body, "_populate_map")
    found = None
    for node in ast.walk(fn):
        if isinstance(node, ast.Assign) and len(node.targets) == 1 and ast.unparse(node.targets[0]) == "lhs_row":
            if found is not None:
                raise TranslatorError("Jacobian._populate_map: lhs_row assigned twice")
            found = node.value
    if found is None:
        raise TranslatorError("Jacobian._populate_map: lhs_row not found")
    env = {"eqn_enum": "eqn_enum", "num_eids": "num_eids", "rhs_column": "rhs_column"}
    e = zexpr(found, env, "Jacobian._populate_map.lhs_row")
    tup = None
    for node in ast.walk(fn):
        if isinstance(node, ast.Call) and ast.unparse(node.func) == "map_tuples.append":
            tup = ast.unparse(node.args[0])
    if tup != "(lhs_row, lhs_column, rhs_row, rhs_column)":
        raise TranslatorError(f"Jacobian._populate_map: map tuple is {tup}")
    return [f"Definition jac_lhs_row (eqn_enum num_eids rhs_column : Z) : Z := {e}."]


def _flatten_order(tree) -> list[str]:
    orders = []
    for node in ast.walk(tree):
        if isinstance(node, ast.Call) and isinstance(node.func, ast.Attribute) and node.func.attr == "flatten":
            kw = {k.arg: k.value for k in node.keywords}
            if set(kw) != {"order"} or node.args:
                raise TranslatorError(f"_evaluators: flatten call {ast.unparse(node)}")
            v = kw["order"]
            try:
                val = eval(compile(ast.Expression(v), "<order>", "eval"), {"__builtins__": {}})  # "F" or "Fortran"[0]
            except Exception as e:  # noqa
                raise TranslatorError(f"_evaluators: flatten order {ast.unparse(v)}: {e}")
            orders.append(val)
            if ast.unparse(node.func.value) not in ("_np.vstack(equator_outcome)",):
                raise TranslatorError(f"_evaluators: flatten applied to {ast.unparse(node.func.value)}")
    if not orders or any(o != orders[0] for o in orders) or orders[0] not in ("F", "C"):
        raise TranslatorError(f"_evaluators: flatten orders {orders}")
    return [f"Definition stack_equation_fastest : bool := {core.coq_bool(orders[0] == 'F')}."]


def _terminator(tree) -> list[str]:
    cls = px.find_class(tree, "Terminator")
    fn = px.find_func(cls.body, "__init__")
    assigns = {}
    for st in px.strip_doc(fn):
        if isinstance(st, ast.Assign) and len(st.targets) == 1:
            assigns.setdefault(ast.unparse(st.targets[0]), st.value)
    env = {"columns_simulated[-1]": "last_simulation", "max_lead": "max_lead"}
    out = []
    if ast.unparse(assigns.get("last_simulation")) != "columns_simulated[-1]":
        raise TranslatorError("Terminator.__init__: last_simulation is not columns_simulated[-1]")
    env["last_simulation"] = "last_simulation"
    ft = zexpr(assigns["first_terminal"], env, "Terminator.first_terminal")
    out.append(f"Definition term_first_terminal (last_simulation : Z) : Z := {ft}.")
    env["first_terminal"] = "(term_first_terminal last_simulation)"
    tc = assigns.get("terminal_columns")
    if not (isinstance(tc, ast.Call) and ast.unparse(tc.func) == "tuple" and len(tc.args) == 1
            and isinstance(tc.args[0], ast.Call) and ast.unparse(tc.args[0].func) == "range" and len(tc.args[0].args) == 2):
        raise TranslatorError(f"Terminator.__init__: terminal_columns = {ast.unparse(tc)}")
    lo = zexpr(tc.args[0].args[0], env, "Terminator.terminal_columns")
    hi = zexpr(tc.args[0].args[1], env, "Terminator.terminal_columns")
    out.append(f"Definition term_columns_range (last_simulation max_lead : Z) : Z * Z := ({lo}, {hi}).")
    # filter of the terminal unknowns
    gen = assigns.get("to_be_zipped")
    if not (isinstance(gen, ast.GeneratorExp) and len(gen.generators) == 1 and len(gen.generators[0].ifs) == 1):
        raise TranslatorError("Terminator.__init__: to_be_zipped is not a filtered generator")
    g = gen.generators[0]
    if ast.unparse(g.iter) != "enumerate(_it.product(terminal_columns, curr_xi_qids))" \
            or ast.unparse(g.target) != "(inx, (col, qid))" or ast.unparse(gen.elt) != "(inx, Token(qid, col))":
        raise TranslatorError(f"Terminator.__init__: to_be_zipped iterates {ast.unparse(g.iter)} / {ast.unparse(gen.elt)}")
    cond = g.ifs[0]
    if not (isinstance(cond, ast.Compare) and len(cond.ops) == 1 and isinstance(cond.ops[0], ast.LtE)):
        raise TranslatorError(f"Terminator.__init__: filter {ast.unparse(cond)}")
    env2 = dict(env)
    env2["col"] = "col"
    env2["curr_xi_qid_to_max_shift[qid]"] = "max_shift"
    a = zexpr(cond.left, env2, "Terminator filter")
    b = zexpr(cond.comparators[0], env2, "Terminator filter")
    out.append(f"Definition term_keep (last_simulation col max_shift : Z) : bool := Z.leb {a} {b}.")
    ts = assigns.get("self._terminit_spots")
    if ast.unparse(ts) != "tuple((Token(i.qid, last_simulation + i.shift) for i in vec.transition_variables))":
        raise TranslatorError(f"Terminator.__init__: _terminit_spots = {ast.unparse(ts)}")
    out.append("Definition term_init_column (last_simulation shift : Z) : Z := (last_simulation + shift).")
    return out


def generate() -> str:
    src = core.SRC / "irispie"
    t_frames = ast.parse((src / "frames.py").read_text())
    t_jac = ast.parse((src / "stacked_time" / "_jacobians.py").read_text())
    t_eval = ast.parse((src / "stacked_time" / "_evaluators.py").read_text())
    t_term = ast.parse((src / "fords" / "terminators.py").read_text())
    out = ["(* GENERATED by /verif/translator/frames.py from src/irispie/frames.py, stacked_time/_jacobians.py, "
           "stacked_time/_evaluators.py, fords/terminators.py -- do not edit *)",
           "From Coq Require Import ZArith Bool.",
           "Open Scope Z_scope.", ""]
    out += _resolve_columns(t_frames) + [""]
    out += _prune(t_frames) + [""]
    out += _split_write_back(t_frames) + [""]
    out += _jacobian_row(t_jac) + [""]
    out += _flatten_order(t_eval) + [""]
    out += _terminator(t_term) + [""]
    return "\n".join(out)


def run():
    core.write_if_changed(core.COQ / OUT, generate())


if __name__ == "__main__":
    print(generate())
