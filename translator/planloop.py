"""plans/simulation_plans.py, simultaneous/_simulate.py  ->  coq/gen/PlanLoopGen.v

Regenerated on every run (C07):

* `SimulationPlan.get_register_as_bool_array`: the element formula of the boolean incidence array the simulators read,
  `register[name][t] if t is not None else False` under `numpy.array(..., dtype=bool)`, as a function of
  (is the period outside the base span, the register entry) over an abstract entry type with its truth value and its
  `is None` test; the statement shapes around it (per_indexes from `_get_per_indexes`, one row per name, dtype=bool)
  are checked literally;
* `_is_active_status`: `(value is not None) and (value is not False)`;
* `Inlay.simulate`: which model variant, which input data (the array the exogenized values are read from) and which
  working data the frame loop of variant k receives: the zip over `range(num_variants)`, `self.iter_variants()`,
  `dataslate.iter_variants()`, the place and the source of `input_data_array`, the arguments of `create_frames`,
  `simulate_initial_guess`, `simulate_frame`.

coq/model/SimVariants.v and coq/proofs/PlanLoopProofs.v are defined / proved in terms of these fragments.
Anything outside the recognised shapes raises TranslatorError (fail closed)."""
from __future__ import annotations

import ast

from vf import core
from vf.core import TranslatorError
from . import pyexpr as px

OUT = "gen/PlanLoopGen.v"


# ------------------------------------------------------------------------------------------------
# 1. truth-valued expressions over one register entry
# ------------------------------------------------------------------------------------------------

def _is_none_const(n) -> bool:
    return isinstance(n, ast.Constant) and n.value is None


def bexpr(node: ast.AST, entry_src: str, index_var: str | None, where: str) -> str:
    """the truth value (bool(...), as numpy's dtype=bool conversion takes it) of an expression over the register entry
    `entry_src` and, optionally, the period index `index_var` (None = outside the span)"""
    src = ast.unparse(node)
    if src == entry_src:
        return "(truth entry)"
    if isinstance(node, ast.Constant) and isinstance(node.value, bool):
        return "true" if node.value else "false"
    if _is_none_const(node):
        return "false"
    if isinstance(node, ast.IfExp):
        return (f"(if {bexpr(node.test, entry_src, index_var, where)} then {bexpr(node.body, entry_src, index_var, where)} "
                f"else {bexpr(node.orelse, entry_src, index_var, where)})")
    if isinstance(node, ast.UnaryOp) and isinstance(node.op, ast.Not):
        return f"(negb {bexpr(node.operand, entry_src, index_var, where)})"
    if isinstance(node, ast.BoolOp):
        op = "&&" if isinstance(node.op, ast.And) else "||"
        return "(" + f" {op} ".join(bexpr(v, entry_src, index_var, where) for v in node.values) + ")"
    if isinstance(node, ast.Compare) and len(node.ops) == 1 and isinstance(node.ops[0], (ast.Is, ast.IsNot)):
        left, right = ast.unparse(node.left), node.comparators[0]
        neg = isinstance(node.ops[0], ast.IsNot)
        if _is_none_const(right):
            if index_var is not None and left == index_var:
                atom = "outside"
            elif left == entry_src:
                atom = "(is_none entry)"
            else:
                raise TranslatorError(f"{where}: `is None` test of {left}")
        elif isinstance(right, ast.Constant) and isinstance(right.value, bool) and left == entry_src:
            atom = f"({'is_true' if right.value else 'is_false'} entry)"
        else:
            raise TranslatorError(f"{where}: unsupported identity test {src}")
        return f"(negb {atom})" if neg else atom
    raise TranslatorError(f"{where}: unsupported expression {src}")


def _bool_array(tree) -> list[str]:
    cls = px.find_class(tree, "SimulationPlan")
    fn = px.find_func(cls.body, "get_register_as_bool_array")
    where = "SimulationPlan.get_register_as_bool_array"
    body = px.strip_doc(fn)
    srcs = [ast.unparse(s) for s in body]
    need_head = ["register = self.get_register_by_name(register_name)",
                 "per_indexes = self._get_per_indexes(periods)",
                 "names = self._resolve_register_names(register, names)",
                 "num_names, num_pers = (len(names), len(per_indexes))",
                 "if not names or not per_indexes:\n    return _np.zeros((num_names, num_pers), dtype=bool)"]
    if srcs[:5] != need_head or len(body) != 7:
        raise TranslatorError(f"{where}: unexpected statements {srcs[:5]}")
    inner, ret = body[5], body[6]
    if not (isinstance(inner, ast.FunctionDef) and inner.name == "get_points_for_name"
            and [a.arg for a in inner.args.args] == ["name"]):
        raise TranslatorError(f"{where}: get_points_for_name not found")
    ib = px.strip_doc(inner)
    if not (len(ib) == 1 and isinstance(ib[0], ast.Return) and isinstance(ib[0].value, ast.Call)
            and ast.unparse(ib[0].value.func) == "tuple" and len(ib[0].value.args) == 1
            and isinstance(ib[0].value.args[0], ast.GeneratorExp)):
        raise TranslatorError(f"{where}: get_points_for_name is not `return tuple(<element> for t in per_indexes)`")
    gen = ib[0].value.args[0]
    if not (len(gen.generators) == 1 and not gen.generators[0].ifs and ast.unparse(gen.generators[0].target) == "t"
            and ast.unparse(gen.generators[0].iter) == "per_indexes"):
        raise TranslatorError(f"{where}: unexpected generator {ast.unparse(gen)}")
    if ast.unparse(ret) != "return _np.array(tuple((get_points_for_name(n) for n in names)), dtype=bool)":
        raise TranslatorError(f"{where}: unexpected return {ast.unparse(ret)}")
    e = bexpr(gen.elt, "register[name][t]", "t", where)
    out = ["(* get_register_as_bool_array: entry (name, period) of the array; `outside` = the period is outside the base span",
           "   (its index is None), `entry` = register[name][t]; truth = bool(entry) taken by numpy's dtype=bool *)",
           "Definition gen_point_value {E : Type} (truth is_none is_true is_false : E -> bool) (outside : bool) (entry : E) : bool :=",
           f"  {e}."]
    # _get_per_indexes: None exactly for the periods outside the span
    pf = px.find_func(cls.body, "_get_per_indexes")
    pb = [ast.unparse(s) for s in px.strip_doc(pf)]
    need = ["if periods is ...:\n    return tuple(range(self.num_periods))\nelse:\n    return tuple((t - self.start if "
            "self._is_per_in_span(t) else None for t in periods))"]
    if pb != need:
        raise TranslatorError(f"SimulationPlan._get_per_indexes: unexpected body {pb}")
    return out


def _is_active(tree) -> list[str]:
    fn = px.find_func(tree.body, "_is_active_status")
    body = px.strip_doc(fn)
    if not (len(body) == 1 and isinstance(body[0], ast.Return) and [a.arg for a in fn.args.posonlyargs + fn.args.args] == ["value"]):
        raise TranslatorError("_is_active_status: unexpected shape")
    e = bexpr(body[0].value, "value", None, "_is_active_status")
    return ["(* _is_active_status(value) *)",
            "Definition gen_is_active {E : Type} (truth is_none is_true is_false : E -> bool) (entry : E) : bool :=",
            f"  {e}."]


# ------------------------------------------------------------------------------------------------
# 2. the loop over variants of Inlay.simulate
# ------------------------------------------------------------------------------------------------

def _variant_loop(tree) -> list[str]:
    cls = px.find_class(tree, "Inlay")
    fn = px.find_func(cls.body, "simulate")
    where = "Inlay.simulate"
    body = px.strip_doc(fn)
    zipped = [s for s in body if isinstance(s, ast.Assign) and ast.unparse(s.targets[0]) == "zipped"]
    if len(zipped) != 1 or ast.unparse(zipped[0].value) != \
            "zip(range(num_variants), self.iter_variants(), dataslate.iter_variants())":
        raise TranslatorError(f"{where}: unexpected `zipped` {[ast.unparse(z) for z in zipped]}")
    loops = [s for s in body if isinstance(s, ast.For)]
    if len(loops) != 1 or ast.unparse(loops[0].target) != "(vid, model_v, dataslate_v)" or \
            ast.unparse(loops[0].iter) != "zipped" or loops[0].orelse:
        raise TranslatorError(f"{where}: the loop over variants is not `for vid, model_v, dataslate_v in zipped`")
    loop = loops[0]
    # nobody rebinds the loop variables or the whole dataslate inside the loop
    for node in ast.walk(loop):
        if isinstance(node, (ast.Assign, ast.AugAssign, ast.AnnAssign)):
            tg = node.targets if isinstance(node, ast.Assign) else [node.target]
            for t in tg:
                for nm in ast.walk(t):
                    if isinstance(nm, ast.Name) and nm.id in ("model_v", "dataslate_v", "dataslate", "plan", "vid", "zipped"):
                        raise TranslatorError(f"{where}: {nm.id} is rebound inside the loop over variants")
    # every assignment to input_data_array in the whole function
    assigns = []
    for node in ast.walk(fn):
        if isinstance(node, ast.Assign) and any(ast.unparse(t) == "input_data_array" for t in node.targets):
            assigns.append(node)
    if len(assigns) != 1:
        raise TranslatorError(f"{where}: input_data_array is assigned {len(assigns)} times")
    a = assigns[0]
    in_loop = a in loop.body
    before_loop = a in body and body.index(a) < body.index(loop)
    if not (in_loop or before_loop):
        raise TranslatorError(f"{where}: input_data_array is assigned in an unexpected place")
    v = a.value
    if not (isinstance(v, ast.Call) and not v.args and not v.keywords and isinstance(v.func, ast.Attribute)
            and v.func.attr == "copy" and isinstance(v.func.value, ast.Call)
            and isinstance(v.func.value.func, ast.Attribute) and v.func.value.func.attr in ("get_data_variant", "get_data_array_variant")):
        raise TranslatorError(f"{where}: input_data_array is not a copy of a data variant: {ast.unparse(v)}")
    inner = v.func.value
    obj = ast.unparse(inner.func.value)
    if inner.keywords or len(inner.args) > 1:
        raise TranslatorError(f"{where}: unexpected arguments in {ast.unparse(inner)}")
    arg = inner.args[0] if inner.args else None
    if obj == "dataslate_v":
        if not in_loop:
            raise TranslatorError(f"{where}: dataslate_v is read outside the loop over variants")
        if not (arg is None or (isinstance(arg, ast.Constant) and arg.value == 0 and not isinstance(arg.value, bool))):
            raise TranslatorError(f"{where}: variant {ast.unparse(arg)} of the single-variant dataslate_v")
        inp = "ds_v"
    elif obj == "dataslate":
        if arg is None:
            inp = "(ds 0%nat)"
        elif isinstance(arg, ast.Constant) and isinstance(arg.value, int) and not isinstance(arg.value, bool) and arg.value >= 0:
            inp = f"(ds {arg.value}%nat)"
        elif in_loop and ast.unparse(arg) == "vid":
            inp = "(ds k)"
        else:
            raise TranslatorError(f"{where}: unsupported variant index {ast.unparse(arg)}")
    else:
        raise TranslatorError(f"{where}: input_data_array is read from {obj}")
    # inside the loop: the order input copy < create_frames < simulate_initial_guess < frames loop, and their arguments
    lb = loop.body
    srcs = [ast.unparse(s) for s in lb]

    def index_of(pred, what):
        hits = [i for i, s in enumerate(lb) if pred(s)]
        if len(hits) != 1:
            raise TranslatorError(f"{where}: {what} occurs {len(hits)} times in the loop over variants")
        return hits[0]
    i_frames = index_of(lambda s: isinstance(s, ast.Assign) and ast.unparse(s.targets[0]) == "frames", "frames = ...")
    if ast.unparse(lb[i_frames].value) != "simulator_module.create_frames(model_v, dataslate_v, plan, force_split_frames=force_split_frames)":
        raise TranslatorError(f"{where}: unexpected create_frames call {srcs[i_frames]}")
    i_guess = index_of(lambda s: isinstance(s, ast.Expr) and "simulate_initial_guess" in ast.unparse(s), "simulate_initial_guess")
    if srcs[i_guess] != "simulator_module.simulate_initial_guess(model_v, dataslate_v, plan, **kwargs)":
        raise TranslatorError(f"{where}: unexpected simulate_initial_guess call {srcs[i_guess]}")
    i_loop = index_of(lambda s: isinstance(s, ast.For), "the loop over frames")
    fl = lb[i_loop]
    if ast.unparse(fl.target) != "frame" or ast.unparse(fl.iter) != "frames":
        raise TranslatorError(f"{where}: the inner loop is not `for frame in frames`")
    if in_loop and not lb.index(a) < i_guess:
        raise TranslatorError(f"{where}: input_data_array is copied after the initial guess has overwritten dataslate_v")
    if not (i_frames < i_loop and i_guess < i_loop):
        raise TranslatorError(f"{where}: unexpected order of create_frames / simulate_initial_guess / frame loop")
    fsrc = [ast.unparse(s) for s in fl.body]
    if "frame_ds = dataslate_v.copy()" not in fsrc:
        raise TranslatorError(f"{where}: frame_ds is not a copy of dataslate_v")
    if "frame.write_frame_data_to_main_dataslate(dataslate_v, frame_ds, unanticipated_shock_qids)" not in fsrc:
        raise TranslatorError(f"{where}: frame data are not written back to dataslate_v")
    calls = [s for s in fl.body if isinstance(s, ast.Assign) and ast.unparse(s.targets[0]) == "exit_status"]
    if len(calls) != 1:
        raise TranslatorError(f"{where}: simulate_frame call not found")
    c = calls[0].value
    kw = {k.arg: ast.unparse(k.value) for k in c.keywords if k.arg}
    if not (ast.unparse(c.func) == "simulator_module.simulate_frame" and [ast.unparse(x) for x in c.args] == ["model_v", "frame_ds"]
            and kw.get("frame") == "frame" and kw.get("input_data_array") == "input_data_array" and kw.get("plan") == "plan"):
        raise TranslatorError(f"{where}: unexpected simulate_frame call {ast.unparse(c)}")
    return ["(* Inlay.simulate, loop `for vid, model_v, dataslate_v in zip(range(num_variants), self.iter_variants(),",
            "   dataslate.iter_variants())`: what the frame loop of variant k receives.  ms k / ds k = the k-th item of",
            "   self.iter_variants() / dataslate.iter_variants(); m_v, ds_v = the loop variables *)",
            "Definition gen_model_of {MV : Type} (ms : nat -> MV) (k : nat) (m_v : MV) : MV := m_v.",
            f"Definition gen_input_of {{DS : Type}} (ds : nat -> DS) (k : nat) (ds_v : DS) : DS := {inp}.",
            "Definition gen_work_of {DS : Type} (ds : nat -> DS) (k : nat) (ds_v : DS) : DS := ds_v."]


def generate() -> str:
    src = core.SRC / "irispie"
    t_plan = ast.parse((src / "plans" / "simulation_plans.py").read_text())
    t_sim = ast.parse((src / "simultaneous" / "_simulate.py").read_text())
    out = ["(* GENERATED by /verif/translator/planloop.py from src/irispie/plans/simulation_plans.py and "
           "src/irispie/simultaneous/_simulate.py -- do not edit *)",
           "From Coq Require Import Bool Arith.", ""]
    out += _bool_array(t_plan) + [""]
    out += _is_active(t_plan) + [""]
    out += _variant_loop(t_sim) + [""]
    return "\n".join(out)


def run():
    core.write_if_changed(core.COQ / OUT, generate())


if __name__ == "__main__":
    print(generate())
