"""incidences/blazer.py (+ sequentials/main.py, sequentials/_invariants.py)  ->  coq/gen/BlazerGen.v

Regenerated on every run (fail closed): the constants and the code shapes the
hand model coq/model/Blazer.v is defined in terms of

  * the incidence count that makes a row / column a "singleton" (`== 1`),
  * `max_iterations` of triangularize_inner_block,
  * whether the column / row reordering flips numpy's argsort,
  * the first candidate block size of _generate_inner_blocks (`range(1, ...)`),
  * the diagonal offset of is_sequential (`order: int = 1`),
  * whether sequentialize_strictly RAISES its "Cannot find strict sequential
    reordering" error or only constructs it (current code: constructs only),
  * whether Invariant.reorder_equations validates the permutation BEFORE it
    assigns self.explanatories.

The algorithms themselves (prefetch, triangularize, _generate_inner_blocks,
blaze, sequentialize) are hand-modelled and tied by exact correspondence."""
from __future__ import annotations

import ast

from vf import core
from vf.core import TranslatorError

SRC = "irispie/incidences/blazer.py"
SRC_SEQ = "irispie/sequentials/main.py"
SRC_INV = "irispie/sequentials/_invariants.py"
OUT = "gen/BlazerGen.v"


def _func(body, name, where):
    for st in body:
        if isinstance(st, (ast.FunctionDef,)) and st.name == name:
            return st
    raise TranslatorError(f"{where}: function {name} not found")


def _class(body, name, where):
    for st in body:
        if isinstance(st, ast.ClassDef) and st.name == name:
            return st
    raise TranslatorError(f"{where}: class {name} not found")


def _strip_doc(fn):
    body = list(fn.body)
    while body and isinstance(body[0], ast.Expr) and isinstance(body[0].value, ast.Constant) \
            and isinstance(body[0].value.value, str):
        body = body[1:]
    return body


def _default(fn: ast.FunctionDef, name: str) -> int:
    args = fn.args.posonlyargs + fn.args.args
    dfl = fn.args.defaults
    pairs = dict(zip([a.arg for a in args[len(args) - len(dfl):]], dfl))
    for a, d in zip(fn.args.kwonlyargs, fn.args.kw_defaults):
        if d is not None:
            pairs[a.arg] = d
    if name not in pairs or not isinstance(pairs[name], ast.Constant) or type(pairs[name].value) is not int:
        raise TranslatorError(f"{fn.name}: parameter {name} has no integer default")
    return pairs[name].value


def _singleton_count(fn: ast.FunctionDef, sum_name: str, axis: int) -> int:
    """`sum_name = im.sum(axis=<axis>, )` followed by `... _np.where(sum_name == K)[0]`; the element test `== K` too."""
    body = _strip_doc(fn)
    src = [ast.unparse(st) for st in body]
    if not src or src[0] != f"{sum_name} = im.sum(axis={axis})":
        raise TranslatorError(f"{fn.name}: first statement is not `{sum_name} = im.sum(axis={axis})`: {src[:1]}")
    ks = []
    for node in ast.walk(fn):
        if isinstance(node, ast.Compare) and len(node.ops) == 1:
            if not isinstance(node.ops[0], ast.Eq) or not isinstance(node.comparators[0], ast.Constant) \
                    or type(node.comparators[0].value) is not int:
                raise TranslatorError(f"{fn.name}: unsupported comparison {ast.unparse(node)}")
            ks.append(node.comparators[0].value)
    if len(ks) != 2 or ks[0] != ks[1]:
        raise TranslatorError(f"{fn.name}: expected two `== K` tests with the same K, found {ks}")
    return ks[0]


_PREFETCH_FIRST = [
    "sum_in_rows = im.sum(axis=1)",
    "index_rows = tuple(_np.where(sum_in_rows == {k})[0])",
    "index_columns = [_np.where(im[i, :] == {k})[0][0] for i in index_rows]",
    "im = _np.delete(im, index_rows, axis=0)",
    "im = _np.delete(im, index_columns, axis=1)",
    "eids_first, eids_rem = _split_ids(eids, index_rows)",
    "qids_first, qids_rem = _split_ids(qids, index_columns)",
    "return (eids_first, qids_first, eids_rem, qids_rem, im)",
]
_PREFETCH_LAST = [
    "sum_in_columns = im.sum(axis=0)",
    "index_columns = tuple(_np.where(sum_in_columns == {k})[0])",
    "index_rows = [_np.where(im[:, j] == {k})[0][0] for j in index_columns]",
    "im = _np.delete(im, index_columns, axis=1)",
    "im = _np.delete(im, index_rows, axis=0)",
    "eids_last, eids_rem = _split_ids(eids, index_rows)",
    "qids_last, qids_rem = _split_ids(qids, index_columns)",
    "return (eids_last, qids_last, eids_rem, qids_rem, im)",
]
_SPLIT_IDS = [
    "extracted = tuple((ids[i] for i in index))",
    "remaining = tuple((id_ for i, id_ in enumerate(ids) if i not in index))",
    "return (extracted, remaining)",
]


def _expect_body(fn, template, k=None):
    got = [ast.unparse(st) for st in _strip_doc(fn)]
    want = [t.format(k=k) for t in template]
    if got != want:
        for g, w in zip(got + ["<missing>"] * len(want), want):
            if g != w:
                raise TranslatorError(f"{fn.name}: statement `{g}` is not the modelled `{w}`")
        raise TranslatorError(f"{fn.name}: body has {len(got)} statements, the model has {len(want)}")


def _reordering(fn: ast.FunctionDef, axis: int) -> bool:
    """Returns True when the argsort is flipped. Accepts exactly the two modelled shapes."""
    body = [ast.unparse(st) for st in _strip_doc(fn)]
    if len(body) != 2 or not body[0].endswith(f"= _np.sum(im, axis={axis})"):
        raise TranslatorError(f"{fn.name}: unexpected body {body}")
    var = body[0].split(" = ")[0]
    if body[1] == f"return _np.flip(_np.argsort({var}))":
        return True
    if body[1] == f"return _np.argsort({var})":
        return False
    raise TranslatorError(f"{fn.name}: unexpected return `{body[1]}`")


def generate() -> str:
    path = core.SRC / SRC
    tree = ast.parse(path.read_text())
    out = [
        f"(* GENERATED by translator/blazer.py from {SRC}, {SRC_SEQ}, {SRC_INV}; do not edit. *)",
        "From Coq Require Import Arith Bool.",
        "",
    ]
    # singletons
    ff = _func(tree.body, "_prefetch_first", SRC)
    k1 = _singleton_count(ff, "sum_in_rows", 1)
    _expect_body(ff, _PREFETCH_FIRST, k1)
    fl = _func(tree.body, "_prefetch_last", SRC)
    k2 = _singleton_count(fl, "sum_in_columns", 0)
    _expect_body(fl, _PREFETCH_LAST, k2)
    _expect_body(_func(tree.body, "_split_ids", SRC), _SPLIT_IDS)
    out.append(f"Definition singleton_row_count : nat := {k1}.")
    out.append(f"Definition singleton_column_count : nat := {k2}.")
    # triangularize
    tri = _func(tree.body, "triangularize_inner_block", SRC)
    mi = _default(tri, "max_iterations")
    if mi < 0:
        raise TranslatorError("max_iterations is negative")
    out.append(f"Definition max_iterations : nat := {mi}.")
    out.append(f"Definition column_reordering_flips : bool := "
               f"{core.coq_bool(_reordering(_func(tree.body, '_get_column_reordering', SRC), 0))}.")
    out.append(f"Definition row_reordering_flips : bool := "
               f"{core.coq_bool(_reordering(_func(tree.body, '_get_row_reordering', SRC), 1))}.")
    # _generate_inner_blocks: block_size = next(i for i in range(1, im.shape[0] + 1) if not im[:i, i:].any())
    gib = _func(tree.body, "_generate_inner_blocks", SRC)
    stmts = [ast.unparse(st) for st in ast.walk(gib) if isinstance(st, ast.Assign)]
    want = "block_size = next((i for i in range({a}, im.shape[0] + 1) if not im[:i, i:].any()))"
    first = None
    for a in (0, 1, 2):
        if want.format(a=a) in stmts:
            first = a
    if first is None:
        raise TranslatorError(f"_generate_inner_blocks: block_size rule is not the modelled one: {stmts}")
    out.append(f"Definition first_block_size_candidate : nat := {first}.")
    # is_sequential
    iss = _func(tree.body, "is_sequential", SRC)
    body = [ast.unparse(st) for st in _strip_doc(iss)]
    if body != ["return _np.all(~_np.triu(im, order))"]:
        raise TranslatorError(f"is_sequential: unexpected body {body}")
    order = _default(iss, "order")
    if order < 0:
        raise TranslatorError("is_sequential: negative diagonal offset is not modelled")
    out.append(f"Definition is_sequential_order : nat := {order}.")
    # sequentialize_strictly: is the failure raised?
    ss = _func(tree.body, "sequentialize_strictly", SRC)
    ifs = [st for st in _strip_doc(ss) if isinstance(st, ast.If) and ast.unparse(st.test) == "fail"]
    if len(ifs) != 1 or len(ifs[0].body) != 1 or ifs[0].orelse:
        raise TranslatorError("sequentialize_strictly: `if fail:` not found in the modelled shape")
    st = ifs[0].body[0]
    if isinstance(st, ast.Raise):
        raises = True
    elif isinstance(st, ast.Expr) and isinstance(st.value, ast.Call):
        raises = False
    else:
        raise TranslatorError(f"sequentialize_strictly: unexpected failure statement {ast.unparse(st)}")
    fails = [ast.unparse(s.value) for s in _strip_doc(ss) if isinstance(s, ast.Assign) and ast.unparse(s.targets[0]) == "fail"]
    if fails != ["im_rem.size or eids_rem or qids_rem or (eids_first != qids_first) or (eids_last != qids_last)"]:
        raise TranslatorError(f"sequentialize_strictly: unexpected failure condition {fails}")
    rets = [ast.unparse(s) for s in _strip_doc(ss) if isinstance(s, ast.Return)]
    if rets != ["return eids_first + eids_last"]:
        raise TranslatorError(f"sequentialize_strictly: unexpected return {rets}")
    out.append(f"Definition strict_failure_raises : bool := {core.coq_bool(raises)}.")
    # Sequential.sequentialize / is_sequential
    seq_tree = ast.parse((core.SRC / SRC_SEQ).read_text())
    cls = _class(seq_tree.body, "Sequential", SRC_SEQ)
    sq = [ast.unparse(st) for st in _strip_doc(_func(cls.body, "sequentialize", SRC_SEQ))]
    want_sq = [
        "if self.is_sequential:\n    return tuple(range(self.num_equations))",
        "eids_reordered = _blazer.sequentialize_strictly(self.incidence_matrix)",
        "self.reorder_equations(eids_reordered)",
        "return tuple(eids_reordered)",
    ]
    if sq != want_sq:
        raise TranslatorError(f"Sequential.sequentialize: body is not the modelled one: {sq}")
    isq = [ast.unparse(st) for st in _strip_doc(_func(cls.body, "is_sequential", SRC_SEQ))]
    if isq != ["return _blazer.is_sequential(self.incidence_matrix) if self._invariant.explanatories else True"]:
        raise TranslatorError(f"Sequential.is_sequential: body is not the modelled one: {isq}")
    # Invariant.reorder_equations: validation precedes the assignment
    inv_tree = ast.parse((core.SRC / SRC_INV).read_text())
    inv = _class(inv_tree.body, "Invariant", SRC_INV)
    ro = _strip_doc(_func(inv.body, "reorder_equations", SRC_INV))
    src = [ast.unparse(st) for st in ro]
    if not src or not isinstance(ro[0], ast.If) or ast.unparse(ro[0].test) != \
            "sorted(new_order) != list(range(self.num_equations))" or not isinstance(ro[0].body[0], ast.Raise):
        raise TranslatorError(f"Invariant.reorder_equations: the permutation check is not the first statement: {src[:1]}")
    if len(src) < 2 or src[1] != "self.explanatories = [self.explanatories[i] for i in new_order]":
        raise TranslatorError(f"Invariant.reorder_equations: unexpected reordering statement: {src[1:2]}")
    out.append("Definition reorder_validates_before_mutating : bool := true.")
    out.append("")
    return "\n".join(out)


def run() -> bool:
    return core.write_if_changed(core.COQ / OUT, generate())
