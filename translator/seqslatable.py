"""sequentials/_slatable_protocols.py, sequentials/_simulate.py, dataslates/_variants.py, dataslates/main.py
  ->  coq/gen/SeqSlatableGen.v

What decides WHICH numbers the equations of a Sequential model are evaluated with: the assembly of the dataslate's
`fallbacks` / `overwrites` by `Inlay.slatable_for_simulate` from the two flags `parameters_from_data`,
`shocks_from_data`, and their application to the rows of the dataslate.  Regenerated on every run, fail closed:

* `slatable_for_simulate` is *executed abstractly* under each of the four flag combinations.  Accepted statements:
  `slatable = Slatable()`; `slatable.<field> = <pinned expression>`; `slatable.fallbacks/overwrites = {}`; the two
  name->value dicts (the model's parameters: `self.get_parameters(unpack_singleton=True)`; the residuals: a dict
  comprehension `{name: <module constant> for name in self.residual_names}`); `slatable.<fallbacks|overwrites>.update(<dict>)`;
  `if <flag>` / `if not <flag>` with such statements in both branches; `slatable.output_names = (...)` and `+=`;
  `return slatable`.  Anything else (helper functions, other targets, other tests) raises TranslatorError.
  Output: for each flag combination the ordered list of dicts that went into fallbacks and into overwrites, whether the
  parameter names are output names, and the default residual value.
* `Sequential.simulate` (`_simulate.py`): the defaults of the two flags, and the call that hands them over
  (`self.slatable_for_simulate(shocks_from_data=shocks_from_data, parameters_from_data=parameters_from_data)` -- each
  keyword must receive the argument of the same name), and that the slatable goes to
  `Dataslate.from_databox_for_slatable(slatable, input_db, base_dates, ...)`.
* `Dataslate.from_databox_for_slatable` passes `fallbacks=slatable.fallbacks, overwrites=slatable.overwrites`;
  `Variant.from_databox_variant` applies fallbacks first and overwrites second; `_apply_fallbacks` replaces the
  `_np.isnan` entries of a row named in the dict, `_apply_overwrites` replaces the whole row (bodies pinned to their
  normal form; the Gallina cell functions are emitted only for these shapes).
"""
from __future__ import annotations

import ast
import re
from fractions import Fraction

from vf import core
from vf.core import TranslatorError

OUT = "gen/SeqSlatableGen.v"

SRC_SLATABLE = "irispie/sequentials/_slatable_protocols.py"
SRC_SIMULATE = "irispie/sequentials/_simulate.py"
SRC_VARIANTS = "irispie/dataslates/_variants.py"
SRC_SLATES = "irispie/dataslates/main.py"

FLAGS = ("parameters_from_data", "shocks_from_data")
# fields of the slatable that do not take part in the choice of values, with the only accepted right-hand sides
PINNED_FIELDS = {
    "max_lag": "self.max_lag", "max_lead": "self.max_lead", "databox_names": "self.all_names",
    "descriptions": "None", "databox_validators": "None", "qid_to_logly": "{}",
}
OUTPUT_GROUPS = {"self.lhs_names": "lhs", "self.rhs_only_names": "rhs_only", "self.residual_names": "residuals",
                 "self.parameter_names": "parameters"}


def _u(node) -> str:
    return re.sub(r"\s+", "", ast.unparse(node))


def _cls(tree, name):
    for n in tree.body:
        if isinstance(n, ast.ClassDef) and n.name == name:
            return n
    raise TranslatorError(f"class {name} not found")


def _func(body, name):
    for n in body:
        if isinstance(n, ast.FunctionDef) and n.name == name:
            return n
    raise TranslatorError(f"function {name} not found")


def _body(fn):
    b = list(fn.body)
    while b and isinstance(b[0], ast.Expr) and isinstance(b[0].value, ast.Constant) and isinstance(b[0].value.value, str):
        b = b[1:]
    return b


def _num(v) -> str:
    if isinstance(v, bool) or not isinstance(v, (int, float)):
        raise TranslatorError(f"unsupported constant {v!r}")
    fr = Fraction(repr(v))
    if fr.denominator == 1:
        return f"(ofZ A ({fr.numerator}))"
    return f"(div A (ofZ A ({fr.numerator})) (ofZ A ({fr.denominator})))"


# ------------------------------------------------------------------ slatable_for_simulate, executed abstractly

class _State:
    def __init__(self, flags: dict, consts: dict):
        self.flags = flags              # flag name -> bool
        self.consts = consts            # module-level numeric constants
        self.dicts = {}                 # local name -> "parameters" | "residuals"
        self.slots = {"fallbacks": None, "overwrites": None}     # None = never initialised
        self.outputs = None
        self.fields = set()
        self.residual_default = None
        self.returned = False


def _test(node, st: _State, where) -> bool:
    if isinstance(node, ast.Name) and node.id in st.flags:
        return st.flags[node.id]
    if isinstance(node, ast.UnaryOp) and isinstance(node.op, ast.Not):
        return not _test(node.operand, st, where)
    raise TranslatorError(f"{where}: unsupported test '{ast.unparse(node)}' (only the flags {FLAGS} and their negations)")


def _slot_of(node, where) -> str | None:
    """slatable.fallbacks / slatable.overwrites -> slot name"""
    if isinstance(node, ast.Attribute) and isinstance(node.value, ast.Name) and node.value.id == "slatable" \
            and node.attr in ("fallbacks", "overwrites"):
        return node.attr
    return None


def _outputs(node, where) -> list:
    if isinstance(node, ast.BinOp) and isinstance(node.op, ast.Add):
        return _outputs(node.left, where) + _outputs(node.right, where)
    g = OUTPUT_GROUPS.get(_u(node))
    if g is None:
        raise TranslatorError(f"{where}: unsupported output names '{ast.unparse(node)}'")
    return [g]


def _exec(stmts, st: _State, where):
    for s in stmts:
        if st.returned:
            raise TranslatorError(f"{where}: statement after return")
        if isinstance(s, ast.Expr) and isinstance(s.value, ast.Constant) and isinstance(s.value.value, str):
            continue
        if isinstance(s, ast.Return):
            if _u(s.value) != "slatable":
                raise TranslatorError(f"{where}: returns '{ast.unparse(s.value)}'")
            st.returned = True
            continue
        if isinstance(s, ast.If):
            _exec(s.body if _test(s.test, st, where) else s.orelse, st, where)
            continue
        if isinstance(s, ast.Assign) and len(s.targets) == 1:
            t = s.targets[0]
            if isinstance(t, ast.Name):
                if t.id == "slatable":
                    if _u(s.value) != "Slatable()" or st.fields or any(v is not None for v in st.slots.values()):
                        raise TranslatorError(f"{where}: unexpected (re)binding of slatable")
                    continue
                if _u(s.value) == "self.get_parameters(unpack_singleton=True)":
                    st.dicts[t.id] = "parameters"
                    continue
                v = s.value
                if isinstance(v, ast.DictComp) and len(v.generators) == 1:
                    g = v.generators[0]
                    if isinstance(g.target, ast.Name) and isinstance(v.key, ast.Name) and v.key.id == g.target.id \
                            and _u(g.iter) == "self.residual_names" and not g.ifs and not g.is_async:
                        if isinstance(v.value, ast.Name) and v.value.id in st.consts:
                            val = st.consts[v.value.id]
                        elif isinstance(v.value, ast.Constant):
                            val = v.value.value
                        else:
                            raise TranslatorError(f"{where}: residual default '{ast.unparse(v.value)}' is not a constant")
                        if isinstance(val, bool) or not isinstance(val, (int, float)):
                            raise TranslatorError(f"{where}: residual default {val!r} is not a number")
                        st.residual_default = val
                        st.dicts[t.id] = "residuals"
                        continue
                raise TranslatorError(f"{where}: unsupported assignment '{ast.unparse(s)}'")
            if isinstance(t, ast.Attribute) and isinstance(t.value, ast.Name) and t.value.id == "slatable":
                slot = _slot_of(t, where)
                if slot is not None:
                    if _u(s.value) != "{}":
                        raise TranslatorError(f"{where}: slatable.{slot} = {ast.unparse(s.value)} (expected an empty dict)")
                    st.slots[slot] = []
                    continue
                if t.attr == "output_names":
                    st.outputs = _outputs(s.value, where)
                    continue
                want = PINNED_FIELDS.get(t.attr)
                if want is None or _u(s.value) != want:
                    raise TranslatorError(f"{where}: unexpected 'slatable.{t.attr} = {ast.unparse(s.value)}'")
                st.fields.add(t.attr)
                continue
        if isinstance(s, ast.AugAssign) and isinstance(s.op, ast.Add) and _u(s.target) == "slatable.output_names":
            if st.outputs is None:
                raise TranslatorError(f"{where}: output_names extended before it is assigned")
            st.outputs = st.outputs + _outputs(s.value, where)
            continue
        if isinstance(s, ast.Expr) and isinstance(s.value, ast.Call):
            c = s.value
            if isinstance(c.func, ast.Attribute) and c.func.attr == "update" and len(c.args) == 1 and not c.keywords:
                slot = _slot_of(c.func.value, where)
                if slot is not None and isinstance(c.args[0], ast.Name) and c.args[0].id in st.dicts:
                    if st.slots[slot] is None:
                        raise TranslatorError(f"{where}: slatable.{slot} updated before it is initialised")
                    st.slots[slot].append(st.dicts[c.args[0].id])
                    continue
        raise TranslatorError(f"{where}: unsupported statement '{ast.unparse(s)[:120]}'")


def _slatable() -> dict:
    tree = ast.parse((core.SRC / SRC_SLATABLE).read_text())
    consts = {}
    for n in tree.body:
        if isinstance(n, ast.Assign) and len(n.targets) == 1 and isinstance(n.targets[0], ast.Name):
            try:
                consts[n.targets[0].id] = ast.literal_eval(n.value)
            except Exception:  # noqa
                pass
    fn = _func(_cls(tree, "Inlay").body, "slatable_for_simulate")
    where = "Inlay.slatable_for_simulate"
    a = fn.args
    if [x.arg for x in a.args] != ["self", *FLAGS] and sorted(x.arg for x in a.args) != sorted(["self", *FLAGS]):
        raise TranslatorError(f"{where}: parameters {[x.arg for x in a.args]}")
    if a.vararg or a.kwarg or a.kwonlyargs or a.posonlyargs or a.defaults:
        raise TranslatorError(f"{where}: unexpected signature")
    if fn.decorator_list:
        raise TranslatorError(f"{where}: decorated")
    table = {}
    default = None
    for pfd in (False, True):
        for sfd in (False, True):
            st = _State({"parameters_from_data": pfd, "shocks_from_data": sfd}, consts)
            _exec(_body(fn), st, where)
            if not st.returned:
                raise TranslatorError(f"{where}: no return under {st.flags}")
            if st.slots["fallbacks"] is None or st.slots["overwrites"] is None or st.outputs is None:
                raise TranslatorError(f"{where}: fallbacks/overwrites/output_names not all set under {st.flags}")
            if st.fields != set(PINNED_FIELDS):
                raise TranslatorError(f"{where}: fields set {sorted(st.fields)}")
            if st.residual_default is None:
                raise TranslatorError(f"{where}: no residual default")
            if default is not None and default != st.residual_default:
                raise TranslatorError(f"{where}: residual default depends on the flags")
            default = st.residual_default
            if st.outputs[:3] != ["lhs", "rhs_only", "residuals"] or st.outputs[3:] not in ([], ["parameters"]):
                raise TranslatorError(f"{where}: output names {st.outputs} under {st.flags}")
            table[(pfd, sfd)] = {"fallbacks": list(st.slots["fallbacks"]), "overwrites": list(st.slots["overwrites"]),
                                 "out_params": st.outputs[3:] == ["parameters"]}
    return {"table": table, "residual_default": default, "arg_order": [x.arg for x in a.args if x.arg != "self"]}


# ------------------------------------------------------------------ the caller and the application to rows

def _simulate_caller() -> dict:
    tree = ast.parse((core.SRC / SRC_SIMULATE).read_text())
    fn = _func(tree.body, "simulate")
    where = "Sequential.simulate"
    kw = {a.arg: d for a, d in zip(fn.args.kwonlyargs, fn.args.kw_defaults)}
    defaults = {}
    for f in FLAGS:
        if f not in kw or not isinstance(kw[f], ast.Constant) or not isinstance(kw[f].value, bool):
            raise TranslatorError(f"{where}: keyword-only flag {f} with a boolean default expected")
        defaults[f] = kw[f].value
    calls = [n for n in ast.walk(fn) if isinstance(n, ast.Call) and isinstance(n.func, ast.Attribute)
             and n.func.attr == "slatable_for_simulate"]
    if len(calls) != 1:
        raise TranslatorError(f"{where}: {len(calls)} calls of slatable_for_simulate")
    c = calls[0]
    if _u(c.func) != "self.slatable_for_simulate" or c.args or sorted(k.arg or "" for k in c.keywords) != sorted(FLAGS):
        raise TranslatorError(f"{where}: unexpected call {ast.unparse(c)}")
    for k in c.keywords:
        if not isinstance(k.value, ast.Name) or k.value.id != k.arg:
            raise TranslatorError(f"{where}: slatable_for_simulate receives {k.arg}={ast.unparse(k.value)}")
    # the flags are not rebound, and the slatable built is the one the dataslate is made from
    for n in ast.walk(fn):
        if isinstance(n, (ast.Assign, ast.AugAssign, ast.AnnAssign)):
            tg = n.targets if isinstance(n, ast.Assign) else [n.target]
            for t in tg:
                for x in ast.walk(t):
                    if isinstance(x, ast.Name) and x.id in FLAGS:
                        raise TranslatorError(f"{where}: flag {x.id} is rebound")
    asg = [n for n in fn.body if isinstance(n, ast.Assign) and _u(n.targets[0]) in ("slatable", "dataslate")]
    got = [(_u(n.targets[0]), _u(n.value.func) if isinstance(n.value, ast.Call) else "?") for n in asg]
    if got != [("slatable", "self.slatable_for_simulate"), ("dataslate", "Dataslate.from_databox_for_slatable")]:
        raise TranslatorError(f"{where}: slatable/dataslate assignments {got}")
    ds = asg[1].value
    if [_u(a) for a in ds.args] != ["slatable", "input_db", "base_dates"] or \
            sorted(k.arg or "" for k in ds.keywords) != ["extra_databox_names", "num_variants"]:
        raise TranslatorError(f"{where}: unexpected call {ast.unparse(ds)}")
    return defaults


def _application():
    tree = ast.parse((core.SRC / SRC_SLATES).read_text())
    fn = _func(_cls(tree, "Dataslate").body, "from_databox_for_slatable")
    ret = [n for n in ast.walk(fn) if isinstance(n, ast.Return)]
    if len(ret) != 1 or not isinstance(ret[0].value, ast.Call) or _u(ret[0].value.func) != "klass.from_databox":
        raise TranslatorError("Dataslate.from_databox_for_slatable: unexpected return")
    kws = {k.arg: _u(k.value) for k in ret[0].value.keywords}
    if kws.get("fallbacks") != "slatable.fallbacks" or kws.get("overwrites") != "slatable.overwrites":
        raise TranslatorError(f"Dataslate.from_databox_for_slatable passes fallbacks={kws.get('fallbacks')}, "
                              f"overwrites={kws.get('overwrites')}")
    if [_u(a) for a in ret[0].value.args] != ["databox", "names", "periods"]:
        raise TranslatorError("Dataslate.from_databox_for_slatable: unexpected positional arguments")
    fd = _func(_cls(tree, "Dataslate").body, "from_databox")
    vcalls = [n for n in ast.walk(fd) if isinstance(n, ast.Call) and _u(n.func) == "Variant.from_databox_variant"]
    if len(vcalls) != 1:
        raise TranslatorError("Dataslate.from_databox: Variant.from_databox_variant call not found")
    kws = {k.arg: _u(k.value) for k in vcalls[0].keywords}
    if kws.get("fallbacks") != "fallbacks_v" or kws.get("overwrites") != "overwrites_v":
        raise TranslatorError(f"Dataslate.from_databox passes {kws} to Variant.from_databox_variant")
    zp = [n for n in ast.walk(fd) if isinstance(n, ast.Call) and _u(n.func) == "zip"]
    if len(zp) != 1 or [_u(a) for a in zp[0].args] != ["range(num_variants)", "databox_variant_iterator",
                                                       "fallbacks_variant_iterator", "overwrites_variant_iterator"]:
        raise TranslatorError("Dataslate.from_databox: unexpected zip of the variant iterators")
    comp = [n for n in ast.walk(fd) if isinstance(n, ast.comprehension) and _u(n.iter) == "zipped"]
    if len(comp) != 1 or _u(comp[0].target) != "(vid,databox_v,fallbacks_v,overwrites_v)":
        raise TranslatorError("Dataslate.from_databox: unexpected unpacking of zipped")
    for nm in ("fallbacks", "overwrites"):
        want = f"Databox.iter_variants({nm},item_iterator=item_iterator)if{nm}else_it.repeat(None)"
        got = [_u(n.value) for n in fd.body if isinstance(n, ast.Assign) and _u(n.targets[0]) == f"{nm}_variant_iterator"]
        if got != [want]:
            raise TranslatorError(f"Dataslate.from_databox: {nm}_variant_iterator = {got}")

    tree = ast.parse((core.SRC / SRC_VARIANTS).read_text())
    var = _cls(tree, "Variant")
    fv = _func(var.body, "from_databox_variant")
    tail = [_u(s) for s in _body(fv)]
    want_tail = ["self._apply_fallbacks(fallbacks,invariant)", "self._apply_overwrites(overwrites,invariant)", "returnself"]
    if tail[-3:] != want_tail or sum("_apply_" in t for t in tail) != 2:
        raise TranslatorError(f"Variant.from_databox_variant: fallbacks/overwrites are not applied in that order: {tail[-4:]}")
    loop = [s for s in _body(fv) if isinstance(s, ast.For)]
    if len(loop) != 1 or [_u(s) for s in loop[0].body] != [
            "new_data=_create_nan_vector()", "ifnindatabox_v:new_data[:]=databox_v[n]", "data_list.append(new_data)"] \
            or _u(loop[0].iter) != "invariant.names":
        raise TranslatorError("Variant.from_databox_variant: unexpected row loop")
    fb = [_u(s) for s in _body(_func(var.body, "_apply_fallbacks"))]
    if fb != ["ifnotfallbacks:return",
              "forrecord_id,nameinenumerate(invariant.names):ifnamenotinfallbacks:continuevalues=self.retrieve_record(record_id)"
              "index_nan=_np.isnan(values)values[index_nan]=_np.float64(fallbacks[name])self.store_record(values,record_id)"]:
        raise TranslatorError(f"Variant._apply_fallbacks: unexpected body {fb}")
    ow = [_u(s) for s in _body(_func(var.body, "_apply_overwrites"))]
    if ow != ["ifnotoverwrites:return",
              "forrecord_id,nameinenumerate(invariant.names):ifnamenotinoverwrites:continuevalues=self.retrieve_record(record_id)"
              "values[:]=_np.float64(overwrites[name])self.store_record(values,record_id)"]:
        raise TranslatorError(f"Variant._apply_overwrites: unexpected body {ow}")


def analyse() -> dict:
    info = _slatable()
    info["defaults"] = _simulate_caller()
    _application()
    return info


def generate() -> str:
    info = analyse()
    G = {"parameters": "GParams", "residuals": "GResiduals"}
    o = ["(* GENERATED by /verif/translator/seqslatable.py from src/irispie/sequentials/_slatable_protocols.py,",
         "   sequentials/_simulate.py, dataslates/main.py, dataslates/_variants.py -- do not edit *)",
         "From Coq Require Import ZArith List Bool.",
         "From Verif Require Import lib.Arith.",
         "Import ListNotations.",
         "",
         "(* the two name->value dicts slatable_for_simulate registers: the model's parameter values, the residual defaults *)",
         "Inductive group := GParams | GResiduals.",
         "",
         "(* slatable_for_simulate executed under each flag combination: the dicts that slatable.fallbacks / .overwrites",
         "   were update()d with, in order *)"]
    for slot in ("fallbacks", "overwrites"):
        o.append(f"Definition slatable_{slot}_groups (parameters_from_data shocks_from_data : bool) : list group :=")
        o.append("  match parameters_from_data, shocks_from_data with")
        for (pfd, sfd), row in info["table"].items():
            o.append(f"  | {core.coq_bool(pfd)}, {core.coq_bool(sfd)} => [{'; '.join(G[g] for g in row[slot])}]")
        o.append("  end.")
    o.append("Definition slatable_outputs_parameters (parameters_from_data shocks_from_data : bool) : bool :=")
    o.append("  match parameters_from_data, shocks_from_data with")
    for (pfd, sfd), row in info["table"].items():
        o.append(f"  | {core.coq_bool(pfd)}, {core.coq_bool(sfd)} => {core.coq_bool(row['out_params'])}")
    o.append("  end.")
    o.append("")
    o.append("(* Sequential.simulate: defaults of the flags (each handed to the slatable under its own name) *)")
    o.append(f"Definition default_parameters_from_data : bool := {core.coq_bool(info['defaults']['parameters_from_data'])}.")
    o.append(f"Definition default_shocks_from_data : bool := {core.coq_bool(info['defaults']['shocks_from_data'])}.")
    o.append("")
    o += ["Section SeqSlatableGen.", "Variable A : Arith.", "Notation V := (car A).",
          f"Definition default_residual : V := {_num(info['residual_default'])}.",
          "(* Variant._apply_fallbacks / _apply_overwrites on one entry of a row named in the dict *)",
          "Definition apply_fallback (fb raw : V) : V := if is_miss A raw then fb else raw.",
          "Definition apply_overwrite (ow raw : V) : V := ow.",
          "End SeqSlatableGen.", ""]
    return "\n".join(o)


def run() -> bool:
    return core.write_if_changed(core.COQ / OUT, generate())
