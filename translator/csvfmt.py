"""dates.py (Frequency enum, Frequency.from_letter), databoxes/_exports.py (_get_frequency_mark,
_DEFAULT_FREQUENCY_SPAN, _DEFAULT_ROUND, the name-row / empty-row expressions of _ExportBlock),
databoxes/_imports.py (the cell tests of _block_iterator and column_iterator)
  ->  coq/gen/CsvGen.v

Regenerated on every run.  Tables are emitted as Coq lists; the small expressions whose shape the
hand model relies on are compared with their expected source text and the translator fails closed
when they differ (the hand model model/Csv.v would then no longer be the code)."""
from __future__ import annotations

import ast

from vf import core
from vf.core import TranslatorError

OUT = "gen/CsvGen.v"
OUT4 = "gen/Csv4Gen.v"          # round 4: the frequency -> span table of the exporter, the merge loop
OUT5 = "gen/Csv5Gen.v"          # round 5: how the exporter reads the data of a block (per selected period)


def _parse(rel: str) -> ast.Module:
    return ast.parse((core.SRC / rel).read_text())


def _find(body, kind, name):
    for st in body:
        if isinstance(st, kind) and getattr(st, "name", None) == name:
            return st
    raise TranslatorError(f"{kind.__name__} {name} not found")


def _norm(node) -> str:
    return ast.unparse(node).replace(" ", "")


def _expect(where: str, got, want: str):
    g = _norm(got) if not isinstance(got, str) else got.replace(" ", "")
    if g != want.replace(" ", ""):
        raise TranslatorError(f"{where}: expected `{want}`, source has `{g}`")


def _frequency_members():
    mod = _parse("irispie/dates.py")
    cls = _find(mod.body, ast.ClassDef, "Frequency")
    members, seen = [], set()
    for st in cls.body:
        if isinstance(st, ast.Assign) and len(st.targets) == 1 and isinstance(st.targets[0], ast.Name):
            try:
                v = ast.literal_eval(st.value)
            except Exception:
                raise TranslatorError(f"Frequency.{st.targets[0].id}: not a literal")
            if not isinstance(v, int):
                raise TranslatorError(f"Frequency.{st.targets[0].id}: not an integer")
            if v in seen:           # enum alias: not iterated, not a canonical name
                continue
            seen.add(v)
            members.append((st.targets[0].id, v))
    if not members:
        raise TranslatorError("Frequency has no members")
    fl = _find(cls.body, ast.FunctionDef, "from_letter")
    body = [s for s in fl.body if not (isinstance(s, ast.Expr) and isinstance(s.value, ast.Constant))]
    if len(body) != 2:
        raise TranslatorError("Frequency.from_letter: unexpected body")
    _expect("Frequency.from_letter", body[0], "letter=string.replace('_','').upper()[0]")
    _expect("Frequency.from_letter", body[1], "return next((x for x in klass if x.name.startswith(letter)))")
    return members


def _exports():
    mod = _parse("irispie/databoxes/_exports.py")
    out = {}
    for st in mod.body:
        if isinstance(st, ast.Assign) and len(st.targets) == 1 and isinstance(st.targets[0], ast.Name):
            nm = st.targets[0].id
            if nm == "_DEFAULT_ROUND":
                out["round"] = ast.literal_eval(st.value)
            if nm == "_DEFAULT_DATE_FORMATTER":
                _expect("_DEFAULT_DATE_FORMATTER", st.value, "str")
            if nm == "_DEFAULT_FREQUENCY_SPAN":
                if not isinstance(st.value, ast.Dict):
                    raise TranslatorError("_DEFAULT_FREQUENCY_SPAN is not a dict literal")
                keys = []
                for k, v in zip(st.value.keys, st.value.values):
                    if not (isinstance(k, ast.Attribute) and ast.unparse(k.value) == "Frequency"):
                        raise TranslatorError("_DEFAULT_FREQUENCY_SPAN: key is not Frequency.X")
                    if not (isinstance(v, ast.Constant) and v.value is Ellipsis):
                        raise TranslatorError("_DEFAULT_FREQUENCY_SPAN: value is not ...")
                    keys.append(k.attr)
                out["order"] = keys
    if not isinstance(out.get("round"), int) or "order" not in out:
        raise TranslatorError("_DEFAULT_ROUND / _DEFAULT_FREQUENCY_SPAN not found")
    fm = _find(mod.body, ast.FunctionDef, "_get_frequency_mark")
    if len(fm.body) != 1 or not isinstance(fm.body[0], ast.Return):
        raise TranslatorError("_get_frequency_mark: unexpected body")
    _expect("_get_frequency_mark", fm.body[0].value, "'__'+frequency.name.lower()+'__'")
    # the row expressions of _ExportBlock.__iter__
    blk = _find(mod.body, ast.ClassDef, "_ExportBlock")
    it = _find(blk.body, ast.FunctionDef, "__iter__")
    src = _norm(it)
    for frag, what in [
        ("empty_row=('',)+('',)*sum(num_data_columns)+('',)", "empty row"),
        ("(n,)+('*',)*(num_data_columns[i]-1)", "continuation columns"),
        ("yield((_get_frequency_mark(self.frequency),)+name_row+('',))", "name row"),
        ("yield(('',)+description_row+('',))", "description row"),
        ("(date_formatter(date),)+tuple((xifnot_np.isnan(x)elseself.nan_strforxin_round(data_row).tolist()))+('',)",
         "data row"),
        ("for_inrange(self.total_num_data_rows-len(self.periods))", "padding rows"),
        ("return_np.round(x,self.round)", "rounding"),
    ]:
        if frag not in src:
            raise TranslatorError(f"_ExportBlock.__iter__: the {what} expression changed (expected `{frag}`)")
    return out


def _imports():
    mod = _parse("irispie/databoxes/_imports.py")
    bi = _norm(_find(mod.body, ast.FunctionDef, "_block_iterator"))
    for frag, what in [
        ("returncell.startswith('__')", "_is_end"),
        ("letter=cell.removeprefix('__')[0]", "_is_start"),
        ("name_row+=['__']", "sentinel"),
        ("current_start=column+1", "block start"),
        ("current_frequency=Frequency.from_letter(cell)", "block frequency"),
    ]:
        if frag not in bi:
            raise TranslatorError(f"_block_iterator: the {what} expression changed (expected `{frag}`)")
    cls = _find(mod.body, ast.ClassDef, "_ImportBlock")
    ci = _norm(_find(cls.body, ast.FunctionDef, "column_iterator"))
    for frag in ["ifstatusandn!='*':", "ifstatusandn=='*':", "ifnotstatusandnand(n!='*'):",
                 "names=self.names+['']", "descriptions=self.descriptions+['']"]:
        if frag not in ci:
            raise TranslatorError(f"column_iterator: expected `{frag}`")
    ep = _norm(_find(mod.body, ast.FunctionDef, "_extract_periods_from_data_rows"))
    for frag in ["ifstart_period_onlyorline[column]", "period_from_string(line[column],frequency=frequency)"]:
        if frag not in ep:
            raise TranslatorError(f"_extract_periods_from_data_rows: expected `{frag}`")


def generate() -> str:
    members = _frequency_members()
    ex = _exports()
    _imports()
    val = dict(members)
    for k in ex["order"]:
        if k not in val:
            raise TranslatorError(f"_DEFAULT_FREQUENCY_SPAN: unknown frequency {k}")
    lines = [
        "(* GENERATED by translator/csvfmt.py from dates.py, databoxes/_exports.py, databoxes/_imports.py.",
        "   Do not edit. *)",
        "From Coq Require Import String ZArith List.",
        "Import ListNotations.",
        "Open Scope Z_scope.",
        "",
        "(* members of the Frequency enum in iteration order (aliases are not iterated) *)",
        "Definition freq_members : list (string * Z) := [",
        ";\n".join(f'  ("{n}"%string, {core.coq_z(v)})' for n, v in members),
        "].",
        "",
        "(* keys of _DEFAULT_FREQUENCY_SPAN, in order *)",
        "Definition default_freq_order : list Z := " + core.coq_list([core.coq_z(val[k]) for k in ex["order"]]) + ".",
        "",
        f"Definition default_round : Z := {core.coq_z(ex['round'])}.",
        "",
    ]
    return "\n".join(lines)


# ---------------------------------------------------------------------- round 4 fragments

def _body(fn) -> list:
    """Statements of a function without its docstring."""
    return [s for s in fn.body if not (isinstance(s, ast.Expr) and isinstance(s.value, ast.Constant))]


def _keep_test(node, members: dict) -> str:
    """The `if` test of the last comprehension of _resolve_frequency_span over (v, k) -> Coq over
    (empty_span : bool) (f : Z).  Accepted: `v is [not] EmptySpan()`, `k is [not] Frequency.X`,
    `k ==/!= Frequency.X`, and/or/not of these."""
    if isinstance(node, ast.BoolOp):
        op = " || " if isinstance(node.op, ast.Or) else " && "
        return "(" + op.join(_keep_test(v, members) for v in node.values) + ")"
    if isinstance(node, ast.UnaryOp) and isinstance(node.op, ast.Not):
        return f"(negb {_keep_test(node.operand, members)})"
    if isinstance(node, ast.Compare) and len(node.ops) == 1 and isinstance(node.left, ast.Name):
        op, rhs = node.ops[0], node.comparators[0]
        neg = isinstance(op, (ast.IsNot, ast.NotEq))
        if not isinstance(op, (ast.Is, ast.IsNot, ast.Eq, ast.NotEq)):
            raise TranslatorError(f"_resolve_frequency_span: comparison `{ast.unparse(node)}` not translatable")
        if node.left.id == "v" and _norm(rhs) == "EmptySpan()" and isinstance(op, (ast.Is, ast.IsNot)):
            return "(negb empty_span)" if neg else "empty_span"
        if (node.left.id == "k" and isinstance(rhs, ast.Attribute) and ast.unparse(rhs.value) == "Frequency"
                and rhs.attr in members):
            t = f"(f =? {core.coq_z(members[rhs.attr])})"
            return f"(negb {t})" if neg else t
    raise TranslatorError(f"_resolve_frequency_span: test `{ast.unparse(node)}` not translatable")


def _fspan_table(members: dict) -> str:
    mod = _parse("irispie/databoxes/_exports.py")
    fn = _find(mod.body, ast.FunctionDef, "_resolve_frequency_span")
    body = _body(fn)
    if len(body) != 5:
        raise TranslatorError(f"_resolve_frequency_span: {len(body)} statements, expected 5 "
                              "(span override, drop None, resolve `...`, expand/drop empty spans, return)")
    _expect("_resolve_frequency_span (span override)", body[0],
            "if span is None:\n    frequency_span = frequency_span if frequency_span is not None else _DEFAULT_FREQUENCY_SPAN\n"
            "else:\n    span = tuple(span)\n    frequency = span[0].frequency\n    frequency_span = {frequency: span}")
    _expect("_resolve_frequency_span (drop None)", body[1],
            "frequency_span={Frequency(k):v for k,v in frequency_span.items() if v is not None}")
    _expect("_resolve_frequency_span (resolve ...)", body[2],
            "frequency_span={k:v if v is not ... else databox.get_span_by_frequency(k) for k,v in frequency_span.items()}")
    st = body[3]
    if not (isinstance(st, ast.Assign) and _norm(st.targets[0]) == "frequency_span" and isinstance(st.value, ast.DictComp)
            and len(st.value.generators) == 1):
        raise TranslatorError("_resolve_frequency_span: the expand/drop statement is not a dict comprehension")
    dc = st.value
    gen = dc.generators[0]
    _expect("_resolve_frequency_span (expand: key)", dc.key, "k")
    if _norm(dc.value) not in ("tuple((iforiinv))", "tuple(v)"):
        raise TranslatorError(f"_resolve_frequency_span: expanded value `{ast.unparse(dc.value)}` is not tuple(v)")
    _expect("_resolve_frequency_span (expand: iteration)", _norm(gen.target) + " in " + _norm(gen.iter), "(k,v) in frequency_span.items()")
    if len(gen.ifs) > 1:
        raise TranslatorError("_resolve_frequency_span: several `if` clauses")
    keep = _keep_test(gen.ifs[0], members) if gen.ifs else "true"
    _expect("_resolve_frequency_span (return)", body[4], "return frequency_span")
    # Databox.get_span_by_frequency: which spans are the EmptySpan object
    dmod = _parse("irispie/databoxes/main.py")
    cls = _find(dmod.body, ast.ClassDef, "Databox")
    g = _body(_find(cls.body, ast.FunctionDef, "get_span_by_frequency"))
    if len(g) < 4:
        raise TranslatorError("Databox.get_span_by_frequency: unexpected body")
    _expect("get_span_by_frequency (unknown)", g[0], "if frequency == Frequency.UNKNOWN:\n    return EmptySpan()")
    _expect("get_span_by_frequency (names)", g[1], "names = self.get_series_names_by_frequency(frequency)")
    _expect("get_span_by_frequency (no names)", g[2], "if not names:\n    return EmptySpan()")
    return keep


_MERGE_BODIES = {
    "_merge_stack": "if isinstance(value, _series.Series):\n    self[key] = self[key] | value\n    return\n"
                    "if not isinstance(self[key], list):\n    self[key] = [self[key]]\n"
                    "if not isinstance(value, list):\n    value = [value]\nself[key] += value",
    "_merge_replace": "self[key] = value",
    "_merge_discard": "pass",
    "_merge_report": "stream.add(key)",
}
_MERGE_DISPATCH = {"stack": "_merge_stack", "hstack": "_merge_stack", "replace": "_merge_replace", "discard": "_merge_discard",
                   "silent": "_merge_report", "warning": "_merge_report", "error": "_merge_report", "critical": "_merge_report"}


def _merge_loop() -> list:
    """databoxes/_merge.py: the loop of _merge (membership test against the CURRENT keys of self), the strategy
    functions and the dispatch table, as modelled by model/Databox.v: merge_step / d_merge.  Fails closed."""
    mod = _parse("irispie/databoxes/_merge.py")
    fn = _find(mod.body, ast.FunctionDef, "_merge")
    body = _body(fn)
    loops = [s for s in body if isinstance(s, ast.For)]
    if len(loops) != 1:
        raise TranslatorError("_merge: expected exactly one loop over the merged databoxes")
    _expect("_merge (loop)", loops[0],
            "for t in other:\n    for key, value in t.items():\n        if key in self:\n"
            "            merge_strategy_func(self, key, value, stream)\n        else:\n            self[key] = value")
    i = body.index(loops[0])
    _expect("_merge (single databox)", body[i - 1], "if hasattr(other, 'items'):\n    other = (other,)")
    _expect("_merge (raise at the end)", body[i + 1], "stream._raise()")
    if len(body) != i + 2:
        raise TranslatorError("_merge: statements after stream._raise()")
    for st in body[:i - 1]:
        # nothing before the loop may read or copy the keys of self
        if "self" in {n.id for n in ast.walk(st) if isinstance(n, ast.Name)}:
            raise TranslatorError(f"_merge: `{ast.unparse(st)[:80]}` uses self before the loop")
    for name, want in _MERGE_BODIES.items():
        f = _find(mod.body, ast.FunctionDef, name)
        _expect(name, "\n".join(ast.unparse(s) for s in _body(f)), want)
    disp = None
    for st in mod.body:
        if isinstance(st, ast.Assign) and _norm(st.targets[0]) == "_MERGE_STRATEGY_DISPATCH":
            disp = st.value
    if not isinstance(disp, ast.Dict):
        raise TranslatorError("_MERGE_STRATEGY_DISPATCH not found")
    got = {ast.literal_eval(k): ast.unparse(v) for k, v in zip(disp.keys, disp.values)}
    if got != _MERGE_DISPATCH:
        raise TranslatorError(f"_MERGE_STRATEGY_DISPATCH changed: {got}")
    bm = _find(mod.body, ast.FunctionDef, "_by_merging")
    _expect("_by_merging", "\n".join(ast.unparse(s) for s in _body(bm)),
            "self = klass()\nself.merge(databoxes, merge_strategy)\nreturn self")
    return sorted(got)


def generate4() -> str:
    members = dict(_frequency_members())
    keep = _fspan_table(members)
    strategies = _merge_loop()
    return "\n".join([
        "(* GENERATED by translator/csvfmt.py (round 4) from databoxes/_exports.py: _resolve_frequency_span,",
        "   databoxes/main.py: get_span_by_frequency, databoxes/_merge.py.  Do not edit. *)",
        "From Coq Require Import String ZArith List Bool.",
        "Import ListNotations.",
        "Open Scope Z_scope.",
        "",
        "(* the `if` test of the last comprehension of _resolve_frequency_span: is the entry (frequency f, span v) kept,",
        "   where empty_span says that v is the EmptySpan object (get_span_by_frequency: unknown frequency, or no series",
        "   of that frequency) *)",
        f"Definition fspan_keep (empty_span : bool) (f : Z) : bool := {keep}.",
        "",
        "(* keys of _MERGE_STRATEGY_DISPATCH (the loop, the strategy functions and the table were compared with the",
        "   shapes modelled by model/Databox.v: merge_step) *)",
        "Definition merge_strategies : list string := " + core.coq_list([core.coq_string(x) + "%string" for x in strategies]) + ".",
        "",
    ])


# ---------------------------------------------------------------------- round 5 fragment

def _data_access() -> str:
    """_get_data_array_for_names and its use in _ExportBlock.__iter__: the statements are compared with the shapes
    modelled by model/Csv5.v (hstack of one array per name, an empty lead with one row per period, the rows paired with
    the periods by zip); the expression that reads the data of ONE series for the periods of the block is translated
    (only calls of Series.get_data / Series.get_data_from_until on self[n] whose arguments are built from `periods`)."""
    mod = _parse("irispie/databoxes/_exports.py")
    fn = _find(mod.body, ast.FunctionDef, "_get_data_array_for_names")
    args = [a.arg for a in fn.args.posonlyargs + fn.args.args]
    if args != ["self", "names", "periods"] or fn.args.vararg or fn.args.kwarg or fn.args.kwonlyargs:
        raise TranslatorError(f"_get_data_array_for_names: unexpected parameters {args}")
    body = _body(fn)
    if len(body) != 2 or not isinstance(body[0], ast.Assign) or not isinstance(body[1], ast.Return):
        raise TranslatorError("_get_data_array_for_names: expected `empty_lead = ...; return _np.hstack(...)`")
    _expect("_get_data_array_for_names: empty lead", body[0], "empty_lead=_np.empty((len(periods),0),dtype=_np.float64)")
    ret = body[1].value
    ok = (isinstance(ret, ast.Call) and _norm(ret.func) == "_np.hstack" and len(ret.args) == 1 and not ret.keywords
          and isinstance(ret.args[0], ast.BinOp) and isinstance(ret.args[0].op, ast.Add)
          and _norm(ret.args[0].left) == "[empty_lead]" and isinstance(ret.args[0].right, ast.ListComp))
    if not ok:
        raise TranslatorError("_get_data_array_for_names: expected `return _np.hstack([empty_lead] + [<data of n> for n in names])`, "
                              f"source has `{_norm(body[1])}`")
    comp = ret.args[0].right
    if (len(comp.generators) != 1 or _norm(comp.generators[0].target) != "n" or _norm(comp.generators[0].iter) != "names"
            or comp.generators[0].ifs or comp.generators[0].is_async):
        raise TranslatorError("_get_data_array_for_names: expected one generator `for n in names` without a condition")
    elt = comp.elt
    if not (isinstance(elt, ast.Call) and isinstance(elt.func, ast.Attribute) and _norm(elt.func.value) == "self[n]"
            and not elt.keywords):
        raise TranslatorError(f"_get_data_array_for_names: the data of one series is not a method call on self[n]: `{_norm(elt)}`")

    def per(node) -> str:
        # expressions over `periods` that the model knows: the tuple itself, its first and its last element
        t = _norm(node)
        if t == "periods":
            return "periods"
        if t == "periods[0]":
            return "(hd 0 periods)"
        if t == "periods[-1]":
            return "(last periods 0)"
        raise TranslatorError(f"_get_data_array_for_names: unknown argument `{t}`")

    if elt.func.attr == "get_data" and len(elt.args) == 1:
        expr = f"get_data {per(elt.args[0])}"
    elif (elt.func.attr == "get_data_from_until" and len(elt.args) == 1 and isinstance(elt.args[0], ast.Tuple)
          and len(elt.args[0].elts) == 2):
        expr = f"get_data_from_until {per(elt.args[0].elts[0])} {per(elt.args[0].elts[1])}"
    else:
        raise TranslatorError(f"_get_data_array_for_names: unknown accessor `{_norm(elt)}`")
    # the use in _ExportBlock.__iter__
    blk = _find(mod.body, ast.ClassDef, "_ExportBlock")
    src = _norm(_find(blk.body, ast.FunctionDef, "__iter__"))
    for frag, what in [
        ("data_array=_get_data_array_for_names(self.databox,self.names,self.periods)", "data array"),
        ("fordate,data_rowinzip(self.periods,data_array):", "pairing of periods and data rows"),
        ("num_data_columns=_get_num_data_columns_for_names(self.databox,self.names)", "column counts"),
    ]:
        if frag not in src:
            raise TranslatorError(f"_ExportBlock.__iter__: the {what} statement changed (expected `{frag}`)")
    nc = _find(mod.body, ast.FunctionDef, "_get_num_data_columns_for_names")
    _expect("_get_num_data_columns_for_names", _body(nc)[-1], "return tuple((self[n].shape[1] for n in names))")
    # to_csv_file: one block per frequency with that frequency's periods
    inl = _find(mod.body, ast.ClassDef, "Inlay")
    tc = _norm(_find(inl.body, ast.FunctionDef, "to_csv_file"))
    for frag in ["export_block_constructor(frequency=f,periods=frequency_span[f],names=frequency_names[f])",
                 "forfinfrequency_span.keys()iffrequency_names[f]", "forrowinzip(*export_blocks):"]:
        if frag not in tc:
            raise TranslatorError(f"to_csv_file: expected `{frag}`")
    return expr


def generate5() -> str:
    expr = _data_access()
    return "\n".join([
        "(* GENERATED by translator/csvfmt.py (round 5) from databoxes/_exports.py: _get_data_array_for_names.",
        "   Do not edit. *)",
        "From Coq Require Import ZArith List.",
        "Import ListNotations.",
        "Open Scope Z_scope.",
        "",
        "(* the data the exporter reads for ONE series of a block, given the block's periods: the element expression of",
        "   the list comprehension under _np.hstack, over the two accessors of the series (model/Series.v: get_data,",
        "   get_data_from_until) *)",
        "Definition export_rows_of {R : Type} (get_data : list Z -> R) (get_data_from_until : Z -> Z -> R)",
        f"  (periods : list Z) : R := {expr}.",
        "",
    ])


def run() -> bool:
    a = core.write_if_changed(core.COQ / OUT, generate())
    b = core.write_if_changed(core.COQ / OUT4, generate4())
    c = core.write_if_changed(core.COQ / OUT5, generate5())
    return a or b or c
