"""dates.py (Frequency enum, Frequency.from_letter), databoxes/_exports.py (_get_frequency_mark,
_DEFAULT_FREQUENCY_SPAN, _DEFAULT_ROUND, the name-row / empty-row expressions of _ExportBlock),
databoxes/_imports.py (the cell tests of _block_iterator and column_iterator)
  ->  coq/gen/CsvGen.v

Regenerated on every run.  Tables are emitted as Coq lists; the small expressions whose shape the
hand model relies on are compared with their expected source text and the translator fails closed
when they differ (the hand model model/Csv.v would then no longer be the code)."""
from __future__ import annotations

import ast

from vf import core
from vf.core import TranslatorError

OUT = "gen/CsvGen.v"


def _parse(rel: str) -> ast.Module:
    return ast.parse((core.SRC / rel).read_text())


def _find(body, kind, name):
    for st in body:
        if isinstance(st, kind) and getattr(st, "name", None) == name:
            return st
    raise TranslatorError(f"{kind.__name__} {name} not found")


def _norm(node) -> str:
    return ast.unparse(node).replace(" ", "")


def _expect(where: str, got, want: str):
    g = _norm(got) if not isinstance(got, str) else got.replace(" ", "")
    if g != want.replace(" ", ""):
        raise TranslatorError(f"{where}: expected `{want}`, source has `{g}`")


def _frequency_members():
    mod = _parse("irispie/dates.py")
    cls = _find(mod.body, ast.ClassDef, "Frequency")
    members, seen = [], set()
    for st in cls.body:
        if isinstance(st, ast.Assign) and len(st.targets) == 1 and isinstance(st.targets[0], ast.Name):
            try:
                v = ast.literal_eval(st.value)
            except Exception:
                raise TranslatorError(f"Frequency.{st.targets[0].id}: not a literal")
            if not isinstance(v, int):
                raise TranslatorError(f"Frequency.{st.targets[0].id}: not an integer")
            if v in seen:           # enum alias: not iterated, not a canonical name
                continue
            seen.add(v)
            members.append((st.targets[0].id, v))
    if not members:
        raise TranslatorError("Frequency has no members")
    fl = _find(cls.body, ast.FunctionDef, "from_letter")
    body = [s for s in fl.body if not (isinstance(s, ast.Expr) and isinstance(s.value, ast.Constant))]
    if len(body) != 2:
        raise TranslatorError("Frequency.from_letter: unexpected body")
    _expect("Frequency.from_letter", body[0], "letter=string.replace('_','').upper()[0]")
    _expect("Frequency.from_letter", body[1], "return next((x for x in klass if x.name.startswith(letter)))")
    return members


def _exports():
    mod = _parse("irispie/databoxes/_exports.py")
    out = {}
    for st in mod.body:
        if isinstance(st, ast.Assign) and len(st.targets) == 1 and isinstance(st.targets[0], ast.Name):
            nm = st.targets[0].id
            if nm == "_DEFAULT_ROUND":
                out["round"] = ast.literal_eval(st.value)
            if nm == "_DEFAULT_DATE_FORMATTER":
                _expect("_DEFAULT_DATE_FORMATTER", st.value, "str")
            if nm == "_DEFAULT_FREQUENCY_SPAN":
                if not isinstance(st.value, ast.Dict):
                    raise TranslatorError("_DEFAULT_FREQUENCY_SPAN is not a dict literal")
                keys = []
                for k, v in zip(st.value.keys, st.value.values):
                    if not (isinstance(k, ast.Attribute) and ast.unparse(k.value) == "Frequency"):
                        raise TranslatorError("_DEFAULT_FREQUENCY_SPAN: key is not Frequency.X")
                    if not (isinstance(v, ast.Constant) and v.value is Ellipsis):
                        raise TranslatorError("_DEFAULT_FREQUENCY_SPAN: value is not ...")
                    keys.append(k.attr)
                out["order"] = keys
    if not isinstance(out.get("round"), int) or "order" not in out:
        raise TranslatorError("_DEFAULT_ROUND / _DEFAULT_FREQUENCY_SPAN not found")
    fm = _find(mod.body, ast.FunctionDef, "_get_frequency_mark")
    if len(fm.body) != 1 or not isinstance(fm.body[0], ast.Return):
        raise TranslatorError("_get_frequency_mark: unexpected body")
    _expect("_get_frequency_mark", fm.body[0].value, "'__'+frequency.name.lower()+'__'")
    # the row expressions of _ExportBlock.__iter__
    blk = _find(mod.body, ast.ClassDef, "_ExportBlock")
    it = _find(blk.body, ast.FunctionDef, "__iter__")
    src = _norm(it)
    for frag, what in [
        ("empty_row=('',)+('',)*sum(num_data_columns)+('',)", "empty row"),
        ("(n,)+('*',)*(num_data_columns[i]-1)", "continuation columns"),
        ("yield((_get_frequency_mark(self.frequency),)+name_row+('',))", "name row"),
        ("yield(('',)+description_row+('',))", "description row"),
        ("(date_formatter(date),)+tuple((xifnot_np.isnan(x)elseself.nan_strforxin_round(data_row).tolist()))+('',)",
         "data row"),
        ("for_inrange(self.total_num_data_rows-len(self.periods))", "padding rows"),
        ("return_np.round(x,self.round)", "rounding"),
    ]:
        if frag not in src:
            raise TranslatorError(f"_ExportBlock.__iter__: the {what} expression changed (expected `{frag}`)")
    return out


def _imports():
    mod = _parse("irispie/databoxes/_imports.py")
    bi = _norm(_find(mod.body, ast.FunctionDef, "_block_iterator"))
    for frag, what in [
        ("returncell.startswith('__')", "_is_end"),
        ("letter=cell.removeprefix('__')[0]", "_is_start"),
        ("name_row+=['__']", "sentinel"),
        ("current_start=column+1", "block start"),
        ("current_frequency=Frequency.from_letter(cell)", "block frequency"),
    ]:
        if frag not in bi:
            raise TranslatorError(f"_block_iterator: the {what} expression changed (expected `{frag}`)")
    cls = _find(mod.body, ast.ClassDef, "_ImportBlock")
    ci = _norm(_find(cls.body, ast.FunctionDef, "column_iterator"))
    for frag in ["ifstatusandn!='*':", "ifstatusandn=='*':", "ifnotstatusandnand(n!='*'):",
                 "names=self.names+['']", "descriptions=self.descriptions+['']"]:
        if frag not in ci:
            raise TranslatorError(f"column_iterator: expected `{frag}`")
    ep = _norm(_find(mod.body, ast.FunctionDef, "_extract_periods_from_data_rows"))
    for frag in ["ifstart_period_onlyorline[column]", "period_from_string(line[column],frequency=frequency)"]:
        if frag not in ep:
            raise TranslatorError(f"_extract_periods_from_data_rows: expected `{frag}`")


def generate() -> str:
    members = _frequency_members()
    ex = _exports()
    _imports()
    val = dict(members)
    for k in ex["order"]:
        if k not in val:
            raise TranslatorError(f"_DEFAULT_FREQUENCY_SPAN: unknown frequency {k}")
    lines = [
        "(* GENERATED by translator/csvfmt.py from dates.py, databoxes/_exports.py, databoxes/_imports.py.",
        "   Do not edit. *)",
        "From Coq Require Import String ZArith List.",
        "Import ListNotations.",
        "Open Scope Z_scope.",
        "",
        "(* members of the Frequency enum in iteration order (aliases are not iterated) *)",
        "Definition freq_members : list (string * Z) := [",
        ";\n".join(f'  ("{n}"%string, {core.coq_z(v)})' for n, v in members),
        "].",
        "",
        "(* keys of _DEFAULT_FREQUENCY_SPAN, in order *)",
        "Definition default_freq_order : list Z := " + core.coq_list([core.coq_z(val[k]) for k in ex["order"]]) + ".",
        "",
        f"Definition default_round : Z := {core.coq_z(ex['round'])}.",
        "",
    ]
    return "\n".join(lines)


def run() -> bool:
    return core.write_if_changed(core.COQ / OUT, generate())
