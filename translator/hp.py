"""series/_hp.py, series/_ell_one.py  ->  coq/gen/HPGen.v

Regenerated on every run (fail closed):

* the stencil of the second-difference matrix K of `_create_plain_filter_matrix`
  (K[i, i+offset] = coefficient, number of rows = num_periods - 2) and the way F is
  formed from it (`self._smooth * (K.T @ K)`);
* the coefficients the level / change constraint rows put into the bordered matrix
  (`extra_rows[i, j] = 1`, `extra_rows[i, [j-1, j]] = (-1, 1)`, the transposed
  columns must carry the same coefficients);
* `_AUTO_SMOOTH` (default smoothing parameter by frequency);
* the difference matrices D of `_first_order_matrix_setup` / `_second_order_matrix_setup`
  (D = eye shifted and scaled), and the QP data `H = D @ D.T`, `f = -D @ data`,
  `gap = D.T @ x`, `trend = data - gap` of `lonf` / `_lonf_for_variant`.

The hand-written models (coq/model/HP.v, coq/model/L1.v) are defined in terms of these
fragments; the theorems (line invariance, optimality) are re-proved against them."""
from __future__ import annotations

import ast

from vf import core
from vf.core import TranslatorError
from . import pyexpr as px

SRC_HP = "irispie/series/_hp.py"
SRC_L1 = "irispie/series/_ell_one.py"
SRC_DATES = "irispie/dates.py"
OUT = "gen/HPGen.v"


def _int_eval(node, where) -> int:
    """Integer constant expressions: literals, + - * **, unary minus."""
    if isinstance(node, ast.Constant) and isinstance(node.value, int) and not isinstance(node.value, bool):
        return node.value
    if isinstance(node, ast.UnaryOp) and isinstance(node.op, ast.USub):
        return -_int_eval(node.operand, where)
    if isinstance(node, ast.BinOp):
        a, b = _int_eval(node.left, where), _int_eval(node.right, where)
        if isinstance(node.op, ast.Add):
            return a + b
        if isinstance(node.op, ast.Sub):
            return a - b
        if isinstance(node.op, ast.Mult):
            return a * b
        if isinstance(node.op, ast.Pow) and 0 <= b <= 8:
            return a ** b
    raise TranslatorError(f"{where}: not an integer constant expression: {ast.unparse(node)}")


def _u(node) -> str:
    return ast.unparse(node).replace(" ", "")


def _frequencies() -> dict[str, int]:
    tree = ast.parse((core.SRC / SRC_DATES).read_text())
    cls = px.find_class(tree, "Frequency")
    out = {}
    for st in cls.body:
        if isinstance(st, ast.Assign) and len(st.targets) == 1 and isinstance(st.targets[0], ast.Name):
            try:
                out[st.targets[0].id] = _int_eval(st.value, "Frequency")
            except TranslatorError:
                pass
    if not out:
        raise TranslatorError("Frequency: no members found")
    return out


def _offset(idx: ast.AST, var: str, where: str) -> int:
    """index expression `var`, `var+2`, `var-1` -> offset"""
    if isinstance(idx, ast.Name) and idx.id == var:
        return 0
    if isinstance(idx, ast.BinOp) and isinstance(idx.left, ast.Name) and idx.left.id == var \
            and isinstance(idx.op, (ast.Add, ast.Sub)):
        k = _int_eval(idx.right, where)
        return k if isinstance(idx.op, ast.Add) else -k
    raise TranslatorError(f"{where}: unsupported index {ast.unparse(idx)}")


def _hp_stencil(cls: ast.ClassDef):
    fn = px.find_func(cls.body, "_create_plain_filter_matrix")
    where = "_create_plain_filter_matrix"
    body = px.strip_doc(fn)
    if len(body) < 3:
        raise TranslatorError(f"{where}: unexpected body")
    # K = _np.zeros((self._num_periods-2, self._num_periods), dtype=float)
    st = body[0]
    if not (isinstance(st, ast.Assign) and _u(st.targets[0]) == "K" and isinstance(st.value, ast.Call)
            and _u(st.value.func) == "_np.zeros" and isinstance(st.value.args[0], ast.Tuple)
            and len(st.value.args[0].elts) == 2 and _u(st.value.args[0].elts[1]) == "self._num_periods"):
        raise TranslatorError(f"{where}: K is not _np.zeros((self._num_periods-r, self._num_periods), ...): {ast.unparse(st)}")
    rows = st.value.args[0].elts[0]
    if not (isinstance(rows, ast.BinOp) and isinstance(rows.op, ast.Sub) and _u(rows.left) == "self._num_periods"):
        raise TranslatorError(f"{where}: unexpected number of rows {ast.unparse(rows)}")
    less = _int_eval(rows.right, where)
    stencil: list[tuple[int, int]] = []
    for st in body[1:-1]:
        if not (isinstance(st, ast.For) and isinstance(st.target, ast.Name) and isinstance(st.iter, ast.Call)
                and _u(st.iter.func) == "range" and len(st.iter.args) == 1 and not st.orelse):
            raise TranslatorError(f"{where}: unsupported statement {ast.unparse(st)[:80]}")
        if _u(st.iter.args[0]) != f"self._num_periods-{less}":
            raise TranslatorError(f"{where}: loop range {ast.unparse(st.iter)} differs from the number of rows of K")
        i = st.target.id
        for a in st.body:
            if not (isinstance(a, ast.Assign) and len(a.targets) == 1 and isinstance(a.targets[0], ast.Subscript)
                    and _u(a.targets[0].value) == "K" and isinstance(a.targets[0].slice, ast.Tuple)
                    and len(a.targets[0].slice.elts) == 2):
                raise TranslatorError(f"{where}: unsupported statement {ast.unparse(a)}")
            r, c = a.targets[0].slice.elts
            if _offset(r, i, where) != 0:
                raise TranslatorError(f"{where}: row index is not the loop variable: {ast.unparse(a)}")
            stencil.append((_offset(c, i, where), _int_eval(a.value, where)))
    offs = [o for o, _ in stencil]
    if len(set(offs)) != len(offs) or not stencil:
        raise TranslatorError(f"{where}: repeated or missing offsets {offs}")
    if max(offs) > less or min(offs) < 0:
        raise TranslatorError(f"{where}: offsets {offs} reach outside the {less} extra columns")
    last = body[-1]
    if not (isinstance(last, ast.Assign) and _u(last.targets[0]) == "self._F"
            and _u(last.value) in ("self._smooth*(K.T@K)", "self._smooth*K.T@K")):
        raise TranslatorError(f"{where}: F is not self._smooth * (K.T @ K): {ast.unparse(last)}")
    return less, stencil


def _tuple_ints(node, where):
    if not isinstance(node, (ast.Tuple, ast.List)):
        raise TranslatorError(f"{where}: expected a tuple, got {ast.unparse(node)}")
    return [_int_eval(e, where) for e in node.elts]


def _constraint_rows(cls: ast.ClassDef):
    """coefficients written by _add_level_constraints / _add_change_constraints"""
    res = {}
    for name in ("_add_level_constraints", "_add_change_constraints"):
        fn = px.find_func(cls.body, name)
        loops = [s for s in px.strip_doc(fn) if isinstance(s, ast.For)]
        if len(loops) != 1:
            raise TranslatorError(f"{name}: expected one loop")
        lp = loops[0]
        if not (_u(lp.iter).startswith("enumerate(") and isinstance(lp.target, ast.Tuple) and len(lp.target.elts) == 2):
            raise TranslatorError(f"{name}: loop is not `for i, j in enumerate(...)`")
        i, j = (e.id for e in lp.target.elts)
        rows, cols = None, None
        for a in lp.body:
            if not (isinstance(a, ast.Assign) and isinstance(a.targets[0], ast.Subscript)
                    and isinstance(a.targets[0].slice, ast.Tuple) and len(a.targets[0].slice.elts) == 2):
                raise TranslatorError(f"{name}: unsupported statement {ast.unparse(a)}")
            tgt = _u(a.targets[0].value)
            e0, e1 = a.targets[0].slice.elts
            if tgt == "extra_rows":
                ri, ci = e0, e1
            elif tgt == "extra_variants":
                ci, ri = e0, e1
            else:
                raise TranslatorError(f"{name}: assignment to {tgt}")
            if not (isinstance(ri, ast.Name) and ri.id == i):
                raise TranslatorError(f"{name}: constraint index is not the enumeration index in {ast.unparse(a)}")
            if isinstance(ci, ast.List):
                offs = [_offset(e, j, name) for e in ci.elts]
                vals = _tuple_ints(a.value, name)
            else:
                offs = [_offset(ci, j, name)]
                vals = [_int_eval(a.value, name)]
            if len(offs) != len(vals) or len(set(offs)) != len(offs):
                raise TranslatorError(f"{name}: malformed {ast.unparse(a)}")
            pairs = sorted(zip(offs, vals))
            if tgt == "extra_rows":
                rows = pairs
            else:
                cols = pairs
        if rows is None or cols is None:
            raise TranslatorError(f"{name}: rows or columns of the border are not written")
        if rows != cols:
            raise TranslatorError(f"{name}: the border is not symmetric: rows {rows}, columns {cols}")
        res[name] = rows
    return res["_add_level_constraints"], res["_add_change_constraints"]


def _auto_smooth(tree: ast.Module, freqs: dict[str, int]):
    d = px.find_assign(tree.body, "_AUTO_SMOOTH")
    if not isinstance(d, ast.Dict):
        raise TranslatorError("_AUTO_SMOOTH is not a dict literal")
    table, default = [], None
    for k, v in zip(d.keys, d.values):
        val = _int_eval(v, "_AUTO_SMOOTH")
        if isinstance(k, ast.Constant) and k.value == "default":
            default = val
        elif isinstance(k, ast.Attribute) and _u(k.value) == "Frequency" and k.attr in freqs:
            table.append((freqs[k.attr], val))
        else:
            raise TranslatorError(f"_AUTO_SMOOTH: unsupported key {ast.unparse(k)}")
    if default is None:
        raise TranslatorError("_AUTO_SMOOTH has no default")
    fn = px.find_func(tree.body, "_get_default_smooth")
    ret = px.strip_doc(fn)[-1]
    if not (isinstance(ret, ast.Return) and _u(ret.value) == "_AUTO_SMOOTH.get(frequency,_AUTO_SMOOTH['default'])"):
        raise TranslatorError(f"_get_default_smooth: unexpected body {ast.unparse(ret)}")
    return table, default


def _l1_stencil(tree: ast.Module, name: str):
    """D = eye(n-order, n); D[:, k:] = D[:, k:] (+|-) c * d[:, :-k]  ->  [(0,1), (k, +-c), ...]"""
    fn = px.find_func(tree.body, name)
    body = px.strip_doc(fn)
    order = None
    stencil = {0: 1}
    seen_d = seen_D = False
    for st in body:
        if isinstance(st, ast.Assign) and _u(st.targets[0]) == "order":
            order = _int_eval(st.value, name)
        elif isinstance(st, ast.Assign) and _u(st.targets[0]) in ("d", "D"):
            if not _u(st.value).startswith("_np.eye(num_periods-order,num_periods,"):
                raise TranslatorError(f"{name}: {ast.unparse(st)} is not _np.eye(num_periods-order, num_periods, ...)")
            if _u(st.targets[0]) == "d":
                seen_d = True
            else:
                seen_D = True
        elif isinstance(st, ast.Assign) and isinstance(st.targets[0], ast.Subscript):
            t = _u(st.targets[0])
            v = st.value
            # D[:,k:] = D[:,k:] op [c *] d[:,:-k]
            import re
            m = re.fullmatch(r"D\[:,(\d+):\]", t)
            if not m or not isinstance(v, ast.BinOp) or _u(v.left) != t or not isinstance(v.op, (ast.Add, ast.Sub)):
                raise TranslatorError(f"{name}: unsupported statement {ast.unparse(st)}")
            k = int(m.group(1))
            rhs = v.right
            coef = 1
            if isinstance(rhs, ast.BinOp) and isinstance(rhs.op, ast.Mult):
                coef = _int_eval(rhs.left, name)
                rhs = rhs.right
            if _u(rhs) != f"d[:,:-{k}]":
                raise TranslatorError(f"{name}: shifted operand {ast.unparse(rhs)} does not match the target columns {k}:")
            if k in stencil:
                raise TranslatorError(f"{name}: offset {k} written twice")
            stencil[k] = coef if isinstance(v.op, ast.Add) else -coef
        elif isinstance(st, ast.Return):
            if _u(st.value) not in ("(d,D)", "(d,D,)"):
                raise TranslatorError(f"{name}: returns {ast.unparse(st.value)}")
        else:
            raise TranslatorError(f"{name}: unsupported statement {ast.unparse(st)}")
    if order is None or not (seen_d and seen_D):
        raise TranslatorError(f"{name}: order / d / D not found")
    if max(stencil) > order:
        raise TranslatorError(f"{name}: offsets {sorted(stencil)} exceed the order {order}")
    return order, sorted(stencil.items())


def _l1_qp(tree: ast.Module):
    """the QP handed to daqp and the way trend/gap are formed from its solution"""
    lonf = px.find_func(tree.body, "lonf")
    src = {}
    for st in ast.walk(lonf):
        if isinstance(st, ast.Assign) and len(st.targets) == 1:
            src[_u(st.targets[0])] = _u(st.value)
    need = {
        "d,D": "matrix_setup_func(num_periods)",
        "H": "D@D.T",
        "A": "_np.eye(num_periods-order,dtype=_ct.c_double)",
        "bounds": "_np.full((num_periods-order,),smooth,dtype=_ct.c_double)",
        "sense": "_np.full((num_periods-order,),0,dtype=_ct.c_int)",
        "solve": "_ft.partial(_qp.solve,H=H,A=A,bupper=bounds,blower=-bounds,sense=sense)",
        "matrix_setup_func": "_MATRIX_SETUP_DISPATCH[order]",
    }
    for k, v in need.items():
        got = src.get(k) or src.get("(" + k + ")") or src.get("(" + k + ",)")
        if got is None or got.replace(",)", ")") != v.replace(",)", ")"):
            raise TranslatorError(f"lonf: `{k} = {v}` expected, found {got}")
    var = px.find_func(tree.body, "_lonf_for_variant")
    src = {}
    for st in px.strip_doc(var):
        if isinstance(st, ast.Assign) and len(st.targets) == 1:
            src.setdefault(_u(st.targets[0]), []).append(_u(st.value))
    need = {"f": "-D@data", "gap_data": "D.T@x", "trend_data": "data-gap_data"}
    for k, v in need.items():
        if not src.get(k) or src[k][0] != v:
            raise TranslatorError(f"_lonf_for_variant: `{k} = {v}` expected, found {src.get(k)}")
    if src.get("(x,*_)") != ["solve(f=f)"] and src.get("x,*_") != ["solve(f=f)"]:
        raise TranslatorError(f"_lonf_for_variant: `x, *_ = solve(f=f)` expected, found {src.get('(x,*_)')}")
    disp = px.find_assign(tree.body, "_MATRIX_SETUP_DISPATCH")
    if not isinstance(disp, ast.Dict):
        raise TranslatorError("_MATRIX_SETUP_DISPATCH is not a dict literal")
    return {_int_eval(k, "dispatch"): _u(v) for k, v in zip(disp.keys, disp.values)}


def _zpairs(ps) -> str:
    return "[" + "; ".join(f"(({a})%Z, ({b})%Z)" for a, b in ps) + "]"


def generate() -> str:
    hp = ast.parse((core.SRC / SRC_HP).read_text())
    l1 = ast.parse((core.SRC / SRC_L1).read_text())
    freqs = _frequencies()
    cls = px.find_class(hp, "_ConstrainedHodrickPrescottFilter")
    less, stencil = _hp_stencil(cls)
    lvl, chg = _constraint_rows(cls)
    table, default = _auto_smooth(hp, freqs)
    disp = _l1_qp(l1)
    l1s = {}
    for order, fname in sorted(disp.items()):
        o, st = _l1_stencil(l1, fname)
        if o != order:
            raise TranslatorError(f"_MATRIX_SETUP_DISPATCH[{order}] = {fname} sets up order {o}")
        l1s[order] = st
    if sorted(l1s) != [1, 2]:
        raise TranslatorError(f"_MATRIX_SETUP_DISPATCH: orders {sorted(l1s)}")
    out = [
        "(* GENERATED by /verif/translator/hp.py from src/" + SRC_HP + " and src/" + SRC_L1 + " -- do not edit *)",
        "From Coq Require Import ZArith List.",
        "Import ListNotations.",
        "Open Scope Z_scope.",
        "",
        "(* K[i, i+offset] = coefficient; K has num_periods - hp_rows_less rows; F = smooth * (K.T @ K) *)",
        f"Definition hp_stencil : list (Z * Z) := {_zpairs(stencil)}.",
        f"Definition hp_rows_less : nat := {less}%nat.",
        "(* border rows (and, transposed, border columns): coefficient at column j+offset for a constraint dated j *)",
        f"Definition hp_level_row : list (Z * Z) := {_zpairs(lvl)}.",
        f"Definition hp_change_row : list (Z * Z) := {_zpairs(chg)}.",
        "(* _AUTO_SMOOTH: (frequency value, default smoothing parameter) *)",
        f"Definition hp_auto_smooth : list (Z * Z) := {_zpairs(table)}.",
        f"Definition hp_auto_smooth_default : Z := {default}.",
        "(* D[i, i+offset] = coefficient; D has num_periods - order rows; H = D @ D.T, f = -D @ data,",
        "   box -smooth <= x <= smooth, gap = D.T @ x, trend = data - gap *)",
        f"Definition l1_stencil_1 : list (Z * Z) := {_zpairs(l1s[1])}.",
        f"Definition l1_stencil_2 : list (Z * Z) := {_zpairs(l1s[2])}.",
        "",
    ]
    return "\n".join(out)


def run() -> bool:
    return core.write_if_changed(core.COQ / OUT, generate())
