"""fords/steadiers.py::solve_steady_linear_nonflat  ->  coq/gen/FordSteadyGen.v

Regenerated on every run (fail closed).  The function stacks the steady-state system of a linear, non-flat model at two
dates (0 and k) and solves for levels and per-period changes:

    AB @ [Xi; dXi] + [C; C] = 0          FF @ [Y; dY] + GG @ [Xi; dXi] + [H; H] = 0

* every one of the twelve blocks of AB, FF, GG (``vstack((hstack((b11, b12)), hstack((b21, b22))))``) is translated from
  its source expression into a Gallina term over the matrix interface lib/MxC01.v (integer multiples through
  lib/MxScale.v), as is the constant ``k``;
* every other statement of the function (aliases, the unpacking of ``sys``, ``CC``/``HH``, the two ``left_div`` calls with
  their signs, the split of the stacked solutions into levels and changes, the return tuple) must be literally the
  statement the hand model (model/FordSteady.v) was written against;
* ``simultaneous/_steady.py::_choose_steady_solver`` must dispatch (linear, non-flat) to this function.

proofs/FordSteadyProofs.v proves from the generated blocks that any solution of the stacked systems is a steady-state PATH:
the transition and measurement equations hold at every date (affine in t)."""
from __future__ import annotations

import ast

from vf import core
from vf.core import TranslatorError

OUT = "gen/FordSteadyGen.v"
STEADIERS = "irispie/fords/steadiers.py"
STEADY = "irispie/simultaneous/_steady.py"
FUNC = "solve_steady_linear_nonflat"

# block matrices: name -> the matrix names its blocks may mention
STACKS = {"AB": ("A", "B"), "FF": ("F",), "GG": ("G",)}

# the remaining statements, in order of appearance (normalised by ast.unparse)
FIXED = [
    "left_div = _solutions.left_div",
    "vstack = _np.vstack",
    "hstack = _np.hstack",
    "concatenate = _np.concatenate",
    "A, B, C, F, G, H = (sys.A, sys.B, sys.C, sys.F, sys.G, sys.H)",
    "num_y = F.shape[0]",
    "CC = concatenate((C, C))",
    "Xi_dXi = left_div(-AB, CC)",
    "HH = concatenate((H, H))",
    "Y_dY = left_div(-FF, GG @ Xi_dXi + HH)",
    "num_xi = A.shape[1]",
    "num_y = F.shape[1]",
    "Xi, dXi = (Xi_dXi[0:num_xi, ...], Xi_dXi[num_xi:, ...])",
    "Y, dY = (Y_dY[0:num_y, ...], Y_dY[num_y:, ...])",
    "return (Xi, Y, dXi, dY)",
]


def _norm(s: str) -> str:
    return ast.unparse(ast.parse(s))


def _cmt(s: str) -> str:
    """source text inside a Coq comment"""
    return " ".join(s.split()).replace("(*", "( *").replace("*)", "* )")


def _z(n: ast.AST, where: str) -> str:
    """integer expressions over the constant k"""
    if isinstance(n, ast.Constant) and isinstance(n.value, int) and not isinstance(n.value, bool):
        return f"({n.value})%Z"
    if isinstance(n, ast.Name) and n.id == "k":
        return "nonflat_k"
    if isinstance(n, ast.BinOp) and type(n.op) in (ast.Add, ast.Sub, ast.Mult):
        op = {ast.Add: "Z.add", ast.Sub: "Z.sub", ast.Mult: "Z.mul"}[type(n.op)]
        return f"({op} {_z(n.left, where)} {_z(n.right, where)})"
    if isinstance(n, ast.UnaryOp) and isinstance(n.op, ast.USub):
        return f"(Z.opp {_z(n.operand, where)})"
    raise TranslatorError(f"{where}: unsupported integer factor {ast.unparse(n)}")


def _is_scalar(n: ast.AST) -> bool:
    return all(isinstance(x, (ast.Constant, ast.BinOp, ast.UnaryOp, ast.operator, ast.unaryop, ast.Load)) or
               (isinstance(x, ast.Name) and x.id == "k") for x in ast.walk(n))


def _m(n: ast.AST, names, where: str) -> str:
    """matrix expressions: names, +, -, unary -, <integer factor> * matrix"""
    if isinstance(n, ast.Name) and n.id in names:
        return n.id
    if isinstance(n, ast.BinOp) and isinstance(n.op, ast.Add):
        return f"(madd {_m(n.left, names, where)} {_m(n.right, names, where)})"
    if isinstance(n, ast.BinOp) and isinstance(n.op, ast.Sub):
        return f"(madd {_m(n.left, names, where)} (mopp {_m(n.right, names, where)}))"
    if isinstance(n, ast.UnaryOp) and isinstance(n.op, ast.USub):
        return f"(mopp {_m(n.operand, names, where)})"
    if isinstance(n, ast.BinOp) and isinstance(n.op, ast.Mult):
        if _is_scalar(n.left) and not _is_scalar(n.right):
            return f"(mscale O {_z(n.left, where)} {_m(n.right, names, where)})"
        if _is_scalar(n.right) and not _is_scalar(n.left):
            return f"(mscale O {_z(n.right, where)} {_m(n.left, names, where)})"
    raise TranslatorError(f"{where}: unsupported block expression {ast.unparse(n)}")


def _blocks(value: ast.AST, where: str):
    """vstack((hstack((b11, b12)), hstack((b21, b22))))  ->  [[b11, b12], [b21, b22]]"""
    def call(n, fname):
        if not (isinstance(n, ast.Call) and isinstance(n.func, ast.Name) and n.func.id == fname and not n.keywords
                and len(n.args) == 1 and isinstance(n.args[0], ast.Tuple) and len(n.args[0].elts) == 2):
            raise TranslatorError(f"{where}: expected {fname}((., .)), got {ast.unparse(n)}")
        return n.args[0].elts
    return [list(call(r, "hstack")) for r in call(value, "vstack")]


def generate() -> str:
    tree = ast.parse((core.SRC / STEADIERS).read_text())
    fn = None
    for n in tree.body:
        if isinstance(n, ast.FunctionDef) and n.name == FUNC:
            fn = n
    if fn is None:
        raise TranslatorError(f"{FUNC} not found in {STEADIERS}")
    if [a.arg for a in fn.args.posonlyargs + fn.args.args] != ["sys"]:
        raise TranslatorError(f"{FUNC}: unexpected signature")
    out = [f"(* GENERATED by /verif/translator/fordsteady.py from src/{STEADIERS} -- do not edit *)",
           "From Coq Require Import ZArith.",
           "From Verif Require Import lib.MxC01 lib.MxScale.",
           "",
           "Section Gen.",
           "Variable O : MxOps.",
           ""]
    fixed = [_norm(s) for s in FIXED]
    k_seen = False
    seen_stacks = []
    pos = 0
    for st in fn.body:
        if isinstance(st, ast.Expr) and isinstance(st.value, ast.Constant) and isinstance(st.value.value, str):
            continue                                    # docstrings
        text = ast.unparse(st)
        if isinstance(st, ast.Assign) and len(st.targets) == 1 and isinstance(st.targets[0], ast.Name):
            nm = st.targets[0].id
            if nm == "k":
                if k_seen or seen_stacks:
                    raise TranslatorError(f"{FUNC}: k assigned twice or after a stacked matrix")
                if not (isinstance(st.value, ast.Constant) and isinstance(st.value.value, int)
                        and not isinstance(st.value.value, bool)):
                    raise TranslatorError(f"{FUNC}: k is not an integer literal: {text}")
                out.append(f"Definition nonflat_k : Z := ({st.value.value})%Z.   (* {_cmt(text)} *)")
                out.append("")
                k_seen = True
                continue
            if nm in STACKS:
                if nm in seen_stacks or not k_seen:
                    raise TranslatorError(f"{FUNC}: {nm} assigned twice or before k")
                names = STACKS[nm]
                bl = _blocks(st.value, f"{FUNC}.{nm}")
                args = " ".join(names)
                for i in range(2):
                    for j in range(2):
                        e = _m(bl[i][j], names, f"{FUNC}.{nm}[{i + 1}][{j + 1}]")
                        out.append(f"Definition nonflat_{nm}_{i + 1}{j + 1} {{m n}} ({args} : mx O m n) : mx O m n := {e}."
                                   f"   (* {_cmt(ast.unparse(bl[i][j]))} *)")
                out.append("")
                seen_stacks.append(nm)
                continue
        if pos < len(fixed) and text == fixed[pos]:
            pos += 1
            continue
        raise TranslatorError(f"{FUNC}: statement outside the modelled shape: {text!r}"
                              + (f" (expected {fixed[pos]!r})" if pos < len(fixed) else ""))
    if pos != len(fixed) or seen_stacks != ["AB", "FF", "GG"]:
        raise TranslatorError(f"{FUNC}: missing statements (matched {pos}/{len(fixed)}, stacks {seen_stacks})")
    # order of the stacked matrices relative to their use
    order = [ast.unparse(s) for s in fn.body]
    idx = lambda prefix: next(i for i, s in enumerate(order) if s.startswith(prefix))
    if not (idx("AB =") < idx("Xi_dXi =") < idx("Y_dY =") and idx("FF =") < idx("Y_dY =") and idx("GG =") < idx("Y_dY =")
            and idx("CC =") < idx("Xi_dXi =") and idx("HH =") < idx("Y_dY =")):
        raise TranslatorError(f"{FUNC}: stacked matrices are not defined before their use")
    out += ["End Gen.", ""]
    # the dispatch
    stree = ast.parse((core.SRC / STEADY).read_text())
    chooser = None
    for n in stree.body:
        if isinstance(n, ast.FunctionDef) and n.name == "_choose_steady_solver":
            chooser = n
    if chooser is None:
        raise TranslatorError("_choose_steady_solver not found")
    found = False
    for n in ast.walk(chooser):
        if isinstance(n, ast.match_case) and ast.unparse(n.pattern) in ("(True, False)", "[True, False]"):
            body = " ".join(ast.unparse(s) for s in n.body)
            if body != _norm("return _ft.partial(_steady_linear, algorithm=_fs.solve_steady_linear_nonflat)"):
                raise TranslatorError(f"_choose_steady_solver: (linear, non-flat) dispatches to {body!r}")
            found = True
    if not found:
        raise TranslatorError("_choose_steady_solver: no case (True, False)")
    out.append("(* _choose_steady_solver: (is_linear, is_flat) = (True, False) -> _steady_linear(algorithm=solve_steady_linear_nonflat) *)")
    return "\n".join(out) + "\n"


def run():
    core.write_if_changed(core.COQ / OUT, generate())
