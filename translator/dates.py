"""irispie/dates.py  ->  coq/gen/DatesGen.v      (properties C09 and C11)

Regenerated on every run, fail closed.  A small symbolic executor runs the
straight-line method bodies of dates.py (integer arithmetic, tuples, calls of
other translated methods which are inlined, datetime.date construction /
fromordinal / toordinal / .year/.month/.day, constant-folded `if`s) and emits
Gallina over Z.  datetime.date is mapped to coq/lib/Calendar.v (tied to CPython
by the correspondence run); every date construction contributes a guard
(`date_ok`, `ord_ok`), so such fragments return `option`.  Mixing an int with
a datetime.date in arithmetic (a Python TypeError) is recorded in a
`*_welltyped` flag which the proofs require to be `true`.

Also emitted: the Frequency values, the start/middle/end day tables, the
`Period.shift` keyword arms, comparison bodies, the range triple of
`Span._serials`, the in-place Span mutators as state updates, the SDMX regular
expressions as regex ASTs (coq/lib/RegexSub.v), every f-string of the
to_sdmx/to_iso/repr methods as format pieces and every from_sdmx_string body
as a parser descriptor (coq/lib/PyStr.v)."""
from __future__ import annotations

import ast
import calendar

from vf import core
from vf.core import TranslatorError
from . import pyexpr as px

SRC = "irispie/dates.py"
OUT = "gen/DatesGen.v"

REGULAR = [("YearlyPeriod", "YEARLY"), ("HalfyearlyPeriod", "HALFYEARLY"), ("QuarterlyPeriod", "QUARTERLY"),
           ("MonthlyPeriod", "MONTHLY")]
POSITIONS = ["start", "middle", "end"]


def z(n: int) -> str:
    return f"({n})" if n < 0 else str(n)


def coq_str(s: str) -> str:
    for ch in s:
        if ord(ch) < 32 or ord(ch) > 126:
            raise TranslatorError(f"non-printable character in string literal {s!r}")
    return '"' + s.replace('"', '""') + '"'


# ---------------------------------------------------------------------------
# symbolic values
# ---------------------------------------------------------------------------

class V:
    def __init__(self, kind, coq=None, items=None, py=None, date=None):
        self.kind = kind      # int | str | pbool | cbool | tuple | date | period | optperiod | none | func
        self.coq = coq        # Coq term (int: Z, cbool: bool, period: Z (serial), optperiod: option Z)
        self.items = items    # tuple
        self.py = py          # python constant (str / pbool)
        self.date = date      # ("ymd", y, m, d) | ("ord", n)

    def __repr__(self):
        return f"V({self.kind},{self.coq or self.py or self.items or self.date})"


def vint(c): return V("int", coq=c)
def vperiod(c): return V("period", coq=c)
NONE = V("none")


class Fn:
    """Bookkeeping of one translated function: guards (date validity) and typing."""
    def __init__(self, where):
        self.where = where
        self.guards: list[str] = []
        self.welltyped = True
        self.depth = 0

    def guard(self, g):
        if g not in self.guards:
            self.guards.append(g)


class ReturnSignal(Exception):
    def __init__(self, v):
        self.v = v


class Translator:
    def __init__(self, tree: ast.Module):
        self.tree = tree
        self.classes = {n.name: n for n in tree.body if isinstance(n, ast.ClassDef)}
        self.funcs = {n.name: n for n in tree.body if isinstance(n, ast.FunctionDef)}

    # -- lookup ------------------------------------------------------------
    def method(self, mro: list[str], name: str) -> tuple[ast.FunctionDef, str]:
        for c in mro:
            for n in self.classes[c].body:
                if isinstance(n, ast.FunctionDef) and n.name == name:
                    return n, c
                if isinstance(n, ast.Assign) and len(n.targets) == 1 and isinstance(n.targets[0], ast.Name) \
                        and n.targets[0].id == name and isinstance(n.value, ast.Name):
                    return self.method(mro, n.value.id)       # alias  create_boy = create_soy
        raise TranslatorError(f"method {name} not found in {mro}")

    @staticmethod
    def decorators(fn) -> list[str]:
        return [ast.unparse(d).split("(")[0] for d in fn.decorator_list]

    # -- expression evaluation --------------------------------------------
    def ev(self, node, env, fn: Fn, cx) -> V:
        w = fn.where
        if isinstance(node, ast.Constant):
            v = node.value
            if v is None:
                return NONE
            if isinstance(v, bool):
                return V("pbool", py=v)
            if isinstance(v, int):
                return vint(z(v))
            if isinstance(v, str):
                return V("str", py=v)
            raise TranslatorError(f"{w}: unsupported constant {v!r}")
        if isinstance(node, ast.Name):
            if node.id in env:
                return env[node.id]
            raise TranslatorError(f"{w}: unbound name {node.id!r}")
        if isinstance(node, ast.Tuple):
            return V("tuple", items=[self.ev(e, env, fn, cx) for e in node.elts])
        if isinstance(node, ast.Attribute):
            return self.ev_attr(node, env, fn, cx)
        if isinstance(node, ast.Call):
            return self.ev_call(node, env, fn, cx)
        if isinstance(node, ast.UnaryOp):
            x = self.ev(node.operand, env, fn, cx)
            if isinstance(node.op, ast.USub) and x.kind == "int":
                return vint(f"(- {x.coq})")
            if isinstance(node.op, ast.Not) and x.kind == "pbool":
                return V("pbool", py=not x.py)
            if isinstance(node.op, ast.Not) and x.kind == "cbool":
                return V("cbool", coq=f"(negb {x.coq})")
            raise TranslatorError(f"{w}: unsupported unary operation {ast.unparse(node)}")
        if isinstance(node, ast.BinOp):
            return self.ev_binop(node, env, fn, cx)
        if isinstance(node, ast.Compare):
            if len(node.ops) != 1:
                raise TranslatorError(f"{w}: chained comparison {ast.unparse(node)}")
            a = self.ev(node.left, env, fn, cx)
            b = self.ev(node.comparators[0], env, fn, cx)
            op = type(node.ops[0])
            if a.kind == "int" and b.kind == "int":
                sym = {ast.Eq: "=?", ast.Lt: "<?", ast.LtE: "<=?", ast.Gt: ">?", ast.GtE: ">=?"}
                if op is ast.NotEq:
                    return V("cbool", coq=f"(negb ({a.coq} =? {b.coq}))")
                if op in sym:
                    return V("cbool", coq=f"({a.coq} {sym[op]} {b.coq})")
            if op in (ast.Eq, ast.NotEq) and {a.kind, b.kind} <= {"int", "str"}:
                # int vs str constant: never equal; str vs str: constant comparison
                eq = (a.kind == "str" and b.kind == "str" and a.py == b.py)
                if a.kind == "int" and b.kind == "int":
                    raise TranslatorError(f"{w}: unreachable")
                return V("pbool", py=eq if op is ast.Eq else not eq)
            if op in (ast.Is, ast.IsNot) and (a.kind == "none" or b.kind == "none"):
                same = a.kind == "none" and b.kind == "none"
                if not same and "opt" in (a.kind + b.kind):
                    raise TranslatorError(f"{w}: `is None` on an optional value")
                return V("pbool", py=same if op is ast.Is else not same)
            raise TranslatorError(f"{w}: unsupported comparison {ast.unparse(node)} ({a.kind} vs {b.kind})")
        if isinstance(node, ast.IfExp):
            t = self.ev(node.test, env, fn, cx)
            if t.kind == "pbool":
                return self.ev(node.body if t.py else node.orelse, env, fn, cx)
            if t.kind != "cbool":
                raise TranslatorError(f"{w}: unsupported condition {ast.unparse(node.test)}")
            a = self.ev(node.body, env, fn, cx)
            b = self.ev(node.orelse, env, fn, cx)
            if a.kind == "int" and b.kind == "int":
                return vint(f"(if {t.coq} then {a.coq} else {b.coq})")
            if a.kind == "period" and b.kind == "none":
                return V("optperiod", coq=f"(if {t.coq} then Some {a.coq} else None)")
            if a.kind == "none" and b.kind == "period":
                return V("optperiod", coq=f"(if {t.coq} then None else Some {b.coq})")
            if a.kind == "period" and b.kind == "period":
                return vperiod(f"(if {t.coq} then {a.coq} else {b.coq})")
            raise TranslatorError(f"{w}: unsupported conditional expression {ast.unparse(node)}")
        if isinstance(node, ast.Subscript):
            base = self.ev(node.value, env, fn, cx)
            if base.kind == "tuple" and isinstance(node.slice, ast.Constant) and isinstance(node.slice.value, int):
                return base.items[node.slice.value]
            raise TranslatorError(f"{w}: unsupported subscript {ast.unparse(node)}")
        raise TranslatorError(f"{w}: unsupported expression {ast.unparse(node)}")

    def date_ordinal(self, d) -> str:
        if d[0] == "ymd":
            return f"(ord_of_ymd {d[1]} {d[2]} {d[3]})"
        return d[1]

    def ev_attr(self, node, env, fn, cx) -> V:
        w = fn.where
        text = ast.unparse(node)
        if text in ("self.serial",):
            return vint(env["self"].coq)
        if text in ("self.frequency.value", "klass.frequency.value"):
            return vint(cx["freq"])
        if text == "self.frequency.letter":
            if "letter" not in cx:
                raise TranslatorError(f"{w}: frequency letter is not known here")
            return V("str", py=cx["letter"])
        if isinstance(node.value, ast.Name) and node.value.id in env and env[node.value.id].kind == "period" \
                and node.attr == "serial":
            return vint(env[node.value.id].coq)
        # properties of self
        if isinstance(node.value, ast.Name) and node.value.id == "self" and "mro" in cx:
            try:
                m, _ = self.method(cx["mro"], node.attr)
            except TranslatorError:
                m = None
            if m is not None and "property" in self.decorators(m):
                return self.call_function(m, [env["self"]], fn, cx)
        base = self.ev(node.value, env, fn, cx)
        if base.kind == "date" and node.attr in ("year", "month", "day"):
            d = base.date
            if d[0] == "ymd":
                return vint(d[1 + ["year", "month", "day"].index(node.attr)])
            return vint(f"({node.attr}_of_ord {d[1]})")
        raise TranslatorError(f"{w}: unsupported attribute {text}")

    def ev_binop(self, node, env, fn, cx) -> V:
        w = fn.where
        a = self.ev(node.left, env, fn, cx)
        b = self.ev(node.right, env, fn, cx)
        op = type(node.op)
        if {a.kind, b.kind} == {"int", "date"}:
            # Python: TypeError (unsupported operand types int and datetime.date)
            fn.welltyped = False
            if a.kind == "date":
                a = vint(self.date_ordinal(a.date))
            else:
                b = vint(self.date_ordinal(b.date))
        if a.kind == "int" and b.kind == "int":
            sym = {ast.Add: "+", ast.Sub: "-", ast.Mult: "*", ast.FloorDiv: "/", ast.Mod: "mod"}
            if op not in sym:
                raise TranslatorError(f"{w}: unsupported integer operator in {ast.unparse(node)}")
            return vint(f"({a.coq} {sym[op]} {b.coq})")
        if a.kind == "period" and op in (ast.Add, ast.Sub):
            name = "__add__" if op is ast.Add else "__sub__"
            m, _ = self.method(cx.get("mro", ["Period"]), name)
            return self.call_function(m, [a, b], fn, cx)
        raise TranslatorError(f"{w}: unsupported operands in {ast.unparse(node)} ({a.kind}, {b.kind})")

    def ev_call(self, node, env, fn, cx) -> V:
        w = fn.where
        f = node.func
        ftxt = ast.unparse(f)
        if node.keywords:
            raise TranslatorError(f"{w}: keyword arguments in {ast.unparse(node)}")
        args = [self.ev(a, env, fn, cx) for a in node.args]
        if ftxt == "int" and len(args) == 1:
            if args[0].kind == "int":
                return args[0]
            raise TranslatorError(f"{w}: int() of a {args[0].kind}")
        if ftxt == "_dt.date" and len(args) == 3 and all(a.kind == "int" for a in args):
            y, m, d = (a.coq for a in args)
            fn.guard(f"date_ok {y} {m} {d}")
            return V("date", date=("ymd", y, m, d))
        if ftxt == "_dt.date.fromordinal" and len(args) == 1 and args[0].kind == "int":
            fn.guard(f"ord_ok {args[0].coq}")
            return V("date", date=("ord", args[0].coq))
        if isinstance(f, ast.Attribute) and f.attr == "toordinal" and not args:
            base = self.ev(f.value, env, fn, cx)
            if base.kind == "date":
                return vint(self.date_ordinal(base.date))
            raise TranslatorError(f"{w}: toordinal() of a {base.kind}")
        if ftxt == "_is_period" and len(args) == 1:
            return V("pbool", py=args[0].kind == "period")
        if ftxt in ("type(self)", "klass") and len(args) == 1 and args[0].kind == "int":
            # Period.__init__: self.serial = int(serial)
            return vperiod(args[0].coq)
        if isinstance(f, ast.Name) and f.id in self.funcs:
            return self.call_function(self.funcs[f.id], args, fn, cx)
        if isinstance(f, ast.Attribute) and isinstance(f.value, ast.Name) and f.value.id in ("self", "klass"):
            if f.attr == "month_to_segment" and "mts" in cx:
                if len(args) != 1 or args[0].kind != "int":
                    raise TranslatorError(f"{w}: month_to_segment arguments")
                return vint(f"({cx['mts']} {args[0].coq})")
            m, owner = self.method(cx["mro"], f.attr)
            decs = self.decorators(m)
            if "staticmethod" in decs:
                return self.call_function(m, args, fn, cx)
            if "classmethod" in decs:
                return self.call_function(m, [V("klass")] + args, fn, cx)
            if f.value.id != "self":
                raise TranslatorError(f"{w}: instance method {f.attr} called on the class")
            return self.call_function(m, [env["self"]] + args, fn, cx)
        raise TranslatorError(f"{w}: unsupported call {ast.unparse(node)}")

    # -- statements --------------------------------------------------------
    def call_function(self, fdef: ast.FunctionDef, args: list[V], fn: Fn, cx) -> V:
        fn.depth += 1
        if fn.depth > 12:
            raise TranslatorError(f"{fn.where}: call depth")
        a = fdef.args
        if a.vararg or a.kwonlyargs:    # an unused **kwargs is tolerated (a use would be an unbound name)
            raise TranslatorError(f"{fn.where}: {fdef.name} has variadic parameters")
        params = [p.arg for p in a.posonlyargs + a.args]
        defaults = [None] * (len(params) - len(a.defaults)) + list(a.defaults)
        env = {}
        for i, p in enumerate(params):
            if i < len(args):
                env[p] = args[i]
            elif defaults[i] is not None:
                env[p] = self.ev(defaults[i], {}, fn, cx)
            else:
                raise TranslatorError(f"{fn.where}: missing argument {p} of {fdef.name}")
        if len(args) > len(params):
            raise TranslatorError(f"{fn.where}: too many arguments for {fdef.name}")
        try:
            self.run_block(px.strip_doc(fdef), env, fn, cx)
        except ReturnSignal as r:
            fn.depth -= 1
            return r.v
        fn.depth -= 1
        return NONE

    def assign(self, target, v: V, env, fn):
        if isinstance(target, ast.Name):
            env[target.id] = v
            return
        if isinstance(target, ast.Tuple):
            if v.kind != "tuple":
                raise TranslatorError(f"{fn.where}: cannot unpack a {v.kind}")
            elts = target.elts
            star = [i for i, e in enumerate(elts) if isinstance(e, ast.Starred)]
            if not star:
                if len(elts) != len(v.items):
                    raise TranslatorError(f"{fn.where}: unpacking {len(v.items)} values into {len(elts)} names")
                for e, x in zip(elts, v.items):
                    self.assign(e, x, env, fn)
                return
            if len(star) > 1:
                raise TranslatorError(f"{fn.where}: two starred names")
            k = star[0]
            after = len(elts) - k - 1
            if len(v.items) < k + after:
                raise TranslatorError(f"{fn.where}: not enough values to unpack")
            for e, x in zip(elts[:k], v.items[:k]):
                self.assign(e, x, env, fn)
            for e, x in zip(elts[k + 1:], v.items[len(v.items) - after:] if after else []):
                self.assign(e, x, env, fn)
            return
        raise TranslatorError(f"{fn.where}: unsupported assignment target {ast.unparse(target)}")

    def run_block(self, stmts, env, fn, cx):
        for st in stmts:
            if isinstance(st, ast.Return):
                raise ReturnSignal(self.ev(st.value, env, fn, cx) if st.value is not None else NONE)
            if isinstance(st, ast.Assign) and len(st.targets) == 1:
                self.assign(st.targets[0], self.ev(st.value, env, fn, cx), env, fn)
                continue
            if isinstance(st, ast.If):
                t = self.ev(st.test, env, fn, cx)
                if t.kind != "pbool":
                    raise TranslatorError(f"{fn.where}: `if` on a run-time condition: {ast.unparse(st.test)}")
                self.run_block(st.body if t.py else st.orelse, env, fn, cx)
                continue
            if isinstance(st, ast.Pass):
                continue
            raise TranslatorError(f"{fn.where}: unsupported statement {ast.unparse(st)[:80]}")

    # -- top-level translation of one method --------------------------------
    def translate(self, where: str, fdef, args: list[V], cx) -> tuple[V, Fn]:
        fn = Fn(where)
        v = self.call_function(fdef, args, fn, cx)
        return v, fn


def render(v: V, where: str) -> tuple[str, str]:
    """(Coq term, Coq type) of a result."""
    if v.kind == "int" or v.kind == "period":
        return v.coq, "Z"
    if v.kind == "optperiod":
        return v.coq, "option Z"
    if v.kind == "tuple" and all(i.kind == "int" for i in v.items):
        return "(" + ", ".join(i.coq for i in v.items) + ")", " * ".join(["Z"] * len(v.items))
    if v.kind == "cbool":
        return v.coq, "bool"
    raise TranslatorError(f"{where}: result of kind {v.kind} cannot be rendered")


def with_guards(term: str, typ: str, fn: Fn, force_option=False) -> tuple[str, str]:
    if not fn.guards and not force_option:
        return term, typ
    g = " && ".join(f"({x})" for x in fn.guards) or "true"
    return f"if {g} then Some {term} else None", f"option ({typ})"


# ---------------------------------------------------------------------------
# regular expressions  ->  RegexSub.re
# ---------------------------------------------------------------------------

def coq_char(c: str) -> str:
    if c == '"':
        return '""""%char'
    if not (32 <= ord(c) <= 126):
        raise TranslatorError(f"regex: non-printable character {c!r}")
    return f'"{c}"%char'


def regex_to_coq(pat: str) -> str:
    """Sequence of atoms with optional postfix ? + *; atoms: literal, escaped punctuation, \\d, [class]."""
    i, n = 0, len(pat)
    items = []
    PUNCT = set("()[]{}-+.*?^$|\\/,:")
    while i < n:
        c = pat[i]
        if c == "\\":
            if i + 1 >= n:
                raise TranslatorError(f"regex {pat!r}: dangling backslash")
            e = pat[i + 1]
            if e == "d":
                atom = "Digit"
            elif e in PUNCT:
                atom = f"(Chr {coq_char(e)})"
            else:
                raise TranslatorError(f"regex {pat!r}: unsupported escape \\{e}")
            i += 2
        elif c == "[":
            j = i + 1
            chars = []
            if j < n and pat[j] == "^":
                raise TranslatorError(f"regex {pat!r}: negated class")
            while j < n and pat[j] != "]":
                if pat[j] == "\\":
                    if j + 1 >= n or pat[j + 1] not in PUNCT:
                        raise TranslatorError(f"regex {pat!r}: unsupported escape in class")
                    chars.append(pat[j + 1]); j += 2
                elif pat[j] == "-" and chars and j + 1 < n and pat[j + 1] != "]":
                    raise TranslatorError(f"regex {pat!r}: character range in class")
                else:
                    chars.append(pat[j]); j += 1
            if j >= n:
                raise TranslatorError(f"regex {pat!r}: unterminated class")
            atom = "(Cls [" + "; ".join(coq_char(x) for x in chars) + "])"
            i = j + 1
        elif c.isalnum() or c in "-,:_ /=<>!@#%&~;'\"":
            atom = f"(Chr {coq_char(c)})"
            i += 1
        else:
            raise TranslatorError(f"regex {pat!r}: unsupported construct at {c!r}")
        if i < n and pat[i] in "?+*":
            atom = {"?": "Opt", "+": "Plus", "*": "Star"}[pat[i]] + f" {atom}"
            atom = f"({atom})"
            i += 1
            if i < n and pat[i] in "?+*":
                raise TranslatorError(f"regex {pat!r}: lazy/possessive quantifier")
        items.append(atom)
    return "(seq_of [" + "; ".join(items) + "])"


# ---------------------------------------------------------------------------
# f-strings -> format pieces ; from_sdmx_string bodies -> parser descriptors
# ---------------------------------------------------------------------------

def format_pieces(T: Translator, joined: ast.JoinedStr, env, fn: Fn, cx) -> list[str]:
    out = []
    for part in joined.values:
        if isinstance(part, ast.Constant) and isinstance(part.value, str):
            if part.value:
                out.append(f"FLit {coq_str(part.value)}")
            continue
        if not isinstance(part, ast.FormattedValue) or part.conversion != -1:
            raise TranslatorError(f"{fn.where}: unsupported f-string part")
        spec = ""
        if part.format_spec is not None:
            if not (len(part.format_spec.values) == 1 and isinstance(part.format_spec.values[0], ast.Constant)):
                raise TranslatorError(f"{fn.where}: computed format spec")
            spec = part.format_spec.values[0].value
        v = T.ev(part.value, env, fn, cx)
        if v.kind == "str" and spec == "":
            out.append(f"FLit {coq_str(v.py)}")
        elif v.kind == "int" and spec == "":
            out.append(f"FD {v.coq}")
        elif v.kind == "int" and spec.endswith("g") and spec[:-1].isdigit():
            digits = spec[:-1]
            zero = digits.startswith("0") and len(digits) > 1
            out.append(f"FG {v.coq} {int(digits)} {core.coq_bool(zero)}")
        elif v.kind == "tuple" and spec == "" and all(i.kind == "int" for i in v.items):
            out.append("FTup [" + "; ".join(i.coq for i in v.items) + "]")
        else:
            raise TranslatorError(f"{fn.where}: unsupported f-string field {ast.unparse(part.value)}:{spec}")
    return out


def method_format(T: Translator, mro, name, cx, where) -> tuple[str, bool]:
    """A method whose body is straight-line code ending in `return f"..."`."""
    m, _ = T.method(mro, name)
    fn = Fn(where)
    env = {"self": vperiod("serial")}
    body = px.strip_doc(m)
    if not body or not isinstance(body[-1], ast.Return) or not isinstance(body[-1].value, ast.JoinedStr):
        raise TranslatorError(f"{where}: body does not end in `return f\"...\"`")
    T.run_block(body[:-1], env, fn, dict(cx, mro=mro))
    pieces = format_pieces(T, body[-1].value, env, fn, dict(cx, mro=mro))
    term, _ = with_guards("[" + "; ".join(pieces) + "]", "list fpiece", fn, force_option=True)
    blanks = "_remove_blanks" in T.decorators(m)
    return term, blanks


def sdmx_parser(T: Translator, cls: str, mro, cx) -> str:
    """from_sdmx_string(klass, sdmx_string): string plumbing -> descriptor, constructor -> Coq function of the int pieces."""
    m, _ = T.method(mro, "from_sdmx_string")
    where = f"{cls}.from_sdmx_string"
    if "classmethod" not in T.decorators(m):
        raise TranslatorError(f"{where}: not a classmethod")
    body = px.strip_doc(m)
    if not body or not isinstance(body[-1], ast.Return):
        raise TranslatorError(f"{where}: unexpected body")
    strip, prefix, suffix, sep, names, star = False, "", "", None, None, False

    def chain(node):
        """sdmx_string[.strip()][.removeprefix(c)][.removesuffix(c)][.split(sep)] -> ops"""
        ops = []
        while isinstance(node, ast.Call) and isinstance(node.func, ast.Attribute):
            a = node.func.attr
            if node.keywords:
                raise TranslatorError(f"{where}: keywords in string call")
            if a == "strip" and not node.args:
                ops.append(("strip",))
            elif a in ("removeprefix", "removesuffix", "split") and len(node.args) == 1 \
                    and isinstance(node.args[0], ast.Constant) and isinstance(node.args[0].value, str):
                ops.append((a, node.args[0].value))
            else:
                raise TranslatorError(f"{where}: unsupported string operation {ast.unparse(node)}")
            node = node.func.value
        if not (isinstance(node, ast.Name) and node.id == "sdmx_string"):
            raise TranslatorError(f"{where}: string expression is not rooted at sdmx_string")
        return list(reversed(ops))

    def apply_ops(ops, allow_split):
        nonlocal strip, prefix, suffix, sep
        order = []
        for o in ops:
            order.append(o[0])
            if o[0] == "strip":
                strip = True
            elif o[0] == "removeprefix":
                prefix = o[1]
            elif o[0] == "removesuffix":
                suffix = o[1]
            elif o[0] == "split":
                if not allow_split or sep is not None:
                    raise TranslatorError(f"{where}: unexpected split")
                sep = o[1]
        allowed = ["strip", "removeprefix", "removesuffix", "split"]
        idx = [allowed.index(x) for x in order]
        if idx != sorted(idx) or len(set(idx)) != len(idx):
            raise TranslatorError(f"{where}: string operations in an unsupported order {order}")

    pre = body[:-1]
    single = "sdmx_string"
    if len(pre) > 1:
        raise TranslatorError(f"{where}: more than one statement before return")
    if pre:
        st = pre[0]
        if not (isinstance(st, ast.Assign) and len(st.targets) == 1):
            raise TranslatorError(f"{where}: unexpected statement {ast.unparse(st)}")
        tg = st.targets[0]
        if isinstance(tg, ast.Name) and tg.id == "sdmx_string":
            apply_ops(chain(st.value), allow_split=False)
        elif isinstance(tg, ast.Tuple):
            apply_ops(chain(st.value), allow_split=True)
            if sep is None:
                raise TranslatorError(f"{where}: tuple target without split")
            names = []
            for k, e in enumerate(tg.elts):
                if isinstance(e, ast.Starred):
                    if k != len(tg.elts) - 1:
                        raise TranslatorError(f"{where}: starred name is not last")
                    star = True
                elif isinstance(e, ast.Name):
                    names.append(e.id)
                else:
                    raise TranslatorError(f"{where}: unexpected target")
        else:
            raise TranslatorError(f"{where}: unexpected target {ast.unparse(tg)}")
    # the return expression: constructor over int(<piece>) ; replace int(piece) by symbolic ints
    ret = body[-1].value
    pieces = names if names is not None else [single]

    class R(ast.NodeTransformer):
        def __init__(self):
            self.used = set()

        def visit_Call(self, node):
            if isinstance(node.func, ast.Name) and node.func.id == "int" and len(node.args) == 1:
                a = node.args[0]
                if names is None:
                    # int(sdmx_string) or int(sdmx_string.strip())
                    apply_ops(chain(a), allow_split=False)
                    self.used.add(single)
                    return ast.Name(id="__p0", ctx=ast.Load())
                if isinstance(a, ast.Name) and a.id in pieces:
                    self.used.add(a.id)
                    return ast.Name(id=f"__p{pieces.index(a.id)}", ctx=ast.Load())
                raise TranslatorError(f"{where}: int() of {ast.unparse(a)}")
            return self.generic_visit(node)
    r = R()
    ret2 = ast.fix_missing_locations(r.visit(ret))
    if r.used != set(pieces):
        raise TranslatorError(f"{where}: pieces {set(pieces) - r.used} are not converted by int()")
    fn = Fn(where)
    env = {f"__p{k}": vint(f"(nth {k} l 0)") for k in range(len(pieces))}
    env["klass"] = V("klass")
    v = T.ev(ret2, env, fn, dict(cx, mro=mro))
    if v.kind != "period":
        raise TranslatorError(f"{where}: does not return a period")
    build, _ = with_guards(v.coq, "Z", fn, force_option=True)
    sepc = "None" if sep is None else f"(Some {coq_str(sep)})"
    return ("{| sp_strip := %s; sp_prefix := %s; sp_suffix := %s; sp_sep := %s; sp_npieces := %d; sp_star := %s;\n"
            "     sp_build := fun l => %s |}") % (core.coq_bool(strip), coq_str(prefix), coq_str(suffix), sepc,
                                                 len(pieces), core.coq_bool(star), build)


# ---------------------------------------------------------------------------
# pinned shapes (code that is modelled by hand; any edit fails closed here and
# the hand model is tied by the correspondence)
# ---------------------------------------------------------------------------

def expect_text(node, want: str, where: str):
    got = ast.unparse(node)
    if got != want:
        raise TranslatorError(f"{where}: expected `{want}`, found `{got}`")


# ---------------------------------------------------------------------------
# Span construction and resolution (symbolic execution of Span.__init__ and
# Span.resolve over abstract end points; everything that builds a Span out of
# end points is pinned to go through the constructor)
# ---------------------------------------------------------------------------

def class_attr(T: "Translator", cls: str, name: str):
    for n in T.classes[cls].body:
        tg = None
        if isinstance(n, ast.Assign) and len(n.targets) == 1:
            tg, val = n.targets[0], n.value
        elif isinstance(n, ast.AnnAssign) and n.value is not None:
            tg, val = n.target, n.value
        if isinstance(tg, ast.Name) and tg.id == name:
            return ast.unparse(val)
    return None


def span_construction(T: "Translator", tree: ast.Module, add) -> None:
    # the module-level contextual periods `start` and `end`
    for nm, frm in (("start", "start_date"), ("end", "end_date")):
        v = px.find_assign(tree.body, nm)
        expect_text(v, f"ContextualPeriod('{frm}')", f"module-level `{nm}`")
    ci = T.method(["ContextualPeriod"], "__init__")[0]
    expect_text(px.strip_doc(ci)[0], "self._resolve_from = resolve_from", "ContextualPeriod.__init__")
    expect_text(px.strip_doc(ci)[1], "self._offset = offset", "ContextualPeriod.__init__")
    # truthiness / needs_resolve of end points: periods are resolved (truthy), contextual periods are not (falsy)
    expect_text(px.strip_doc(T.method(["Period"], "__bool__")[0])[0], "return not self.needs_resolve", "Period.__bool__")
    expect_text(px.strip_doc(T.method(["ContextualPeriod"], "__bool__")[0])[0], "return False", "ContextualPeriod.__bool__")
    expect_text(px.strip_doc(T.method(["Period"], "resolve")[0])[0], "return self", "Period.resolve")
    if class_attr(T, "ContextualPeriod", "needs_resolve") != "True":
        raise TranslatorError("ContextualPeriod.needs_resolve is not True")
    for cls in ["Period", "IntegerPeriod", "DailyPeriod"] + [c for c, _ in REGULAR]:
        if class_attr(T, cls, "needs_resolve") not in ("False", None) or \
                (cls == "Period" and class_attr(T, cls, "needs_resolve") != "False"):
            raise TranslatorError(f"{cls}.needs_resolve is not False")
        for n in T.classes[cls].body:
            if cls != "Period" and isinstance(n, ast.FunctionDef) and n.name in ("__bool__", "resolve"):
                raise TranslatorError(f"{cls}.{n.name} overrides Period.{n.name}")

    # ---- Span.__init__ ---------------------------------------------------------------
    init = T.method(["Span"], "__init__")[0]
    a = init.args
    ps = [x.arg for x in a.posonlyargs + a.args]
    if ps != ["self", "from_per", "until_per", "step"] or a.vararg or a.kwarg or a.kwonlyargs or \
            [ast.unparse(d) for d in a.defaults] != ["None", "None", "1"]:
        raise TranslatorError(f"Span.__init__: signature {ast.unparse(a)}")
    where = "Span.__init__"
    OPT = {"from_per", "until_per"}            # option E
    env: dict[str, str] = {}                   # locals of type E
    state: dict[str, str] = {}                 # self._start / self._end (E), self._step (Z), self.needs_resolve (bool)

    def e_val(node, env_) -> str:
        """an expression denoting an end point (type E)"""
        if isinstance(node, ast.Name):
            if node.id in env_:
                return env_[node.id]
            if node.id == "start":
                return "ctx_start"
            if node.id == "end":
                return "ctx_end"
            raise TranslatorError(f"{where}: `{node.id}` is not an end point")
        if isinstance(node, ast.Attribute) and ast.unparse(node) in ("self._start", "self._end"):
            if node.attr not in state:
                raise TranslatorError(f"{where}: {ast.unparse(node)} read before assignment")
            return state[node.attr]
        if isinstance(node, ast.IfExp):
            t = node.test
            # X if X is not None else Y     (X one of the optional arguments)
            if isinstance(t, ast.Compare) and len(t.ops) == 1 and isinstance(t.ops[0], ast.IsNot) \
                    and isinstance(t.left, ast.Name) and t.left.id in OPT and ast.unparse(t.comparators[0]) == "None" \
                    and isinstance(node.body, ast.Name) and node.body.id == t.left.id:
                return f"(match {t.left.id} with Some x_ => x_ | None => {e_val(node.orelse, env_)} end)"
        raise TranslatorError(f"{where}: unsupported end point expression `{ast.unparse(node)}`")

    def step_test(node) -> str:
        if isinstance(node, ast.Compare) and len(node.ops) == 1 and ast.unparse(node.left) == "step" \
                and ast.unparse(node.comparators[0]) == "0":
            op = {ast.Gt: ">?", ast.GtE: ">=?", ast.Lt: "<?", ast.LtE: "<=?"}.get(type(node.ops[0]))
            if op:
                return f"(step {op} 0)"
        raise TranslatorError(f"{where}: unsupported test `{ast.unparse(node)}`")

    def branch(stmts, env_) -> dict[str, str]:
        out = {}
        for s_ in stmts:
            if not (isinstance(s_, ast.Assign) and len(s_.targets) == 1 and isinstance(s_.targets[0], ast.Name)):
                raise TranslatorError(f"{where}: unsupported statement `{ast.unparse(s_)}`")
            out[s_.targets[0].id] = e_val(s_.value, {**env_, **out})
        return out

    checked = None
    for s_ in px.strip_doc(init):
        if checked is not None:
            raise TranslatorError(f"{where}: statement after the frequency check: `{ast.unparse(s_)}`")
        txt = ast.unparse(s_)
        if isinstance(s_, ast.If) and txt.startswith("if not self.needs_resolve:"):
            if "needs" not in state or s_.orelse or len(s_.body) != 1:
                raise TranslatorError(f"{where}: unexpected check `{txt}`")
            expect_text(s_.body[0], "_check_periods(from_per, until_per)", where)
            if state.get("_start", "").find("from_per") < 0 or state.get("_end", "").find("until_per") < 0:
                raise TranslatorError(f"{where}: the checked arguments are not the end points of the span")
            checked = True
        elif isinstance(s_, ast.If):
            c = step_test(s_.test)
            b1, b2 = branch(s_.body, env), branch(s_.orelse, env)
            if set(b1) != set(b2):
                raise TranslatorError(f"{where}: the two branches of `{ast.unparse(s_.test)}` assign different names")
            for k in b1:
                env[k] = f"(if {c} then {b1[k]} else {b2[k]})"
        elif isinstance(s_, ast.Assign) and len(s_.targets) == 1 and ast.unparse(s_.targets[0]) in ("self._start", "self._end"):
            state[s_.targets[0].attr] = e_val(s_.value, env)
        elif txt == "self._step = step":
            state["_step"] = "step"
        elif txt == "self.needs_resolve = self._start.needs_resolve or self._end.needs_resolve":
            if "_start" not in state or "_end" not in state:
                raise TranslatorError(f"{where}: needs_resolve computed before the end points")
            state["needs"] = "needs st || needs en"
        else:
            raise TranslatorError(f"{where}: unsupported statement `{txt}`")
    for k in ("_start", "_end", "_step", "needs"):
        if k not in state:
            raise TranslatorError(f"{where}: {k} is never set")
    add("(* Span.__init__(from_per=None, until_per=None, step=1) over abstract end points: ctx_start / ctx_end are the module-level")
    add("   contextual periods `start` / `end`; `needs` is the attribute needs_resolve of an end point *)")
    add("Section SpanInit.")
    add("Variable E : Type.")
    add("Variables ctx_start ctx_end : E.")
    add("Variable needs : E -> bool.")
    add(f"Definition gen_span_init_start (from_per until_per : option E) (step : Z) : E := {state['_start']}.")
    add(f"Definition gen_span_init_end (from_per until_per : option E) (step : Z) : E := {state['_end']}.")
    add(f"Definition gen_span_init_needs (st en : E) : bool := {state['needs']}.")
    add("End SpanInit.")
    add("(* the constructor ends with `if not self.needs_resolve: _check_periods(from_per, until_per)` *)")
    add(f"Definition gen_span_init_checks_when_resolved : bool := {core.coq_bool(bool(checked))}.")

    # ---- Span.resolve ------------------------------------------------------------------
    where = "Span.resolve"
    rs = T.method(["Span"], "resolve")[0]
    ps = [x.arg for x in rs.args.posonlyargs + rs.args.args]
    if ps != ["self", "context"] or rs.decorator_list:
        raise TranslatorError(f"{where}: signature/decorators {ps}")
    renv: dict[str, tuple[str, str]] = {}

    def r_val(node) -> tuple[str, str]:
        t = ast.unparse(node)
        if t == "self._start":
            return "st", "E"
        if t == "self._end":
            return "en", "E"
        if t == "self._step":
            return "step", "Z"
        if isinstance(node, ast.Name) and node.id in renv:
            return renv[node.id]
        if isinstance(node, ast.IfExp):
            c, ct = r_val(node.test)
            x, xt = r_val(node.body)
            y, yt = r_val(node.orelse)
            if ct != "E" or xt != "E" or yt != "E":
                raise TranslatorError(f"{where}: unsupported conditional `{t}`")
            return f"(if truthy {c} then {x} else {y})", "E"
        if isinstance(node, ast.Call) and isinstance(node.func, ast.Attribute) and node.func.attr == "resolve" \
                and [ast.unparse(x) for x in node.args] == ["context"] and not node.keywords:
            x, xt = r_val(node.func.value)
            if xt != "E":
                raise TranslatorError(f"{where}: resolve of a non end point `{t}`")
            return f"(resolve_ep {x})", "E"
        raise TranslatorError(f"{where}: unsupported expression `{t}`")

    body = px.strip_doc(rs)
    for s_ in body[:-1]:
        if not (isinstance(s_, ast.Assign) and len(s_.targets) == 1 and isinstance(s_.targets[0], ast.Name)):
            raise TranslatorError(f"{where}: unsupported statement `{ast.unparse(s_)}` (only local assignments are modelled; "
                                  "the resolved span must be built by the constructor)")
        renv[s_.targets[0].id] = r_val(s_.value)
    ret = body[-1] if body else None
    if not (isinstance(ret, ast.Return) and isinstance(ret.value, ast.Call) and ast.unparse(ret.value.func) in ("type(self)", "Span")
            and len(ret.value.args) == 3 and not ret.value.keywords):
        raise TranslatorError(f"{where}: the result is not built by the Span constructor from three positional arguments: "
                              f"`{ast.unparse(ret) if ret is not None else ''}`")
    (x, xt), (y, yt), (c, ct) = (r_val(v) for v in ret.value.args)
    if (xt, yt, ct) != ("E", "E", "Z"):
        raise TranslatorError(f"{where}: constructor arguments of the wrong kinds `{ast.unparse(ret)}`")
    add("(* Span.resolve(context): `truthy` is bool(end point), `resolve_ep` is <end point>.resolve(context), `construct` is the")
    add("   Span constructor (the ONLY way the resolved span is built) *)")
    add("Section SpanResolve.")
    add("Variables E S : Type.")
    add("Variable truthy : E -> bool.")
    add("Variable resolve_ep : E -> E.")
    add("Variable construct : option E -> option E -> Z -> S.")
    add(f"Definition gen_span_resolve (st en : E) (step : Z) : S := construct (Some {x}) (Some {y}) {c}.")
    add("End SpanResolve.")

    # ---- every other place that builds a Span out of end points goes through the constructor (pinned) ----
    for nm, want in (("__rshift__", "return Span(self, end, 1)"), ("__rrshift__", "return Span(start, self, 1)"),
                     ("__lshift__", "return Span(start, self, -1)"), ("__rlshift__", "return Span(self, end, -1)")):
        m = T.method(["_SpannableMixin"], nm)[0]
        expect_text(px.strip_doc(m)[-1], want, f"_SpannableMixin.{nm}")
    for nm in ("__rshift__", "__lshift__"):
        m = T.method(["Span"], nm)[0]
        expect_text(px.strip_doc(m)[-1], "return type(self)(self._start, self._end, step)", f"Span.{nm}")
    m = T.method(["Span"], "reversed")[0]
    if [ast.unparse(s_) for s_ in px.strip_doc(m)] != ["new = self.copy()", "new.reverse()", "return new"]:
        raise TranslatorError("Span.reversed: unexpected body")
    expect_text(px.strip_doc(T.method(["Span"], "__bool__")[0])[0], "return not self.needs_resolve", "Span.__bool__")
    expect_text(px.strip_doc(T.method(["Span"], "__eq__")[0])[0],
                "return self._start == other._start and self._end == other._end and (self._step == other._step)", "Span.__eq__")
    # nothing but __init__ and the four pinned in-place mutators assigns the end points of a Span
    allowed = {"__init__", "reverse", "shift", "shift_start", "shift_end"}
    for n in T.classes["Span"].body:
        if isinstance(n, ast.FunctionDef) and n.name not in allowed:
            for sub in ast.walk(n):
                if isinstance(sub, ast.Attribute) and isinstance(sub.ctx, ast.Store) and sub.attr in ("_start", "_end", "_step", "needs_resolve"):
                    raise TranslatorError(f"Span.{n.name} assigns .{sub.attr} outside the constructor / the modelled mutators")


# ---------------------------------------------------------------------------
# generation
# ---------------------------------------------------------------------------

def generate() -> str:
    path = core.SRC / SRC
    tree = ast.parse(path.read_text())
    T = Translator(tree)
    out = ["(* GENERATED by /verif/translator/dates.py from src/" + SRC + " -- do not edit *)",
           "From Coq Require Import ZArith List Bool Ascii String.",
           "From Verif Require Import lib.Calendar lib.RegexSub lib.PyStr lib.DatesBase.",
           "Import ListNotations.",
           "Local Open Scope string_scope.",
           "Local Open Scope Z_scope.", ""]
    add = out.append

    # ---- Frequency ---------------------------------------------------------
    freq = px.find_class(tree, "Frequency")
    fvals = {}
    for n in freq.body:
        if isinstance(n, ast.Assign) and len(n.targets) == 1 and isinstance(n.targets[0], ast.Name):
            try:
                val = ast.literal_eval(n.value)
            except Exception:
                raise TranslatorError(f"Frequency.{n.targets[0].id}: not a literal")
            if not isinstance(val, int):
                raise TranslatorError(f"Frequency.{n.targets[0].id}: not an integer")
            fvals[n.targets[0].id] = val
            add(f"Definition freq_{n.targets[0].id} : Z := {z(val)}.")
    for need in ("INTEGER", "YEARLY", "HALFYEARLY", "QUARTERLY", "MONTHLY", "DAILY"):
        if need not in fvals:
            raise TranslatorError(f"Frequency.{need} missing")
    # first member name for each value (IntEnum aliasing): used by Frequency.letter
    first_name = {}
    for k, v in fvals.items():
        first_name.setdefault(v, k)
    letter = px.find_func(freq.body, "letter")
    expect_text(px.strip_doc(letter)[0], "return self.name[0] if self is not self.UNKNOWN else '?'", "Frequency.letter")
    add("")

    # ---- module-level helpers ------------------------------------------------
    v, fn = T.translate("_serial_from_ysf", T.funcs["_serial_from_ysf"], [vint("year"), vint("per"), vint("freq")], {})
    add(f"Definition gen_serial_from_ysf (year per freq : Z) : Z := {render(v, fn.where)[0]}.")
    v, fn = T.translate("_sign", T.funcs["_sign"], [vint("x")], {})
    add(f"Definition gen_sign (x : Z) : Z := {render(v, fn.where)[0]}.")
    add("")

    # ---- _check_periods and its decorator (pinned) ------------------------------
    cp = px.strip_doc(T.funcs["_check_periods"])
    if len(cp) != 3:
        raise TranslatorError("_check_periods: unexpected body")
    expect_text(cp[0], "if str(type(first)) == str(type(second)):\n    return", "_check_periods")
    if not isinstance(cp[2], ast.Raise) or "IrisPieError" not in ast.unparse(cp[2]):
        raise TranslatorError("_check_periods: does not raise IrisPieError")
    dec = px.strip_doc(T.funcs["_check_periods_decorator"])
    expect_text(dec[0], "def wrapper(*args, **kwargs):\n    _check_periods(args[0], args[1])\n    return func(*args, **kwargs)",
                "_check_periods_decorator")
    add("(* _check_periods(first, second): passes iff both are of the same class, else IrisPieError *)")
    add("Definition gen_check_periods_by_class : bool := true.")
    add("")

    # ---- Period ---------------------------------------------------------------
    PCX = {"mro": ["Period"], "freq": "freq"}
    init = T.method(["Period"], "__init__")[0]
    expect_text(px.strip_doc(init)[0], "self.serial = int(serial)", "Period.__init__")
    m = T.method(["Period"], "__add__")[0]
    v, fn = T.translate("Period.__add__", m, [vperiod("serial"), vint("other")], PCX)
    add(f"Definition gen_period_add (serial other : Z) : Z := {render(v, fn.where)[0]}.")
    # __radd__ = __add__
    if not any(isinstance(n, ast.Assign) and ast.unparse(n) == "__radd__ = __add__" for n in T.classes["Period"].body):
        raise TranslatorError("Period.__radd__ is not __add__")
    m = T.method(["Period"], "__sub__")[0]
    v, fn = T.translate("Period.__sub__(int)", m, [vperiod("serial"), vint("other")], PCX)
    if v.kind != "period":
        raise TranslatorError("Period.__sub__(int) does not return a period")
    add(f"Definition gen_period_sub_int (serial other : Z) : Z := {v.coq}.")
    v, fn = T.translate("Period.__sub__(period)", m, [vperiod("serial"), vperiod("oserial")], PCX)
    if v.kind != "int":
        raise TranslatorError("Period.__sub__(period) does not return an integer")
    add(f"Definition gen_period_sub_period (serial oserial : Z) : Z := {v.coq}.")
    sp = T.method(["Period"], "_sub_period")[0]
    add(f"Definition gen_period_sub_period_checked : bool := {core.coq_bool('_check_periods_decorator' in T.decorators(sp))}.")
    for nm, short in (("__eq__", "eq"), ("__ne__", "ne"), ("__lt__", "lt"), ("__le__", "le"), ("__gt__", "gt"), ("__ge__", "ge")):
        m = T.method(["Period"], nm)[0]
        body = px.strip_doc(m)
        checked = bool(body) and ast.unparse(body[0]) == "_check_periods(self, other)"
        rest = body[1:] if checked else body
        fn = Fn(f"Period.{nm}")
        try:
            T.run_block(rest, {"self": vperiod("a"), "other": vperiod("b")}, fn, PCX)
            raise TranslatorError(f"Period.{nm}: no return")
        except ReturnSignal as r:
            if r.v.kind != "cbool":
                raise TranslatorError(f"Period.{nm}: does not return a comparison")
            add(f"Definition gen_cmp_{short} (a b : Z) : bool := {r.v.coq}.")
        add(f"Definition gen_cmp_{short}_checked : bool := {core.coq_bool(checked)}.")
    m = T.method(["Period"], "__hash__")[0]
    expect_text(px.strip_doc(m)[0], "return hash((int(self.serial), hash(self.frequency)))", "Period.__hash__")
    add("(* Period.__hash__ = hash of the pair below *)")
    add("Definition gen_hash_key (freq serial : Z) : Z * Z := (serial, freq).")
    m = T.method(["Period"], "__index__")[0]
    expect_text(px.strip_doc(m)[0], "return self.serial", "Period.__index__")
    # shift
    m = T.method(["Period"], "shift")[0]
    body = px.strip_doc(m)
    if len(body) != 1 or not isinstance(body[0], ast.Match) or ast.unparse(body[0].subject) != "by":
        raise TranslatorError("Period.shift: body is not `match by`")
    arms = []
    default_seen = False
    TARGET = {"self.create_soy()": "TSoy", "self.create_eopy()": "TEopy", "self.create_tty()": "TTty",
              "self.create_eoy()": "TEoy"}
    for case in body[0].cases:
        if case.guard is not None or len(case.body) != 1 or not isinstance(case.body[0], ast.Return):
            raise TranslatorError("Period.shift: unsupported case")
        rv = case.body[0].value
        pats = case.pattern.patterns if isinstance(case.pattern, ast.MatchOr) else [case.pattern]
        if len(pats) == 1 and isinstance(pats[0], ast.MatchAs) and pats[0].pattern is None:
            expect_text(rv, "self + by", "Period.shift default arm")
            default_seen = True
            continue
        if default_seen:
            raise TranslatorError("Period.shift: arm after the default arm")
        keys = []
        for p in pats:
            if not (isinstance(p, ast.MatchValue) and isinstance(p.value, ast.Constant) and isinstance(p.value.value, str)):
                raise TranslatorError("Period.shift: non-literal pattern")
            keys.append(p.value.value)
        txt = ast.unparse(rv)
        if txt in TARGET:
            tgt = TARGET[txt]
        else:
            fn = Fn("Period.shift arm " + "/".join(keys))
            r = T.ev(rv, {"self": vperiod("serial")}, fn, PCX)
            if r.kind != "period":
                raise TranslatorError(f"Period.shift arm {keys}: unsupported {txt}")
            nm = "gen_shift_arm_" + keys[0]
            add(f"Definition {nm} (freq serial : Z) : Z := {r.coq}.")
            tgt = f"(TFun {nm})"
        for k in keys:
            arms.append(f"({coq_str(k)}, {tgt})")
    if not default_seen:
        raise TranslatorError("Period.shift: no default arm")
    add("Definition gen_shift_arms : list (string * shift_target) := [" + "; ".join(arms) + "].")
    add("Definition gen_shift_default (serial by_ : Z) : Z := gen_period_add serial by_.")
    add("")

    # ---- RegularPeriodMixin -----------------------------------------------------
    RM = ["RegularPeriodMixin", "Period"]
    RCX = {"mro": RM, "freq": "freq", "mts": "mts"}
    S = vperiod("serial")
    m = T.method(RM, "to_year_segment")[0]
    v, fn = T.translate("RegularPeriodMixin.to_year_segment", m, [S], RCX)
    add(f"Definition gen_reg_to_year_segment (freq serial : Z) : Z * Z := {render(v, fn.where)[0]}.")
    m = T.method(RM, "from_year_segment")[0]
    v, fn = T.translate("RegularPeriodMixin.from_year_segment", m, [V("klass"), vint("year"), vint("per")], RCX)
    add(f"Definition gen_reg_from_year_segment (freq year per : Z) : Z := {render(v, fn.where)[0]}.")
    v, fn = T.translate("RegularPeriodMixin.from_year_segment('end')", m, [V("klass"), vint("year"), V("str", py="end")], RCX)
    add(f"Definition gen_reg_from_year_segment_end (freq year : Z) : Z := {render(v, fn.where)[0]}.")
    v, fn = T.translate("RegularPeriodMixin.from_year_segment(default)", m, [V("klass"), vint("year")], RCX)
    add(f"Definition gen_reg_from_year_default (freq year : Z) : Z := {render(v, fn.where)[0]}.")
    m = T.method(RM, "from_ymd")[0]
    v, fn = T.translate("RegularPeriodMixin.from_ymd", m, [V("klass"), vint("year"), vint("month"), vint("day")], RCX)
    add(f"Definition gen_reg_from_ymd (mts : Z -> Z) (freq year month day : Z) : Z := {render(v, fn.where)[0]}.")
    for prop in ("year", "segment", "period", "get_year"):
        m = T.method(RM, prop)[0]
        v, fn = T.translate(f"RegularPeriodMixin.{prop}", m, [S], RCX)
        add(f"Definition gen_reg_{prop} (freq serial : Z) : Z := {render(v, fn.where)[0]}.")
    for nm in ("create_soy", "create_boy", "create_eoy", "create_eopy"):
        m = T.method(RM, nm)[0]
        v, fn = T.translate(f"RegularPeriodMixin.{nm}", m, [S], RCX)
        if v.kind != "period":
            raise TranslatorError(f"RegularPeriodMixin.{nm}: does not return a period")
        add(f"Definition gen_reg_{nm} (freq serial : Z) : Z := {v.coq}.")
    m = T.method(RM, "create_tty")[0]
    v, fn = T.translate("RegularPeriodMixin.create_tty", m, [S], RCX)
    if v.kind != "optperiod":
        raise TranslatorError("RegularPeriodMixin.create_tty: does not return period-or-None")
    add(f"Definition gen_reg_create_tty (freq serial : Z) : option Z := {v.coq}.")
    # to_ymd (table lookup + calendar.monthrange for a missing day): pinned statements
    m = T.method(RM, "to_ymd")[0]
    b = px.strip_doc(m)
    if [a.arg for a in m.args.args] != ["self", "position"] or ast.unparse(m.args.defaults[0]) != "'start'":
        raise TranslatorError("RegularPeriodMixin.to_ymd: signature")
    want = ["year, per = self.to_year_segment()", "month, day = self._MONTH_DAY_RESOLUTION[position][per]",
            "if day is None:\n    _, day = _ca.monthrange(year, month)", "return (year, month, day)"]
    if len(b) != len(want):
        raise TranslatorError("RegularPeriodMixin.to_ymd: unexpected body")
    for st, wtxt in zip(b, want):
        expect_text(st, wtxt, "RegularPeriodMixin.to_ymd")
    add("Definition gen_reg_to_ymd (tbl : list (Z * (Z * option Z))) (freq serial : Z) : option (Z * Z * Z) :=")
    add("  let '(year, per) := gen_reg_to_year_segment freq serial in")
    add("  match zassoc per tbl with")
    add("  | Some (month, Some day) => Some (year, month, day)")
    add("  | Some (month, None) => Some (year, month, monthrange_days year month)")
    add("  | None => None")
    add("  end.")
    add("")

    # per class: frequency, month_to_segment, tables, origin
    base_year = ast.literal_eval(px.find_assign(tree.body, "BASE_YEAR"))
    add(f"Definition gen_BASE_YEAR : Z := {z(base_year)}.")
    for cls, fname in REGULAR:
        c = T.classes[cls]
        bases = [ast.unparse(x) for x in c.bases]
        if bases != ["RegularPeriodMixin", "Period"]:
            raise TranslatorError(f"{cls}: bases {bases}")
        fa = None
        for n in c.body:
            if isinstance(n, ast.AnnAssign) and ast.unparse(n.target) == "frequency":
                fa = ast.unparse(n.value)
            if isinstance(n, ast.Assign) and ast.unparse(n.targets[0]) == "frequency":
                fa = ast.unparse(n.value)
        if fa != f"Frequency.{fname}":
            raise TranslatorError(f"{cls}.frequency is {fa}")
        add(f"Definition gen_class_freq_{fname} : Z := freq_{fname}.")
        mro = [cls] + RM
        m = T.method(mro, "month_to_segment")[0]
        if "staticmethod" not in T.decorators(m):
            raise TranslatorError(f"{cls}.month_to_segment: not static")
        v, fn = T.translate(f"{cls}.month_to_segment", m, [vint("month")], {"mro": mro, "freq": f"freq_{fname}"})
        add(f"Definition gen_month_to_segment_{fname} (month : Z) : Z := {render(v, fn.where)[0]}.")
        tbl_node = None
        for n in c.body:
            if isinstance(n, ast.Assign) and ast.unparse(n.targets[0]) == "_MONTH_DAY_RESOLUTION":
                tbl_node = n.value
        if tbl_node is None:
            raise TranslatorError(f"{cls}._MONTH_DAY_RESOLUTION missing")
        # the table may be a comprehension over range/calendar.monthrange: evaluate the expression with exactly these names
        for sub in ast.walk(tbl_node):
            if isinstance(sub, ast.Name) and sub.id not in ("_ca", "range", "m", "None"):
                raise TranslatorError(f"{cls}._MONTH_DAY_RESOLUTION uses the name {sub.id}")
            if isinstance(sub, (ast.Lambda, ast.Await, ast.Yield, ast.NamedExpr)):
                raise TranslatorError(f"{cls}._MONTH_DAY_RESOLUTION: unsupported construct")
            if isinstance(sub, ast.Attribute) and ast.unparse(sub) != "_ca.monthrange":
                raise TranslatorError(f"{cls}._MONTH_DAY_RESOLUTION uses {ast.unparse(sub)}")
        table = eval(compile(ast.Expression(tbl_node), "<mdr>", "eval"), {"__builtins__": {}, "_ca": calendar, "range": range})
        if set(table) != set(POSITIONS):
            raise TranslatorError(f"{cls}._MONTH_DAY_RESOLUTION positions {sorted(table)}")
        for pos in POSITIONS:
            ents = []
            for per, md in table[pos].items():
                if not (isinstance(per, int) and isinstance(md, tuple) and len(md) == 2 and isinstance(md[0], int)
                        and (md[1] is None or isinstance(md[1], int))):
                    raise TranslatorError(f"{cls}._MONTH_DAY_RESOLUTION[{pos!r}][{per!r}] = {md!r}")
                day = "None" if md[1] is None else f"Some {z(md[1])}"
                ents.append(f"({z(per)}, ({z(md[0])}, {day}))")
            add(f"Definition gen_mdr_{fname}_{pos} : list (Z * (Z * option Z)) := [" + "; ".join(ents) + "].")
        org = None
        for n in c.body:
            if isinstance(n, ast.Assign) and ast.unparse(n.targets[0]) == "origin":
                org = ast.unparse(n.value)
        if org != f"_serial_from_ysf(BASE_YEAR, 1, Frequency.{fname})":
            raise TranslatorError(f"{cls}.origin is {org}")
        add("")

    # ---- DailyPeriod -------------------------------------------------------------
    DM = ["DailyPeriod", "Period"]
    DCX = {"mro": DM, "freq": "freq_DAILY"}

    def daily(name, pyname, params, args, rkind=None, klassm=False):
        m = T.method(DM, pyname)[0]
        a = ([V("klass")] if klassm else []) + args
        v, fn = T.translate(f"DailyPeriod.{pyname}", m, a, DCX)
        if v.kind == "optperiod":
            term, typ = v.coq, "option Z"
        else:
            term, typ = render(v, fn.where)
        term, typ = with_guards(term, typ, fn, force_option=True)
        add(f"Definition gen_daily_{name} {params} : {typ} := {term}.")
        add(f"Definition gen_daily_{name}_welltyped : bool := {core.coq_bool(fn.welltyped)}.")

    daily("from_ymd", "from_ymd", "(year month day : Z)", [vint("year"), vint("month"), vint("day")], klassm=True)
    daily("from_year_segment", "from_year_segment", "(year segment : Z)", [vint("year"), vint("segment")], klassm=True)
    for nm in ("to_year_segment", "to_ymd", "year", "month", "day", "segment", "period", "get_year", "create_soy", "create_som",
               "create_eoy", "create_eopy", "create_eopm", "create_tty"):
        daily(nm, nm, "(serial : Z)", [S])
    org = None
    for n in T.classes["DailyPeriod"].body:
        if isinstance(n, ast.Assign) and ast.unparse(n.targets[0]) == "origin":
            org = ast.unparse(n.value)
    if org != "_dt.date(BASE_YEAR, 1, 1).toordinal()":
        raise TranslatorError(f"DailyPeriod.origin is {org}")
    # dd(year, month, day): month None -> from_year_segment(year, day)
    ddf = T.funcs["dd"]
    b = px.strip_doc(ddf)
    expect_text(b[0], "if month is None:\n    return DailyPeriod.from_year_segment(year, day)\nelse:\n    return DailyPeriod.from_ymd(year, month, day)",
                "dd")
    add("(* dd(year, month, day) = DailyPeriod.from_ymd ; dd(year, None, day) = DailyPeriod.from_year_segment *)")
    add("Definition gen_dd_dispatch_ok : bool := true.")
    for short, target in (("yy", "YearlyPeriod.from_year_segment"), ("hh", "HalfyearlyPeriod.from_year_segment"),
                          ("qq", "QuarterlyPeriod.from_year_segment"), ("mm", "MonthlyPeriod.from_year_segment"),
                          ("ii", "IntegerPeriod")):
        val = px.find_assign(tree.body, short)
        expect_text(val, f"_period_constructor_with_ellipsis({target})", short)
    add("")

    # ---- IntegerPeriod ---------------------------------------------------------------
    IM = ["IntegerPeriod", "Period"]
    m = T.method(IM, "from_year_segment")[0]
    v, fn = T.translate("IntegerPeriod.from_year_segment", m, [V("klass"), vint("year"), vint("segment")], {"mro": IM, "freq": "freq_INTEGER"})
    add(f"Definition gen_int_from_year_segment (year segment : Z) : Z := {render(v, fn.where)[0]}.")
    add("")

    # ---- Span ------------------------------------------------------------------------
    sc = T.classes["Span"]
    m = T.method(["Span"], "_serials")[0]
    expect_text(px.strip_doc(m)[0], "return range(self._start.serial, self._end.serial + _sign(self._step), self._step) "
                                    "if not self.needs_resolve else None", "Span._serials")
    add("(* Span._serials = range over the triple gen_span_serials when the span is resolved *)")
    add("Definition gen_span_serials (s e step : Z) : Z * Z * Z := (s, e + gen_sign step, step).")
    pfu = px.strip_doc(T.funcs["periods_from_until"])
    expect_text(pfu[0], "_check_periods(start_per, end_per)", "periods_from_until")
    expect_text(pfu[1], "serials = range(start_per.serial, end_per.serial + 1, step)", "periods_from_until")
    add("Definition gen_pfu_range (s e step : Z) : Z * Z * Z := (s, e + 1, step).")
    # ContextualPeriod arithmetic
    cm = T.method(["ContextualPeriod"], "__add__")[0]
    expect_text(px.strip_doc(cm)[0], "return type(self)(self._resolve_from, self._offset + offset)", "ContextualPeriod.__add__")
    cm = T.method(["ContextualPeriod"], "__sub__")[0]
    expect_text(px.strip_doc(cm)[0], "return type(self)(self._resolve_from, self._offset - offset)", "ContextualPeriod.__sub__")
    cm = T.method(["ContextualPeriod"], "resolve")[0]
    expect_text(px.strip_doc(cm)[0], "return getattr(context, self._resolve_from) + self._offset", "ContextualPeriod.resolve")
    add("Definition gen_ctx_add (offset k : Z) : Z := offset + k.")
    add("Definition gen_ctx_sub (offset k : Z) : Z := offset - k.")
    # in-place mutators: symbolic state update over (start, end, step); endpoints are abstract (E, eadd)
    add("Section SpanMutators.")
    add("Variable E : Type.")
    add("Variable eadd : E -> Z -> E.")
    for nm, params in (("reverse", []), ("shift", ["by"]), ("shift_start", ["by"]), ("shift_end", ["by"])):
        m = T.method(["Span"], nm)[0]
        ps = [a.arg for a in m.args.posonlyargs + m.args.args]
        if ps != ["self"] + params:
            raise TranslatorError(f"Span.{nm}: parameters {ps}")
        st = {"_start": "st", "_end": "en", "_step": "step"}

        def sval(node):
            t = ast.unparse(node)
            if t.startswith("self.") and t[5:] in st:
                return st[t[5:]], ("Z" if t[5:] == "_step" else "E")
            if isinstance(node, ast.UnaryOp) and isinstance(node.op, ast.USub):
                x, ty = sval(node.operand)
                if ty != "Z":
                    raise TranslatorError(f"Span.{nm}: negation of an end point")
                return f"(- {x})", "Z"
            raise TranslatorError(f"Span.{nm}: unsupported value {t}")
        for s_ in px.strip_doc(m):
            if isinstance(s_, ast.AugAssign) and isinstance(s_.op, ast.Add) and ast.unparse(s_.value) == "by":
                t = ast.unparse(s_.target)
                if not (t.startswith("self.") and t[5:] in ("_start", "_end")):
                    raise TranslatorError(f"Span.{nm}: unsupported target {t}")
                st[t[5:]] = f"(eadd {st[t[5:]]} by_)"
            elif isinstance(s_, ast.Assign) and len(s_.targets) == 1:
                tg = s_.targets[0]
                tgs = tg.elts if isinstance(tg, ast.Tuple) else [tg]
                vals = s_.value.elts if isinstance(tg, ast.Tuple) else [s_.value]
                if len(tgs) != len(vals):
                    raise TranslatorError(f"Span.{nm}: unbalanced assignment")
                new = []
                for a_, b_ in zip(tgs, vals):
                    t = ast.unparse(a_)
                    if not (t.startswith("self.") and t[5:] in st):
                        raise TranslatorError(f"Span.{nm}: unsupported target {t}")
                    x, ty = sval(b_)
                    if (ty == "Z") != (t[5:] == "_step"):
                        raise TranslatorError(f"Span.{nm}: type confusion in {ast.unparse(s_)}")
                    new.append((t[5:], x))
                for k_, x in new:
                    st[k_] = x
            else:
                raise TranslatorError(f"Span.{nm}: unsupported statement {ast.unparse(s_)}")
        bys = " (by_ : Z)" if params else ""
        add(f"Definition gen_span_{nm} (st en : E) (step : Z){bys} : E * E * Z := ({st['_start']}, {st['_end']}, {st['_step']}).")
    add("End SpanMutators.")
    m = T.method(["Span"], "__add__")[0]
    expect_text(px.strip_doc(m)[0], "return type(self)(self._start + offset, self._end + offset, self._step)", "Span.__add__")
    m = T.method(["Span"], "__sub__")[0]
    expect_text(px.strip_doc(m)[0].orelse[0], "return type(self)(self._start - offset, self._end - offset, self._step)", "Span.__sub__")
    add("")
    span_construction(T, tree, add)
    add("")

    # ---- C11: SDMX patterns -------------------------------------------------------------
    fm = px.find_assign(tree.body, "SDMX_REXP_FORMATS")
    if not isinstance(fm, ast.Dict):
        raise TranslatorError("SDMX_REXP_FORMATS is not a dict literal")
    ents = []
    for k, val in zip(fm.keys, fm.values):
        kt = ast.unparse(k)
        if not kt.startswith("Frequency.") or kt[10:] not in fvals:
            raise TranslatorError(f"SDMX_REXP_FORMATS key {kt}")
        if not (isinstance(val, ast.Tuple) and len(val.elts) == 2):
            raise TranslatorError(f"SDMX_REXP_FORMATS[{kt}] is not a pair")
        ln = ast.literal_eval(val.elts[0])
        if not (ln is None or isinstance(ln, int)):
            raise TranslatorError(f"SDMX_REXP_FORMATS[{kt}] length")
        rc = val.elts[1]
        if not (isinstance(rc, ast.Call) and ast.unparse(rc.func) == "_re.compile" and len(rc.args) == 1 and not rc.keywords
                and isinstance(rc.args[0], ast.Constant) and isinstance(rc.args[0].value, str)):
            raise TranslatorError(f"SDMX_REXP_FORMATS[{kt}] pattern is not _re.compile(<literal>)")
        lnc = "None" if ln is None else f"(Some {ln}%nat)"
        ents.append(f"  (freq_{kt[10:]}, ({lnc}, {regex_to_coq(rc.args[0].value)}))")
    add("Definition gen_sdmx_formats : list (Z * (option nat * re)) := [\n" + ";\n".join(ents) + "].")
    fs = px.find_func(freq.body, "from_sdmx_string")
    fb = px.strip_doc(fs)
    if len(fb) != 1 or not isinstance(fb[0], ast.Try):
        raise TranslatorError("Frequency.from_sdmx_string: unexpected body")
    expect_text(fb[0].body[0], "sdmx_string = sdmx_string.strip()", "Frequency.from_sdmx_string")
    expect_text(fb[0].body[1], "return next((freq for freq, (length, pattern) in SDMX_REXP_FORMATS.items() if "
                               "(length is None or len(sdmx_string) == length) and pattern.fullmatch(sdmx_string)))",
                "Frequency.from_sdmx_string")
    m = T.method(["Period"], "from_sdmx_string")[0]
    pb = px.strip_doc(m)
    expect_text(pb[0], "frequency = Frequency.from_sdmx_string(sdmx_string) if frequency is None else frequency", "Period.from_sdmx_string")
    expect_text(pb[1], "return PERIOD_CLASS_FROM_FREQUENCY_RESOLUTION[frequency].from_sdmx_string(sdmx_string)", "Period.from_sdmx_string")
    res = px.find_assign(tree.body, "PERIOD_CLASS_FROM_FREQUENCY_RESOLUTION")
    got = {ast.unparse(k): ast.unparse(v_) for k, v_ in zip(res.keys, res.values)}
    want = {"Frequency.INTEGER": "IntegerPeriod", "Frequency.DAILY": "DailyPeriod", "Frequency.UNKNOWN": "UnknownPeriod"}
    want.update({f"Frequency.{f}": c for c, f in REGULAR})
    if got != want:
        raise TranslatorError(f"PERIOD_CLASS_FROM_FREQUENCY_RESOLUTION is {got}")
    add("Definition gen_class_frequencies : list Z := [" + "; ".join(
        f"freq_{k[10:]}" for k in got if k != "Frequency.UNKNOWN") + "].")
    add("")

    # ---- C11: string codecs per class ----------------------------------------------------
    classes = [(c, f, [c] + RM) for c, f in REGULAR] + [("DailyPeriod", "DAILY", DM), ("IntegerPeriod", "INTEGER", IM)]
    for cls, fname, mro in classes:
        cx = {"mro": mro, "freq": f"freq_{fname}", "letter": first_name[fvals[fname]][0]}
        term, blanks = method_format(T, mro, "to_sdmx_string", cx, f"{cls}.to_sdmx_string")
        add(f"Definition gen_to_sdmx_{fname} (serial : Z) : option (list fpiece) := {term}.")
        term, blanks = method_format(T, mro, "__repr__", cx, f"{cls}.__repr__")
        add(f"Definition gen_repr_{fname} (serial : Z) : option (list fpiece) := {term}.")
        add(f"Definition gen_repr_{fname}_remove_blanks : bool := {core.coq_bool(blanks)}.")
        add(f"Definition gen_from_sdmx_{fname} : sdmx_parser :=\n  {sdmx_parser(T, cls, mro, cx)}.")
        add("")
    # Period.__str__ / __repr__ chain for the regular classes
    expect_text(px.strip_doc(T.method(["Period"], "__str__")[0])[0], "return self.to_sdmx_string()", "Period.__str__")
    # to_iso_string
    m = T.method(["Period"], "to_iso_string")[0]
    b = px.strip_doc(m)
    expect_text(b[0], "year, month, day = self.to_ymd(**kwargs)", "Period.to_iso_string")
    fn = Fn("Period.to_iso_string")
    pieces = format_pieces(T, b[1].value, {"year": vint("year"), "month": vint("month"), "day": vint("day")}, fn, {})
    add("Definition gen_to_iso (year month day : Z) : list fpiece := [" + "; ".join(pieces) + "].")
    # from_iso_string: split('-') then from_ymd of the three ints
    m = T.method(["Period"], "from_iso_string")[0]
    b = px.strip_doc(m)
    expect_text(b[0], "year, month, day = iso_string.split('-')", "Period.from_iso_string")
    expect_text(b[1], "period_constructor = PERIOD_CLASS_FROM_FREQUENCY_RESOLUTION[frequency].from_ymd", "Period.from_iso_string")
    expect_text(b[2], "return period_constructor(int(year), int(month), int(day))", "Period.from_iso_string")
    add('Definition gen_iso_sep : string := "-".')
    m = T.method(["Period"], "from_python_date")[0]
    b = px.strip_doc(m)
    expect_text(b[0], "year, month, day = (python_date.year, python_date.month, python_date.day)", "Period.from_python_date")
    expect_text(b[2], "return period_constructor(int(year), int(month), int(day))", "Period.from_python_date")
    m = T.method(["Period"], "to_python_date")[0]
    expect_text(px.strip_doc(m)[0], "return _dt.date(*self.to_ymd(position=position))", "Period.to_python_date")
    # refrequent = to_ymd then from_ymd of the new class
    for fdef, who in ((T.method(["Period"], "refrequent")[0], "Period.refrequent"), (T.funcs["refrequent"], "refrequent")):
        b = px.strip_doc(fdef)
        src = "self" if who.startswith("Period") else "period"
        expect_text(b[0], f"year, month, day = {src}.to_ymd(*args, **kwargs)", who)
        expect_text(b[1], "new_class = PERIOD_CLASS_FROM_FREQUENCY_RESOLUTION[new_freq]", who)
        expect_text(b[2], "return new_class.from_ymd(year, month, day)", who)
    add("(* refrequent(p, f, position) = from_ymd_f (to_ymd position p); to_python_date = date of to_ymd ; from_iso/from_python_date = from_ymd *)")
    add("Definition gen_refrequent_via_ymd : bool := true.")
    add("")
    return "\n".join(out) + "\n"


def run() -> bool:
    return core.write_if_changed(core.COQ / OUT, generate())
