"""plans/steady_plans.py, plans/_registers.py, simultaneous/_plannable_protocols.py, simultaneous/_steady.py
->  coq/gen/SteadyPlanGen.v

Regenerated on every run (fail closed):
  * the table method -> (register, status written) of the eight methods SteadyPlan generates with its exec template;
  * the guard under which SteadyPlan.fix / unfix also call fix_change / unfix_change, as a boolean function of
    (the fixed-change register is non-empty, some change is already fixed);
  * the two registers swap / unswap write per pair, in order;
  * which names the fixed-change register has in flat / growth mode (_SteadyPlannable);
  * the set algebra of _resolve_steady_wrt (membership in wrt_names and in fixed_change_names);
  * which descriptor _steady_linear systemizes and which one it takes the tokens from.
The statement sequences around them (validation before any write, the sorted qid tuples, the block-wise set
differences of _steady_nonlinear, the dispatch of solve_steady) are pinned by text.  The register machine itself is
hand-modelled in coq/model/SteadyPlan.v, *defined in terms of* these fragments, and tied by correspondence."""
from __future__ import annotations

import ast
import textwrap

from vf import core
from vf.core import TranslatorError
from . import pyexpr as px
from .steady import _parse, _canon, _statement_texts, _require

OUT = "gen/SteadyPlanGen.v"
F_PLANS = "irispie/plans/steady_plans.py"
F_REGS = "irispie/plans/_registers.py"
F_PLANNABLE = "irispie/simultaneous/_plannable_protocols.py"
F_STEADY = "irispie/simultaneous/_steady.py"

REGISTERS = {"exogenized": "RExog", "endogenized": "REndog", "fixed_level": "RFixL", "fixed_change": "RFixC"}
METHODS = ["exogenize", "unexogenize", "endogenize", "unendogenize", "fix_level", "unfix_level", "fix_change", "unfix_change"]


def _ctor(m: str) -> str:
    return "M" + "".join(w.capitalize() for w in m.split("_"))


def _exact(fn, wanted: list[str], where: str):
    got = _statement_texts(fn)
    if got != [_canon(w) for w in wanted]:
        raise TranslatorError(f"{where}: body changed: {got}")


def _method_table(cls: ast.ClassDef) -> dict:
    """the `for method_name, register_name in (...): exec(dedent(f'''...'''))` loop -> {method: (register, status)}"""
    loops = [n for n in cls.body if isinstance(n, ast.For)]
    if len(loops) != 1:
        raise TranslatorError("SteadyPlan: expected exactly one class-level for loop generating the register methods")
    lp = loops[0]
    if ast.unparse(lp.target) != "(method_name, register_name)" or not isinstance(lp.iter, ast.Tuple):
        raise TranslatorError("SteadyPlan: method-generating loop header changed")
    pairs = []
    for el in lp.iter.elts:
        if not (isinstance(el, ast.Tuple) and len(el.elts) == 2 and all(isinstance(c, ast.Constant) and isinstance(c.value, str)
                                                                         for c in el.elts)):
            raise TranslatorError("SteadyPlan: method-generating loop iterates over something else than pairs of strings")
        pairs.append((el.elts[0].value, el.elts[1].value))
    if len(lp.body) != 1 or not isinstance(lp.body[0], ast.Expr) or not isinstance(lp.body[0].value, ast.Call):
        raise TranslatorError("SteadyPlan: method-generating loop body changed")
    call = lp.body[0].value
    if ast.unparse(call.func) != "exec" or len(call.args) != 1 or not isinstance(call.args[0], ast.Call) \
            or ast.unparse(call.args[0].func) != "_tw.dedent" or len(call.args[0].args) != 1 \
            or not isinstance(call.args[0].args[0], ast.JoinedStr):
        raise TranslatorError("SteadyPlan: method-generating loop does not exec(_tw.dedent(f'...'))")
    table = {}
    for meth, reg in pairs:
        if reg not in REGISTERS:
            raise TranslatorError(f"SteadyPlan: unknown register {reg!r}")
        text = ""
        for part in call.args[0].args[0].values:
            if isinstance(part, ast.Constant):
                text += part.value
            elif isinstance(part, ast.FormattedValue) and isinstance(part.value, ast.Name) and part.conversion == -1 \
                    and part.format_spec is None and part.value.id in ("method_name", "register_name"):
                text += meth if part.value.id == "method_name" else reg
            else:
                raise TranslatorError("SteadyPlan: unsupported placeholder in the method template")
        try:
            tree = ast.parse(textwrap.dedent(text))
        except SyntaxError as e:
            raise TranslatorError(f"SteadyPlan: method template does not parse: {e}")
        fns = {n.name: n for n in tree.body if isinstance(n, ast.FunctionDef)}
        if set(fns) != {meth, "un" + meth, f"get_{reg}_names"} or len(tree.body) != 3:
            raise TranslatorError(f"SteadyPlan: method template defines {sorted(fns)}")
        for name in (meth, "un" + meth):
            fn = fns[name]
            if [a.arg for a in fn.args.args] != ["self", "names"] or fn.args.vararg or fn.args.kwarg or len(fn.body) != 1:
                raise TranslatorError(f"SteadyPlan.{name}: signature/body changed")
            st = fn.body[0]
            ok = (isinstance(st, ast.Expr) and isinstance(st.value, ast.Call)
                  and ast.unparse(st.value.func) == "self._write_to_register" and len(st.value.args) == 3
                  and not st.value.keywords and isinstance(st.value.args[0], ast.Constant)
                  and ast.unparse(st.value.args[1]) == "names" and isinstance(st.value.args[2], ast.Constant)
                  and isinstance(st.value.args[2].value, bool))
            if not ok:
                raise TranslatorError(f"SteadyPlan.{name}: not a single self._write_to_register(<register>, names, <bool>) call")
            if st.value.args[0].value not in REGISTERS:
                raise TranslatorError(f"SteadyPlan.{name}: unknown register {st.value.args[0].value!r}")
            table[name] = (st.value.args[0].value, st.value.args[2].value)
        g = fns[f"get_{reg}_names"]
        if [ast.unparse(s) for s in g.body] != [_canon(f"return self._get_names_from_register('{reg}')")]:
            raise TranslatorError(f"SteadyPlan.get_{reg}_names changed")
    if sorted(table) != sorted(METHODS):
        raise TranslatorError(f"SteadyPlan: generated methods {sorted(table)}")
    return table


def _guard(node: ast.AST, where: str) -> str:
    """condition of `if <cond>: self.[un]fix_change(...)` over (fixc_nonempty, fixc_any)"""
    txt = ast.unparse(node)
    if txt == "self._fixed_change_register":
        return "fixc_nonempty"
    if txt in ("self.any_in_register('fixed_change')", "any(self._fixed_change_register.values())"):
        return "fixc_any"
    if txt in ("len(self._fixed_change_register) > 0", "bool(self._fixed_change_register)"):
        return "fixc_nonempty"
    if isinstance(node, ast.Constant) and isinstance(node.value, bool):
        return "true" if node.value else "false"
    if isinstance(node, ast.UnaryOp) and isinstance(node.op, ast.Not):
        return f"(negb {_guard(node.operand, where)})"
    if isinstance(node, ast.BoolOp):
        op = " && " if isinstance(node.op, ast.And) else " || "
        return "(" + op.join(_guard(v, where) for v in node.values) + ")"
    raise TranslatorError(f"{where}: unsupported guard `{txt}`")


def _fix_like(cls, name: str, level: str, change: str) -> str:
    fn = px.find_func(cls.body, name)
    where = f"SteadyPlan.{name}"
    if [a.arg for a in fn.args.args] != ["self"] or not fn.args.vararg or not fn.args.kwarg:
        raise TranslatorError(f"{where}: signature changed")
    body = px.strip_doc(fn)
    call_l = _canon(f"self.{level}(*args, **kwargs)")
    call_c = _canon(f"self.{change}(*args, **kwargs)")
    texts = [ast.unparse(s) for s in body]
    if not texts or texts[0] != call_l:
        raise TranslatorError(f"{where}: does not start with `{call_l}`")
    if len(body) == 1:
        return "false"
    if len(body) == 2 and texts[1] == call_c:
        return "true"
    if len(body) == 2 and isinstance(body[1], ast.If) and not body[1].orelse \
            and [ast.unparse(s) for s in body[1].body] == [call_c]:
        return _guard(body[1].test, where)
    raise TranslatorError(f"{where}: unexpected body {texts}")


def _swap_like(cls, name: str, table: dict, status: bool):
    fn = px.find_func(cls.body, name)
    where = f"SteadyPlan.{name}"
    body = px.strip_doc(fn)
    if [a.arg for a in fn.args.args] != ["self"] or not fn.args.vararg or fn.args.vararg.arg != "args" or fn.args.kwarg:
        raise TranslatorError(f"{where}: signature changed")
    if len(body) != 1 or not isinstance(body[0], ast.For) or ast.unparse(body[0].target) != "a" \
            or ast.unparse(body[0].iter) != "args" or len(body[0].body) != 2 or body[0].orelse:
        raise TranslatorError(f"{where}: is not `for a in args:` with two calls")
    regs = []
    for i, st in enumerate(body[0].body):
        ok = (isinstance(st, ast.Expr) and isinstance(st.value, ast.Call) and isinstance(st.value.func, ast.Attribute)
              and ast.unparse(st.value.func.value) == "self" and len(st.value.args) == 1 and not st.value.keywords
              and ast.unparse(st.value.args[0]) == f"a[{i}]")
        if not ok or st.value.func.attr not in table:
            raise TranslatorError(f"{where}: unexpected statement `{ast.unparse(st)}`")
        reg, stat = table[st.value.func.attr]
        if stat != status:
            raise TranslatorError(f"{where}: `{ast.unparse(st)}` writes {stat}")
        regs.append(reg)
    return regs


def _setexpr(node: ast.AST, env: dict, where: str) -> str:
    """membership of a name in a set/tuple expression, as a boolean term"""
    if isinstance(node, ast.BinOp) and isinstance(node.op, ast.Sub):
        return f"({_setexpr(node.left, env, where)} && negb {_setexpr(node.right, env, where)})"
    if isinstance(node, ast.BinOp) and isinstance(node.op, (ast.BitOr, ast.Add)):
        return f"({_setexpr(node.left, env, where)} || {_setexpr(node.right, env, where)})"
    if isinstance(node, ast.BinOp) and isinstance(node.op, ast.BitAnd):
        return f"({_setexpr(node.left, env, where)} && {_setexpr(node.right, env, where)})"
    if isinstance(node, ast.Call) and ast.unparse(node.func) in ("set", "tuple") and len(node.args) == 1 and not node.keywords:
        return _setexpr(node.args[0], env, where)
    txt = ast.unparse(node)
    if txt in env:
        return env[txt]
    raise TranslatorError(f"{where}: unsupported set expression `{txt}`")


def generate() -> str:
    out = ["(* GENERATED by /verif/translator/steadyplan.py from src/irispie/{plans/steady_plans.py, plans/_registers.py,",
           "   simultaneous/_plannable_protocols.py, simultaneous/_steady.py} -- do not edit *)",
           "From Coq Require Import List Bool.",
           "Import ListNotations.", "",
           "Inductive rname := RExog | REndog | RFixL | RFixC.",
           "Inductive descriptor := DSteady | DDynamic.",
           "Inductive gmethod := " + " | ".join(_ctor(m) for m in METHODS) + ".", ""]

    # ---------------------------------------------------------------- SteadyPlan
    tp = _parse(F_PLANS)
    cls = px.find_class(tp, "SteadyPlan")
    regs = [n for n in cls.body if isinstance(n, ast.Assign) and ast.unparse(n.targets[0]) == "_registers"]
    if len(regs) != 1 or ast.unparse(regs[0].value) != "('exogenized', 'endogenized', 'fixed_level', 'fixed_change')":
        raise TranslatorError("SteadyPlan._registers changed")
    _exact(px.find_func(cls.body, "__init__"), [
        "plannable = model.get_steady_plannable(**kwargs)",
        "def default_value(*args, **kwargs):\n    return False",
        "self._initialize_registers(plannable, default_value)",
    ], "SteadyPlan.__init__")
    table = _method_table(cls)
    out.append("(* plans/steady_plans.py: the generated methods *)")
    out.append("Definition gen_method_register (m : gmethod) : rname :=\n  match m with "
               + " | ".join(f"{_ctor(m)} => {REGISTERS[table[m][0]]}" for m in METHODS) + " end.")
    out.append("Definition gen_method_status (m : gmethod) : bool :=\n  match m with "
               + " | ".join(f"{_ctor(m)} => {'true' if table[m][1] else 'false'}" for m in METHODS) + " end.")
    for name, lv, ch in (("fix", "fix_level", "fix_change"), ("unfix", "unfix_level", "unfix_change")):
        if table[lv] != ("fixed_level", name == "fix") or table[ch] != ("fixed_change", name == "fix"):
            raise TranslatorError(f"SteadyPlan.{lv}/{ch} write {table[lv]}, {table[ch]}")
        out.append(f"(* SteadyPlan.{name}: {lv}(...), then {ch}(...) under this guard *)")
        out.append(f"Definition gen_{name}_guard (fixc_nonempty fixc_any : bool) : bool := {_fix_like(cls, name, lv, ch)}.")
    sw = _swap_like(cls, "swap", table, True)
    usw = _swap_like(cls, "unswap", table, False)
    if sw != usw:
        raise TranslatorError(f"SteadyPlan.swap writes {sw} but unswap writes {usw}")
    out.append(f"Definition gen_swap_first : rname := {REGISTERS[sw[0]]}.")
    out.append(f"Definition gen_swap_second : rname := {REGISTERS[sw[1]]}.")
    for alias, target in (("fix_levels", "fix_level"), ("fix_changes", "fix_change")):
        a = [n for n in cls.body if isinstance(n, ast.Assign) and ast.unparse(n.targets[0]) == alias]
        if len(a) != 1 or ast.unparse(a[0].value) != target:
            raise TranslatorError(f"SteadyPlan.{alias} is not {target}")
    _exact(px.find_func(cls.body, "is_empty"), ["return not any((self.any_in_register(r) for r in self._registers))"],
           "SteadyPlan.is_empty")
    _exact(px.find_func(cls.body, "any_in_register"), ["return any(self.get_register_by_name(register_name).values())"],
           "SteadyPlan.any_in_register")
    _exact(px.find_func(cls.body, "_write_to_register"), [
        "register = self.get_register_by_name(register_name)",
        "names = self._resolve_register_names(register, names)",
        "for n in names:\n    register[n] = new_status",
    ], "SteadyPlan._write_to_register")
    _exact(px.find_func(cls.body, "_get_names_from_register"), [
        "register = self.get_register_by_name(register_name)",
        "return tuple((name for (name, value) in register.items() if value))",
    ], "SteadyPlan._get_names_from_register")

    # ---------------------------------------------------------------- plans/_registers.py
    tr_ = _parse(F_REGS)
    mx = px.find_class(tr_, "Mixin")
    _exact(px.find_func(mx.body, "_initialize_registers"), [
        "for n in self._registers:\n"
        "    can_be_name = f'can_be_{n}'\n"
        "    register = {n: default_value(n) for n in getattr(plannable, can_be_name)} if hasattr(plannable, can_be_name) else {}\n"
        "    setattr(self, can_be_name, tuple(register.keys()))\n"
        "    setattr(self, f'_{n}_register', register)",
    ], "Mixin._initialize_registers")
    _exact(px.find_func(mx.body, "get_register_by_name"), [
        "full_name = f'_{name}_register'",
        "return getattr(self, full_name) if hasattr(self, full_name) else None",
    ], "Mixin.get_register_by_name")
    _exact(px.find_func(mx.body, "_resolve_register_names"), [
        "keys = tuple(register.keys()) if register else ()",
        "if names is Ellipsis:\n    names = keys\nelif isinstance(names, str):\n    names = (names,)\nelse:\n    names = tuple(names)",
        "_validate_register_names(register, names)",
        "return names",
    ], "Mixin._resolve_register_names")
    _exact(px.find_func(tr_.body, "_validate_register_names"), [
        "keys = tuple(register.keys()) if register else ()",
        "invalid = tuple((n for n in names if n not in keys))",
        "if invalid:\n    message = (f'These names are not valid in the register:',) + invalid\n"
        "    raise _wrongdoings.IrisPieCritical(message)",
    ], "_validate_register_names")

    # ---------------------------------------------------------------- _SteadyPlannable
    tpl = _parse(F_PLANNABLE)
    sp = px.find_class(tpl, "_SteadyPlannable")
    init = px.find_func(sp.body, "__init__")
    texts = _statement_texts(init)
    _require(texts, [
        "self.can_be_exogenized = get_names(ENDOGENOUS_VARIABLE)",
        "self.can_be_endogenized = get_names(PARAMETER)",
        "self.can_be_fixed_level = self.can_be_exogenized",
        "self.can_be_fixed_change = ()",
        "if not is_flat:\n    self.can_be_fixed_change = self.can_be_exogenized",
    ], "_SteadyPlannable.__init__")
    n_assign = sum(1 for n in ast.walk(init) if isinstance(n, ast.Assign) and ast.unparse(n.targets[0]).startswith("self.can_be_"))
    if n_assign != 5:
        raise TranslatorError("_SteadyPlannable.__init__: the can_be_* attributes are assigned differently")
    gsp = px.find_func(tpl.body, "get_steady_plannable")
    _exact(gsp, ["model_flags = self.resolve_flags(**kwargs)",
                 "return _SteadyPlannable(model=self, is_flat=model_flags.is_flat)"], "get_steady_plannable")
    out.append("(* simultaneous/_plannable_protocols.py: _SteadyPlannable.can_be_fixed_change *)")
    out.append("Definition gen_can_be_fixed_change (is_flat : bool) (can_be_exogenized : list nat) : list nat := "
               "if negb is_flat then can_be_exogenized else [].")

    # ---------------------------------------------------------------- _resolve_steady_wrt
    ts = _parse(F_STEADY)
    fn = px.find_func(ts.body, "_resolve_steady_wrt")
    where = "_resolve_steady_wrt"
    texts = _statement_texts(fn)
    _require(texts, [
        "wrt_equations = self.get_steady_equation_objects(kind=_STEADY_EQUATION_SOLVED)",
        "wrt_eids = tuple((e.id for e in wrt_equations))",
        "plannable = self.get_steady_plannable(is_flat=is_flat)",
        "wrt_names = set(plannable.can_be_exogenized)",
        "name_to_qid = self.create_name_to_qid()",
        "def get_sorted_qids(names: Iterable[str]) -> tuple[int, ...]:\n    return tuple(sorted([name_to_qid[name] for name in names]))",
        "wrt_qids = get_sorted_qids(wrt_names)",
        "wrt_fixed_level_qids = get_sorted_qids(fixed_level_names)",
        "wrt_fixed_change_qids = get_sorted_qids(fixed_change_names)",
    ], where)
    body = px.strip_doc(fn)
    ifs = [s for s in body if isinstance(s, ast.If)]
    if len(ifs) != 1 or ast.unparse(ifs[0].test) != "plan is None or plan.is_empty":
        raise TranslatorError(f"{where}: the plan branch changed")
    if [ast.unparse(s) for s in ifs[0].body] != ["exogenized_names = ()", "endogenized_names = ()", "fixed_level_names = ()",
                                                 "fixed_change_names = ()"]:
        raise TranslatorError(f"{where}: the no-plan branch changed")
    els = {ast.unparse(s.targets[0]): s.value for s in ifs[0].orelse if isinstance(s, ast.Assign)}
    if len(els) != 4 or len(ifs[0].orelse) != 4:
        raise TranslatorError(f"{where}: the plan branch changed")
    for nm, reg in (("exogenized_names", "exogenized"), ("endogenized_names", "endogenized"), ("fixed_level_names", "fixed_level")):
        if nm not in els or ast.unparse(els[nm]) != f"plan.get_{reg}_names()":
            raise TranslatorError(f"{where}: {nm} = {ast.unparse(els.get(nm)) if nm in els else None}")
    if "fixed_change_names" not in els:
        raise TranslatorError(f"{where}: fixed_change_names not assigned")
    fc = _setexpr(els["fixed_change_names"], {"plan.get_fixed_change_names()": "fixed_change", "endogenized_names": "endogenized",
                                               "plan.get_endogenized_names()": "endogenized"}, where)
    hits = [s for s in body if isinstance(s, ast.Assign) and ast.unparse(s.targets[0]) == "wrt_names"]
    if len(hits) != 3 or ast.unparse(hits[2].value) != "tuple((qid_to_name[qid] for qid in wrt_qids))":
        raise TranslatorError(f"{where}: wrt_names is assigned {len(hits)} times")
    wm = _setexpr(hits[1].value, {"wrt_names": "endogenous_variable", "exogenized_names": "exogenized",
                                  "endogenized_names": "endogenized"}, where)
    ret = [s for s in body if isinstance(s, ast.Return)]
    want = ("_Wrt(equations=wrt_equations, eids=wrt_eids, names=wrt_names, fixed_level_names=wrt_fixed_level_names, "
            "fixed_change_names=wrt_fixed_change_names, qids=wrt_qids, fixed_level_qids=wrt_fixed_level_qids, "
            "fixed_change_qids=wrt_fixed_change_qids)")
    if len(ret) != 1 or ast.unparse(ret[0].value) != want:
        raise TranslatorError(f"{where}: unexpected return")
    out.append("(* simultaneous/_steady.py: _resolve_steady_wrt *)")
    out.append(f"Definition gen_wrt_member (endogenous_variable exogenized endogenized : bool) : bool := {wm}.")
    out.append(f"Definition gen_fixed_change_member (fixed_change endogenized : bool) : bool := {fc}.")

    _exact(px.find_func(ts.body, "_resolve_split_into_blocks"), [
        "if split_into_blocks is not None:\n    return split_into_blocks",
        "if plan is None:\n    return True",
        "any_fix = plan.any_in_register('fixed_level') or plan.any_in_register('fixed_change')",
        "return not any_fix",
    ], "_resolve_split_into_blocks")

    # ---------------------------------------------------------------- _steady_nonlinear: how the plan reaches the blocks
    nl = px.find_func(ts.body, "_steady_nonlinear")
    assigns = [ast.unparse(n) for n in ast.walk(nl) if isinstance(n, ast.Assign)]
    for w in ("split_into_blocks = _resolve_split_into_blocks(split_into_blocks, plan)",
              "wrt = _resolve_steady_wrt(self, plan, is_flat=model_flags.is_flat)",
              "im = _calculate_steady_incidence_matrix(wrt.equations, wrt.qids)",
              "blocks = _blazer.blaze(im, wrt.eids, wrt.qids)",
              "blocks = (_blazer.Block(wrt.eids, wrt.qids),)",
              "block_level_qids = tuple(sorted(set(block.qids) - set(wrt.fixed_level_qids)))",
              "block_change_qids = tuple(sorted(set(block.qids) - set(wrt.fixed_change_qids)))",
              "block_equations = tuple((wrt.equations[eid] for eid in block.eids))",
              "has_no_qids = not block_level_qids and (not block_change_qids)",
              "has_no_equations = not block_equations",
              "steady_evaluator = evaluator_class(block_level_qids, block_change_qids, block_equations, all_quantities, variant, "
              "context=self._invariant._context, iter_printer_settings=iter_printer_settings | {'custom_header': custom_header})"):
        if _canon(w) not in assigns:
            raise TranslatorError(f"_steady_nonlinear: `{w}` not found")

    # ---------------------------------------------------------------- solve_steady dispatch, _steady_linear
    ss = px.find_func(ts.body, "solve_steady")
    _require(_statement_texts(ss), [
        "model_flags = self.resolve_flags(**kwargs)",
        "steady_solver = _choose_steady_solver(model_flags.is_linear, model_flags.is_flat)",
        "for (vid, v) in enumerate(self._variants):\n    out_info_v = steady_solver(self, v, model_flags, vid, **kwargs)\n"
        "    out_info.append(out_info_v)",
    ], "solve_steady")
    ch = px.find_func(ts.body, "_choose_steady_solver")
    body = px.strip_doc(ch)
    if len(body) != 1 or not isinstance(body[0], ast.Match) or ast.unparse(body[0].subject) != "(is_linear, is_flat)":
        raise TranslatorError("_choose_steady_solver: not a single match on (is_linear, is_flat)")
    arms = {ast.unparse(c.pattern): [ast.unparse(s) for s in c.body] for c in body[0].cases}
    want = {
        "[False, False]": "return _ft.partial(_steady_nonlinear, evaluator_class=_evaluators.NonflatSteadyEvaluator)",
        "[False, True]": "return _ft.partial(_steady_nonlinear, evaluator_class=_evaluators.FlatSteadyEvaluator)",
        "[True, False]": "return _ft.partial(_steady_linear, algorithm=_fs.solve_steady_linear_nonflat)",
        "[True, True]": "return _ft.partial(_steady_linear, algorithm=_fs.solve_steady_linear_flat)",
    }
    if arms != {k: [_canon(v)] for k, v in want.items()}:
        raise TranslatorError(f"_choose_steady_solver: arms changed: {arms}")

    ln = px.find_func(ts.body, "_steady_linear")
    where = "_steady_linear"
    body = px.strip_doc(ln)
    sysv = [s.value for s in body if isinstance(s, ast.Assign) and ast.unparse(s.targets[0]) == "system"]
    if len(sysv) != 1 or not (isinstance(sysv[0], ast.Call) and ast.unparse(sysv[0].func) == "self._systemize"
                              and len(sysv[0].args) == 3 and not sysv[0].keywords
                              and ast.unparse(sysv[0].args[0]) == "variant" and ast.unparse(sysv[0].args[2]) == "model_flags"):
        raise TranslatorError(f"{where}: `system = self._systemize(variant, <descriptor>, model_flags)` not found")
    desc = {"self._invariant.steady_descriptor": "DSteady", "self._invariant.dynamic_descriptor": "DDynamic"}
    d = ast.unparse(sysv[0].args[1])
    if d not in desc:
        raise TranslatorError(f"{where}: systemizes `{d}`")
    out.append("(* simultaneous/_steady.py: _steady_linear *)")
    out.append(f"Definition gen_linear_systemized_descriptor : descriptor := {desc[d]}.")
    tokv = [s.value for s in body if isinstance(s, ast.Assign) and ast.unparse(s.targets[0]) == "tokens"]
    if len(tokv) != 1:
        raise TranslatorError(f"{where}: tokens not assigned once")
    ttxt = ast.unparse(tokv[0])
    tdesc = None
    for k, v in desc.items():
        if ttxt == f"tuple(_it.chain({k}.system_vectors.transition_variables, {k}.system_vectors.measurement_variables))":
            tdesc = v
    if tdesc is None:
        raise TranslatorError(f"{where}: tokens = {ttxt}")
    out.append(f"Definition gen_linear_token_descriptor : descriptor := {tdesc}.")
    _require(_statement_texts(ln), [
        "(Xi, Y, dXi, dY) = algorithm(system)",
        "levels = _np.hstack((Xi.flat, Y.flat)).flatten()",
        "changes = _np.hstack((dXi.flat, dY.flat)).flatten()",
        "zero_shift_index = [not t.shift for t in tokens]",
        "levels = levels[zero_shift_index]",
        "changes = changes[zero_shift_index]",
        "qids = tuple((t.qid for t in _it.compress(tokens, zero_shift_index)))",
        "self.delogarithmize(levels, changes)",
        "variant.update_levels_from_array(levels, qids)",
        "variant.update_changes_from_array(changes, qids)",
    ], where)
    out.append("")
    return "\n".join(out)


def run() -> bool:
    return core.write_if_changed(core.COQ / OUT, generate())
