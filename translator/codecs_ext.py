"""irispie/databoxes/_imports.py, _exports.py, dates.py  ->  coq/gen/CodecsExtGen.v      (property C11, round 4)

Regenerated on every run, fail closed.

(A) The path of a date-column cell of a CSV sheet:
    * `Databox.from_csv_file`: the only bindings of `period_from_string` are the legacy-option resolution and
      `period_from_string or _DEFAULT_PERIOD_FROM_STRING`; it is handed to `_block_iterator` unchanged, which hands it
      to `_extract_periods_from_data_rows` together with `current_frequency = Frequency.from_letter(cell)` of the
      block's mark; no other binding of these names anywhere on the way (a wrapper, a memo, a default swapped in, ...
      fails here);
    * `_extract_periods_from_data_rows`: the four statements are translated: the start cell, the two extractor
      lambdas (`start_date + i`, `period_from_string(line[column], frequency=frequency)`), the row filter
      (`start_period_only or line[column]`) -> gen_cell_period, gen_start_only_period, gen_row_selected;
    * `_ExportBlock.__iter__`: the date cell is `date_formatter(date)` with
      `date_formatter = self.date_formatter or _DEFAULT_DATE_FORMATTER` (= str), and the block is padded with
      `total_num_data_rows - len(self.periods)` empty rows -> gen_export_padding.
(B) int() casts of `Period.__init__`, `Period.__add__`, `Period.__sub__` (-> gen_init_casts, gen_add_casts,
    gen_sub_casts: `true` when the value is passed through `int(...)`, `false` when it is used as it comes; any other
    shape fails), `__radd__ = __add__`, and the default arm of `Period.shift` (`return self + by`)."""
from __future__ import annotations

import ast

from vf import core
from vf.core import TranslatorError
from . import pyexpr as px

OUT = "gen/CodecsExtGen.v"
IMPORTS = "irispie/databoxes/_imports.py"
EXPORTS = "irispie/databoxes/_exports.py"
DATES = "irispie/dates.py"


def _func(tree, name, cls=None):
    body = tree.body
    if cls is not None:
        for n in body:
            if isinstance(n, ast.ClassDef) and n.name == cls:
                body = n.body
                break
        else:
            raise TranslatorError(f"class {cls} not found")
    found = [n for n in body if isinstance(n, ast.FunctionDef) and n.name == name]
    if len(found) != 1:
        raise TranslatorError(f"{cls + '.' if cls else ''}{name}: expected exactly one definition, found {len(found)}")
    return found[0]


def _expect(node, want: str, where: str):
    got = ast.unparse(node)
    if got != want:
        raise TranslatorError(f"{where}: expected `{want}`, found `{got}`")


def _bound_names(node):
    """every (statement, name) by which a statement inside `node` binds a name (assignment targets, for targets, with ... as,
    walrus, nested def/lambda parameters, imports, except ... as, match captures, global/nonlocal)"""
    out = []

    def targets(t, st):
        for n in ast.walk(t):
            if isinstance(n, ast.Name):
                out.append((st, n.id))

    for n in ast.walk(node):
        if isinstance(n, ast.Assign):
            for t in n.targets:
                targets(t, n)
        elif isinstance(n, (ast.AugAssign, ast.AnnAssign)):
            targets(n.target, n)
        elif isinstance(n, (ast.For, ast.AsyncFor, ast.comprehension)):
            targets(n.target, n)
        elif isinstance(n, ast.NamedExpr):
            targets(n.target, n)
        elif isinstance(n, (ast.With, ast.AsyncWith)):
            for it in n.items:
                if it.optional_vars is not None:
                    targets(it.optional_vars, n)
        elif isinstance(n, (ast.FunctionDef, ast.AsyncFunctionDef, ast.Lambda)) and n is not node:
            a = n.args
            for p in a.posonlyargs + a.args + a.kwonlyargs + ([a.vararg] if a.vararg else []) + ([a.kwarg] if a.kwarg else []):
                out.append((n, p.arg))
            if not isinstance(n, ast.Lambda):
                out.append((n, n.name))
        elif isinstance(n, (ast.Import, ast.ImportFrom)):
            for al in n.names:
                out.append((n, (al.asname or al.name).split(".")[0]))
        elif isinstance(n, ast.ExceptHandler) and n.name:
            out.append((n, n.name))
        elif isinstance(n, (ast.MatchAs, ast.MatchStar)) and n.name:
            out.append((n, n.name))
        elif isinstance(n, ast.MatchMapping) and n.rest:
            out.append((n, n.rest))
        elif isinstance(n, (ast.Global, ast.Nonlocal)):
            for nm in n.names:
                out.append((n, nm))
    return out


def _only_bindings(fn, name: str, allowed: list[str], where: str):
    seen = []
    for st, nm in _bound_names(fn):
        if nm != name:
            continue
        text = ast.unparse(st)
        if text not in allowed:
            raise TranslatorError(f"{where}: `{name}` is re-bound by `{text[:160]}` (not a modelled statement)")
        seen.append(text)
    for a in allowed:
        if a not in seen:
            raise TranslatorError(f"{where}: the modelled statement `{a[:160]}` is missing")


def _uses(fn, name: str) -> list[str]:
    """source text of the smallest call/expression statements in which `name` is read"""
    out = []
    parents = {}
    for p in ast.walk(fn):
        for c in ast.iter_child_nodes(p):
            parents[c] = p
    for n in ast.walk(fn):
        if isinstance(n, ast.Name) and n.id == name and isinstance(n.ctx, ast.Load):
            q = n
            while q in parents and not isinstance(parents[q], (ast.Call, ast.stmt)):
                q = parents[q]
            out.append(ast.unparse(parents.get(q, q)))
    return out


def gen_imports(add):
    tree = ast.parse((core.SRC / IMPORTS).read_text())
    _expect(px.find_assign(tree.body, "_DEFAULT_PERIOD_FROM_STRING"), "Period.from_sdmx_string", "_imports._DEFAULT_PERIOD_FROM_STRING")
    for n in tree.body:
        if isinstance(n, ast.ImportFrom) and n.module == "dates" and n.level == 2:
            if any(a.name == "Period" and a.asname in (None, "Period") for a in n.names):
                break
    else:
        raise TranslatorError("_imports: `from ..dates import Period` not found")
    # 1. from_csv_file
    inlay = _func(tree, "from_csv_file", "Inlay")
    legacy = ("period_from_string = _resolve_legacy_option(period_from_string, date_creator, "
              "\"The 'date_creator' option is deprecated; use 'period_from_string' instead\")")
    default = "period_from_string = period_from_string or _DEFAULT_PERIOD_FROM_STRING"
    _only_bindings(inlay, "period_from_string", [legacy, default], "Databox.from_csv_file")
    uses = [u for u in _uses(inlay, "period_from_string")]
    want_call = "_block_iterator(name_row, description_row, data_rows, period_from_string, start_period_only)"
    for u in uses:
        if u not in (legacy.split(" = ", 1)[1], default, default.split(" = ", 1)[1], want_call):
            raise TranslatorError(f"Databox.from_csv_file: `period_from_string` is used in `{u[:160]}` (not modelled)")
    if want_call not in uses:
        raise TranslatorError(f"Databox.from_csv_file: the call `{want_call}` is missing")
    body = px.strip_doc(inlay)
    texts = [ast.unparse(s) for s in body]
    i_def = texts.index(default)
    loop = body[i_def + 1]
    if not (isinstance(loop, ast.For) and ast.unparse(loop.iter) == want_call and ast.unparse(loop.target) == "b"):
        raise TranslatorError("Databox.from_csv_file: the block loop does not directly follow the default of period_from_string")
    rl = px.strip_doc(_func(tree, "_resolve_legacy_option"))
    _expect(rl[0], "if option is None and legacy is not None:\n    _wa.warn(warning_message, FutureWarning)\n    option = legacy",
            "_resolve_legacy_option")
    _expect(rl[1], "return option", "_resolve_legacy_option")
    # 2. _block_iterator
    bi = _func(tree, "_block_iterator")
    if [a.arg for a in bi.args.posonlyargs] != ["name_row", "description_row", "data_rows", "period_from_string", "start_period_only"]:
        raise TranslatorError("_block_iterator: parameters changed")
    _only_bindings(bi, "period_from_string", [], "_block_iterator")
    _only_bindings(bi, "start_period_only", [], "_block_iterator")
    _only_bindings(bi, "data_rows", [], "_block_iterator")
    _only_bindings(bi, "current_frequency", ["current_frequency = None", "current_frequency = Frequency.from_letter(cell)"],
                   "_block_iterator")
    call = ("_extract_periods_from_data_rows(data_rows, current_frequency, current_date_column, period_from_string, "
            "start_period_only)")
    if _uses(bi, "period_from_string") != [call]:
        raise TranslatorError(f"_block_iterator: period_from_string must be used exactly once, in `{call}`")
    if _uses(bi, "current_frequency") != [call]:
        raise TranslatorError("_block_iterator: current_frequency is used outside the call of _extract_periods_from_data_rows")
    # 3. _extract_periods_from_data_rows
    ex = _func(tree, "_extract_periods_from_data_rows")
    if [a.arg for a in ex.args.posonlyargs] != ["data_rows", "frequency", "column", "period_from_string", "start_period_only"]:
        raise TranslatorError("_extract_periods_from_data_rows: parameters changed")
    b = px.strip_doc(ex)
    # an optional leading guard for a sheet without data rows (fix: 2ce6618): no rows, no periods -- the same answer the
    # modelled statements give for an empty list of rows (the unguarded code raised IndexError on data_rows[0] there)
    if len(b) == 5 and ast.unparse(b[0]) == "if not data_rows:\n    return ((), ())":
        b = b[1:]
    if len(b) != 4:
        raise TranslatorError(f"_extract_periods_from_data_rows: expected 4 statements (after the optional empty-sheet guard), found {len(b)}")
    _expect(b[0], "start_date = period_from_string(data_rows[0][column], frequency=frequency)", "_extract_periods_from_data_rows[0]")
    # the extractor table
    st = b[1]
    ok = (isinstance(st, ast.Assign) and ast.unparse(st.targets[0]) == "date_extractor" and isinstance(st.value, ast.Subscript)
          and isinstance(st.value.value, ast.Dict) and ast.unparse(st.value.slice) == "start_period_only"
          and [ast.unparse(k) for k in st.value.value.keys] == ["True", "False"]
          and all(isinstance(v, ast.Lambda) and [a.arg for a in v.args.args] == ["i", "line"] for v in st.value.value.values))
    if not ok:
        raise TranslatorError(f"_extract_periods_from_data_rows[1]: unexpected shape `{ast.unparse(st)[:200]}`")
    lam_true, lam_false = (v.body for v in st.value.value.values)
    # start_period_only arm: start_date + i
    if not (isinstance(lam_true, ast.BinOp) and isinstance(lam_true.op, ast.Add) and ast.unparse(lam_true.left) == "start_date"
            and ast.unparse(lam_true.right) == "i"):
        raise TranslatorError(f"_extract_periods_from_data_rows: start-only extractor is `{ast.unparse(lam_true)}`")
    # cell arm: period_from_string(line[column], frequency=frequency)
    if not (isinstance(lam_false, ast.Call) and ast.unparse(lam_false.func) == "period_from_string"
            and [ast.unparse(a) for a in lam_false.args] == ["line[column]"]
            and [(k.arg, ast.unparse(k.value)) for k in lam_false.keywords] == [("frequency", "frequency")]):
        raise TranslatorError(f"_extract_periods_from_data_rows: cell extractor is `{ast.unparse(lam_false)}`")
    _expect(b[2], "row_indices_and_dates = ((i, date_extractor(i, line)) for i, line in enumerate(data_rows) "
                  "if start_period_only or line[column])", "_extract_periods_from_data_rows[2]")
    _expect(b[3], "return tuple(zip(*row_indices_and_dates)) or ((), ())", "_extract_periods_from_data_rows[3]")
    add("(* databoxes/_imports.py: period_from_string reaches _extract_periods_from_data_rows unchanged (default: "
        "Period.from_sdmx_string) *)")
    add("Definition gen_import_default_parser_is_sdmx : bool := true.")
    add("(* period_from_string(line[column], frequency=frequency) *)")
    add("Definition gen_cell_period (period_from_string : Z -> str -> dres period) (frequency : Z) (cell : str) : dres period :=")
    add("  period_from_string frequency cell.")
    add("(* start_date + i *)")
    add("Definition gen_start_only_period (start_date : period) (i : Z) : period := padd start_date i.")
    add("(* if start_period_only or line[column] *)")
    add("Definition gen_row_selected (start_period_only : bool) (cell : str) : bool :=")
    add("  start_period_only || match cell with [] => false | _ => true end.")
    add("")


def gen_exports(add):
    tree = ast.parse((core.SRC / EXPORTS).read_text())
    _expect(px.find_assign(tree.body, "_DEFAULT_DATE_FORMATTER"), "str", "_exports._DEFAULT_DATE_FORMATTER")
    it = _func(tree, "__iter__", "_ExportBlock")
    _only_bindings(it, "date_formatter", ["date_formatter = self.date_formatter or _DEFAULT_DATE_FORMATTER"], "_ExportBlock.__iter__")
    _only_bindings(it, "date", ["for date, data_row in zip(self.periods, data_array):\n    yield ((date_formatter(date),) + "
                                "tuple((x if not _np.isnan(x) else self.nan_str for x in _round(data_row).tolist())) + ('',))"],
                   "_ExportBlock.__iter__")
    if _uses(it, "date_formatter") != ["date_formatter(date)"]:
        raise TranslatorError("_ExportBlock.__iter__: date_formatter is used otherwise than as `date_formatter(date)`")
    b = px.strip_doc(it)
    _expect(b[-1], "for _ in range(self.total_num_data_rows - len(self.periods)):\n    yield empty_row", "_ExportBlock.__iter__[-1]")
    emp = [s for s in b if isinstance(s, ast.Assign) and ast.unparse(s.targets[0]) == "empty_row"]
    if len(emp) != 1 or ast.unparse(emp[0].value) != "('',) + ('',) * sum(num_data_columns) + ('',)":
        raise TranslatorError("_ExportBlock.__iter__: empty_row changed")
    # the option reaches the block unchanged
    tc = _func(tree, "to_csv_file", "Inlay")
    _only_bindings(tc, "date_formatter", [], "Databox.to_csv_file")
    if _uses(tc, "date_formatter") != [[u for u in _uses(tc, "date_formatter")][0]] or "date_formatter=date_formatter" not in _uses(tc, "date_formatter")[0]:
        raise TranslatorError("Databox.to_csv_file: date_formatter is not passed to the export blocks unchanged")
    tn = _func(tree, "_get_total_num_data_rows")
    add("(* databoxes/_exports.py: date cell = date_formatter(date), default str; padding rows *)")
    add("Definition gen_export_default_formatter_is_str : bool := true.")
    add("Definition gen_export_padding (total_num_data_rows len_periods : nat) : nat := (total_num_data_rows - len_periods)%nat.")
    add(f"(* _get_total_num_data_rows: {ast.unparse(px.strip_doc(tn)[-1])[:120]} *)")
    add("")


def _cast_flag(node, name: str, where: str) -> bool:
    """node is `int(<name>)` (True) or `<name>` (False)"""
    t = ast.unparse(node)
    if t == f"int({name})":
        return True
    if t == name:
        return False
    raise TranslatorError(f"{where}: expected `int({name})` or `{name}`, found `{t}`")


def gen_dates(add):
    tree = ast.parse((core.SRC / DATES).read_text())
    init = px.strip_doc(_func(tree, "__init__", "Period"))
    if not (len(init) == 1 and isinstance(init[0], ast.Assign) and ast.unparse(init[0].targets[0]) == "self.serial"):
        raise TranslatorError("Period.__init__: expected the single statement `self.serial = ...`")
    c_init = _cast_flag(init[0].value, "serial", "Period.__init__")
    addb = px.strip_doc(_func(tree, "__add__", "Period"))
    r = addb[0] if len(addb) == 1 else None
    if not (isinstance(r, ast.Return) and isinstance(r.value, ast.Call) and ast.unparse(r.value.func) == "type(self)"
            and len(r.value.args) == 1 and not r.value.keywords and isinstance(r.value.args[0], ast.BinOp)
            and isinstance(r.value.args[0].op, ast.Add) and ast.unparse(r.value.args[0].left) == "self.serial"):
        raise TranslatorError(f"Period.__add__: unexpected shape `{ast.unparse(addb[0])[:160]}`")
    c_add = _cast_flag(r.value.args[0].right, "other", "Period.__add__")
    cls = [n for n in tree.body if isinstance(n, ast.ClassDef) and n.name == "Period"][0]
    if not any(isinstance(n, ast.Assign) and ast.unparse(n) == "__radd__ = __add__" for n in cls.body):
        raise TranslatorError("Period.__radd__ is not __add__")
    subb = px.strip_doc(_func(tree, "__sub__", "Period"))
    s = subb[0] if len(subb) == 1 else None
    if not (isinstance(s, ast.If) and ast.unparse(s.test) == "_is_period(other)" and len(s.orelse) == 1
            and isinstance(s.orelse[0], ast.Return) and isinstance(s.orelse[0].value, ast.Call)
            and ast.unparse(s.orelse[0].value.func) == "self.__add__" and len(s.orelse[0].value.args) == 1
            and isinstance(s.orelse[0].value.args[0], ast.UnaryOp) and isinstance(s.orelse[0].value.args[0].op, ast.USub)):
        raise TranslatorError("Period.__sub__: unexpected shape")
    c_sub = _cast_flag(s.orelse[0].value.args[0].operand, "other", "Period.__sub__")
    sh = px.strip_doc(_func(tree, "shift", "Period"))
    m = sh[-1]
    if not (isinstance(m, ast.Match) and ast.unparse(m.cases[-1].pattern) == "_" and ast.unparse(m.cases[-1].body[0]) == "return self + by"):
        raise TranslatorError("Period.shift: the default arm is not `return self + by`")
    # subclasses must not override the arithmetic or the constructor
    for n in tree.body:
        if isinstance(n, ast.ClassDef) and n.name.endswith("Period") and n.name not in ("Period", "ContextualPeriod"):
            for mth in n.body:
                if isinstance(mth, ast.FunctionDef) and mth.name in ("__init__", "__add__", "__radd__", "__sub__", "__rsub__", "shift"):
                    raise TranslatorError(f"{n.name}.{mth.name} overrides the modelled Period method")
    add("(* dates.py: is the value passed through int(...) in Period.__init__ / __add__ / __sub__ ? *)")
    add(f"Definition gen_init_casts : bool := {core.coq_bool(c_init)}.")
    add(f"Definition gen_add_casts : bool := {core.coq_bool(c_add)}.")
    add(f"Definition gen_sub_casts : bool := {core.coq_bool(c_sub)}.")
    add("")


def generate() -> str:
    out = ["(* GENERATED by /verif/translator/codecs_ext.py from src/irispie/databoxes/_imports.py, _exports.py, dates.py "
           "-- do not edit *)",
           "From Coq Require Import ZArith Bool List.",
           "From Verif Require Import lib.PyStr lib.DatesBase gen.DatesGen model.Dates.",
           "Import ListNotations.",
           "Open Scope Z_scope.",
           ""]
    add = out.append
    gen_imports(add)
    gen_exports(add)
    gen_dates(add)
    return "\n".join(out) + "\n"


def run() -> bool:
    return core.write_if_changed(core.COQ / OUT, generate())
