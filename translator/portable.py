"""quantities.py / equations.py / portables.py / simultaneous/_flags.py / _invariants.py / main.py  ->  coq/gen/PortableGen.v

Regenerated on every run: the kind codes of quantities and equations (and the order in which to_portable lists the kinds),
the format tag, and the dictionary keys written by Flags.to_portable, Invariant.to_portable and Simultaneous.to_portable.
coq/model/Portable.v is defined in terms of these constants; the round-trip lemmas are re-checked against them (they fail
if two kinds get the same code).  Anything outside the expected shapes is a TranslatorError (fail closed)."""
from __future__ import annotations

import ast

from vf import core
from vf.core import TranslatorError

OUT = "gen/PortableGen.v"

QKINDS = ["TRANSITION_VARIABLE", "MEASUREMENT_VARIABLE", "TRANSITION_SHOCK", "ANTICIPATED_SHOCK_VALUE", "MEASUREMENT_SHOCK",
          "PARAMETER", "EXOGENOUS_VARIABLE"]
QCON = ["x", "y", "u", "v", "w", "p", "z"]
EKINDS = ["TRANSITION_EQUATION", "MEASUREMENT_EQUATION", "STEADY_AUTOVALUES"]
ECON = ["t", "m", "a"]


def _module(rel):
    p = core.SRC / rel
    return ast.parse(p.read_text(), filename=str(p))


def _assign_value(mod, name, where):
    for st in mod.body:
        if isinstance(st, ast.Assign) and len(st.targets) == 1 and isinstance(st.targets[0], ast.Name) and st.targets[0].id == name:
            return st.value
    raise TranslatorError(f"{where}: no module-level assignment of {name}")


def _kind_table(rel, enum_name, kinds):
    v = _assign_value(_module(rel), "_TO_PORTABLES", rel)
    if not isinstance(v, ast.Dict):
        raise TranslatorError(f"{rel}: _TO_PORTABLES is not a dictionary literal")
    out = []
    for k, val in zip(v.keys, v.values):
        if not (isinstance(k, ast.Attribute) and isinstance(k.value, ast.Name) and k.value.id == enum_name):
            raise TranslatorError(f"{rel}: unexpected key {ast.unparse(k)} in _TO_PORTABLES")
        if not (isinstance(val, ast.Constant) and isinstance(val.value, str)):
            raise TranslatorError(f"{rel}: code of {k.attr} is not a string literal")
        out.append((k.attr, val.value))
    if sorted(n for n, _ in out) != sorted(kinds):
        raise TranslatorError(f"{rel}: the kinds with a portable code are {[n for n, _ in out]}, the model knows {kinds}")
    return out


def _method(mod, klass, name, where):
    for st in mod.body:
        if isinstance(st, ast.ClassDef) and st.name == klass:
            for f in st.body:
                if isinstance(f, ast.FunctionDef) and f.name == name:
                    return f
    raise TranslatorError(f"{where}: no method {klass}.{name}")


def _returned_dict(fn, where):
    for st in ast.walk(fn):
        if isinstance(st, ast.Return) and isinstance(st.value, ast.Dict):
            d = st.value
            keys = []
            for k in d.keys:
                if not (isinstance(k, ast.Constant) and isinstance(k.value, str)):
                    raise TranslatorError(f"{where}: non-literal key {ast.unparse(k)}")
                keys.append(k.value)
            return keys, [ast.unparse(v) for v in d.values]
    raise TranslatorError(f"{where}: does not return a dictionary literal")


def _keyed(keys, values, expect, where):
    """map role -> key, where expect maps role -> a substring that identifies the value expression"""
    out = {}
    for role, needle in expect.items():
        hits = [k for k, v in zip(keys, values) if needle in v.replace(" ", "")]
        if len(hits) != 1:
            raise TranslatorError(f"{where}: expected exactly one entry built from {needle!r}, found {hits}")
        out[role] = hits[0]
    if len(keys) != len(expect):
        raise TranslatorError(f"{where}: unexpected entries {keys}")
    if len(set(out.values())) != len(out):
        raise TranslatorError(f"{where}: one key serves two roles: {out}")
    return out


def cstr(s):
    return '"' + s.replace('"', '""') + '"'


def run():
    q = _kind_table("irispie/quantities.py", "QuantityKind", QKINDS)
    e = _kind_table("irispie/equations.py", "EquationKind", EKINDS)
    fmt = _assign_value(_module("irispie/portables.py"), "CURRENT_PORTABLE_FORMAT", "irispie/portables.py")
    if not (isinstance(fmt, ast.Constant) and isinstance(fmt.value, str)):
        raise TranslatorError("portables.py: CURRENT_PORTABLE_FORMAT is not a string literal")
    fk, fv = _returned_dict(_method(_module("irispie/simultaneous/_flags.py"), "Flags", "to_portable", "_flags.py"), "Flags.to_portable")
    flags = _keyed(fk, fv, {"linear": "self.is_linear", "flat": "self.is_flat", "determ": "self.is_deterministic"}, "Flags.to_portable")
    ik, iv = _returned_dict(_method(_module("irispie/simultaneous/_invariants.py"), "Invariant", "to_portable", "_invariants.py"),
                            "Invariant.to_portable")
    inv = _keyed(ik, iv, {"description": "self.get_description()", "flags": "self._flags.to_portable()",
                          "quantities": "_quantities.to_portable(self.quantities", "equations": "_equations.to_portable(",
                          "context": "_contexts.to_portable("}, "Invariant.to_portable")
    sk, sv = _returned_dict(_method(_module("irispie/simultaneous/main.py"), "Simultaneous", "to_portable", "main.py"),
                            "Simultaneous.to_portable")
    top = _keyed(sk, sv, {"format": "CURRENT_PORTABLE_FORMAT", "source": "self._invariant.to_portable()",
                          "variants": "v.to_portable("}, "Simultaneous.to_portable")
    qd = dict(q)
    ed = dict(e)
    lines = ["(* GENERATED by translator/portable.py from /repo/src/irispie -- do not edit *)",
             "From Coq Require Import String List.", "Import ListNotations.", "Open Scope string_scope.", "",
             f"Definition gen_format : string := {cstr(fmt.value)}."]
    for name, con in zip(QKINDS, QCON):
        lines.append(f"Definition gen_qcode_{con} : string := {cstr(qd[name])}.   (* {name} *)")
    for name, con in zip(EKINDS, ECON):
        lines.append(f"Definition gen_ecode_{con} : string := {cstr(ed[name])}.   (* {name} *)")
    order = [QKINDS.index(n) for n, _ in q]
    lines.append("(* order in which quantities.to_portable lists the kinds (indices into x y u v w p z) *)")
    lines.append(f"Definition gen_qkind_order : list nat := [{'; '.join(map(str, order))}]%nat.")
    for role, key in top.items():
        lines.append(f"Definition gen_key_{role} : string := {cstr(key)}.")
    for role, key in inv.items():
        lines.append(f"Definition gen_key_{role} : string := {cstr(key)}.")
    for role, key in flags.items():
        lines.append(f"Definition gen_key_{role} : string := {cstr(key)}.")
    core.write_if_changed(core.COQ / OUT, "\n".join(lines) + "\n")


if __name__ == "__main__":
    run()
    print((core.COQ / OUT).read_text())
