"""fords/solutions.py, fords/descriptors.py, incidences/main.py, simultaneous/_tolerance.py  ->  coq/gen/FordGen.v

Regenerated on every run (fail closed):

* the three tolerance predicates nested in ``Solution.from_system``
  (``is_alpha_beta_stable_or_unit_root``, ``is_stable_root``, ``is_unit_root``) over exact rationals Q;
* ``_classify_eigenvalue_stability`` (if / elif / else over the two predicates);
* ``Solution._classify_system_stability`` (count of UNSTABLE against ``num_forwards``);
* the default eigenvalue tolerance of ``simultaneous/_tolerance.py``;
* the call sites that decide *what* is compared: ``from_system`` must classify with
  ``descriptor.get_num_forwards()`` and ``_solve_transition_equations`` must cut the QZ blocks at
  ``num_stable = num_backwards``;
* token-level scalar rules of ``descriptors.py`` / ``incidences/main.py``: the forward test ``t.shift>0``,
  the sort key ``(-x.shift, x.qid)``, the floor ``min(min(x), -1)`` of the system vector, the
  ``true_initials`` test ``min_shift <= token.shift - 1 < 0``, the pretend-lag ``t.shift-1`` of measurement
  equations, and the signs ``+1 / -1`` written into ``dynid_A / dynid_B``.

The matrix algebra of the solver is hand-modelled (model/Ford.v) and tied by correspondence."""
from __future__ import annotations

import ast
from fractions import Fraction

from vf import core
from vf.core import TranslatorError

OUT = "gen/FordGen.v"
SOL = "irispie/fords/solutions.py"
DESC = "irispie/fords/descriptors.py"
INC = "irispie/incidences/main.py"
TOL = "irispie/simultaneous/_tolerance.py"

CMP_Q = {ast.Lt: "Qltb", ast.LtE: "Qleb", ast.Gt: "Qgtb", ast.GtE: "Qgeb"}
CMP_Z = {ast.Lt: "Z.ltb", ast.LtE: "Z.leb", ast.Gt: "Z.gtb", ast.GtE: "Z.geb", ast.Eq: "Z.eqb"}
CMP_N = {ast.Lt: "Nat.ltb", ast.LtE: "Nat.leb", ast.Eq: "Nat.eqb", ast.Gt: "ngtb", ast.GtE: "ngeb"}


def _q_const(v) -> str:
    if isinstance(v, bool) or not isinstance(v, (int, float)):
        raise TranslatorError(f"unsupported constant {v!r}")
    fr = Fraction(repr(v)) if isinstance(v, float) else Fraction(v)
    if fr.numerator < 0:
        return f"(- ({-fr.numerator} # {fr.denominator}))"
    return f"({fr.numerator} # {fr.denominator})"


def q_expr(n: ast.AST, env: dict, where: str) -> str:
    """arithmetic over Q"""
    if isinstance(n, ast.Constant):
        return _q_const(n.value)
    if isinstance(n, ast.Name):
        if n.id in env:
            return env[n.id]
        raise TranslatorError(f"{where}: unbound name {n.id}")
    if isinstance(n, ast.BinOp):
        op = {ast.Add: "Qplus", ast.Sub: "Qminus", ast.Mult: "Qmult"}.get(type(n.op))
        if op is None:
            raise TranslatorError(f"{where}: unsupported operator in {ast.unparse(n)}")
        return f"({op} {q_expr(n.left, env, where)} {q_expr(n.right, env, where)})"
    if isinstance(n, ast.UnaryOp) and isinstance(n.op, ast.USub):
        return f"(Qopp {q_expr(n.operand, env, where)})"
    if isinstance(n, ast.Call) and not n.keywords and len(n.args) == 1:
        f = ast.unparse(n.func)
        if f in ("abs", "_np.abs"):
            return f"(Qabs {q_expr(n.args[0], env, where)})"
    raise TranslatorError(f"{where}: unsupported expression {ast.unparse(n)}")


def bool_expr(n: ast.AST, env: dict, where: str, arith, cmps) -> str:
    if isinstance(n, ast.BoolOp):
        op = "andb" if isinstance(n.op, ast.And) else "orb"
        parts = [bool_expr(v, env, where, arith, cmps) for v in n.values]
        out = parts[0]
        for p in parts[1:]:
            out = f"({op} {out} {p})"
        return out
    if isinstance(n, ast.Compare):
        operands = [n.left] + list(n.comparators)
        parts = []
        for a, o, b in zip(operands, n.ops, operands[1:]):
            c = cmps.get(type(o))
            if c is None:
                raise TranslatorError(f"{where}: unsupported comparison in {ast.unparse(n)}")
            parts.append(f"({c} {arith(a, env, where)} {arith(b, env, where)})")
        out = parts[0]
        for p in parts[1:]:
            out = f"(andb {out} {p})"
        return out
    raise TranslatorError(f"{where}: unsupported boolean expression {ast.unparse(n)}")


def z_expr(n: ast.AST, env: dict, where: str) -> str:
    if isinstance(n, ast.Constant) and isinstance(n.value, int) and not isinstance(n.value, bool):
        return f"({n.value})%Z"
    if isinstance(n, ast.Name):
        if n.id in env:
            return env[n.id]
        raise TranslatorError(f"{where}: unbound name {n.id}")
    if isinstance(n, ast.Attribute):
        s = ast.unparse(n)
        if s in env:
            return env[s]
        raise TranslatorError(f"{where}: unbound attribute {s}")
    if isinstance(n, ast.BinOp):
        op = {ast.Add: "Z.add", ast.Sub: "Z.sub", ast.Mult: "Z.mul"}.get(type(n.op))
        if op is None:
            raise TranslatorError(f"{where}: unsupported operator in {ast.unparse(n)}")
        return f"({op} {z_expr(n.left, env, where)} {z_expr(n.right, env, where)})"
    if isinstance(n, ast.UnaryOp) and isinstance(n.op, ast.USub):
        return f"(Z.opp {z_expr(n.operand, env, where)})"
    if isinstance(n, ast.Call) and ast.unparse(n.func) == "min" and len(n.args) == 2 and not n.keywords:
        return f"(Z.min {z_expr(n.args[0], env, where)} {z_expr(n.args[1], env, where)})"
    raise TranslatorError(f"{where}: unsupported integer expression {ast.unparse(n)}")


def _norm(fragment: str) -> str:
    """the fragment as the running Python's ast.unparse prints it (tuple parentheses etc. differ between versions)"""
    try:
        return ast.unparse(ast.parse(fragment))
    except SyntaxError:
        t = ast.unparse(ast.parse("(" + fragment + ")"))
        return t[1:-1] if t.startswith("(") and t.endswith(")") else t


def _find(body, name, kind=ast.FunctionDef):
    for n in body:
        if isinstance(n, kind) and n.name == name:
            return n
    raise TranslatorError(f"{name} not found")


def _strip_doc(fn):
    b = list(fn.body)
    if b and isinstance(b[0], ast.Expr) and isinstance(b[0].value, ast.Constant) and isinstance(b[0].value.value, str):
        b = b[1:]
    return b


def _predicate(fn: ast.FunctionDef, free: list[str]) -> str:
    """def f(x, ...): a = abs(x); ...; return <bool>   ->  Gallina over Q with `free` names as leading parameters"""
    where = fn.name
    params = [a.arg for a in fn.args.args]
    env = {p: p for p in params + free}
    lets = []
    body = _strip_doc(fn)
    for st in body[:-1]:
        if not (isinstance(st, ast.Assign) and len(st.targets) == 1 and isinstance(st.targets[0], ast.Name)):
            raise TranslatorError(f"{where}: unsupported statement {ast.unparse(st)}")
        nm = st.targets[0].id
        lets.append(f"let {nm} := {q_expr(st.value, env, where)} in")
        env[nm] = nm
    ret = body[-1]
    if not isinstance(ret, ast.Return):
        raise TranslatorError(f"{where}: last statement is not return")
    e = bool_expr(ret.value, env, where, q_expr, CMP_Q)
    args = " ".join(free + params)
    return f"Definition {fn.name} ({args} : Q) : bool :=\n  " + "\n  ".join(lets + [e]) + "."


def _enum_member(n: ast.AST, enum: str, where: str) -> str:
    s = ast.unparse(n)
    if not s.startswith(enum + "."):
        raise TranslatorError(f"{where}: expected a member of {enum}, got {s}")
    return s.split(".", 1)[1]


def _if_chain(stmts, env, where, cond, leaf) -> str:
    """if c: return X elif d: return Y else: return Z"""
    if len(stmts) != 1:
        raise TranslatorError(f"{where}: expected a single if/return, got {len(stmts)} statements")
    st = stmts[0]
    if isinstance(st, ast.Return):
        return leaf(st.value)
    if isinstance(st, ast.Assign):      # self.system_stability = X
        return leaf(st.value)
    if isinstance(st, ast.If):
        if not st.orelse:
            raise TranslatorError(f"{where}: if without else")
        return f"(if {cond(st.test)} then {_if_chain(st.body, env, where, cond, leaf)} else " \
               f"{_if_chain(st.orelse, env, where, cond, leaf)})"
    raise TranslatorError(f"{where}: unsupported statement {ast.unparse(st)}")


def generate() -> str:
    sol = ast.parse((core.SRC / SOL).read_text())
    desc = ast.parse((core.SRC / DESC).read_text())
    inc = ast.parse((core.SRC / INC).read_text())
    tol = ast.parse((core.SRC / TOL).read_text())
    out = ["(* GENERATED by /verif/translator/ford.py from src/irispie/fords/solutions.py, fords/descriptors.py,",
           "   incidences/main.py, simultaneous/_tolerance.py -- do not edit *)",
           "From Coq Require Import ZArith QArith Qabs List Bool.",
           "Import ListNotations.",
           "Definition Qltb (x y : Q) : bool := negb (Qle_bool y x).",
           "Definition Qleb (x y : Q) : bool := Qle_bool x y.",
           "Definition Qgtb (x y : Q) : bool := Qltb y x.",
           "Definition Qgeb (x y : Q) : bool := Qleb y x.",
           "Definition ngtb (x y : nat) : bool := Nat.ltb y x.",
           "Definition ngeb (x y : nat) : bool := Nat.leb y x.",
           ""]
    # ---- enums
    for enum, coq in (("EigenvalueKind", "ekind"), ("SystemStabilityKind", "skind")):
        cls = _find(sol.body, enum, ast.ClassDef)
        members = []
        for st in cls.body:
            if isinstance(st, ast.Assign) and isinstance(st.targets[0], ast.Name) \
                    and ast.unparse(st.value) == "_en.auto()":
                members.append(st.targets[0].id)
        if enum == "EigenvalueKind" and members != ["STABLE", "UNIT_ROOT", "UNSTABLE"]:
            raise TranslatorError(f"EigenvalueKind members changed: {members}")
        if enum == "SystemStabilityKind" and members != ["STABLE", "MULTIPLE_STABLE", "NO_STABLE"]:
            raise TranslatorError(f"SystemStabilityKind members changed: {members}")
        pre = "E_" if coq == "ekind" else "S_"
        out.append(f"Inductive {coq} : Set := " + " | ".join(pre + m for m in members) + ".")
    out.append("Definition ekind_eqb (a b : ekind) : bool := match a, b with E_STABLE, E_STABLE | E_UNIT_ROOT, E_UNIT_ROOT "
               "| E_UNSTABLE, E_UNSTABLE => true | _, _ => false end.")
    out.append("Definition count_kind (k : ekind) (l : list ekind) : nat := length (filter (ekind_eqb k) l).")
    out.append("")
    # ---- default tolerance
    dt = None
    for st in tol.body:
        if isinstance(st, ast.Assign) and ast.unparse(st.targets[0]) == "_DEFAULT_TOLERANCE" and isinstance(st.value, ast.Dict):
            for k, v in zip(st.value.keys, st.value.values):
                if isinstance(k, ast.Constant) and k.value == "eigenvalue":
                    dt = ast.literal_eval(v)
    if dt is None:
        raise TranslatorError("_DEFAULT_TOLERANCE['eigenvalue'] not found")
    out.append(f"Definition default_eigenvalue_tolerance : Q := {_q_const(dt)}.")
    out.append("")
    # ---- the three predicates nested in Solution.from_system
    solution = _find(sol.body, "Solution", ast.ClassDef)
    from_system = _find(solution.body, "from_system")
    for nm in ("is_alpha_beta_stable_or_unit_root", "is_stable_root", "is_unit_root"):
        out.append(_predicate(_find(from_system.body, nm), ["tolerance"]))
    out.append("")
    # call sites inside from_system
    src_fs = ast.unparse(from_system)
    needed = [
        "_solve_ordqz(system, is_alpha_beta_stable_or_unit_root)",
        "self._classify_eigenvalues_stability(is_stable_root, is_unit_root)",
        "self._classify_system_stability(descriptor.get_num_forwards())",
        "detach_stable_from_unit_roots(triangular_solution_prelim, is_unit_root, clip=clip)",
        "_solve_transition_equations(descriptor, system, qz_matrixes)",
        "_square_from_triangular(triangular_solution)",
        "(self.Ua, self.Ta, self.Pa, self.Ka, self.Xa, self.J, self.Ru) = triangular_solution",
        "(self.T, self.P, self.K, self.X) = square_solution",
    ]
    for s in needed:
        if _norm(s) not in src_fs:
            raise TranslatorError(f"Solution.from_system: expected `{s}`")
    # ---- _classify_eigenvalue_stability
    fn = _find(sol.body, "_classify_eigenvalue_stability")
    params = [a.arg for a in fn.args.args]
    if params != ["eigenvalue", "is_stable_root", "is_unit_root"]:
        raise TranslatorError(f"_classify_eigenvalue_stability: parameters {params}")
    body = _strip_doc(fn)
    st0 = body[0]
    if not (isinstance(st0, ast.Assign) and ast.unparse(st0.targets[0]) == "abs_eigenvalue"):
        raise TranslatorError("_classify_eigenvalue_stability: first statement")
    env = {"eigenvalue": "eigenvalue"}
    let0 = f"let abs_eigenvalue := {q_expr(st0.value, env, fn.name)} in"

    def cond_e(t):
        if isinstance(t, ast.Call) and isinstance(t.func, ast.Name) and t.func.id in ("is_stable_root", "is_unit_root") \
                and len(t.args) == 1 and ast.unparse(t.args[0]) == "abs_eigenvalue":
            return f"{t.func.id} abs_eigenvalue"
        raise TranslatorError(f"_classify_eigenvalue_stability: unsupported test {ast.unparse(t)}")
    chain = _if_chain(body[1:], env, fn.name, cond_e, lambda v: "E_" + _enum_member(v, "EigenvalueKind", fn.name))
    out.append("Definition classify_eigenvalue_stability (is_stable_root is_unit_root : Q -> bool) (eigenvalue : Q) : ekind :=\n"
               f"  {let0}\n  {chain}.")
    out.append("")
    # _classify_eigenvalues_stability: map over self.eigenvalues
    fn = _find(solution.body, "_classify_eigenvalues_stability")
    want = "self.eigenvalues_stability = tuple((_classify_eigenvalue_stability(v, is_stable_root, is_unit_root) for v in self.eigenvalues))"
    if ast.unparse(_strip_doc(fn)[0]) != _norm(want):
        raise TranslatorError("Solution._classify_eigenvalues_stability changed: " + ast.unparse(_strip_doc(fn)[0]))
    out.append("Definition classify_eigenvalues_stability (tolerance : Q) (eigenvalues : list Q) : list ekind :=\n"
               "  map (classify_eigenvalue_stability (is_stable_root tolerance) (is_unit_root tolerance)) eigenvalues.")
    out.append("")
    # ---- _classify_system_stability
    fn = _find(solution.body, "_classify_system_stability")
    body = _strip_doc(fn)
    if ast.unparse(body[0]) != "num_unstable = self.eigenvalues_stability.count(EigenvalueKind.UNSTABLE)":
        raise TranslatorError("_classify_system_stability: " + ast.unparse(body[0]))

    def nat_arith(n, env, where):
        if isinstance(n, ast.Name) and n.id in env:
            return env[n.id]
        raise TranslatorError(f"{where}: unsupported operand {ast.unparse(n)}")
    envn = {"num_unstable": "num_unstable", "num_forwards": "num_forwards"}
    chain = _if_chain(body[1:], envn, fn.name, lambda t: bool_expr(t, envn, fn.name, nat_arith, CMP_N),
                      lambda v: "S_" + _enum_member(v, "SystemStabilityKind", fn.name))
    out.append("Definition classify_system_stability (eigenvalues_stability : list ekind) (num_forwards : nat) : skind :=\n"
               "  let num_unstable := count_kind E_UNSTABLE eigenvalues_stability in\n"
               f"  {chain}.")
    out.append("")
    # ---- _solve_transition_equations cuts at num_stable = num_backwards; eigenvalues = -beta/alpha
    ste = ast.unparse(_find(sol.body, "_solve_transition_equations"))
    for s in ("num_backwards = descriptor.get_num_backwards()", "num_forwards = descriptor.get_num_forwards()",
              "num_stable = num_backwards"):
        if _norm(s) not in ste:
            raise TranslatorError(f"_solve_transition_equations: expected `{s}`")
    oq = ast.unparse(_find(sol.body, "_solve_ordqz"))
    for s in ("_sp.linalg.ordqz(system.A, system.B, sort=is_alpha_beta_stable_or_unit_root)", "Q = Q.T",
              "eigenvalues = tuple((complex(i) for i in -beta / alpha))"):
        if _norm(s) not in oq:
            raise TranslatorError(f"_solve_ordqz: expected `{s}`")
    # ---- _solve_measurement_equations: the statements modelled by model/Ford.v solve_measurement, literally
    #      (G = columns after the leads; Z, H, D = -F \ (G, J, H~) with F itself -- not its transpose --; Za = Z Ua)
    sme = [ast.unparse(x) for x in _strip_doc(_find(sol.body, "_solve_measurement_equations"))]
    want = ["num_forwards = descriptor.get_num_forwards()", "G = system.G[:, num_forwards:]",
            "Z = left_div(-system.F, G)", "H = left_div(-system.F, system.J)", "D = left_div(-system.F, system.H)",
            "Z = clip(Z) if clip is not None else Z", "Za = Z @ Ua", "return (Z, H, D, Za)"]
    if sme != [_norm(w) for w in want]:
        raise TranslatorError("_solve_measurement_equations: statements differ from the modelled ones "
                              f"(model/Ford.v solve_measurement): {sme}")
    ld = [ast.unparse(x) for x in _strip_doc(_find(sol.body, "left_div"))]
    if ld != [_norm("return _np.linalg.lstsq(A, B, rcond=None)[0]")]:
        raise TranslatorError(f"left_div: expected the least-squares solve of A X = B (modelled as inv(A) @ B), found {ld}")
    # ---- token-level scalar rules
    fn = _find(desc.body, "_get_num_forwards")
    ret = _strip_doc(fn)[-1]
    ok = (isinstance(ret, ast.Return) and isinstance(ret.value, ast.Call) and ast.unparse(ret.value.func) == "sum"
          and isinstance(ret.value.args[0], ast.GeneratorExp))
    if not ok:
        raise TranslatorError("_get_num_forwards: unexpected shape")
    ge = ret.value.args[0]
    if ast.unparse(ge.elt) != "1" or len(ge.generators) != 1 or len(ge.generators[0].ifs) != 1:
        raise TranslatorError("_get_num_forwards: unexpected generator")
    var = ge.generators[0].target.id
    test = bool_expr(ge.generators[0].ifs[0], {f"{var}.shift": "shift"}, fn.name, z_expr, CMP_Z)
    out.append(f"Definition is_forward_shift (shift : Z) : bool := {test}.")
    fn = _find(desc.body, "_get_num_backwards")
    if ast.unparse(_strip_doc(fn)[-1]) != "return len(system_transition_vector) - _get_num_forwards(system_transition_vector)":
        raise TranslatorError("_get_num_backwards changed")
    fn = _find(desc.body, "_solution_vector_from_system_vector")
    s = ast.unparse(fn)
    if "tuple(system_transition_vector[num_forwards:])" not in s or "tuple(true_initials[num_forwards:])" not in s:
        raise TranslatorError("_solution_vector_from_system_vector changed")
    # sort key
    fn = _find(inc.body, "sort_tokens")
    ret = _strip_doc(fn)[-1]
    if not (isinstance(ret, ast.Return) and isinstance(ret.value, ast.Call) and ast.unparse(ret.value.func) == "sorted"
            and len(ret.value.keywords) == 1 and ret.value.keywords[0].arg == "key"
            and isinstance(ret.value.keywords[0].value, ast.Lambda)):
        raise TranslatorError("sort_tokens: unexpected shape")
    lam = ret.value.keywords[0].value
    v = lam.args.args[0].arg
    if not (isinstance(lam.body, ast.Tuple) and len(lam.body.elts) == 2):
        raise TranslatorError("sort_tokens: key is not a pair")
    envk = {f"{v}.shift": "shift", f"{v}.qid": "(Z.of_nat qid)"}
    out.append(f"Definition token_sort_key (qid : nat) (shift : Z) : Z * Z := "
               f"({z_expr(lam.body.elts[0], envk, 'sort_tokens')}, {z_expr(lam.body.elts[1], envk, 'sort_tokens')}).")
    # floor of the minimum shift and range of the system vector
    fn = _find(desc.body, "_create_system_transition_vector")
    s = ast.unparse(fn)
    for need in ("min_shifts = _incidence.get_some_shift_by_quantities(transition_variable_tokens, lambda x: min(min(x), -1))",
                 "max_shifts = _incidence.get_some_shift_by_quantities(transition_variable_tokens, max)",
                 "[Token(qid, sh) for sh in range(min_shifts[qid] + 1, max_shifts[qid] + 1)]"):
        if _norm(need) not in s:
            raise TranslatorError(f"_create_system_transition_vector: expected `{need}`")
    out.append("Definition system_min_shift_floor (m : Z) : Z := Z.min m (-1)%Z.")
    out.append("Definition system_range_lo (min_shift : Z) : Z := (min_shift + 1)%Z.")
    out.append("Definition system_range_hi (max_shift : Z) : Z := (max_shift + 1)%Z.   (* exclusive *)")
    # true initials
    cls = _find(desc.body, "SystemVectors", ast.ClassDef)
    fn = _find(cls.body, "populate_true_initials")
    inner = _find(fn.body, "is_true_initial")
    b = _strip_doc(inner)
    if [ast.unparse(x) for x in b[:2]] != ["shift = token.shift - 1", "min_shift = actual_min_shifts[token.qid]"]:
        raise TranslatorError("is_true_initial: statements changed")
    envt = {"token.shift": "token_shift", "min_shift": "min_shift"}
    envt["shift"] = z_expr(b[0].value, envt, "is_true_initial")
    if not isinstance(b[2], ast.Return):
        raise TranslatorError("is_true_initial: no return")
    out.append(f"Definition is_true_initial (min_shift token_shift : Z) : bool := "
               f"{bool_expr(b[2].value, envt, 'is_true_initial', z_expr, CMP_Z)}.")
    if "actual_min_shifts = _incidence.get_some_shift_by_quantities(actual_transition_variable_tokens, min)" not in ast.unparse(fn):
        raise TranslatorError("populate_true_initials: actual_min_shifts changed")
    # pretend lag of measurement equations
    fn = _find(desc.body, "_adjust_for_measurement_equations")
    s = ast.unparse(fn)
    if _norm("[Token(t.qid, t.shift - 1) for t in tokens_in_measurement_equations if qid_to_kind[t.qid] in QuantityKind.TRANSITION_VARIABLE]") not in s:
        raise TranslatorError("_adjust_for_measurement_equations changed")
    out.append("Definition measurement_pretend_shift (shift : Z) : Z := (shift - 1)%Z.")
    # dynid
    fn = _find(desc.body, "_create_dynid_matrices")
    s = ast.unparse(fn)
    for need in ("max_shifts = _incidence.get_some_shift_by_quantities(system_transition_vector, max)",
                 "t.shift == max_shifts[t.qid]",
                 "j = system_transition_vector.index(t.shifted(+1))",
                 "index_A[1].append(i)", "index_B[1].append(j)",
                 "index_A[0].append(row_count)", "index_B[0].append(row_count)"):
        if _norm(need) not in s:
            raise TranslatorError(f"_create_dynid_matrices: expected `{need}`")
    vals = {}
    for st in ast.walk(fn):
        if isinstance(st, ast.Assign) and isinstance(st.targets[0], ast.Subscript):
            t = ast.unparse(st.targets[0])
            if t in ("dynid_A[index_A]", "dynid_B[index_B]"):
                vals[t[:7]] = ast.literal_eval(st.value)
    if set(vals) != {"dynid_A", "dynid_B"}:
        raise TranslatorError("_create_dynid_matrices: assignments to dynid_A/dynid_B not found")
    out.append(f"Definition dynid_A_entry : Z := ({int(vals['dynid_A'])})%Z.")
    out.append(f"Definition dynid_B_entry : Z := ({int(vals['dynid_B'])})%Z.")
    out.append("Definition dynid_next_shift (shift : Z) : Z := (shift + 1)%Z.")
    # Token.shifted
    tok = _find(inc.body, "Token", ast.ClassDef)
    sh = _find(tok.body, "shifted")
    if ast.unparse(_strip_doc(sh)[-1]) != "return Token(self.qid, self.shift + by)":
        raise TranslatorError("Token.shifted changed")
    return "\n".join(out) + "\n"


def run():
    text = generate()
    core.write_if_changed(core.COQ / OUT, text)
