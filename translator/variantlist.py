"""has_variants.py (Mixin.num_variants / alter_num_variants / shrink_num_variants / expand_num_variants),
simultaneous/_variants.py (Variant.copy), simultaneous/_assigns.py (the per-variant loop of _assign)
->  coq/gen/VariantListGen.v

Regenerated on every run (fail closed).  The way `expand_num_variants` fills the list of variants is translated into a
statement of the small language of lib/VarStmt.v:

    for i in range(self.num_variants, new_num): self._variants.append(<elem>)          ->  SForAppend <elem>
    self._variants.extend(<elem> for _ in range(<count>))  /  += [<elem> for ...]        ->  SForAppend <elem>
    self._variants += [<elem>] * <count>   /  .extend([<elem>] * <count>)                 ->  SExtendRepeat <elem>
    <elem>:  self._variants[-1].copy() | copy.deepcopy(self._variants[-1])               ->  ECopyLast
             self._variants[-1]                                                          ->  ELast
    <count>: new_num - self.num_variants  (directly or through one local name)

model/VariantList.v executes the generated statement on an object store; proofs/VariantListProofs.v proves that the
generated statement never puts one object into the list twice (`alias_free expand_stmt = true` by computation, then by
induction over every history of alter_num_variants / assign calls).  Everything else on the path is required to be
literally the code the model was written against."""
from __future__ import annotations

import ast

from vf import core
from vf.core import TranslatorError

OUT = "gen/VariantListGen.v"
HAS = "irispie/has_variants.py"
VAR = "irispie/simultaneous/_variants.py"
ASG = "irispie/simultaneous/_assigns.py"


def _norm(s: str) -> str:
    return ast.unparse(ast.parse(s))


def _cmt(s: str) -> str:
    """source text inside a Coq comment"""
    return " ".join(s.split()).replace("(*", "( *").replace("*)", "* )")


def _strip_doc(body):
    b = list(body)
    while b and isinstance(b[0], ast.Expr) and isinstance(b[0].value, ast.Constant) and isinstance(b[0].value.value, str):
        b = b[1:]
    return b


def _method(cls: ast.ClassDef, name: str) -> ast.FunctionDef:
    for n in cls.body:
        if isinstance(n, ast.FunctionDef) and n.name == name:
            return n
    raise TranslatorError(f"{cls.name}.{name} not found")


def _klass(tree, name) -> ast.ClassDef:
    for n in tree.body:
        if isinstance(n, ast.ClassDef) and n.name == name:
            return n
    raise TranslatorError(f"class {name} not found")


def _body_text(fn) -> str:
    return "\n".join(ast.unparse(s) for s in _strip_doc(fn.body))


def _elem(n: ast.AST, where: str) -> str:
    s = ast.unparse(n)
    if s == "self._variants[-1].copy()":
        return "ECopyLast"
    if s in ("_cp.deepcopy(self._variants[-1])", "copy.deepcopy(self._variants[-1])", "_co.deepcopy(self._variants[-1])"):
        return "ECopyLast"
    if s == "self._variants[-1]":
        return "ELast"
    raise TranslatorError(f"{where}: unsupported new list element {s}")


COUNT = _norm("new_num - self.num_variants")


def _single_elem(n: ast.AST, where: str) -> ast.AST:
    if isinstance(n, (ast.List, ast.Tuple)) and len(n.elts) == 1:
        return n.elts[0]
    raise TranslatorError(f"{where}: expected a one-element list, got {ast.unparse(n)}")


def _expand_stmt(stmts, where: str) -> str:
    env = {}
    stmts = list(stmts)
    while len(stmts) > 1 and isinstance(stmts[0], ast.Assign) and len(stmts[0].targets) == 1 \
            and isinstance(stmts[0].targets[0], ast.Name):
        env[stmts[0].targets[0].id] = ast.unparse(stmts[0].value)
        stmts = stmts[1:]
    if len(stmts) != 1:
        raise TranslatorError(f"{where}: expected one list-filling statement, got {len(stmts)}")
    st = stmts[0]

    def is_count(n):
        s = ast.unparse(n)
        return s == COUNT or env.get(s) == COUNT

    def is_range(n):
        if not (isinstance(n, ast.Call) and ast.unparse(n.func) == "range" and not n.keywords):
            return False
        a = [ast.unparse(x) for x in n.args]
        return a == ["self.num_variants", "new_num"] or (len(n.args) == 1 and is_count(n.args[0]))

    def seq_expr(n):
        """the iterable appended to the list"""
        if isinstance(n, ast.BinOp) and isinstance(n.op, ast.Mult):
            if is_count(n.right):
                return f"SExtendRepeat {_elem(_single_elem(n.left, where), where)}"
            if is_count(n.left):
                return f"SExtendRepeat {_elem(_single_elem(n.right, where), where)}"
        if isinstance(n, (ast.ListComp, ast.GeneratorExp)) and len(n.generators) == 1 and not n.generators[0].ifs \
                and is_range(n.generators[0].iter):
            return f"SForAppend {_elem(n.elt, where)}"
        raise TranslatorError(f"{where}: unsupported sequence of new variants {ast.unparse(n)}")
    # for i in range(self.num_variants, new_num): self._variants.append(elem)
    if isinstance(st, ast.For) and not st.orelse and is_range(st.iter) and len(st.body) == 1:
        b = st.body[0]
        if isinstance(b, ast.Expr) and isinstance(b.value, ast.Call) and ast.unparse(b.value.func) == "self._variants.append" \
                and len(b.value.args) == 1 and not b.value.keywords:
            return f"SForAppend {_elem(b.value.args[0], where)}"
    # self._variants += seq
    if isinstance(st, ast.AugAssign) and isinstance(st.op, ast.Add) and ast.unparse(st.target) == "self._variants":
        return seq_expr(st.value)
    # self._variants.extend(seq)
    if isinstance(st, ast.Expr) and isinstance(st.value, ast.Call) and ast.unparse(st.value.func) == "self._variants.extend" \
            and len(st.value.args) == 1 and not st.value.keywords:
        return seq_expr(st.value.args[0])
    # self._variants = self._variants + seq
    if isinstance(st, ast.Assign) and len(st.targets) == 1 and ast.unparse(st.targets[0]) == "self._variants" \
            and isinstance(st.value, ast.BinOp) and isinstance(st.value.op, ast.Add) \
            and ast.unparse(st.value.left) == "self._variants":
        return seq_expr(st.value.right)
    raise TranslatorError(f"{where}: unsupported statement {ast.unparse(st)}")


GUARD = _norm("if new_num < 1:\n    raise Exception('Number of variants must be one or more')")
NUM_VARIANTS = _norm("return len(self._variants)")
ALTER = _norm("if new_num < self.num_variants:\n    self.shrink_num_variants(new_num)\n"
              "elif new_num > self.num_variants:\n    self.expand_num_variants(new_num)")
SHRINK = GUARD + "\n" + _norm("self._variants = self._variants[0:new_num] if new_num < self.num_variants else self._variants")
COPY = _norm("new = type(self)()\nfor i in ('levels', 'changes', 'solution'):\n    attr = getattr(self, i)\n"
             "    if attr is not None:\n        setattr(new, i, attr.copy())\nreturn new")
ASSIGN_LOOP = _norm("for variant, values in zip(self._variants, qid_to_custom_values_iter):\n"
                    "    variant.update_values_from_dict(values)\n    self._enforce_assignment_rules(variant)")


def generate() -> str:
    has = ast.parse((core.SRC / HAS).read_text())
    mixin = _klass(has, "Mixin")
    if _body_text(_method(mixin, "num_variants")) != NUM_VARIANTS:
        raise TranslatorError("Mixin.num_variants is not len(self._variants)")
    if _body_text(_method(mixin, "alter_num_variants")) != ALTER:
        raise TranslatorError("Mixin.alter_num_variants: body outside the modelled shape")
    if _body_text(_method(mixin, "shrink_num_variants")) != SHRINK:
        raise TranslatorError("Mixin.shrink_num_variants: body outside the modelled shape")
    ex = _strip_doc(_method(mixin, "expand_num_variants").body)
    if not ex or ast.unparse(ex[0]) != GUARD:
        raise TranslatorError("Mixin.expand_num_variants: the guard new_num < 1 is missing")
    stmt = _expand_stmt(ex[1:], "Mixin.expand_num_variants")
    variant = _klass(ast.parse((core.SRC / VAR).read_text()), "Variant")
    if _body_text(_method(variant, "copy")) != COPY:
        raise TranslatorError("Variant.copy: body outside the modelled shape (a new object, every attribute copied)")
    asg = ast.parse((core.SRC / ASG).read_text())
    loops = [ast.unparse(n) for n in ast.walk(asg) if isinstance(n, ast.For)]
    if ASSIGN_LOOP not in loops:
        raise TranslatorError("_assigns.py: the per-variant loop of _assign is outside the modelled shape")
    src_text = " ; ".join(ast.unparse(s) for s in ex[1:])
    return "\n".join([
        f"(* GENERATED by /verif/translator/variantlist.py from src/{HAS}, src/{VAR}, src/{ASG} -- do not edit *)",
        "From Verif Require Import lib.VarStmt.",
        "",
        f"(* expand_num_variants: {_cmt(src_text)} *)",
        f"Definition expand_stmt : vstmt := {stmt}.",
        "",
        "(* shrink_num_variants: self._variants = self._variants[0:new_num] *)",
        "Definition shrink_stmt : vshrink := SPrefix.",
        ""]) + "\n"


def run():
    core.write_if_changed(core.COQ / OUT, generate())
