"""Fail-closed translation of the formula fragments of the reduced-form VAR estimator to Gallina
(coq/gen/RedVarGen.v).  The model (coq/model/RedVar.v) is DEFINED in terms of these fragments, so an edit
of a formula in /repo changes the model and the theorems are re-checked against what the code says now.

Translated on every run:
  fords/least_squares.py::ordinary_least_squares        -> gen_ols            (matrix interface lib/MxC18.v)
  fords/covariances.py::symmetrize                      -> gen_symmetrize
  red_vars/_estimators.py::_estimate_variant            -> gen_residuals, gen_cov_residuals, gen_dof_subtrahend,
                                                           gen_split_* (column ranges of A, B, c inside beta)
  red_vars/_dimensions.py::Dimensions                   -> field order, num_nonendogenous, num_lagged_endogenous, num_rhs
  red_vars/prior_obs.py::{Minnesota,Mean}PriorObs.get_num_obs -> gen_minnesota_num_obs, gen_mean_num_obs
  red_vars/_slatable_protocols.py::_DEFAULT_RESIDUAL_VALUE    -> gen_default_residual_is_zero
  red_vars/_variants.py::Variant._populate_eigenvalues, is_stable -> gen_max_abs_eigenvalue, gen_reported_eigenvalues,
                                                           gen_is_stable (typed: numpy.abs / numpy.max on complex / real
                                                           arrays and scalars); the bodies of the caching properties, of
                                                           _number_from_numpy / _tuple_from_flat_array and of
                                                           RedVAR.get_stability / get_max_abs_eigenvalue / get_eigenvalues
                                                           must have the modelled text

Accepted subset: names bound to parameters, `@`, `.T`, `+`, `-`, `/` by a scalar name or the literal 2,
`_np.linalg.solve(a, b)`, `name[:, where]` (a pre-selected parameter), `c.reshape((-1, 1))` (the broadcast
intercept column, a parameter); over naturals: `+`, `*`, `int(bool)`, `a if b else c`, non-negative literals,
attribute access on `self` / `dims` / `dimensions`.  Anything else raises TranslatorError."""
from __future__ import annotations

import ast

from vf import core
from vf.core import TranslatorError
from .pyexpr import find_class, find_func, strip_doc

OUT = "gen/RedVarGen.v"
SRC = core.SRC / "irispie"
DIM_FIELDS = ("num_endogenous", "order", "has_intercept", "num_exogenous")
DIM_BINDERS = "(num_endogenous order : nat) (has_intercept : bool) (num_exogenous : nat)"
DIM_ARGS = "num_endogenous order has_intercept num_exogenous"
DIM_OWNERS = ("self", "dims", "dimensions")


def _parse(rel: str) -> ast.Module:
    p = SRC / rel
    try:
        return ast.parse(p.read_text())
    except (OSError, SyntaxError) as e:
        raise TranslatorError(f"{rel}: cannot parse ({e})")


# ------------------------------------------------------------------ naturals / booleans

def nexpr(node: ast.AST, env: dict, props: dict, where: str) -> str:
    """Python int expression -> Gallina nat.  env: local names; props: Dimensions attributes."""
    if isinstance(node, ast.Constant) and isinstance(node.value, int) and not isinstance(node.value, bool) and node.value >= 0:
        return str(node.value)
    if isinstance(node, ast.Name):
        if node.id in env:
            return env[node.id]
        raise TranslatorError(f"{where}: unbound name {node.id}")
    if isinstance(node, ast.Attribute) and isinstance(node.value, ast.Name) and node.value.id in DIM_OWNERS:
        if node.attr in props:
            return props[node.attr]
        raise TranslatorError(f"{where}: unknown Dimensions attribute {node.attr}")
    if isinstance(node, ast.BinOp) and isinstance(node.op, (ast.Add, ast.Mult)):
        op = "+" if isinstance(node.op, ast.Add) else "*"
        return f"({nexpr(node.left, env, props, where)} {op} {nexpr(node.right, env, props, where)})"
    if (isinstance(node, ast.Call) and isinstance(node.func, ast.Name) and node.func.id == "int"
            and len(node.args) == 1 and not node.keywords):
        return f"(Nat.b2n {bexpr(node.args[0], env, props, where)})"
    if isinstance(node, ast.IfExp):
        return (f"(if {bexpr(node.test, env, props, where)} then {nexpr(node.body, env, props, where)} "
                f"else {nexpr(node.orelse, env, props, where)})")
    raise TranslatorError(f"{where}: unsupported integer expression {ast.unparse(node)}")


def bexpr(node: ast.AST, env: dict, props: dict, where: str) -> str:
    if isinstance(node, ast.Name) and node.id in env:
        return env[node.id]
    if isinstance(node, ast.Attribute) and isinstance(node.value, ast.Name) and node.value.id in DIM_OWNERS \
            and node.attr == "has_intercept":
        return "has_intercept"
    raise TranslatorError(f"{where}: unsupported boolean expression {ast.unparse(node)}")


def _single_return(fn: ast.FunctionDef, where: str) -> ast.AST:
    body = strip_doc(fn)
    if len(body) != 1 or not isinstance(body[0], ast.Return) or body[0].value is None:
        raise TranslatorError(f"{where}: expected a single return statement")
    return body[0].value


def dimensions_fragments() -> tuple[list[str], dict]:
    tree = _parse("red_vars/_dimensions.py")
    cls = find_class(tree, "Dimensions")
    fields = [st.target.id for st in cls.body if isinstance(st, ast.AnnAssign) and isinstance(st.target, ast.Name)]
    if tuple(fields) != DIM_FIELDS:
        raise TranslatorError(f"Dimensions fields are {fields}, the model expects {list(DIM_FIELDS)}")
    props = {f: f for f in DIM_FIELDS}
    lines = ["(* red_vars/_dimensions.py::Dimensions *)",
             "Definition gen_dimension_fields : list string := ["
             + "; ".join(f'"{f}"' for f in fields) + "]%string."]
    for name in ("num_nonendogenous", "num_lagged_endogenous", "num_rhs"):
        fn = find_func(cls.body, name)
        body = nexpr(_single_return(fn, f"Dimensions.{name}"), {}, props, f"Dimensions.{name}")
        lines.append(f"Definition gen_{name} {DIM_BINDERS} : nat :=\n  {body}.")
        props[name] = f"(gen_{name} {DIM_ARGS})"
    return lines, props


def prior_fragments(props: dict) -> list[str]:
    tree = _parse("red_vars/prior_obs.py")
    lines = ["(* red_vars/prior_obs.py::get_num_obs *)"]
    for cls_name, gen in (("MinnesotaPriorObs", "gen_minnesota_num_obs"), ("MeanPriorObs", "gen_mean_num_obs")):
        fn = find_func(find_class(tree, cls_name).body, "get_num_obs")
        env = {}
        ret = None
        for st in strip_doc(fn):
            src = ast.unparse(st)
            if src == "dims = Dimensions(*dimensions)":
                continue
            if (isinstance(st, ast.Assign) and len(st.targets) == 1 and isinstance(st.targets[0], ast.Tuple)
                    and isinstance(st.value, ast.Tuple) and len(st.targets[0].elts) == len(st.value.elts)):
                for t, v in zip(st.targets[0].elts, st.value.elts):      # a, b, = dims.a, dims.b,
                    if not isinstance(t, ast.Name):
                        raise TranslatorError(f"{cls_name}.get_num_obs: unsupported target {src}")
                    env[t.id] = nexpr(v, env, props, f"{cls_name}.get_num_obs") if not (
                        isinstance(v, ast.Attribute) and v.attr == "has_intercept") else "has_intercept"
                continue
            if isinstance(st, ast.Return) and st.value is not None:
                ret = nexpr(st.value, env, props, f"{cls_name}.get_num_obs")
                continue
            raise TranslatorError(f"{cls_name}.get_num_obs: unsupported statement {src}")
        if ret is None:
            raise TranslatorError(f"{cls_name}.get_num_obs: no return")
        lines.append(f"Definition {gen} {DIM_BINDERS} : nat :=\n  {ret}.")
    return lines


# ------------------------------------------------------------------ matrices

def mexpr(node: ast.AST, env: dict, where: str) -> str:
    """Python/numpy matrix expression -> term over the MatOps record M."""
    if isinstance(node, ast.Name):
        if node.id in env:
            return env[node.id]
        raise TranslatorError(f"{where}: unbound name {node.id}")
    if isinstance(node, ast.Attribute) and node.attr == "T":
        return f"(mtr {mexpr(node.value, env, where)})"
    if isinstance(node, ast.BinOp):
        if isinstance(node.op, ast.MatMult):
            return f"(mmul {mexpr(node.left, env, where)} {mexpr(node.right, env, where)})"
        if isinstance(node.op, ast.Add):
            return f"(madd {mexpr(node.left, env, where)} {mexpr(node.right, env, where)})"
        if isinstance(node.op, ast.Sub):
            return f"(msub {mexpr(node.left, env, where)} {mexpr(node.right, env, where)})"
        if isinstance(node.op, ast.Div):
            r = node.right
            if isinstance(r, ast.Constant) and r.value == 2 and not isinstance(r.value, bool):
                return f"(mscale (sc_inv M (sc_of_nat M 2)) {mexpr(node.left, env, where)})"
            if isinstance(r, ast.Name) and r.id in env and env[r.id].startswith("sc:"):
                return f"(mscale (sc_inv M {env[r.id][3:]}) {mexpr(node.left, env, where)})"
            raise TranslatorError(f"{where}: unsupported divisor {ast.unparse(r)}")
    if isinstance(node, ast.Subscript):
        key = ast.unparse(node)
        if key in env:
            return env[key]
        raise TranslatorError(f"{where}: unsupported subscript {key}")
    if isinstance(node, ast.Call):
        key = ast.unparse(node)
        if key in env:
            return env[key]
        f = node.func
        if ast.unparse(f) in ("_np.linalg.solve", "np.linalg.solve", "numpy.linalg.solve") and len(node.args) == 2 \
                and not node.keywords:
            return f"(msolve {mexpr(node.args[0], env, where)} {mexpr(node.args[1], env, where)})"
    raise TranslatorError(f"{where}: unsupported matrix expression {ast.unparse(node)}")


def ols_fragment() -> list[str]:
    tree = _parse("fords/least_squares.py")
    fn = find_func(tree.body, "ordinary_least_squares")
    params = [a.arg for a in fn.args.args]
    if params != ["lhs", "rhs"] or fn.args.kwonlyargs or fn.args.vararg or fn.args.kwarg:
        raise TranslatorError(f"ordinary_least_squares: parameters {params}")
    env = {"lhs": "lhs", "rhs": "rhs"}
    lets = []
    ret = None
    for st in strip_doc(fn):
        if isinstance(st, ast.Assign) and len(st.targets) == 1 and isinstance(st.targets[0], ast.Name):
            nm = st.targets[0].id
            lets.append(f"  let {nm} := {mexpr(st.value, env, 'ordinary_least_squares')} in")
            env[nm] = nm
        elif isinstance(st, ast.Return) and st.value is not None and ret is None:
            ret = mexpr(st.value, env, "ordinary_least_squares")
        else:
            raise TranslatorError(f"ordinary_least_squares: unsupported statement {ast.unparse(st)}")
    if ret is None:
        raise TranslatorError("ordinary_least_squares: no return")
    return ["(* fords/least_squares.py::ordinary_least_squares *)",
            "Definition gen_ols {n r N : nat} (lhs : mx M n N) (rhs : mx M r N) : mx M n r :=\n"
            + "\n".join(lets) + ("\n" if lets else "") + f"  {ret}."]


def symmetrize_fragment() -> list[str]:
    tree = _parse("fords/covariances.py")
    fn = find_func(tree.body, "symmetrize")
    if [a.arg for a in fn.args.args] != ["X"]:
        raise TranslatorError("symmetrize: parameters")
    body = mexpr(_single_return(fn, "symmetrize"), {"X": "X"}, "symmetrize")
    return ["(* fords/covariances.py::symmetrize *)",
            f"Definition gen_symmetrize {{n : nat}} (X : mx M n n) : mx M n n :=\n  {body}."]


def estimator_fragments(props: dict) -> tuple[list[str], list[str]]:
    """Returns (nat-level lines, matrix-level lines) from _estimate_variant."""
    tree = _parse("red_vars/_estimators.py")
    fn = find_func(tree.body, "_estimate_variant")
    where = "_estimate_variant"
    stmts = strip_doc(fn)
    assigns: dict[str, list] = {}
    flat = []
    for st in stmts:
        flat.append(st)
        if isinstance(st, ast.If):
            flat.extend(st.body)
            flat.extend(st.orelse)
    for st in flat:
        if isinstance(st, ast.Assign) and len(st.targets) == 1 and isinstance(st.targets[0], ast.Name):
            assigns.setdefault(st.targets[0].id, []).append(st)

    def only(name):
        got = assigns.get(name, [])
        if len(got) != 1:
            raise TranslatorError(f"{where}: expected exactly one assignment to {name}, found {len(got)}")
        return got[0].value

    # --- degrees of freedom
    nat_env = {}
    for nm in ("num_rhs", "num_lagged_endogenous", "num_endogenous", "order"):
        nat_env[nm] = nexpr(only(nm), {}, props, f"{where}: {nm}")
    npc = only("num_periods_corrected")
    if not (isinstance(npc, ast.BinOp) and isinstance(npc.op, ast.Sub) and isinstance(npc.left, ast.Name)
            and npc.left.id == "num_periods_fitted"):
        raise TranslatorError(f"{where}: num_periods_corrected is not `num_periods_fitted - ...`: {ast.unparse(npc)}")
    sub = nexpr(npc.right, dict(nat_env, dof_correction="dof_correction"), props, f"{where}: num_periods_corrected")
    if ast.unparse(only("num_periods_fitted")) != "int(where.sum())":
        raise TranslatorError(f"{where}: num_periods_fitted is not int(where.sum())")
    nat_lines = ["(* red_vars/_estimators.py::_estimate_variant, degrees of freedom:",
                 f"   num_periods_corrected = num_periods_fitted - {ast.unparse(npc.right)} *)",
                 f"Definition gen_dof_subtrahend {DIM_BINDERS} (dof_correction : bool) : nat :=\n  {sub}."]
    # --- split of beta: A = beta[:, :nl], B = beta[:, nl:-1] / beta[:, nl:], c = beta[:, -1] / None
    got = {nm: sorted(ast.unparse(s.value) for s in assigns.get(nm, [])) for nm in ("A", "B", "c")}
    want = {"A": ["beta[:, :num_lagged_endogenous]"],
            "B": ["beta[:, num_lagged_endogenous:-1]", "beta[:, num_lagged_endogenous:]"],
            "c": ["None", "beta[:, -1]"]}
    if got != want:
        raise TranslatorError(f"{where}: split of beta into A, B, c is {got}, the model expects {want}")
    has_if = [st for st in stmts if isinstance(st, ast.If) and ast.unparse(st.test) == "has_intercept"
              and any(isinstance(b, ast.Assign) and ast.unparse(b.targets[0]) == "c" for b in st.body)]
    if len(has_if) != 1 or ast.unparse(has_if[0].body[1].value if len(has_if[0].body) > 1 else has_if[0].body[0].value) \
            not in ("beta[:, -1]",):
        raise TranslatorError(f"{where}: the intercept is not taken from the last column under `if has_intercept`")
    nat_lines += ["(* columns of beta: A = beta[:, :a_end], B = beta[:, a_end : a_end + num_exogenous], c = the last column *)",
                  f"Definition gen_split_a_end {DIM_BINDERS} : nat :=\n  {nat_env['num_lagged_endogenous']}."]
    # --- estimation inputs and the OLS call
    checks = {"lhs_est": "y0[:, where]", "rhs_est": "_np.vstack([y1, x, k])[:, where]",
              "beta": "_least_squares.ordinary_least_squares(lhs_est, rhs_est)"}
    for nm, txt in checks.items():
        srcs = [ast.unparse(s.value) for s in assigns.get(nm, [])]
        if not srcs or srcs[0] != txt:
            raise TranslatorError(f"{where}: {nm} = {srcs[:1]}, the model expects {txt}")
    extra = [s for s in (ast.unparse(s.value) for s in assigns.get("lhs_est", [])[1:])]
    if extra not in ([], ["_np.hstack([lhs_est, lhs_dummy])"]):
        raise TranslatorError(f"{where}: unexpected re-assignment of lhs_est: {extra}")
    extra = [s for s in (ast.unparse(s.value) for s in assigns.get("rhs_est", [])[1:])]
    if extra not in ([], ["_np.hstack([rhs_est, rhs_dummy])"]):
        raise TranslatorError(f"{where}: unexpected re-assignment of rhs_est: {extra}")
    # --- residuals:  u = y0 - A @ y1 - B @ x [- c.reshape((-1, 1))]   (optionally under `if c is not None`)
    env = {"y0": "y0", "A": "A", "y1": "y1", "B": "B", "x": "x", "c.reshape((-1, 1))": "c_col"}
    u_sts = assigns.get("u", [])
    if not u_sts:
        raise TranslatorError(f"{where}: no assignment to u")
    lets = []
    for st in u_sts:
        lets.append(mexpr(st.value, env, f"{where}: u"))
        env["u"] = "u"
    body = "\n".join(f"  let u := {t} in" for t in lets) + "\n  u."
    for st in stmts:
        if isinstance(st, ast.If) and any(s in st.body for s in u_sts):
            if ast.unparse(st.test) != "c is not None" or st.orelse:
                raise TranslatorError(f"{where}: residual update guarded by {ast.unparse(st.test)}")
    mat_lines = ["(* red_vars/_estimators.py::_estimate_variant, residuals (c_col = c.reshape((-1, 1)) broadcast over the columns;",
                 "   the zero matrix when there is no intercept) *)",
                 "Definition gen_residuals {n np m N : nat} (y0 : mx M n N) (A : mx M n np) (y1 : mx M np N) (B : mx M n m)\n"
                 "    (x : mx M m N) (c_col : mx M n N) : mx M n N :=\n" + body]
    # --- covariance
    cov_sts = assigns.get("cov_residuals", [])
    if len(cov_sts) != 2 or ast.unparse(cov_sts[1].value) != "_covariances.symmetrize(cov_residuals)":
        raise TranslatorError(f"{where}: cov_residuals is not computed and then symmetrized")
    cenv = {"u[:, where]": "u_where", "num_periods_corrected": "sc:num_periods_corrected"}
    cov = mexpr(cov_sts[0].value, cenv, f"{where}: cov_residuals")
    mat_lines += ["(* red_vars/_estimators.py::_estimate_variant, residual covariance before symmetrize *)",
                  "Definition gen_cov_residuals {n Nw : nat} (u_where : mx M n Nw) (num_periods_corrected : sc M) : mx M n n :=\n"
                  f"  {cov}."]
    return nat_lines, mat_lines


# ------------------------------------------------------------------ spectral radius and stability verdict

NP_MODS = ("_np", "np", "numpy")
STMT_EIG = {
    "_variants.py::Variant.eigenvalues": ("eigenvalues", ["if self._eigenvalues is None:\n    self._populate_eigenvalues()",
                                                           "return self._eigenvalues"]),
    "_variants.py::Variant.max_abs_eigenvalue": ("max_abs_eigenvalue",
                                                 ["if self._max_abs_eigenvalue is None:\n    self._populate_eigenvalues()",
                                                  "return self._max_abs_eigenvalue"]),
}
ACCESSORS = {"get_stability": "[v.is_stable for v in self._variants]",
             "get_max_abs_eigenvalue": "[v.max_abs_eigenvalue for v in self._variants]",
             "get_eigenvalues": "[v.eigenvalues for v in self._variants]"}
CMP_OPS = {ast.Lt: "lt_T O {x} {c}", ast.LtE: "negb (lt_T O {c} {x})", ast.Gt: "lt_T O {c} {x}", ast.GtE: "negb (lt_T O {x} {c})"}


def sexpr(node: ast.AST, env: dict, where: str) -> tuple[str, str]:
    """Typed translation of the numpy expression that reduces the eigenvalue array: returns (term, type) with type in
    arrC (complex array), arrT (real array), C (complex scalar), T (real scalar).  numpy.abs / numpy.max only."""
    if isinstance(node, ast.Name):
        if node.id in env:
            return env[node.id]
        raise TranslatorError(f"{where}: unbound name {node.id}")
    if isinstance(node, ast.Call) and not node.keywords:
        f = node.func
        fname, args = None, node.args
        if isinstance(f, ast.Attribute) and isinstance(f.value, ast.Name) and f.value.id in NP_MODS:
            fname = f.attr
        elif isinstance(f, ast.Name) and f.id == "abs":
            fname = "abs"
        elif isinstance(f, ast.Attribute) and f.attr == "max" and not args:      # array.max()
            fname, args = "max", [f.value]
        if fname is not None and len(args) == 1:
            t, ty = sexpr(args[0], env, where)
            if fname in ("abs", "absolute"):
                if ty == "arrC":
                    return f"(np_abs_arr O {t})", "arrT"
                if ty == "C":
                    return f"(np_abs_sc O {t})", "T"
            if fname in ("max", "amax"):
                if ty == "arrT":
                    return f"(np_max_real O {t})", "T"
                if ty == "arrC":
                    return f"(np_max_complex O {t})", "C"
    raise TranslatorError(f"{where}: unsupported reduction of the eigenvalues {ast.unparse(node)}")


def _expect_body(fn: ast.FunctionDef, want: list[str], where: str) -> None:
    got = [ast.unparse(st) for st in strip_doc(fn)]
    if got != want:
        raise TranslatorError(f"{where}: body is {got}, the model expects {want}")


def spectral_fragments() -> list[str]:
    """Variant._populate_eigenvalues (what is stored as eigenvalues / max_abs_eigenvalue), Variant.is_stable and the
    RedVAR accessors that report them per variant."""
    tree = _parse("red_vars/_variants.py")
    cls = find_class(tree, "Variant")
    where = "Variant._populate_eigenvalues"
    fn = find_func(cls.body, "_populate_eigenvalues")
    stmts = strip_doc(fn)
    txt = [ast.unparse(st) for st in stmts]
    if len(stmts) != 6:
        raise TranslatorError(f"{where}: {len(stmts)} statements, the model expects 6: {txt}")
    fixed = {0: "T = self.companion_T",
             1: "if T is None:\n    self._eigenvalues = None\n    self._max_abs_eigenvalue = None\n    return",
             2: "eigenvalues = _np.linalg.eigvals(T)",
             4: "self._eigenvalues = _tuple_from_flat_array(eigenvalues)",
             5: "self._max_abs_eigenvalue = _number_from_numpy(max_abs_eigenvalue)"}
    for i, want in fixed.items():
        if txt[i] != want:
            raise TranslatorError(f"{where}: statement {i} is `{txt[i]}`, the model expects `{want}`")
    st = stmts[3]
    if not (isinstance(st, ast.Assign) and len(st.targets) == 1 and ast.unparse(st.targets[0]) == "max_abs_eigenvalue"):
        raise TranslatorError(f"{where}: statement 3 is `{txt[3]}`, expected an assignment to max_abs_eigenvalue")
    term, ty = sexpr(st.value, {"eigenvalues": ("eigenvalues", "arrC")}, where)
    if ty != "T":
        raise TranslatorError(f"{where}: max_abs_eigenvalue = {txt[3]} is not a real scalar (type {ty})")
    # the helpers that convert numpy values to Python numbers keep the value
    for name, want in (("_number_from_numpy", ["return float(_np.real(x)) if _np.isreal(x) else complex(x)"]),
                       ("_tuple_from_flat_array", ["return tuple((_number_from_numpy(i) for i in array.flatten()))"])):
        _expect_body(find_func(tree.body, name), want, f"_variants.py::{name}")
    for w, (name, want) in STMT_EIG.items():
        _expect_body(find_func(cls.body, name), want, w)
    # is_stable:  <max_abs_eigenvalue> <cmp> <int>  if max_abs_eigenvalue is not None else None
    where = "Variant.is_stable"
    ret = _single_return(find_func(cls.body, "is_stable"), where)
    me = "self.max_abs_eigenvalue"
    if not (isinstance(ret, ast.IfExp) and ast.unparse(ret.test) == f"{me} is not None" and ast.unparse(ret.orelse) == "None"):
        raise TranslatorError(f"{where}: not `... if {me} is not None else None`: {ast.unparse(ret)}")
    b = ret.body
    if not (isinstance(b, ast.Compare) and len(b.ops) == 1 and type(b.ops[0]) in CMP_OPS and ast.unparse(b.left) == me
            and isinstance(b.comparators[0], ast.Constant) and type(b.comparators[0].value) is int
            and b.comparators[0].value >= 0):
        raise TranslatorError(f"{where}: unsupported stability test {ast.unparse(b)}")
    test = CMP_OPS[type(b.ops[0])].format(x="x", c=f"(of_nat_T O {b.comparators[0].value})")
    # accessors of RedVAR: one entry per variant
    mtree = _parse("red_vars/main.py")
    for name, want in ACCESSORS.items():
        fn = None
        for c in mtree.body:
            if isinstance(c, ast.ClassDef):
                for st_ in c.body:
                    if isinstance(st_, ast.FunctionDef) and st_.name == name:
                        fn = st_
        if fn is None:
            raise TranslatorError(f"red_vars/main.py: no method {name}")
        body = strip_doc(fn)
        if not (len(body) == 2 and isinstance(body[0], ast.Assign) and ast.unparse(body[0].value) == want
                and isinstance(body[1], ast.Return) and isinstance(body[1].value, ast.Call)
                and ast.unparse(body[1].value.func) == "self.unpack_singleton"
                and [ast.unparse(a) for a in body[1].value.args] == [ast.unparse(body[0].targets[0])]):
            raise TranslatorError(f"red_vars/main.py::{name}: body is {[ast.unparse(s) for s in body]}, the model expects "
                                  f"`x = {want}; return self.unpack_singleton(x, ...)`")
    return ["(* red_vars/_variants.py::Variant._populate_eigenvalues, Variant.is_stable.  C = complex numbers, T = real numbers;",
            "   np_abs_* = numpy.abs on an array / a scalar, np_max_real = numpy.max of a real array, np_max_complex = numpy.max",
            "   of a complex array (lexicographic; a black box here) *)",
            "Record NpOps (C T : Type) : Type := mkNpOps {",
            "  np_abs_arr : list C -> list T;  np_abs_sc : C -> T;",
            "  np_max_real : list T -> T;  np_max_complex : list C -> C;",
            "  lt_T : T -> T -> bool;  of_nat_T : nat -> T }.",
            "Arguments np_abs_arr {C T}. Arguments np_abs_sc {C T}. Arguments np_max_real {C T}.",
            "Arguments np_max_complex {C T}. Arguments lt_T {C T}. Arguments of_nat_T {C T}.",
            "Section SpectralGen.",
            "Variables C T : Type.",
            "Variable O : NpOps C T.",
            f"(* {txt[3]} *)",
            f"Definition gen_max_abs_eigenvalue (eigenvalues : list C) : T :=\n  {term}.",
            f"(* {txt[4]} *)",
            "Definition gen_reported_eigenvalues (eigenvalues : list C) : list C := eigenvalues.",
            f"(* return {ast.unparse(ret)} *)",
            "Definition gen_is_stable (max_abs_eigenvalue : option T) : option bool :=\n"
            f"  match max_abs_eigenvalue with Some x => Some ({test}) | None => None end.",
            "End SpectralGen.",
            "Arguments gen_max_abs_eigenvalue {C T}. Arguments gen_reported_eigenvalues {C}. Arguments gen_is_stable {C T}.", ""]


def slatable_fragment() -> list[str]:
    tree = _parse("red_vars/_slatable_protocols.py")
    val = None
    for st in tree.body:
        if isinstance(st, ast.Assign) and len(st.targets) == 1 and ast.unparse(st.targets[0]) == "_DEFAULT_RESIDUAL_VALUE":
            val = st.value
    if not (isinstance(val, ast.Constant) and isinstance(val.value, (int, float)) and not isinstance(val.value, bool)):
        raise TranslatorError("_DEFAULT_RESIDUAL_VALUE is not a numeric literal")
    return ["(* red_vars/_slatable_protocols.py::_DEFAULT_RESIDUAL_VALUE *)",
            f"Definition gen_default_residual_is_zero : bool := {'true' if val.value == 0 else 'false'}."]


def generate() -> str:
    dim_lines, props = dimensions_fragments()
    nat_lines, mat_lines = estimator_fragments(props)
    out = ["(* GENERATED by translator/redvar.py from /repo/src/irispie (red_vars, fords/least_squares.py,",
           "   fords/covariances.py) on every check run.  Do not edit. *)",
           "From Coq Require Import Arith Bool List String.",
           "From Verif Require Import lib.MxC18.",
           "Import ListNotations.", ""]
    out += dim_lines + [""] + prior_fragments(props) + [""] + nat_lines + [""] + slatable_fragment() + [""]
    out += ["Section Matrices.", "Variable M : MatOps.", ""] + ols_fragment() + [""] + symmetrize_fragment() + [""]
    out += mat_lines + ["End Matrices.", ""]
    out += spectral_fragments()
    out += ["Arguments gen_ols {M n r N}.", "Arguments gen_symmetrize {M n}.",
            "Arguments gen_residuals {M n np m N}.", "Arguments gen_cov_residuals {M n Nw}.", ""]
    return "\n".join(out)


def run() -> bool:
    return core.write_if_changed(core.COQ / OUT, generate())


if __name__ == "__main__":
    print(generate())
