"""simultaneous/_simulate.py, wrongdoings.py, simultaneous/_slatable_protocols.py, dataslates/{main,_variants}.py
    ->  coq/gen/SimReportGen.v

Regenerated on every run (statement shapes only; fail closed):

* `Inlay.simulate`: where the failure report `if not exit_status.is_success: when_fails_stream.add(...)` sits relative
  to `exit_status = simulator_module.simulate_frame(...)`, the loop over frames and the loop over variants
  (`sim_program : sim_prog`), that `when_fails_stream._raise()` follows the variant loop, the default of `when_fails`,
  the defaults of the three `*_from_data` flags and how they are handed to `slatable_for_simulate`;
* `wrongdoings.py`: what `add` and `_raise` of the stream class of each `when_fails` kind do (`stream_add`, `stream_fin`);
* `_slatable_for_simulate_or_kalman_filter`: the blocks `if <flag>: slatable.fallbacks.update(X) else:
  slatable.overwrites.update(X)` in source order, as (group of X, group of the flag) (`slatable_blocks`);
* `Variant.from_databox_variant`: the order of `_apply_fallbacks` / `_apply_overwrites` (`variant_post`), and their bodies
  (fallback fills the NaN cells of a row, overwrite fills every cell) checked literally.

The interpreter of these shapes is hand-written in coq/model/SimReport.v (defined in terms of the generated fragments)."""
from __future__ import annotations

import ast

from vf import core
from vf.core import TranslatorError
from . import pyexpr as px

OUT = "gen/SimReportGen.v"

_FLAGS = {"parameters_from_data": "GParameters", "shocks_from_data": "GShocks", "stds_from_data": "GStds"}
_STATUS_NAMES = {"exit_status", "when_fails_stream", "is_success"}
_FLOW = (ast.Break, ast.Continue, ast.Return, ast.Raise, ast.Try, ast.With, ast.While, ast.Yield, ast.YieldFrom,
         ast.Global, ast.Nonlocal, ast.Delete)


def _names(node: ast.AST) -> set[str]:
    out = set()
    for n in ast.walk(node):
        if isinstance(n, ast.Name):
            out.add(n.id)
        elif isinstance(n, ast.Attribute):
            out.add(n.attr)
        elif isinstance(n, ast.arg):
            out.add(n.arg)
    return out


def _classify(st: ast.stmt, where: str) -> str:
    """One statement of the variant / frame loops of Inlay.simulate -> constructor of lib/SimProg.fstmt."""
    if (isinstance(st, ast.Assign) and len(st.targets) == 1 and isinstance(st.targets[0], ast.Name)
            and st.targets[0].id == "exit_status" and isinstance(st.value, ast.Call)
            and ast.unparse(st.value.func) == "simulator_module.simulate_frame"):
        return "FSimulate"
    if (isinstance(st, ast.If) and not st.orelse and ast.unparse(st.test) == "not exit_status.is_success"
            and len(st.body) == 1 and isinstance(st.body[0], ast.Expr) and isinstance(st.body[0].value, ast.Call)
            and ast.unparse(st.body[0].value.func) == "when_fails_stream.add"
            and not (_names(st.body[0].value) - {"when_fails_stream", "add"}) & {"is_success"}):
        return "FReport"
    if ast.unparse(st) == "info_v['exit_status'] += (exit_status,)":
        return "FRecord"
    bad = _names(st) & _STATUS_NAMES
    if bad:
        raise TranslatorError(f"Inlay.simulate ({where}): unsupported statement touching {sorted(bad)}: "
                              f"{ast.unparse(st)[:160]}")
    for n in ast.walk(st):
        if isinstance(n, _FLOW) or isinstance(n, (ast.For, ast.AsyncFor)):
            raise TranslatorError(f"Inlay.simulate ({where}): control flow inside the loops is not modelled: "
                                  f"{ast.unparse(st)[:160]}")
    return "FOther"


def _simulate(tree) -> list[str]:
    cls = px.find_class(tree, "Inlay")
    fn = px.find_func(cls.body, "simulate")
    body = px.strip_doc(fn)
    # --- signature defaults
    kwo = {a.arg: d for a, d in zip(fn.args.kwonlyargs, fn.args.kw_defaults)}
    for nm in list(_FLAGS) + ["when_fails"]:
        if nm not in kwo or not isinstance(kwo[nm], ast.Constant):
            raise TranslatorError(f"Inlay.simulate: keyword-only parameter {nm} with a constant default not found")
    wf_default = kwo["when_fails"].value
    if wf_default not in ("critical", "error", "warning", "silent"):
        raise TranslatorError(f"Inlay.simulate: default of when_fails is {wf_default!r}")
    for nm in _FLAGS:
        if not isinstance(kwo[nm].value, bool):
            raise TranslatorError(f"Inlay.simulate: default of {nm} is not a boolean")
    # --- top level: creation of the stream, the variant loop, _raise
    loops = [k for k, st in enumerate(body) if isinstance(st, ast.For)]
    if len(loops) != 1 or ast.unparse(body[loops[0]].iter) != "zipped" or body[loops[0]].orelse:
        raise TranslatorError("Inlay.simulate: expected exactly one top-level loop `for ... in zipped`")
    kv = loops[0]
    vloop = body[kv]
    if [ast.unparse(e) for e in getattr(vloop.target, "elts", [])] != ["vid", "model_v", "dataslate_v"]:
        raise TranslatorError(f"Inlay.simulate: variant loop target {ast.unparse(vloop.target)}")
    created = 0
    for st in body[:kv]:
        if "when_fails_stream" in _names(st):
            if ast.unparse(st) != "when_fails_stream = _wrongdoings.create_stream(when_fails, 'Simulation failed to complete')":
                raise TranslatorError(f"Inlay.simulate: {ast.unparse(st)[:160]}")
            created += 1
        elif _names(st) & {"exit_status", "is_success"}:
            raise TranslatorError(f"Inlay.simulate: status touched before the loops: {ast.unparse(st)[:160]}")
        if any(isinstance(n, (ast.Return, ast.Raise)) for n in ast.walk(st)):
            raise TranslatorError(f"Inlay.simulate: return/raise before the loops: {ast.unparse(st)[:160]}")
    if created != 1:
        raise TranslatorError("Inlay.simulate: when_fails_stream is not created exactly once before the loops")
    zipped = [st for st in body[:kv] if isinstance(st, ast.Assign) and ast.unparse(st.targets[0]) == "zipped"]
    if len(zipped) != 1 or ast.unparse(zipped[0].value) != \
            "zip(range(num_variants), self.iter_variants(), dataslate.iter_variants())":
        raise TranslatorError("Inlay.simulate: `zipped` is not zip(range(num_variants), self.iter_variants(), "
                              "dataslate.iter_variants())")
    final_raise = False
    for k, st in enumerate(body[kv + 1:]):
        if _names(st) & _STATUS_NAMES:
            if k == 0 and ast.unparse(st) == "when_fails_stream._raise()":
                final_raise = True
            else:
                raise TranslatorError(f"Inlay.simulate: after the loops: {ast.unparse(st)[:160]}")
    # --- the variant loop
    floops = [k for k, st in enumerate(vloop.body) if isinstance(st, ast.For)]
    if len(floops) != 1 or ast.unparse(vloop.body[floops[0]].iter) != "frames" \
            or ast.unparse(vloop.body[floops[0]].target) != "frame" or vloop.body[floops[0]].orelse:
        raise TranslatorError("Inlay.simulate: expected exactly one loop `for frame in frames` inside the variant loop")
    kf = floops[0]
    for st in vloop.body[:kf]:
        if _classify(st, "before the frame loop") != "FOther":
            raise TranslatorError(f"Inlay.simulate: status touched before the frame loop: {ast.unparse(st)[:160]}")
    fr = [st for st in vloop.body[:kf] if isinstance(st, ast.Assign) and ast.unparse(st.targets[0]) == "frames"]
    if len(fr) != 1 or ast.unparse(fr[0].value.func) != "simulator_module.create_frames":
        raise TranslatorError("Inlay.simulate: `frames` is not simulator_module.create_frames(...)")
    frame_body = [_classify(st, "frame loop") for st in vloop.body[kf].body]
    after = [_classify(st, "after the frame loop") for st in vloop.body[kf + 1:]]
    # --- how the flags reach the slatable
    call = None
    for st in body[:kv]:
        if isinstance(st, ast.Assign) and ast.unparse(st.targets[0]) == "slatable":
            call = st.value
    if not (isinstance(call, ast.Call) and ast.unparse(call.func) == "self.slatable_for_simulate" and not call.args):
        raise TranslatorError("Inlay.simulate: slatable = self.slatable_for_simulate(...) not found")
    wiring = {}
    for kw in call.keywords:
        if kw.arg is None:
            raise TranslatorError("Inlay.simulate: **kwargs handed to slatable_for_simulate")
        if kw.arg in _FLAGS:
            if not (isinstance(kw.value, ast.Name) and kw.value.id in _FLAGS):
                raise TranslatorError(f"Inlay.simulate: {kw.arg}={ast.unparse(kw.value)} handed to slatable_for_simulate")
            wiring[kw.arg] = kw.value.id
    if set(wiring) != set(_FLAGS):
        raise TranslatorError(f"Inlay.simulate: flags handed to slatable_for_simulate: {sorted(wiring)}")
    ds = [st for st in body[:kv] if isinstance(st, ast.Assign) and ast.unparse(st.targets[0]) == "dataslate"]
    if len(ds) != 1 or ast.unparse(ds[0].value) != ("Dataslate.from_databox_for_slatable(slatable, in_db, base_dates, "
                                                    "num_variants=num_variants, extra_databox_names=extra_databox_names)"):
        raise TranslatorError("Inlay.simulate: dataslate = Dataslate.from_databox_for_slatable(slatable, in_db, ...) changed")
    for st in body[:kv]:
        # nothing else may rebind or mutate the flags / the slatable between the signature and the dataslate
        if isinstance(st, (ast.Assign, ast.AugAssign, ast.AnnAssign)):
            tg = st.targets if isinstance(st, ast.Assign) else [st.target]
            for t in tg:
                if _names(t) & (set(_FLAGS) | {"when_fails"}) or (ast.unparse(t).startswith("slatable.")):
                    raise TranslatorError(f"Inlay.simulate: {ast.unparse(st)[:160]}")
    L = lambda xs: "[" + "; ".join(xs) + "]"  # noqa: E731
    wf = {"critical": "WCritical", "error": "WError", "warning": "WWarning", "silent": "WSilent"}[wf_default]
    out = [f"Definition sim_program : sim_prog := mkProg {L(frame_body)} {L(after)} {core.coq_bool(final_raise)}.",
           f"Definition default_when_fails : wf_kind := {wf}.",
           "(* the *_from_data flag of simulate() that reaches the slatable's flag of group g *)",
           "Definition sim_flag_wiring (g : group) : group :=",
           "  match g with " + " | ".join(f"{_FLAGS[k]} => {_FLAGS[v]}" for k, v in sorted(wiring.items())) + " end.",
           "Definition sim_default_from_data (g : group) : bool :=",
           "  match g with " + " | ".join(f"{_FLAGS[k]} => {core.coq_bool(kwo[k].value)}" for k in sorted(_FLAGS)) + " end."]
    return out


def _norm(text: str) -> str:
    """Source text -> the unparse of its parse (independent of the Python version's parenthesisation)."""
    return ast.unparse(ast.parse(text))


def _body_text(fn) -> list[str]:
    return [ast.unparse(s) for s in px.strip_doc(fn)]


def _streams(tree) -> list[str]:
    fac = px.find_assign(tree.body, "STREAM_FACTORY")
    if not isinstance(fac, ast.Dict):
        raise TranslatorError("wrongdoings.STREAM_FACTORY is not a dict literal")
    kinds = {}
    for k, v in zip(fac.keys, fac.values):
        if not (isinstance(k, ast.Constant) and isinstance(v, ast.Name)):
            raise TranslatorError("wrongdoings.STREAM_FACTORY: unsupported entry")
        kinds[k.value] = v.id
    if set(kinds) != {"critical", "error", "warning", "silent"}:
        raise TranslatorError(f"wrongdoings.STREAM_FACTORY kinds {sorted(kinds)}")
    cs = px.find_func(tree.body, "create_stream")
    if _body_text(cs) != ["if kind not in STREAM_FACTORY and when_no_stream:\n    kind = when_no_stream",
                          "return STREAM_FACTORY[kind](title)"]:
        raise TranslatorError("wrongdoings.create_stream changed")
    base = px.find_class(tree, "Stream")
    if _body_text(px.find_func(base.body, "__init__")) != ["self.title = (title,)", "self.messages = ()"]:
        raise TranslatorError("wrongdoings.Stream.__init__ changed")
    if _body_text(px.find_func(tree.body, "_raise_as_error")) != ["raise IrisPieError(message)"]:
        raise TranslatorError("wrongdoings._raise_as_error changed")
    rw = _body_text(px.find_func(tree.body, "_raise_as_warning"))
    if not rw or "_wa.warn(message, IrisPieWarning" not in rw[-1] or any("return" in s for s in rw):
        raise TranslatorError("wrongdoings._raise_as_warning changed")
    ADD = {("self.messages += (message,)", "raise IrisPieCritical(self.final_message)"): "AddRaise",
           ("self.messages += (message,)",): "AddAppend", ("pass",): "AddIgnore"}
    FIN = {("pass",): "FinNothing",
           ("if self.messages:\n    _raise_as_error(self.final_message)",): "FinErrorIfAny",
           ("if self.messages:\n    _raise_as_warning(self.final_message)",): "FinWarnIfAny"}
    add, fin = {}, {}
    for kind, cname in kinds.items():
        c = px.find_class(tree, cname)
        if [ast.unparse(b) for b in c.bases] != ["Stream"]:
            raise TranslatorError(f"wrongdoings.{cname}: bases changed")
        extra = [n.name for n in c.body if isinstance(n, ast.FunctionDef) and n.name not in ("add", "_raise")]
        if extra:
            raise TranslatorError(f"wrongdoings.{cname}: unexpected methods {extra}")
        a = tuple(_body_text(px.find_func(c.body, "add")))
        f = tuple(_body_text(px.find_func(c.body, "_raise")))
        if a not in ADD or f not in FIN:
            raise TranslatorError(f"wrongdoings.{cname}: add/_raise changed: {a} / {f}")
        add[kind], fin[kind] = ADD[a], FIN[f]
    K = [("critical", "WCritical"), ("error", "WError"), ("warning", "WWarning"), ("silent", "WSilent")]
    return ["Definition stream_add (k : wf_kind) : add_beh :=",
            "  match k with " + " | ".join(f"{c} => {add[k]}" for k, c in K) + " end.",
            "Definition stream_fin (k : wf_kind) : fin_beh :=",
            "  match k with " + " | ".join(f"{c} => {fin[k]}" for k, c in K) + " end."]


def _slatable(tree) -> list[str]:
    fn = px.find_func(tree.body, "_slatable_for_simulate_or_kalman_filter")
    params = [a.arg for a in fn.args.args]
    if params != ["model", "parameters_from_data", "shocks_from_data", "stds_from_data"] or fn.args.defaults:
        raise TranslatorError(f"_slatable_for_simulate_or_kalman_filter: parameters {params}")
    body = px.strip_doc(fn)
    values: dict[str, str] = {}          # local name -> group of the values it holds
    shock_names_ok = False
    inits = []
    blocks = []
    for st in body:
        txt = ast.unparse(st)
        touches = _names(st) & {"fallbacks", "overwrites"}
        if isinstance(st, ast.Assign) and len(st.targets) == 1 and isinstance(st.targets[0], ast.Name):
            nm, v = st.targets[0].id, ast.unparse(st.value)
            if touches:
                raise TranslatorError(f"_slatable_for_simulate_or_kalman_filter: {txt[:160]}")
            if nm in _FLAGS:
                raise TranslatorError(f"_slatable_for_simulate_or_kalman_filter: flag rebound: {txt[:160]}")
            if v == "model.get_parameters(unpack_singleton=True)":
                values[nm] = "GParameters"
            elif v == "model.get_stds(unpack_singleton=False)":
                values[nm] = "GStds"
            elif v == "model.get_names(kind=_quantities.ANY_SHOCK_OR_SHOCK_VALUE)" and nm == "shock_names":
                shock_names_ok = True
            elif v == "{name: [_DEFAULT_SHOCK_VALUE] * model.num_variants for name in shock_names}" and shock_names_ok:
                values[nm] = "GShocks"
            else:
                values.pop(nm, None)
            continue
        if txt in ("slatable.fallbacks = {}", "slatable.overwrites = {}"):
            if blocks:
                raise TranslatorError("_slatable_for_simulate_or_kalman_filter: fallbacks/overwrites reset after a block")
            inits.append(txt)
            continue
        if isinstance(st, ast.If) and touches:
            if not (isinstance(st.test, ast.Name) and st.test.id in _FLAGS and len(st.body) == 1 and len(st.orelse) == 1):
                raise TranslatorError(f"_slatable_for_simulate_or_kalman_filter: unsupported block {txt[:200]}")
            got = []
            for br, attr in ((st.body[0], "fallbacks"), (st.orelse[0], "overwrites")):
                if not (isinstance(br, ast.Expr) and isinstance(br.value, ast.Call)
                        and ast.unparse(br.value.func) == f"slatable.{attr}.update" and len(br.value.args) == 1
                        and not br.value.keywords and isinstance(br.value.args[0], ast.Name)):
                    raise TranslatorError(f"_slatable_for_simulate_or_kalman_filter: unsupported block {txt[:200]}")
                got.append(br.value.args[0].id)
            if got[0] != got[1] or got[0] not in values:
                raise TranslatorError(f"_slatable_for_simulate_or_kalman_filter: block files {got}")
            if sorted(inits) != ["slatable.fallbacks = {}", "slatable.overwrites = {}"]:
                raise TranslatorError("_slatable_for_simulate_or_kalman_filter: fallbacks/overwrites not initialised to {}")
            blocks.append((values[got[0]], _FLAGS[st.test.id]))
            continue
        if touches:
            raise TranslatorError(f"_slatable_for_simulate_or_kalman_filter: unsupported statement {txt[:200]}")
        if _names(st) & set(values) and not isinstance(st, ast.Return):
            raise TranslatorError(f"_slatable_for_simulate_or_kalman_filter: value dictionary used outside a block: {txt[:160]}")
    if not blocks:
        raise TranslatorError("_slatable_for_simulate_or_kalman_filter: no fallbacks/overwrites block found")
    dflt = px.find_assign(tree.body, "_DEFAULT_SHOCK_VALUE")
    if not (isinstance(dflt, ast.Constant) and dflt.value == 0.0 and not isinstance(dflt.value, bool)):
        raise TranslatorError("_DEFAULT_SHOCK_VALUE is not 0.0")
    sfs = px.find_func(tree.body, "slatable_for_simulate")
    first = px.strip_doc(sfs)[0]
    if ast.unparse(first) != "slatable = _slatable_for_simulate_or_kalman_filter(self, **kwargs)":
        raise TranslatorError("slatable_for_simulate: does not forward its keyword arguments unchanged")
    for st in px.strip_doc(sfs)[1:]:
        if _names(st) & {"fallbacks", "overwrites"}:
            raise TranslatorError(f"slatable_for_simulate: {ast.unparse(st)[:160]}")
    return ["Definition slatable_blocks : list sl_block := ["
            + "; ".join(f"({g}, {f})" for g, f in blocks) + "]."]


def _variant(tree_var, tree_main) -> list[str]:
    cls = px.find_class(tree_var, "Variant")
    fb = _body_text(px.find_func(cls.body, "_apply_fallbacks"))
    ow = _body_text(px.find_func(cls.body, "_apply_overwrites"))
    want_fb = ["if not fallbacks:\n    return",
               "for (record_id, name) in enumerate(invariant.names):\n    if name not in fallbacks:\n        continue\n"
               "    values = self.retrieve_record(record_id)\n    index_nan = _np.isnan(values)\n"
               "    values[index_nan] = _np.float64(fallbacks[name])\n    self.store_record(values, record_id)"]
    want_ow = ["if not overwrites:\n    return",
               "for (record_id, name) in enumerate(invariant.names):\n    if name not in overwrites:\n        continue\n"
               "    values = self.retrieve_record(record_id)\n    values[:] = _np.float64(overwrites[name])\n"
               "    self.store_record(values, record_id)"]
    want_fb, want_ow = [_norm(x) for x in want_fb], [_norm(x) for x in want_ow]
    if fb != want_fb:
        raise TranslatorError(f"Variant._apply_fallbacks changed: {fb}")
    if ow != want_ow:
        raise TranslatorError(f"Variant._apply_overwrites changed: {ow}")
    fn = px.find_func(cls.body, "from_databox_variant")
    order = []
    for st in px.strip_doc(fn):
        t = ast.unparse(st)
        if t == "self._apply_fallbacks(fallbacks, invariant)":
            order.append("PFallbacks")
        elif t == "self._apply_overwrites(overwrites, invariant)":
            order.append("POverwrites")
        elif _names(st) & {"fallbacks", "overwrites", "_apply_fallbacks", "_apply_overwrites"}:
            raise TranslatorError(f"Variant.from_databox_variant: {t[:160]}")
        elif order and not isinstance(st, ast.Return):
            raise TranslatorError(f"Variant.from_databox_variant: data changed after the fallbacks/overwrites: {t[:160]}")
    if sorted(order) != ["PFallbacks", "POverwrites"]:
        raise TranslatorError(f"Variant.from_databox_variant: post-processing steps {order}")
    ds = px.find_class(tree_main, "Dataslate")
    f4s = px.find_func(ds.body, "from_databox_for_slatable")
    ret = [st for st in px.strip_doc(f4s) if isinstance(st, ast.Return)]
    if len(ret) != 1 or not isinstance(ret[0].value, ast.Call) or ast.unparse(ret[0].value.func) != "klass.from_databox":
        raise TranslatorError("Dataslate.from_databox_for_slatable: return klass.from_databox(...) not found")
    kws = {k.arg: ast.unparse(k.value) for k in ret[0].value.keywords if k.arg}
    if kws.get("fallbacks") != "slatable.fallbacks" or kws.get("overwrites") != "slatable.overwrites":
        raise TranslatorError("Dataslate.from_databox_for_slatable: fallbacks/overwrites are not the slatable's")
    return ["Definition variant_post : list post := [" + "; ".join(order) + "]."]


def generate() -> str:
    src = core.SRC / "irispie"
    t_sim = ast.parse((src / "simultaneous" / "_simulate.py").read_text())
    t_wr = ast.parse((src / "wrongdoings.py").read_text())
    t_sl = ast.parse((src / "simultaneous" / "_slatable_protocols.py").read_text())
    t_var = ast.parse((src / "dataslates" / "_variants.py").read_text())
    t_main = ast.parse((src / "dataslates" / "main.py").read_text())
    out = ["(* GENERATED by /verif/translator/simreport.py from src/irispie/simultaneous/_simulate.py, wrongdoings.py, "
           "simultaneous/_slatable_protocols.py, dataslates/_variants.py, dataslates/main.py -- do not edit *)",
           "From Coq Require Import List Bool.",
           "From Verif Require Import lib.SimProg.",
           "Import ListNotations.", ""]
    out += _simulate(t_sim) + [""]
    out += _streams(t_wr) + [""]
    out += _slatable(t_sl) + [""]
    out += _variant(t_var, t_main) + [""]
    return "\n".join(out)


def run():
    core.write_if_changed(core.COQ / OUT, generate())


if __name__ == "__main__":
    print(generate())
