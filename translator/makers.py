"""irispie/makers.py, irispie/aldi/adaptations.py, irispie/equators/plain.py (_create_function)  ->  coq/gen/MakersGen.v

Regenerated on every run (fail closed).  The model (coq/model/Makers.v) is defined in terms of:

* mk_func_str_parts / mk_args_sep : the f-string make_function compiles and the separator of the arguments;
* mk_prepare_steps                : the statements of _prepare_globals (new dict from the context, "__builtins__", adaptations);
* mk_adaptation_names             : the keys of _ELEMENTWISE_FUNCTIONS, which add_function_adaptations_to_context writes;
* mk_cache                        : what make_function consults before compiling.  Every statement of make_function,
                                    remake_function, _prepare_globals and add_function_adaptations_to_context must have
                                    the expected shape, and the modules must not hold module-level mutable state other
                                    than the names listed in KNOWN_MODULE_STATE (a new module-level container, or a
                                    function that reads/writes one, fails closed: it would be state shared by the models
                                    of a session);
* eq_func_name, eq_args, eq_expr_* : how PlainEquator._create_function calls make_function.
"""
from __future__ import annotations

import ast

from vf import core
from vf.core import TranslatorError

OUT = "gen/MakersGen.v"
MAKERS = "irispie/makers.py"
ADAPT = "irispie/aldi/adaptations.py"
PLAIN = "irispie/equators/plain.py"

# module-level names bound to something else than a function/class/import: name -> how it may be used
KNOWN_MODULE_STATE = {MAKERS: set(), ADAPT: {"_ELEMENTWISE_FUNCTIONS"}}


def _cs(s: str) -> str:
    return '"' + s.replace('"', '""') + '"'


def _parse(rel):
    path = core.SRC / rel
    try:
        return ast.parse(path.read_text())
    except (OSError, SyntaxError) as e:
        raise TranslatorError(f"{rel}: cannot be read/parsed: {e}")


def _same(node, src: str, where: str):
    want = ast.parse(src).body[0]
    if ast.dump(node) != ast.dump(want):
        raise TranslatorError(f"{where}: statement `{ast.unparse(node)[:160]}` is not of the modelled shape `{src}`")


def _body(fn: ast.FunctionDef):
    b = list(fn.body)
    if b and isinstance(b[0], ast.Expr) and isinstance(b[0].value, ast.Constant) and isinstance(b[0].value.value, str):
        b = b[1:]
    return b


def _args(fn: ast.FunctionDef):
    a = fn.args
    if a.vararg or a.kwarg or a.kwonlyargs or fn.decorator_list:
        raise TranslatorError(f"{fn.name}: unexpected signature")
    return [x.arg for x in a.posonlyargs + a.args]


def _module_scan(tree, rel, allowed_funcs):
    """module-level statements: imports, docstrings, the expected functions, the known module-level names; anything
    else (a new table, a new function) fails closed"""
    funcs, state = {}, []
    for st in tree.body:
        if isinstance(st, (ast.Import, ast.ImportFrom)):
            continue
        if isinstance(st, ast.Expr) and isinstance(st.value, ast.Constant) and isinstance(st.value.value, str):
            continue
        if isinstance(st, ast.FunctionDef):
            if st.name not in allowed_funcs:
                raise TranslatorError(f"{rel}: function {st.name} is not modelled")
            funcs[st.name] = st
            continue
        if isinstance(st, (ast.Assign, ast.AnnAssign, ast.AugAssign)):
            tg = st.targets if isinstance(st, ast.Assign) else [st.target]
            for t in tg:
                if not isinstance(t, ast.Name):
                    raise TranslatorError(f"{rel}: module-level assignment `{ast.unparse(st)[:120]}`")
                state.append(t.id)
            continue
        if rel == ADAPT and isinstance(st, ast.For):
            continue        # checked by _adaptations
        raise TranslatorError(f"{rel}: module-level statement `{ast.unparse(st)[:120]}` is not modelled")
    new = set(state) - KNOWN_MODULE_STATE[rel]
    if new:
        raise TranslatorError(f"{rel}: module-level state {sorted(new)} is not modelled (state shared by all the models "
                              f"of a session: a table keyed by what?)")
    missing = set(allowed_funcs) - set(funcs)
    if missing:
        raise TranslatorError(f"{rel}: functions {sorted(missing)} not found")
    return funcs, state


def _no_global_access(fn: ast.FunctionDef, module_funcs, where):
    """every name read or written in the function is a parameter, a local, or one of the allowed module-level names"""
    params = set(_args(fn))
    local = set(params)
    nodes = [n for st in fn.body for n in ast.walk(st)]      # annotations of the signature are not code that runs
    for n in nodes:
        if isinstance(n, ast.Name) and isinstance(n.ctx, ast.Store):
            local.add(n.id)
        if isinstance(n, (ast.Global, ast.Nonlocal)):
            raise TranslatorError(f"{where}: global/nonlocal statement")
    for n in nodes:
        if isinstance(n, ast.Name) and isinstance(n.ctx, ast.Load) and n.id not in local and n.id not in module_funcs:
            raise TranslatorError(f"{where}: reads the module-level name {n.id!r}, which is not modelled")


def _makers():
    tree = _parse(MAKERS)
    funcs, state = _module_scan(tree, MAKERS, ["make_function", "remake_function", "_prepare_globals"])
    allowed = {"_prepare_globals", "_adaptations", "exec", "str"}
    # make_function ---------------------------------------------------------
    mf = funcs["make_function"]
    if _args(mf) != ["func_name", "args", "expression", "context"]:
        raise TranslatorError("make_function: unexpected parameters")
    _no_global_access(mf, allowed, "make_function")
    b = _body(mf)
    if len(b) != 5:
        raise TranslatorError(f"make_function: {len(b)} statements, the model has 5 (prepare globals, join the arguments, "
                              f"build the text, exec, return): a look-up in a table before compiling is not modelled")
    _same(b[0], "globals_ = _prepare_globals(context, )", "make_function")
    st = b[1]
    if not (isinstance(st, ast.Assign) and isinstance(st.value, ast.Call) and isinstance(st.value.func, ast.Attribute)
            and st.value.func.attr == "join" and isinstance(st.value.func.value, ast.Constant)
            and isinstance(st.value.func.value.value, str)):
        raise TranslatorError("make_function: args_string is not `<sep>.join(args)`")
    sep = st.value.func.value.value
    _same(st, f"args_string = {sep!r}.join(args, )", "make_function")
    st = b[2]
    if not (isinstance(st, ast.Assign) and len(st.targets) == 1 and isinstance(st.targets[0], ast.Name)
            and st.targets[0].id == "func_str" and isinstance(st.value, ast.JoinedStr)):
        raise TranslatorError("make_function: func_str is not an f-string")
    parts = []
    for v in st.value.values:
        if isinstance(v, ast.Constant) and isinstance(v.value, str):
            parts.append(f"FLit {_cs(v.value)}")
        elif isinstance(v, ast.FormattedValue) and v.conversion == -1 and v.format_spec is None:
            u = ast.unparse(v.value)
            hole = {"func_name": "FName", "args_string": "FArgs", "str(expression)": "FExpr", "expression": "FExpr"}.get(u)
            if hole is None:
                raise TranslatorError(f"make_function: unknown hole {{{u}}} in func_str")
            parts.append(hole)
        else:
            raise TranslatorError("make_function: unsupported f-string piece")
    _same(b[3], "exec(func_str, globals_, )", "make_function")
    _same(b[4], "return globals_[func_name], func_str, globals_,", "make_function")
    # remake_function -------------------------------------------------------
    rf = funcs["remake_function"]
    if _args(rf) != ["func_name", "func_str", "context"]:
        raise TranslatorError("remake_function: unexpected parameters")
    _no_global_access(rf, allowed, "remake_function")
    b = _body(rf)
    if len(b) != 4:
        raise TranslatorError("remake_function: not of the modelled shape")
    _same(b[0], "if func_str is None:\n    return None", "remake_function")
    _same(b[1], "globals_ = _prepare_globals(context, )", "remake_function")
    _same(b[2], "exec(func_str, globals_, )", "remake_function")
    _same(b[3], "return globals_[func_name]", "remake_function")
    # _prepare_globals ------------------------------------------------------
    pg = funcs["_prepare_globals"]
    if _args(pg) != ["context"]:
        raise TranslatorError("_prepare_globals: unexpected parameters")
    _no_global_access(pg, allowed, "_prepare_globals")
    b = _body(pg)
    if len(b) != 3:
        raise TranslatorError("_prepare_globals: not of the modelled shape")
    st = b[0]
    steps = ["GContext"]
    ok = (isinstance(st, ast.Assign) and isinstance(st.value, ast.BinOp) and isinstance(st.value.op, ast.BitOr)
          and ast.unparse(st.value.left) == "context or {}" and isinstance(st.value.right, ast.Dict))
    if not ok:
        raise TranslatorError("_prepare_globals: first statement is not `globals_ = (context or {}) | {...}`")
    for k, v in zip(st.value.right.keys, st.value.right.values):
        if not (isinstance(k, ast.Constant) and isinstance(k.value, str) and isinstance(v, ast.Dict) and not v.keys):
            raise TranslatorError("_prepare_globals: entry of the right-hand dict is not `\"name\": {}`")
        steps.append(f"GSetEmptyDict {_cs(k.value)}")
    if ast.unparse(st.targets[0]) != "globals_":
        raise TranslatorError("_prepare_globals: target")
    _same(b[1], "globals_ = _adaptations.add_function_adaptations_to_context(globals_, )", "_prepare_globals")
    steps.append("GAdaptations")
    _same(b[2], "return globals_", "_prepare_globals")
    imp = [s for s in tree.body if isinstance(s, ast.ImportFrom) and any(a.asname == "_adaptations" for a in s.names)]
    if not (len(imp) == 1 and imp[0].module == "aldi" and imp[0].level == 1 and imp[0].names[0].name == "adaptations"):
        raise TranslatorError("makers.py: _adaptations is not `from .aldi import adaptations`")
    return parts, sep, steps, state


def _adaptations():
    tree = _parse(ADAPT)
    funcs, state = _module_scan(tree, ADAPT, ["add_function_adaptations_to_context"])
    names = None
    for st in tree.body:
        if isinstance(st, ast.Assign) and ast.unparse(st.targets[0]) == "_ELEMENTWISE_FUNCTIONS":
            if not (isinstance(st.value, ast.Dict) and all(isinstance(k, ast.Constant) and isinstance(k.value, str)
                                                            for k in st.value.keys)):
                raise TranslatorError("adaptations: _ELEMENTWISE_FUNCTIONS is not a dict literal with string keys")
            if names is not None:
                raise TranslatorError("adaptations: _ELEMENTWISE_FUNCTIONS assigned twice")
            names = [k.value for k in st.value.keys]
        if isinstance(st, ast.For):
            ok = (ast.unparse(st.target) == "n" and ast.unparse(st.iter) == "_ELEMENTWISE_FUNCTIONS.keys()" and len(st.body) == 1
                  and isinstance(st.body[0], ast.Expr) and isinstance(st.body[0].value, ast.Call)
                  and ast.unparse(st.body[0].value.func) == "exec" and len(st.body[0].value.args) == 1
                  and isinstance(st.body[0].value.args[0], ast.JoinedStr) and not st.orelse)
            if not ok:
                raise TranslatorError("adaptations: module-level loop is not the definition of the adaptation functions")
    if not names:
        raise TranslatorError("adaptations: _ELEMENTWISE_FUNCTIONS not found")
    fn = funcs["add_function_adaptations_to_context"]
    if _args(fn) != ["context"]:
        raise TranslatorError("add_function_adaptations_to_context: unexpected parameters")
    _no_global_access(fn, {"_ELEMENTWISE_FUNCTIONS", "globals"}, "add_function_adaptations_to_context")
    b = _body(fn)
    if len(b) != 3:
        raise TranslatorError("add_function_adaptations_to_context: not of the modelled shape")
    _same(b[0], "context = context if context else {}", "add_function_adaptations_to_context")
    _same(b[1], "for n in _ELEMENTWISE_FUNCTIONS.keys():\n    context[n] = globals()[n]", "add_function_adaptations_to_context")
    _same(b[2], "return context", "add_function_adaptations_to_context")
    return names


def _plain():
    tree = _parse(PLAIN)
    eq_args, cf = None, None
    for st in tree.body:
        if isinstance(st, ast.Assign) and ast.unparse(st.targets[0]) == "EQUATOR_ARGS":
            if not (isinstance(st.value, ast.Tuple) and all(isinstance(e, ast.Constant) and isinstance(e.value, str)
                                                             for e in st.value.elts)):
                raise TranslatorError("plain.py: EQUATOR_ARGS is not a tuple of strings")
            eq_args = [e.value for e in st.value.elts]
        if isinstance(st, ast.ClassDef) and st.name == "PlainEquator":
            for x in st.body:
                if isinstance(x, ast.FunctionDef) and x.name == "_create_function":
                    cf = x
    if eq_args is None or cf is None:
        raise TranslatorError("plain.py: EQUATOR_ARGS / PlainEquator._create_function not found")
    b = _body(cf)
    if len(b) != 3:
        raise TranslatorError("PlainEquator._create_function: not of the modelled shape")
    st = b[0]
    ok = (isinstance(st, ast.Assign) and ast.unparse(st.targets[0]) == "joined_xtrings" and isinstance(st.value, ast.Call)
          and isinstance(st.value.func, ast.Attribute) and st.value.func.attr == "join"
          and isinstance(st.value.func.value, ast.Constant) and isinstance(st.value.func.value.value, str))
    if not ok:
        raise TranslatorError("_create_function: joined_xtrings")
    sep = st.value.func.value.value
    _same(st, f"joined_xtrings = {sep!r}.join(i.xtring for i in self._equations)", "_create_function")
    st = b[1]
    ok = (isinstance(st, ast.Assign) and ast.unparse(st.targets[0]) == "expression" and isinstance(st.value, ast.BinOp)
          and isinstance(st.value.op, ast.Add) and isinstance(st.value.left, ast.BinOp) and isinstance(st.value.left.op, ast.Add)
          and isinstance(st.value.left.left, ast.Constant) and ast.unparse(st.value.left.right) == "joined_xtrings"
          and isinstance(st.value.right, ast.Constant))
    if not ok:
        raise TranslatorError("_create_function: expression is not prefix + joined_xtrings + suffix")
    pre, suf = st.value.left.left.value, st.value.right.value
    st = b[2]
    ok = isinstance(st, ast.Assign) and isinstance(st.value, ast.Call) and ast.unparse(st.value.func) == "_makers.make_function"
    if not ok or len(st.value.args) != 4 or st.value.keywords:
        raise TranslatorError("_create_function: the call of make_function")
    a = st.value.args
    if not (isinstance(a[0], ast.Constant) and isinstance(a[0].value, str) and ast.unparse(a[1]) == "EQUATOR_ARGS"
            and ast.unparse(a[2]) == "expression" and ast.unparse(a[3]) == "self._context"):
        raise TranslatorError("_create_function: arguments of make_function")
    if ast.unparse(st.targets[0]) != "(self._func, self._func_str, *_)":
        raise TranslatorError(f"_create_function: result is bound to {ast.unparse(st.targets[0])}")
    return a[0].value, eq_args, pre, sep, suf


def generate() -> str:
    parts, sep, steps, state = _makers()
    names = _adaptations()
    fname, eq_args, pre, esep, suf = _plain()
    L = ["(* GENERATED by translator/makers.py from irispie/makers.py, aldi/adaptations.py, equators/plain.py -- do not edit *)",
         "From Coq Require Import String List.", "From Verif Require Import lib.MakersSyntax.", "Import ListNotations.",
         "Open Scope string_scope.",
         f"Definition mk_func_str_parts : list fpart := [{'; '.join(parts)}].",
         f"Definition mk_args_sep : string := {_cs(sep)}.",
         f"Definition mk_prepare_steps : list gstep := [{'; '.join(steps)}].",
         f"Definition mk_adaptation_names : list string := [{'; '.join(_cs(n) for n in names)}].",
         "Definition mk_cache : cache_mode := CacheNone.",
         f"Definition mk_module_state : list string := [{'; '.join(_cs(n) for n in state)}].",
         f"Definition eq_func_name : string := {_cs(fname)}.",
         f"Definition eq_args : list string := [{'; '.join(_cs(n) for n in eq_args)}].",
         f"Definition eq_expr_prefix : string := {_cs(pre)}.",
         f"Definition eq_expr_sep : string := {_cs(esep)}.",
         f"Definition eq_expr_suffix : string := {_cs(suf)}."]
    return "\n".join(L) + "\n"


def run() -> bool:
    return core.write_if_changed(core.COQ / OUT, generate())
