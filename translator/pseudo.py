"""parsers/_pseudofunctions.py (+ a few tables of quantities.py, sources.py, simultaneous/_invariants.py)
   ->  coq/gen/PseudoGen.v

Regenerated on every run (fail closed):

* every `_pseudo_*` string builder, evaluated symbolically (the argument text, the shifted argument
  text, str(total) and "op".join(sequence) are holes) and parsed -- keeping the literal parentheses --
  into a template `tpl` (coq/lib/LangSyntax.v);
* `_pseudo_mov`: the case analysis on the shift, the range of shifts and the total;
* `_PSEUDOFUNC_RESOLUTION`: spelled name -> (builder, default shift);
* the arithmetic of `_shift_all_names._replace` (new shift of a name) and `_resolve_shift`;
* QuantityKind member order and LOGGABLE_VARIABLE (quantities.py), the order in which
  ModelSource.from_lists adds the quantity blocks (sources.py), the ant_/std_ name and description
  prefixes (simultaneous/_invariants.py).

The regexes (_PSEUDOFUNC_PATTERN, _NAME_MAYBE_WITH_SHIFT, QUANTITY_OCCURRENCE_PATTERN), the PEG grammars
and Jinja are NOT translated: they are exercised by the correspondence run (harness/C04.py)."""
from __future__ import annotations

import ast
import re

from vf import core
from vf.core import TranslatorError
from . import pyexpr as px

SRC = "irispie/parsers/_pseudofunctions.py"
OUT = "gen/PseudoGen.v"

BUILDERS = {
    "_pseudo_shift": "Pshift", "_pseudo_diff": "Pdiff", "_pseudo_diff_log": "Pdifflog", "_pseudo_pct": "Ppct",
    "_pseudo_roc": "Proc", "_pseudo_mov_sum": "Pmovsum", "_pseudo_mov_avg": "Pmovavg", "_pseudo_mov_prod": "Pmovprod",
}
MOV = {"_pseudo_mov_sum", "_pseudo_mov_avg", "_pseudo_mov_prod"}

H_CODE, H_SHIFTED, H_TOTAL, H_JOIN = "HOLEcode", "HOLEshifted", "HOLEtotal", "HOLEjoin"
JOIN_OPS = {"+": "Add", "*": "Mul", "-": "Sub", "/": "Div"}
BINOPS = {"+": "Add", "-": "Sub", "*": "Mul", "/": "Div", "**": "Pow", "^": "Pow"}

KIND_CTOR = {
    "UNSPECIFIED": "QUnspecified", "TRANSITION_VARIABLE": "QTransitionVariable",
    "MEASUREMENT_VARIABLE": "QMeasurementVariable", "TRANSITION_SHOCK": "QTransitionShock",
    "ANTICIPATED_SHOCK_VALUE": "QAnticipatedShockValue", "MEASUREMENT_SHOCK": "QMeasurementShock",
    "LHS_VARIABLE": "QLhsVariable", "RHS_ONLY_VARIABLE": "QRhsOnlyVariable", "PARAMETER": "QParameter",
    "EXOGENOUS_VARIABLE": "QExogenousVariable", "TRANSITION_STD": "QTransitionStd",
    "MEASUREMENT_STD": "QMeasurementStd",
}
ADDERS = {
    "_add_transition_variables": "QTransitionVariable", "_add_transition_shocks": "QTransitionShock",
    "_add_measurement_variables": "QMeasurementVariable", "_add_measurement_shocks": "QMeasurementShock",
    "_add_parameters": "QParameter", "_add_exogenous_variables": "QExogenousVariable",
}


# ----------------------------------------------------------------- template strings -> tpl

_TOK = re.compile(r"\s*(?:(\d+)|([A-Za-z_]\w*)|(\*\*|[-+*/^(),]))")


def _tokenize(s: str, where: str):
    out, i = [], 0
    while i < len(s):
        if s[i:].strip() == "":
            break
        m = _TOK.match(s, i)
        if not m:
            raise TranslatorError(f"{where}: cannot tokenize template text {s!r} at {i}")
        if m.group(1) is not None:
            out.append(("num", m.group(1)))
        elif m.group(2) is not None:
            out.append(("name", m.group(2)))
        else:
            out.append(("op", m.group(3)))
        i = m.end()
    return out


class _P:
    """Python's expression grammar for + - * / ** unary -, calls and parentheses; parentheses are kept."""

    def __init__(self, toks, joins, where):
        self.t, self.i, self.joins, self.where = toks, 0, joins, where

    def peek(self):
        return self.t[self.i] if self.i < len(self.t) else (None, None)

    def eat(self, kind=None, val=None):
        k, v = self.peek()
        if k is None or (kind and k != kind) or (val and v != val):
            raise TranslatorError(f"{self.where}: template does not parse (expected {val or kind}, got {v!r})")
        self.i += 1
        return v

    def sum(self):
        a = self.term()
        while self.peek() in (("op", "+"), ("op", "-")):
            o = self.eat()
            a = ("bin", BINOPS[o], a, self.term())
        return a

    def term(self):
        a = self.factor()
        while self.peek() in (("op", "*"), ("op", "/")):
            o = self.eat()
            a = ("bin", BINOPS[o], a, self.factor())
        return a

    def factor(self):
        if self.peek() == ("op", "-"):
            self.eat()
            return ("neg", self.factor())
        if self.peek() == ("op", "+"):
            raise TranslatorError(f"{self.where}: unary plus in a template")
        return self.power()

    def power(self):
        a = self.atom()
        if self.peek() in (("op", "**"), ("op", "^")):
            self.eat()
            return ("bin", "Pow", a, self.factor())
        return a

    def atom(self):
        k, v = self.peek()
        if k == "num":
            self.eat()
            return ("num", int(v))
        if k == "name":
            self.eat()
            if self.peek() == ("op", "("):
                if v.startswith("HOLE"):
                    raise TranslatorError(f"{self.where}: a hole is used as a function name")
                self.eat()
                a = self.sum()
                self.eat("op", ")")
                return ("call", v, a)
            if v == H_CODE:
                return ("code",)
            if v == H_SHIFTED:
                return ("shifted",)
            if v == H_TOTAL:
                return ("total",)
            if v.startswith(H_JOIN):
                return ("join", self.joins[v])
            raise TranslatorError(f"{self.where}: free name {v!r} in a template")
        if (k, v) == ("op", "("):
            self.eat()
            a = self.sum()
            self.eat("op", ")")
            return ("paren", a)
        raise TranslatorError(f"{self.where}: template does not parse at token {v!r}")


def _strip(t):
    if t[0] == "paren":
        return _strip(t[1])
    if t[0] == "bin":
        return ("bin", t[1], _strip(t[2]), _strip(t[3]))
    if t[0] == "neg":
        return ("neg", _strip(t[1]))
    if t[0] == "call":
        return ("call", t[1], _strip(t[2]))
    return t


def _from_pyast(n, joins, where):
    ops = {ast.Add: "Add", ast.Sub: "Sub", ast.Mult: "Mul", ast.Div: "Div", ast.Pow: "Pow"}
    if isinstance(n, ast.BinOp) and type(n.op) in ops:
        return ("bin", ops[type(n.op)], _from_pyast(n.left, joins, where), _from_pyast(n.right, joins, where))
    if isinstance(n, ast.UnaryOp) and isinstance(n.op, ast.USub):
        return ("neg", _from_pyast(n.operand, joins, where))
    if isinstance(n, ast.Constant) and isinstance(n.value, int):
        return ("num", n.value)
    if isinstance(n, ast.Call) and isinstance(n.func, ast.Name) and len(n.args) == 1 and not n.keywords:
        return ("call", n.func.id, _from_pyast(n.args[0], joins, where))
    if isinstance(n, ast.Name):
        return {H_CODE: ("code",), H_SHIFTED: ("shifted",), H_TOTAL: ("total",)}.get(n.id) or ("join", joins[n.id])
    raise TranslatorError(f"{where}: unsupported template construct {ast.dump(n)[:80]}")


def parse_template(text: str, joins: dict, where: str):
    p = _P(_tokenize(text, where), joins, where)
    t = p.sum()
    if p.i != len(p.t):
        raise TranslatorError(f"{where}: trailing text in template {text!r}")
    # cross-check against CPython's own parser (which drops parentheses)
    try:
        py = ast.parse(text.replace("^", "**").strip(), mode="eval").body
    except SyntaxError as e:
        raise TranslatorError(f"{where}: template {text!r} is not a Python expression: {e}")
    if _from_pyast(py, joins, where) != _strip(t):
        raise TranslatorError(f"{where}: template parser disagrees with CPython on {text!r}")
    return t


def _cs(x: str) -> str:
    return core.coq_string(x) + "%string"


def coq_tpl(t) -> str:
    k = t[0]
    if k == "code":
        return "TCode"
    if k == "shifted":
        return "TShifted"
    if k == "total":
        return "TTotal"
    if k == "num":
        return f"(TNum {core.coq_z(t[1])})"
    if k == "bin":
        return f"(TBin {t[1]} {coq_tpl(t[2])} {coq_tpl(t[3])})"
    if k == "neg":
        return f"(TNeg {coq_tpl(t[1])})"
    if k == "call":
        return f"(TCall1 {_cs(t[1])} {coq_tpl(t[2])})"
    if k == "paren":
        return f"(TParen {coq_tpl(t[1])})"
    if k == "join":
        return f"(TJoin {t[1]})"
    raise AssertionError(t)


# ----------------------------------------------------------------- symbolic string evaluation

def _sym_str(node, env: dict, joins: dict, where: str, shift_name: str) -> str:
    """Value of a str-typed Python expression with holes for the pieces that depend on the call."""
    if isinstance(node, ast.Constant) and isinstance(node.value, str):
        if "HOLE" in node.value:
            raise TranslatorError(f"{where}: reserved text in a literal")
        return node.value
    if isinstance(node, ast.BinOp) and isinstance(node.op, ast.Add):
        return _sym_str(node.left, env, joins, where, shift_name) + _sym_str(node.right, env, joins, where, shift_name)
    if isinstance(node, ast.Name):
        if node.id in env:
            return env[node.id]
        raise TranslatorError(f"{where}: unbound name {node.id!r} in a string expression")
    if isinstance(node, ast.Subscript) and ast.unparse(node) in env:
        return env[ast.unparse(node)]
    if isinstance(node, ast.Call) and not node.keywords:
        f = ast.unparse(node.func)
        args = node.args
        if f == "_shift_all_names" and len(args) == 2 and ast.unparse(args[0]) == "code":
            if not (isinstance(args[1], ast.Name) and args[1].id == shift_name):
                raise TranslatorError(f"{where}: _shift_all_names is called with the shift {ast.unparse(args[1])!r}, "
                                      f"expected {shift_name!r}")
            return " " + H_SHIFTED + " "
        if f == "str" and len(args) == 1 and ast.unparse(args[0]) == "total" and env.get("total") == "#total":
            return " " + H_TOTAL + " "
        if isinstance(node.func, ast.Attribute) and node.func.attr == "join" and len(args) == 1 \
                and isinstance(node.func.value, ast.Constant) and ast.unparse(args[0]) == "sequence" \
                and env.get("sequence") == "#sequence":
            op = node.func.value.value
            if op not in JOIN_OPS:
                raise TranslatorError(f"{where}: join with separator {op!r}")
            nm = f"{H_JOIN}{len(joins)}"
            joins[nm] = JOIN_OPS[op]
            return " " + nm + " "
    raise TranslatorError(f"{where}: unsupported string expression {ast.unparse(node)}")


def _params(fn: ast.FunctionDef):
    return [a.arg for a in fn.args.posonlyargs + fn.args.args]


def _builder(fn: ast.FunctionDef):
    where = fn.name
    if _params(fn) != ["code", "shift"]:
        raise TranslatorError(f"{where}: parameters {_params(fn)}")
    body = px.strip_doc(fn)
    env = {"code": " " + H_CODE + " "}
    if fn.name in MOV:
        if len(body) != 2:
            raise TranslatorError(f"{where}: unexpected body")
        st = body[0]
        ok = (isinstance(st, ast.Assign) and len(st.targets) == 1 and isinstance(st.targets[0], ast.Tuple)
              and isinstance(st.value, ast.Call) and ast.unparse(st.value.func) == "_pseudo_mov"
              and [ast.unparse(a) for a in st.value.args] == ["code", "shift"] and not st.value.keywords)
        if not ok:
            raise TranslatorError(f"{where}: first statement is not `sequence, ... = _pseudo_mov(code, shift)`")
        tg = [ast.unparse(e) for e in st.targets[0].elts]
        if tg == ["sequence", "total"]:
            env["sequence"], env["total"] = "#sequence", "#total"
        elif tg == ["sequence", "*_"]:
            env["sequence"] = "#sequence"
        else:
            raise TranslatorError(f"{where}: unexpected unpacking {tg}")
    elif len(body) != 1:
        raise TranslatorError(f"{where}: unexpected body")
    ret = body[-1]
    if not isinstance(ret, ast.Return) or ret.value is None:
        raise TranslatorError(f"{where}: last statement is not a return")
    joins: dict = {}
    text = _sym_str(ret.value, env, joins, where, "shift")
    return parse_template(text, joins, where), text


def _zexpr(node, env, where) -> str:
    """int-valued Python expression -> Coq Z term."""
    if isinstance(node, ast.Constant) and isinstance(node.value, int) and not isinstance(node.value, bool):
        return core.coq_z(node.value)
    if isinstance(node, ast.Name) and node.id in env:
        return env[node.id]
    if isinstance(node, ast.UnaryOp) and isinstance(node.op, ast.USub):
        if isinstance(node.operand, ast.Constant) and isinstance(node.operand.value, int):
            return core.coq_z(-node.operand.value)
        return f"(- {_zexpr(node.operand, env, where)})"
    if isinstance(node, ast.BinOp) and type(node.op) in (ast.Add, ast.Sub, ast.Mult):
        o = {ast.Add: "+", ast.Sub: "-", ast.Mult: "*"}[type(node.op)]
        return f"({_zexpr(node.left, env, where)} {o} {_zexpr(node.right, env, where)})"
    if isinstance(node, ast.Call) and ast.unparse(node.func) == "int" and len(node.args) == 1:
        return _zexpr(node.args[0], env, where)
    if isinstance(node, ast.IfExp):
        return f"(if {_bexpr(node.test, env, where)} then {_zexpr(node.body, env, where)} else {_zexpr(node.orelse, env, where)})"
    raise TranslatorError(f"{where}: unsupported integer expression {ast.unparse(node)}")


def _bexpr(node, env, where) -> str:
    if isinstance(node, ast.BoolOp):
        o = "||" if isinstance(node.op, ast.Or) else "&&"
        return "(" + f" {o} ".join(_bexpr(v, env, where) for v in node.values) + ")"
    if isinstance(node, ast.UnaryOp) and isinstance(node.op, ast.Not):
        return f"(negb {_bexpr(node.operand, env, where)})"
    if isinstance(node, ast.Compare) and len(node.ops) == 1:
        ops = {ast.Eq: "=?", ast.Gt: ">?", ast.Lt: "<?", ast.GtE: ">=?", ast.LtE: "<=?"}
        a, b = _zexpr(node.left, env, where), _zexpr(node.comparators[0], env, where)
        if isinstance(node.ops[0], ast.NotEq):
            return f"(negb ({a} =? {b}))"
        if type(node.ops[0]) in ops:
            return f"({a} {ops[type(node.ops[0])]} {b})"
    if isinstance(node, ast.Name) and node.id in env:        # truthiness of an int
        return f"(negb ({env[node.id]} =? 0))"
    raise TranslatorError(f"{where}: unsupported condition {ast.unparse(node)}")


def _mov_return(ret, env, where, comp_allowed: bool):
    if not (isinstance(ret, ast.Return) and isinstance(ret.value, ast.Tuple) and len(ret.value.elts) == 2):
        raise TranslatorError(f"{where}: branch does not return (sequence, total)")
    seq, total = ret.value.elts
    tot = _zexpr(total, env, where)
    if isinstance(seq, ast.List):
        elems = []
        for e in seq.elts:
            joins: dict = {}
            text = _sym_str(e, {"code": " " + H_CODE + " "}, joins, where, "<none>")
            elems.append(f"({coq_tpl(parse_template(text, joins, where))}, 0)")
        return f"({core.coq_list(elems)}, {tot})"
    if comp_allowed and isinstance(seq, ast.ListComp) and len(seq.generators) == 1:
        g = seq.generators[0]
        if g.ifs or g.is_async or not isinstance(g.target, ast.Name):
            raise TranslatorError(f"{where}: unsupported comprehension")
        it = g.iter
        if not (isinstance(it, ast.Call) and ast.unparse(it.func) == "range" and len(it.args) == 3 and not it.keywords):
            raise TranslatorError(f"{where}: comprehension is not over range(start, stop, step)")
        a, b, c = (_zexpr(x, env, where) for x in it.args)
        joins = {}
        text = _sym_str(seq.elt, {"code": " " + H_CODE + " "}, joins, where, g.target.id)
        t = coq_tpl(parse_template(text, joins, where))
        return f"(map (fun sh : Z => ({t}, sh)) (py_range {a} {b} {c}), {tot})"
    raise TranslatorError(f"{where}: unsupported sequence {ast.unparse(seq)}")


def _mov(fn: ast.FunctionDef) -> str:
    where = fn.name
    if _params(fn) != ["code", "shift"]:
        raise TranslatorError(f"{where}: parameters {_params(fn)}")
    body = px.strip_doc(fn)
    if len(body) != 1 or not isinstance(body[0], ast.If):
        raise TranslatorError(f"{where}: body is not a single if/elif/else")
    env = {"shift": "shift"}

    def branch(stmts, env):
        stmts = list(stmts)
        if len(stmts) == 1 and isinstance(stmts[0], ast.If):
            node = stmts[0]
            return (f"if {_bexpr(node.test, env, where)} then {branch(node.body, env)}\n    else "
                    f"{branch(node.orelse, env)}")
        env = dict(env)
        lets = []
        for st in stmts[:-1]:
            ok = (isinstance(st, ast.Assign) and len(st.targets) == 1 and isinstance(st.targets[0], ast.Tuple)
                  and all(isinstance(e, ast.Name) for e in st.targets[0].elts))
            if not ok or not isinstance(st.value, ast.IfExp):
                raise TranslatorError(f"{where}: unsupported statement {ast.unparse(st)}")
            names = [e.id for e in st.targets[0].elts]
            v = st.value
            if not (isinstance(v.body, ast.Tuple) and isinstance(v.orelse, ast.Tuple)
                    and len(v.body.elts) == len(names) == len(v.orelse.elts) == 2):
                raise TranslatorError(f"{where}: unsupported tuple assignment {ast.unparse(st)}")
            t1 = ", ".join(_zexpr(e, env, where) for e in v.body.elts)
            t2 = ", ".join(_zexpr(e, env, where) for e in v.orelse.elts)
            lets.append(f"let '({names[0]}_, {names[1]}_) := (if {_bexpr(v.test, env, where)} then ({t1}) else ({t2})) in ")
            for nm in names:
                env[nm] = nm + "_"
        return "(" + "".join(lets) + _mov_return(stmts[-1], env, where, True) + ")"

    return branch(body, env)


def _shift_all_names_arith(tree) -> str:
    fn = px.find_func(tree.body, "_shift_all_names")
    where = "_shift_all_names"
    if _params(fn) != ["source", "by"]:
        raise TranslatorError(f"{where}: parameters {_params(fn)}")
    body = px.strip_doc(fn)
    if len(body) != 2 or not isinstance(body[0], ast.FunctionDef) or not isinstance(body[1], ast.Return):
        raise TranslatorError(f"{where}: unexpected body")
    if ast.unparse(body[1].value) != "_re.sub(_NAME_MAYBE_WITH_SHIFT, _replace, source)":
        raise TranslatorError(f"{where}: unexpected return {ast.unparse(body[1].value)}")
    rb = px.strip_doc(body[0])
    if len(rb) != 4:
        raise TranslatorError(f"{where}._replace: unexpected body")
    if ast.unparse(rb[0]) != "name, shift = (match.group(1), match.group(2))":
        raise TranslatorError(f"{where}._replace: unexpected {ast.unparse(rb[0])}")
    if ast.unparse(rb[1]) != "shift = eval(shift) if shift else 0":
        raise TranslatorError(f"{where}._replace: unexpected {ast.unparse(rb[1])}")
    st = rb[2]
    if not (isinstance(st, ast.AugAssign) and ast.unparse(st.target) == "shift" and type(st.op) in (ast.Add, ast.Sub)):
        raise TranslatorError(f"{where}._replace: unexpected {ast.unparse(st)}")
    o = "+" if isinstance(st.op, ast.Add) else "-"
    rhs = _zexpr(st.value, {"by": "by_"}, where)
    if ast.unparse(rb[3]) != "return name + '[' + str(shift) + ']' if shift else name":
        raise TranslatorError(f"{where}._replace: unexpected {ast.unparse(rb[3])}")
    return f"Definition shift_name_new (k by_ : Z) : Z := k {o} {rhs}."


def _resolve_shift(tree) -> None:
    fn = px.find_func(tree.body, "_resolve_shift")
    body = px.strip_doc(fn)
    want = ["shift = (shift or '').strip()", "return int(shift) if shift else default_shift"]
    if [ast.unparse(s) for s in body] != want or _params(fn) != ["shift", "default_shift"]:
        raise TranslatorError("_resolve_shift: unexpected body")
    fn = px.find_func(tree.body, "_expand_pseudofunction")
    want = ["func_name, expression, shift = (match.group(1), match.group(2), match.group(3))",
            "func, default_shift = _PSEUDOFUNC_RESOLUTION[func_name]",
            "shift = _resolve_shift(shift, default_shift)",
            "return func(expression, shift)"]
    if [ast.unparse(s) for s in px.strip_doc(fn)] != want:
        raise TranslatorError("_expand_pseudofunction: unexpected body")


def _resolution(tree) -> str:
    d = px.find_assign(tree.body, "_PSEUDOFUNC_RESOLUTION")
    if not isinstance(d, ast.Dict):
        raise TranslatorError("_PSEUDOFUNC_RESOLUTION is not a dict literal")
    rows = []
    for k, v in zip(d.keys, d.values):
        if not (isinstance(k, ast.Constant) and isinstance(k.value, str) and isinstance(v, ast.Tuple) and len(v.elts) == 2
                and isinstance(v.elts[0], ast.Name)):
            raise TranslatorError("_PSEUDOFUNC_RESOLUTION: unexpected entry")
        b = v.elts[0].id
        if b not in BUILDERS:
            raise TranslatorError(f"_PSEUDOFUNC_RESOLUTION[{k.value!r}]: unknown builder {b}")
        try:
            dfl = ast.literal_eval(v.elts[1])
        except Exception:
            raise TranslatorError(f"_PSEUDOFUNC_RESOLUTION[{k.value!r}]: default shift is not a literal")
        if not isinstance(dfl, int) or isinstance(dfl, bool):
            raise TranslatorError(f"_PSEUDOFUNC_RESOLUTION[{k.value!r}]: default shift {dfl!r}")
        rows.append(f"({_cs(k.value)}, ({BUILDERS[b]}, {core.coq_z(dfl)}))")
    return "Definition pseudo_resolution : list (string * (pseudo * Z)) :=\n  " + core.coq_list(rows, ";\n   ") + "."


# ----------------------------------------------------------------- tables of the other modules

def _kinds() -> list[str]:
    tree = ast.parse((core.SRC / "irispie/quantities.py").read_text())
    cls = px.find_class(tree, "QuantityKind")
    order, logg = [], None
    for st in cls.body:
        if isinstance(st, ast.Assign) and len(st.targets) == 1 and isinstance(st.targets[0], ast.Name):
            nm = st.targets[0].id
            if ast.unparse(st.value) in ("enum.auto()", "_en.auto()"):
                if nm not in KIND_CTOR:
                    raise TranslatorError(f"QuantityKind: unknown member {nm}")
                order.append(KIND_CTOR[nm])
            elif nm == "LOGGABLE_VARIABLE":
                names = [s.strip() for s in ast.unparse(st.value).split("|")]
                if not all(n in KIND_CTOR for n in names):
                    raise TranslatorError(f"QuantityKind.LOGGABLE_VARIABLE: {ast.unparse(st.value)}")
                logg = [KIND_CTOR[n] for n in names]
    if sorted(order) != sorted(KIND_CTOR.values()) or logg is None:
        raise TranslatorError("QuantityKind: members changed")
    fn = px.find_func(tree.body, "reorder_by_kind")
    if ast.unparse(px.strip_doc(fn)[0]) != "return tuple(sorted(quantities, key=lambda x: (x.kind.value, x.entry)))":
        raise TranslatorError("quantities.reorder_by_kind: unexpected body")
    return [f"Definition kind_order : list qkind := {core.coq_list(order)}.",
            f"Definition loggable_kinds : list qkind := {core.coq_list(logg)}."]


def _entry_order() -> list[str]:
    tree = ast.parse((core.SRC / "irispie/sources.py").read_text())
    cls = px.find_class(tree, "ModelSource")
    fn = px.find_func(cls.body, "from_lists")
    order = []
    for st in px.strip_doc(fn):
        if isinstance(st, ast.Expr) and isinstance(st.value, ast.Call) and isinstance(st.value.func, ast.Attribute) \
                and ast.unparse(st.value.func.value) == "self" and st.value.func.attr in ADDERS:
            arg = ast.unparse(st.value.args[0]) if st.value.args else ""
            if "_add_" + arg != st.value.func.attr:
                raise TranslatorError(f"ModelSource.from_lists: {ast.unparse(st)} passes a different list")
            order.append(ADDERS[st.value.func.attr])
    if sorted(order) != sorted(ADDERS.values()):
        raise TranslatorError(f"ModelSource.from_lists: quantity blocks added {order}")
    # each _add_<kind> must add its own kind
    for nm, ctor in ADDERS.items():
        f = px.find_func(cls.body, nm)
        b = ast.unparse(px.strip_doc(f)[0])
        kind = [k for k, v in KIND_CTOR.items() if v == ctor][0]
        if not re.fullmatch(r"self\._add_quantities\(\w+, QuantityKind\." + kind + r"\)", b):
            raise TranslatorError(f"ModelSource.{nm}: unexpected body {b}")
    return [f"Definition entry_order : list qkind := {core.coq_list(order)}."]


def _prefixes() -> list[str]:
    tree = ast.parse((core.SRC / "irispie/simultaneous/_invariants.py").read_text())
    out = []
    for py, coq in (("_ANTICIPATED_PREFIX", "ant_prefix"), ("_ANTICIPATED_DESCRIPTION_PREFIX", "ant_descr_prefix"),
                    ("_STD_PREFIX", "std_prefix"), ("_STD_DESCRIPTION_PREFIX", "std_descr_prefix")):
        v = px.find_assign(tree.body, py)
        if not (isinstance(v, ast.Constant) and isinstance(v.value, str)):
            raise TranslatorError(f"{py} is not a string literal")
        out.append(f"Definition {coq} : string := {_cs(v.value)}.")
    return out


def _residual() -> list[str]:
    """equations.py::_postprocess_xtring: "-(" + lhs + ")+" + rhs  (TCode = lhs text, TShifted = rhs text)."""
    tree = ast.parse((core.SRC / "irispie/equations.py").read_text())
    fn = px.find_func(tree.body, "_postprocess_xtring")
    where = "_postprocess_xtring"
    body = [ast.unparse(s) for s in px.strip_doc(fn)]
    want_head = ["equation = equation.replace('^', '**')", "equation = equation.replace(' ', '')",
                 "equation = equation.replace('===', '=')", "lhs_rhs = equation.split('=', maxsplit=1)"]
    if body[:4] != want_head or len(body) != 6 or body[5] != "return equation":
        raise TranslatorError(f"{where}: unexpected body")
    st = px.strip_doc(fn)[4]
    if not (isinstance(st, ast.If) and ast.unparse(st.test) == "len(lhs_rhs) == 2" and not st.orelse and len(st.body) == 1
            and isinstance(st.body[0], ast.Assign) and ast.unparse(st.body[0].targets[0]) == "equation"):
        raise TranslatorError(f"{where}: unexpected lhs/rhs statement")
    joins: dict = {}
    text = _sym_str(st.body[0].value, {"lhs_rhs[0]": " " + H_CODE + " ", "lhs_rhs[1]": " " + H_SHIFTED + " "}, joins, where,
                    "<none>")
    t = parse_template(text, joins, where)
    fn = px.find_func(tree.body, "xtring_from_human")
    if "xtring = xtring.replace(':=', '=')" not in [ast.unparse(s) for s in px.strip_doc(fn)]:
        raise TranslatorError("xtring_from_human: ':=' is no longer replaced by '='")
    return [f"(* _postprocess_xtring: {' '.join(text.split())}   (TCode = lhs text, TShifted = rhs text) *)",
            f"Definition residual_template : tpl := {coq_tpl(t)}."]


# ----------------------------------------------------------------- output

def generate() -> str:
    tree = ast.parse((core.SRC / SRC).read_text())
    out = ["(* GENERATED by /verif/translator/pseudo.py from src/" + SRC + " (and quantities.py, sources.py,",
           "   simultaneous/_invariants.py) -- do not edit *)",
           "From Coq Require Import ZArith List String Bool.",
           "From Verif Require Import lib.PyRange lib.LangSyntax.",
           "Import ListNotations.",
           "Open Scope Z_scope.",
           ""]
    for py, ctor in BUILDERS.items():
        t, text = _builder(px.find_func(tree.body, py))
        out.append(f"(* {py}: {' '.join(text.split())} *)")
        out.append(f"Definition tpl_{ctor} : tpl := {coq_tpl(t)}.")
    out.append("")
    out.append("Definition pseudo_template (p : pseudo) : tpl :=\n  match p with\n" + "\n".join(
        f"  | {c} => tpl_{c}" for c in BUILDERS.values()) + "\n  end.")
    out.append("")
    out.append("(* _pseudo_mov: (template, shift it is instantiated with) per element, and the total *)")
    out.append("Definition mov_sequence (shift : Z) : list (tpl * Z) * Z :=\n  " + _mov(px.find_func(tree.body, "_pseudo_mov")) + ".")
    out.append("")
    out.append(_resolution(tree))
    out.append("")
    _resolve_shift(tree)
    out.append("(* _resolve_shift: int(shift) if shift else default_shift *)")
    out.append("Definition resolve_shift (k : option Z) (default_shift : Z) : Z := match k with Some z => z | None => default_shift end.")
    out.append("(* _shift_all_names._replace: the new shift of a name with shift k *)")
    out.append(_shift_all_names_arith(tree))
    out.append("")
    out += _residual() + [""] + _kinds() + _entry_order() + _prefixes()
    out.append("")
    return "\n".join(out)


def run() -> bool:
    return core.write_if_changed(core.COQ / OUT, generate())
