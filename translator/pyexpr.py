"""Fail-closed translation of a small subset of Python expressions to Gallina over the
`Arith` carrier record (coq/lib/Arith.v).  Anything outside the subset raises
TranslatorError -- the check treats that exactly like a failed proof."""
from __future__ import annotations

import ast
from fractions import Fraction

from vf.core import TranslatorError

BINOPS = {ast.Add: "add", ast.Sub: "sub", ast.Mult: "mul", ast.Div: "div", ast.Pow: "pow"}
NP_FUNCS = {"log": "ln", "exp": "exp"}


def num(A: str, v) -> str:
    if isinstance(v, bool):
        raise TranslatorError(f"boolean constant {v!r} in arithmetic")
    if isinstance(v, int):
        return f"(ofZ {A} ({v}))"
    if isinstance(v, float):
        fr = Fraction(repr(v))
        if fr.denominator == 1:
            return f"(ofZ {A} ({fr.numerator}))"
        return f"(div {A} (ofZ {A} ({fr.numerator})) (ofZ {A} ({fr.denominator})))"
    raise TranslatorError(f"unsupported constant {v!r}")


def expr(node: ast.AST, env: dict[str, str], A: str = "A", where: str = "?") -> str:
    """env maps Python names to Coq terms of carrier type."""
    if isinstance(node, ast.BinOp):
        op = BINOPS.get(type(node.op))
        if op is None:
            raise TranslatorError(f"{where}: unsupported operator {type(node.op).__name__}")
        return f"({op} {A} {expr(node.left, env, A, where)} {expr(node.right, env, A, where)})"
    if isinstance(node, ast.UnaryOp):
        if isinstance(node.op, ast.USub):
            if isinstance(node.operand, ast.Constant):
                return num(A, -node.operand.value)
            return f"(neg {A} {expr(node.operand, env, A, where)})"
        if isinstance(node.op, ast.UAdd):
            return expr(node.operand, env, A, where)
        raise TranslatorError(f"{where}: unsupported unary operator {type(node.op).__name__}")
    if isinstance(node, ast.Constant):
        return num(A, node.value)
    if isinstance(node, ast.Name):
        if node.id in env:
            return env[node.id]
        raise TranslatorError(f"{where}: unbound name '{node.id}' (not a parameter, not an imported function)")
    if isinstance(node, ast.Call):
        f = node.func
        if (isinstance(f, ast.Attribute) and isinstance(f.value, ast.Name) and f.value.id in ("_np", "np", "numpy")
                and f.attr in NP_FUNCS and len(node.args) == 1 and not node.keywords):
            return f"({NP_FUNCS[f.attr]} {A} {expr(node.args[0], env, A, where)})"
        if isinstance(f, ast.Name):
            raise TranslatorError(f"{where}: call of the bare name '{f.id}' which the module neither defines nor imports "
                                  f"({ast.unparse(node)})")
        raise TranslatorError(f"{where}: unsupported call {ast.unparse(node)}")
    raise TranslatorError(f"{where}: unsupported expression {ast.unparse(node)}")


def find_class(tree: ast.Module, name: str) -> ast.ClassDef:
    for n in tree.body:
        if isinstance(n, ast.ClassDef) and n.name == name:
            return n
    raise TranslatorError(f"class {name} not found")


def find_func(body, name: str) -> ast.FunctionDef:
    for n in body:
        if isinstance(n, ast.FunctionDef) and n.name == name:
            return n
    raise TranslatorError(f"function {name} not found")


def strip_doc(fn: ast.FunctionDef) -> list[ast.stmt]:
    b = list(fn.body)
    if b and isinstance(b[0], ast.Expr) and isinstance(b[0].value, ast.Constant) and isinstance(b[0].value.value, str):
        b = b[1:]
    return b


def find_assign(tree_body, name: str) -> ast.AST:
    for n in tree_body:
        if isinstance(n, ast.Assign) and len(n.targets) == 1 and isinstance(n.targets[0], ast.Name) \
                and n.targets[0].id == name:
            return n.value
    raise TranslatorError(f"module-level assignment {name} not found")
